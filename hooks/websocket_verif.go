//go:build verif

// Add-only verification hook, injected into package websocket with `go build -overlay`.
// It drives the real, unexported `handler.handleMessage` and the real hagall-common
// scheduler deterministically (no goroutines, no timers).
package websocket

import (
	"context"

	hwebsocket "github.com/aukilabs/hagall-common/websocket"
)

type VerifConn struct {
	h     handler
	rh    *RealtimeHandler
	sched interface {
		hwebsocket.Dispatcher
		hwebsocket.Consumer
	}
}

// NewVerifConnApp is NewVerifConn for a connection whose user token carries the given app key
// (HandleConnect reads it from the HTTP request of a live connection).
func NewVerifConnApp(rh *RealtimeHandler, clientID, appKey string) *VerifConn {
	rh.appKey = appKey
	return NewVerifConn(rh, clientID)
}

func NewVerifConn(rh *RealtimeHandler, clientID string) *VerifConn {
	s := hwebsocket.NewScheduler()
	rh.clientID = clientID
	return &VerifConn{h: handler{Handler: rh, dispatcher: s, consumer: s}, rh: rh, sched: s}
}

// NewVerifConnWith wraps an arbitrary Handler (e.g. the production decorators).
func NewVerifConnWith(h Handler) *VerifConn {
	s := hwebsocket.NewScheduler()
	return &VerifConn{h: handler{Handler: h, dispatcher: s, consumer: s}, sched: s}
}

// Dispatch is the receiver goroutine's step: the real scheduler.Dispatch.
func (v *VerifConn) Dispatch(ctx context.Context, msg hwebsocket.Msg) error {
	return v.sched.Dispatch(ctx, msg)
}

// Drain removes, without blocking, every message currently in the scheduler queue.
func (v *VerifConn) Drain() []hwebsocket.Msg {
	var out []hwebsocket.Msg
	for {
		select {
		case m, ok := <-v.sched.Messages():
			if !ok {
				return out
			}
			out = append(out, m)
		default:
			return out
		}
	}
}

// Handle is the main loop's step for one consumed message: the real handleMessage.
func (v *VerifConn) Handle(ctx context.Context, msg hwebsocket.Msg, respond hwebsocket.ResponseSender) (err error, panicked interface{}) {
	defer func() {
		if r := recover(); r != nil {
			panicked = r
		}
	}()
	return v.h.handleMessage(ctx, msg, respond), nil
}

// Disconnect is what handleDisconnect does after closing the socket.
func (v *VerifConn) Disconnect(err error) (panicked interface{}) {
	defer func() {
		if r := recover(); r != nil {
			panicked = r
		}
	}()
	v.h.Handler.HandleDisconnect(err)
	return nil
}

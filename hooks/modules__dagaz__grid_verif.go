//go:build verif

// Add-only verification hook, injected into package dagaz with `go build -overlay`
// (as modules/dagaz/zz_verif_grid.go).  It only re-exports two unexported primitives
// of math.go so that the C20 harness can compare them with the exact-arithmetic reference.
package dagaz

// VerifOverlap is doHorizontalPlanesOverlap.
func VerifOverlap(a Quad, b Quad) bool { return doHorizontalPlanesOverlap(a, b) }

// VerifNormal is calculateNormal.
func VerifNormal(c Vector3f, e Vector3f) Vector3f { return calculateNormal(c, e) }

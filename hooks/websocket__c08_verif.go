//go:build verif

// Add-only verification hook for C08, injected into package websocket with `go build -overlay`
// as websocket/zz_verif_c08.go.  Same step as VerifConn.Handle, but keeps the traceback of a
// panic so that the sweep can name the source position of a defect.
package websocket

import (
	"context"
	"runtime/debug"

	hwebsocket "github.com/aukilabs/hagall-common/websocket"
)

func (v *VerifConn) HandleTraced(ctx context.Context, msg hwebsocket.Msg, respond hwebsocket.ResponseSender) (err error, panicked interface{}, stack string) {
	defer func() {
		if r := recover(); r != nil {
			panicked = r
			stack = string(debug.Stack())
		}
	}()
	return v.h.handleMessage(ctx, msg, respond), nil, ""
}

// DisconnectTraced is HandleDisconnect with the traceback of a panic.
func (v *VerifConn) DisconnectTraced(err error) (panicked interface{}, stack string) {
	defer func() {
		if r := recover(); r != nil {
			panicked = r
			stack = string(debug.Stack())
		}
	}()
	v.h.Handler.HandleDisconnect(err)
	return nil, ""
}

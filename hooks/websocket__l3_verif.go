//go:build verif

// Add-only verification hook (L3, controlled schedules), injected into package websocket with `go build -overlay`.
package websocket

import "github.com/aukilabs/hagall/models"

// VerifCurrent is the handler's own view: the session object and participant it believes it is in.
func (h *RealtimeHandler) VerifCurrent() (*models.Session, *models.Participant) {
	return h.currentSession, h.currentParticipant
}

//go:build verif

// Add-only verification hook (L3, controlled schedules), injected into package models with `go build -overlay`.
// Read at quiescence only (no scheduler thread is running).  Fields are found by type, not by name (see
// zz_verif_hooks.go).
package models

import "sort"

// VerifIDs is the state of the session-id generator: counter and reusable ids (ascending).
func (s *SessionStore) VerifIDs() (cur uint32, reusable []uint32) {
	g := verifMust(s, SequentialIDGenerator{}).Addr().Interface().(*SequentialIDGenerator)
	for id := range verifMust(g, map[uint32]struct{}{}).Interface().(map[uint32]struct{}) {
		reusable = append(reusable, id)
	}
	sort.Slice(reusable, func(i, j int) bool { return reusable[i] < reusable[j] })
	return verifMust(g, uint32(0)).Interface().(uint32), reusable
}

// VerifParticipantIDs is the membership of the session object (ascending), registered or not.
func (s *Session) VerifParticipantIDs() []uint32 {
	var out []uint32
	for id := range s.verifParticipants() {
		out = append(out, id)
	}
	sort.Slice(out, func(i, j int) bool { return out[i] < out[j] })
	return out
}

// VerifRegistered: is this very object what the store resolves its id to?
func (s *SessionStore) VerifRegistered(x *Session) bool {
	m := s.verifSessions()
	if m == nil {
		return false
	}
	return m[s.GlobalSessionID(x.ID)] == x
}

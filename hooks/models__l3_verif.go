//go:build verif

// Add-only verification hook (L3, controlled schedules), injected into package models with `go build -overlay`.
// Read at quiescence only (no scheduler thread is running), with the real locks.
package models

import "sort"

// VerifIDs is the state of the session-id generator: counter and reusable ids (ascending).
func (s *SessionStore) VerifIDs() (cur uint32, reusable []uint32) {
	s.ids.mutex.Lock()
	defer s.ids.mutex.Unlock()
	for id := range s.ids.reusableIDs {
		reusable = append(reusable, id)
	}
	sort.Slice(reusable, func(i, j int) bool { return reusable[i] < reusable[j] })
	return s.ids.currentID, reusable
}

// VerifParticipantIDs is the membership of the session object (ascending), registered or not.
func (s *Session) VerifParticipantIDs() []uint32 {
	s.participantMutex.RLock()
	defer s.participantMutex.RUnlock()
	var out []uint32
	for id := range s.participants {
		out = append(out, id)
	}
	sort.Slice(out, func(i, j int) bool { return out[i] < out[j] })
	return out
}

// VerifRegistered: is this very object what the store resolves its id to?
func (s *SessionStore) VerifRegistered(x *Session) bool {
	s.mutex.RLock()
	defer s.mutex.RUnlock()
	if s.sessions == nil {
		return false
	}
	return s.sessions[s.GlobalSessionID(x.ID)] == x
}

//go:build verif

// Add-only verification hook (L3, controlled schedules), injected into package models with `go build -overlay`.
// Read at quiescence only (no scheduler thread is running).  Fields are found by type, not by name (see
// zz_verif_hooks.go).
package models

import (
	"fmt"
	"reflect"
	"sort"
)

// VerifIDs is the state of the session-id generator: counter and reusable ids (ascending).
func (s *SessionStore) VerifIDs() (cur uint32, reusable []uint32) {
	g := verifMust(s, SequentialIDGenerator{}).Addr().Interface().(*SequentialIDGenerator)
	// the pool of released ids: whatever collection of uint32 the generator keeps (a map keyed by id, or a slice)
	gv := reflect.ValueOf(g).Elem()
	n := 0
	for i := 0; i < gv.NumField(); i++ {
		f := gv.Field(i)
		u32 := reflect.TypeOf(uint32(0))
		switch {
		case f.Kind() == reflect.Map && f.Type().Key() == u32:
			n++
			for _, k := range f.MapKeys() {
				reusable = append(reusable, uint32(k.Uint()))
			}
		case f.Kind() == reflect.Slice && f.Type().Elem() == u32:
			n++
			for j := 0; j < f.Len(); j++ {
				reusable = append(reusable, uint32(f.Index(j).Uint()))
			}
		}
	}
	if n != 1 {
		panic(fmt.Sprintf("verif hook: %d collections of uint32 in %T (expected exactly one)", n, g))
	}
	sort.Slice(reusable, func(i, j int) bool { return reusable[i] < reusable[j] })
	return verifMust(g, uint32(0)).Interface().(uint32), reusable
}

// VerifParticipantIDs is the membership of the session object (ascending), registered or not.
func (s *Session) VerifParticipantIDs() []uint32 {
	var out []uint32
	for id := range s.verifParticipants() {
		out = append(out, id)
	}
	sort.Slice(out, func(i, j int) bool { return out[i] < out[j] })
	return out
}

// VerifRegistered: is this very object what the store resolves its id to?
func (s *SessionStore) VerifRegistered(x *Session) bool {
	m := s.verifSessions()
	if m == nil {
		return false
	}
	return m[s.GlobalSessionID(x.ID)] == x
}

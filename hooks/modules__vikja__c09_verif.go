//go:build verif

// Add-only verification hook of property C09, injected into package vikja with `go build -overlay`:
// lets the harness observe, at a quiescent point, which shared State value this connection's module is bound to.
package vikja

func (m *Module) VerifStatePtr() any {
	if m.state == nil {
		return nil
	}
	return m.state
}

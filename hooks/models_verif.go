//go:build verif

// Add-only verification hook, injected into package models with `go build -overlay`.
//
// The hook reads unexported state.  It finds the fields it needs BY TYPE (reflection), not by name, so that a rename of
// a private field does not break every check: each struct has exactly one field of each type the hook looks for
// (VerifSelfTest checks that; the harnesses call it first and report an unfit hook as a broken tie).  All reads happen
// at quiescence (the handler-level and lock-granularity harnesses are single-stepped), so no lock is taken.
package models

import (
	"fmt"
	"reflect"
	"time"
	"unsafe"

	"github.com/aukilabs/hagall-common/messages/hagallpb"
)

// verifField: the field of struct *ptr whose type is that of sample. The type alone identifies it when it is unique (so a
// renamed field is still found); when several fields have that type (a second index of the same shape was added) the one
// that still carries one of the original names is taken.
func verifField(ptr any, sample any, names ...string) (reflect.Value, error) {
	v := reflect.ValueOf(ptr).Elem()
	want := reflect.TypeOf(sample)
	var cands []int
	for i := 0; i < v.NumField(); i++ {
		if v.Field(i).Type() == want {
			cands = append(cands, i)
		}
	}
	pick := -1
	if len(cands) == 1 {
		pick = cands[0]
	} else if len(cands) > 1 {
		n := 0
		for _, i := range cands {
			for _, nm := range names {
				if v.Type().Field(i).Name == nm {
					pick = i
					n++
				}
			}
		}
		if n != 1 {
			pick = -1
		}
	}
	if pick < 0 {
		return reflect.Value{}, fmt.Errorf("verif hook: %d fields of type %v in %T (expected exactly one, or exactly one named %v)", len(cands), want, ptr, names)
	}
	found := v.Field(pick)
	return reflect.NewAt(found.Type(), unsafe.Pointer(found.UnsafeAddr())).Elem(), nil
}

func verifMust(ptr any, sample any, names ...string) reflect.Value {
	v, err := verifField(ptr, sample, names...)
	if err != nil {
		panic(err)
	}
	return v
}

func (s *Session) verifParticipants() map[uint32]*Participant {
	return verifMust(s, map[uint32]*Participant{}, "participants").Interface().(map[uint32]*Participant)
}
func (s *Session) verifEntities() map[uint32]*Entity {
	return verifMust(s, map[uint32]*Entity{}, "entities").Interface().(map[uint32]*Entity)
}
func (s *Session) verifFrameHandlers() map[uint32]func() {
	return verifMust(s, map[uint32]func(){}, "frameHandlers").Interface().(map[uint32]func())
}
func (s *SessionStore) verifSessions() map[string]*Session {
	return verifMust(s, map[string]*Session{}, "sessions").Interface().(map[string]*Session)
}

// VerifSelfTest: do the structs still have exactly one field of every type the hooks look for?
func VerifSelfTest() (err error) {
	defer func() {
		if r := recover(); r != nil {
			err = fmt.Errorf("%v", r)
		}
	}()
	s := NewSession(1, time.Hour)
	s.verifParticipants()
	s.verifEntities()
	s.verifFrameHandlers()
	st := &SessionStore{}
	st.verifSessions()
	st.VerifIDs()
	ec := s.GetEntityComponents()
	for _, sn := range []struct {
		sample any
		name   string
	}{{map[uint32]string{}, "nameIndex"}, {map[string]uint32{}, "idIndex"}, {map[uint32]map[uint32]*hagallpb.EntityComponent{}, "entityComponents"},
		{map[uint32]map[uint32]struct{}{}, "subscriptions"}} {
		if _, e := verifField(ec, sn.sample, sn.name); e != nil {
			return e
		}
	}
	return nil
}

// VerifDispatchFrame runs one frame of the session's worker (the loop body of
// StartDispatchFrames) synchronously.
func (s *Session) VerifDispatchFrame() {
	for _, h := range s.verifFrameHandlers() {
		h()
	}
}

type VerifSessionDump struct {
	ID           uint32
	UUID         string
	Participants []uint32
	Entities     []*Entity
	Types        map[uint32]string
	TypeIDs      map[string]uint32
	Components   []*hagallpb.EntityComponent
	Subs         map[uint32][]uint32
	Frames       int
}

func (s *SessionStore) VerifKeys() []string {
	var keys []string
	for k := range s.verifSessions() {
		keys = append(keys, k)
	}
	return keys
}

func (s *SessionStore) VerifSessions() map[string]*Session {
	out := map[string]*Session{}
	for k, v := range s.verifSessions() {
		out[k] = v
	}
	return out
}

func (s *Session) VerifDump() VerifSessionDump {
	d := VerifSessionDump{ID: s.ID, UUID: s.SessionUUID, Types: map[uint32]string{}, TypeIDs: map[string]uint32{}, Subs: map[uint32][]uint32{}}
	for id := range s.verifParticipants() {
		d.Participants = append(d.Participants, id)
	}
	for _, e := range s.verifEntities() {
		d.Entities = append(d.Entities, e)
	}
	d.Frames = len(s.verifFrameHandlers())
	ec := s.GetEntityComponents()
	for id, n := range verifMust(ec, map[uint32]string{}, "nameIndex").Interface().(map[uint32]string) {
		d.Types[id] = n
	}
	for n, id := range verifMust(ec, map[string]uint32{}, "idIndex").Interface().(map[string]uint32) {
		d.TypeIDs[n] = id
	}
	for _, m := range verifMust(ec, map[uint32]map[uint32]*hagallpb.EntityComponent{}, "entityComponents").Interface().(map[uint32]map[uint32]*hagallpb.EntityComponent) {
		for _, c := range m {
			d.Components = append(d.Components, c)
		}
	}
	for t, m := range verifMust(ec, map[uint32]map[uint32]struct{}{}, "subscriptions").Interface().(map[uint32]map[uint32]struct{}) {
		for p := range m {
			d.Subs[t] = append(d.Subs[t], p)
		}
	}
	return d
}

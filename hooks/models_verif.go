//go:build verif

// Add-only verification hook, injected into package models with `go build -overlay`.
package models

import "github.com/aukilabs/hagall-common/messages/hagallpb"

// VerifDispatchFrame runs one frame of the session's worker (the loop body of
// StartDispatchFrames) synchronously.
func (s *Session) VerifDispatchFrame() {
	s.frameMutex.RLock()
	for _, h := range s.frameHandlers {
		h()
	}
	s.frameMutex.RUnlock()
}

type VerifSessionDump struct {
	ID           uint32
	UUID         string
	Participants []uint32
	Entities     []*Entity
	Types        map[uint32]string
	TypeIDs      map[string]uint32
	Components   []*hagallpb.EntityComponent
	Subs         map[uint32][]uint32
	Frames       int
}

func (s *SessionStore) VerifKeys() []string {
	s.mutex.RLock()
	defer s.mutex.RUnlock()
	var keys []string
	for k := range s.sessions {
		keys = append(keys, k)
	}
	return keys
}

func (s *SessionStore) VerifSessions() map[string]*Session {
	s.mutex.RLock()
	defer s.mutex.RUnlock()
	out := map[string]*Session{}
	for k, v := range s.sessions {
		out[k] = v
	}
	return out
}

func (s *Session) VerifDump() VerifSessionDump {
	d := VerifSessionDump{ID: s.ID, UUID: s.SessionUUID, Types: map[uint32]string{}, TypeIDs: map[string]uint32{}, Subs: map[uint32][]uint32{}}
	s.participantMutex.RLock()
	for id := range s.participants {
		d.Participants = append(d.Participants, id)
	}
	s.participantMutex.RUnlock()
	s.entityMutex.RLock()
	for _, e := range s.entities {
		d.Entities = append(d.Entities, e)
	}
	s.entityMutex.RUnlock()
	s.frameMutex.RLock()
	d.Frames = len(s.frameHandlers)
	s.frameMutex.RUnlock()
	ec := s.entityComponents
	ec.mutex.RLock()
	for id, n := range ec.nameIndex {
		d.Types[id] = n
	}
	for n, id := range ec.idIndex {
		d.TypeIDs[n] = id
	}
	for _, m := range ec.entityComponents {
		for _, c := range m {
			d.Components = append(d.Components, c)
		}
	}
	ec.mutex.RUnlock()
	ec.subscriptionMutex.RLock()
	for t, m := range ec.subscriptions {
		for p := range m {
			d.Subs[t] = append(d.Subs[t], p)
		}
	}
	ec.subscriptionMutex.RUnlock()
	return d
}

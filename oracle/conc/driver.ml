(* driver.ml - oracle for the concurrent clause of C07/C10: runs the extracted coq/Conc.v on the schedules the L3
   harness executed and prints the observables the model predicts, in the harness's line format.

   stdin, one case per line (integers):
     <fixed 0|1> <nconn> { <nops> { <kind 1=create 2=join 3=leave> <sid> }* }*  <nsteps> { <thread> <op> <hint> }*
   op is the harness's class of the critical section (1 GetByGlobalID 2 NewID 3 Add 4 NewParticipantID
   5 AddParticipant 6 RemoveParticipant 7 ParticipantCount 8 Remove (outer acquisition: no effect, skipped)
   9 Remove (inner acquisition: the instruction) 99 unknown).
   stdout, one line per case:
     Y <index of the first step whose class is not the model's next instruction of that thread, or -1> <all threads finished>
     A … G … U … I … M …   exactly as harness/l3 prints them (incarnation numbers in place of uuid indices)     *)
open Conc_model

let rec pos_of_int n = if n = 1 then XH else if n land 1 = 0 then XO (pos_of_int (n lsr 1)) else XI (pos_of_int (n lsr 1))
let n_of_int n = if n = 0 then N0 else Npos (pos_of_int n)
let rec int_of_pos = function XH -> 1 | XO p -> 2 * int_of_pos p | XI p -> 2 * int_of_pos p + 1
let int_of_n = function N0 -> 0 | Npos p -> int_of_pos p
let int_of_z = function Z0 -> 0 | Zpos p -> int_of_pos p | Zneg p -> - (int_of_pos p)

let () =
  try
    while true do
      let line = input_line stdin in
      let toks = List.filter (fun s -> s <> "") (Str.split (Str.regexp "[ \t]+") line) in
      if toks <> [] then begin
        let a = Array.of_list (List.map int_of_string toks) in
        let i = ref 0 in
        let next () = let v = a.(!i) in incr i; v in
        let fixed = next () = 1 in
        let nconn = next () in
        let progs = List.init nconn (fun _ ->
          let nops = next () in
          List.init nops (fun _ ->
            let k = next () in let s = next () in
            match k with 1 -> KCreate | 2 -> KJoin (n_of_int s) | _ -> KLeave)) in
        let progs_arr = Array.of_list progs in
        let st = ref (cinit progs) in
        let nsteps = next () in
        let mism = ref (-1) in
        for j = 0 to nsteps - 1 do
          let t = next () in let op = next () in let hint = next () in
          if op <> 8 then begin
            if !mism < 0 && int_of_n (next_code !st (n_of_int t)) <> op then mism := j;
            st := step fixed !st (n_of_int t) (n_of_int hint)
          end
        done;
        let b = Buffer.create 256 in
        let p fmt = Printf.bprintf b fmt in
        p "Y %d %d" !mism (if all_idle !st then 1 else 0);
        (* answers: per connection in order, paired with the indices of its non-leave requests *)
        let ans = List.sort compare (List.map (fun (c, l) -> (int_of_n c, l)) (obs_answers !st)) in
        let recs = List.concat (List.map (fun (c, l) ->
          let prog = progs_arr.(c - 1) in
          let idxs = List.filter_map (fun x -> x) (List.mapi (fun i o -> match o with KLeave -> None | _ -> Some i) prog) in
          let rec zip is ls = match is with
            | [] -> []
            | i :: is' -> (match ls with
                           | [] -> (c, i, None) :: zip is' []
                           | x :: ls' -> (c, i, Some x) :: zip is' ls') in
          zip idxs l) ans) in
        p " A %d" (List.length recs);
        List.iter (fun (c, i, x) -> match x with
          | None -> p " %d %d 0 0 0 0" c i
          | Some (AOk (sid, inc, pid)) -> p " %d %d 1 %d %d %d" c i (int_of_n sid) (int_of_n inc) (int_of_n pid)
          | Some ANotFound -> p " %d %d 2 0 0 0" c i
          | Some AErr -> p " %d %d 3 0 0 0" c i) recs;
        let reg = List.sort compare (List.map (fun ((id, inc), ps) -> (int_of_n id, int_of_n inc, List.map int_of_n ps)) (obs_registry !st)) in
        p " G %d" (List.length reg);
        List.iter (fun (id, inc, ps) -> p " %d %d %d" id inc (List.length ps); List.iter (fun x -> p " %d" x) ps) reg;
        p " U %d" (int_of_z (k_gauge !st));
        let (cur, re) = obs_idgen !st in
        p " I %d %d" (int_of_n cur) (List.length re);
        List.iter (fun x -> p " %d" (int_of_n x)) re;
        let ms = List.sort compare (List.map (fun (((c, ((sid, inc), pid)), inrec), regd) ->
          (int_of_n c, int_of_n sid, int_of_n inc, int_of_n pid, inrec, regd)) (obs_members !st)) in
        p " M %d" (List.length ms);
        List.iter (fun (c, sid, inc, pid, inrec, regd) ->
          p " %d %d %d %d %d %d" c sid inc pid (if inrec then 1 else 0) (if regd then 1 else 0)) ms;
        print_endline (Buffer.contents b)
      end
    done
  with End_of_file -> ()

(* extraction of the interleaving model coq/Conc.v (ExtrOcamlBasic only; N, Z, positive, nat stay inductives) *)
From hagall Require Import Model Conc.
Require Extraction.
Require ExtrOcamlBasic.
Extraction Language OCaml.
Extraction "conc_model.ml" cinit step next_code obs_answers obs_registry obs_members obs_idgen all_idle k_gauge.

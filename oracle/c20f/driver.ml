(* driver.ml — C20 float32 oracle.  Compares, BIT FOR BIT, the results the Go implementation of
   math.go's Dot / Cross produced with the extracted Flocq model (coq/GridFloat.v: dot32, cross32).
   Input (argv[1]): one record per line, unsigned 32-bit patterns in decimal
       D ax ay az bx by bz r            r  = Float32bits(a.Dot(b))
       X ax ay az bx by bz rx ry rz     r* = Float32bits of the components of Cross(a, b)
       N cx cy cz ex ey ez rx ry rz     calculateNormal(center, extents)          (coq/GridFloat2.v normal32)
       O a(6) b(6) r                    doHorizontalPlanesOverlap(a, b), r = 0 / 1 (overlap32; center and extents of each)
       I from(3) to(3) c(3) e(3) n(3) hit t   IntersectQuad(ray, quad)            (intersect32)
   Any NaN equals any NaN (payload and sign of a NaN are not part of the model).  Empty lines and
   lines starting with '#' are skipped.
   Output: one line `BAD line <n>: <record> expected <model bits>` per disagreement or malformed
   record, then `OK <number of records that agree>` ; exit status 0 iff no BAD line. *)
open Gridfloat

let rec pos_of_int (i : int) : positive =
  if i <= 1 then XH else if i land 1 = 0 then XO (pos_of_int (i lsr 1)) else XI (pos_of_int (i lsr 1))
let z_of_int (i : int) : z = if i = 0 then Z0 else if i > 0 then Zpos (pos_of_int i) else Zneg (pos_of_int (- i))
let rec int_of_pos (p : positive) : int = match p with XH -> 1 | XO q -> 2 * int_of_pos q | XI q -> 2 * int_of_pos q + 1
let int_of_z (x : z) : int = match x with Z0 -> 0 | Zpos p -> int_of_pos p | Zneg p -> - (int_of_pos p)

let () =
  if Sys.int_size < 63 then (prerr_endline "driver needs 63-bit ints"; exit 2);
  if Array.length Sys.argv < 2 then (prerr_endline "usage: oracle <file>"; exit 2);
  let ic = open_in Sys.argv.(1) in
  let ok = ref 0 and bad = ref 0 and n = ref 0 in
  let report raw msg = incr bad; Printf.printf "BAD line %d: %s %s\n" !n raw msg in
  (try
     while true do
       let raw = String.trim (input_line ic) in
       incr n;
       if raw <> "" && raw.[0] <> '#' then begin
         let parts = List.filter (fun s -> s <> "") (String.split_on_char ' ' raw) in
         match parts with
         | tag :: rest ->
             (match List.map (fun s -> let v = int_of_string s in
                                       if v < 0 || v > 0xFFFFFFFF then failwith "range"; v) rest with
              | exception _ -> report raw "(malformed: fields must be integers in [0, 2^32))"
              | v ->
                  let zs = List.map z_of_int v in
                  (match tag, zs with
                   | "D", [ax; ay; az; bx; by; bz; r] ->
                       if dot_agrees ax ay az bx by bz r then incr ok
                       else report raw (Printf.sprintf "expected %d" (int_of_z (dot_bits ax ay az bx by bz)))
                   | "X", [ax; ay; az; bx; by; bz; rx; ry; rz] ->
                       if cross_agrees ax ay az bx by bz rx ry rz then incr ok
                       else
                         let ((ex, ey), ez) = cross_bits ax ay az bx by bz in
                         report raw (Printf.sprintf "expected %d %d %d" (int_of_z ex) (int_of_z ey) (int_of_z ez))
                   | "N", [cx; cy; cz; ex; ey; ez; rx; ry; rz] ->
                       (* calculateNormal(center, extents) *)
                       if normal_agrees cx cy cz ex ey ez rx ry rz then begin
                         incr ok;
                         (* the conclusions of the theorems, on the implementation's own result: a horizontal quad with
                            positive extents has the normal (0,1,0) numerically; two non-zero extents give a non-zero normal *)
                         let c = vec32_of_bits cx cy cz and e = vec32_of_bits ex ey ez in
                         let i = int_of_z in
                         let zero b = (i b) land 0x7FFFFFFF = 0 in
                         if horizontal_input c e && not (zero rx && i ry = 1065353216 && zero rz) then
                           report raw "(the normal of a horizontal quad with positive extents is not (0,1,0): C20f_normal_horizontal)";
                         if two_nonzero e && zero rx && zero ry && zero rz then
                           report raw "(zero normal for a quad with two non-zero extents: C20f_normal_nonzero)"
                       end else
                         let ((a, b), c) = normal_bits cx cy cz ex ey ez in
                         report raw (Printf.sprintf "expected %d %d %d" (int_of_z a) (int_of_z b) (int_of_z c))
                   | "O", [a1; a2; a3; a4; a5; a6; b1; b2; b3; b4; b5; b6; r] ->
                       if overlap_bits a1 a2 a3 a4 a5 a6 b1 b2 b3 b4 b5 b6 = (int_of_z r = 1) then incr ok
                       else report raw "(doHorizontalPlanesOverlap differs from overlap32)"
                   | "I", [f1; f2; f3; t1; t2; t3; c1; c2; c3; e1; e2; e3; n1; n2; n3; h; t] ->
                       let ry = ray32_of_bits f1 f2 f3 t1 t2 t3 and q = quad32_of_bits c1 c2 c3 e1 e2 e3 n1 n2 n3 in
                       if intersect_agrees ry q (int_of_z h = 1) t then incr ok
                       else
                         let (mh, mt) = intersect_bits ry q in
                         report raw (Printf.sprintf "expected %d %d" (if mh then 1 else 0) (int_of_z mt))
                   | _ -> report raw "(malformed: unknown tag or wrong number of fields)"))
         | [] -> ()
       end
     done
   with End_of_file -> close_in ic);
  Printf.printf "OK %d\n" !ok;
  exit (if !bad = 0 then 0 else 1)

#!/bin/sh
# builds the C20 float32 oracle: extraction of coq/GridFloat.v (ExtrOcamlBasic only) + driver.ml
# usage: build.sh [coq dir]   (default ../../coq; GridFloat.vo must exist)
set -e
cd "$(dirname "$0")"
COQDIR=${1:-../../coq}
coqc -Q "$COQDIR" hagall ExtractGridFloat.v >/dev/null
rm -f ExtractGridFloat.vo ExtractGridFloat.glob .ExtractGridFloat.aux ExtractGridFloat.vok ExtractGridFloat.vos
ocamlfind ocamlopt -O2 -w -a -package str -linkpkg gridfloat.mli gridfloat.ml driver.ml -o oracle 2>/dev/null || \
ocamlfind ocamlopt -w -a -package str -linkpkg gridfloat.mli gridfloat.ml driver.ml -o oracle

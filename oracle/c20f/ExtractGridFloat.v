(* extraction of the bit-exact float32 model of math.go's Dot / Cross (coq/GridFloat.v, over Flocq's
   binary32) and of calculateNormal / doHorizontalPlanesOverlap / IntersectQuad (coq/GridFloat2.v, binary64 inside the normal).  Only ExtrOcamlBasic: bool, option, unit, list, prod, sumbool, comparison become OCaml
   natives; positive, N, Z stay extracted inductive datatypes; no Extract Constant. *)
From Coq Require Import ZArith.
From hagall Require Import GridFloat GridFloat2.
Require Extraction.
Require ExtrOcamlBasic.
Extraction Language OCaml.
Set Warnings "-extraction-opaque-accessed,-extraction-reserved-identifier".
Extraction "gridfloat.ml"
  f32_of_bits bits_of_f32 vec32_of_bits bits_of_vec32
  add32 sub32 mul32 dot32 cross32
  is_nan32 is_finite32 same_bits
  dot_bits cross_bits dot_agrees cross_agrees
  normal32 overlap32 intersect32 normal_bits normal_agrees quad32_of_bits ray32_of_bits overlap_bits intersect_bits intersect_agrees
  horizontal_input two_nonzero new_quad32 vray.

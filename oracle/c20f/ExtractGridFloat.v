(* extraction of the bit-exact float32 model of math.go's Dot / Cross (coq/GridFloat.v, over Flocq's
   binary32).  Only ExtrOcamlBasic: bool, option, unit, list, prod, sumbool, comparison become OCaml
   natives; positive, N, Z stay extracted inductive datatypes; no Extract Constant. *)
From Coq Require Import ZArith.
From hagall Require Import GridFloat.
Require Extraction.
Require ExtrOcamlBasic.
Extraction Language OCaml.
Set Warnings "-extraction-opaque-accessed,-extraction-reserved-identifier".
Extraction "gridfloat.ml"
  f32_of_bits bits_of_f32 vec32_of_bits bits_of_vec32
  add32 sub32 mul32 dot32 cross32
  is_nan32 is_finite32 same_bits
  dot_bits cross_bits dot_agrees cross_agrees.

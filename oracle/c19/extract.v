(* extraction of the receipt model (coq/Receipt.v) for the C19 oracle; ExtrOcamlBasic only *)
From hagall Require Import Receipt.
Require Extraction.
Require ExtrOcamlBasic.
Extraction Language OCaml.
Extraction "receipt_model.ml" init step run_from drain_ops valid obs_answers code_num.

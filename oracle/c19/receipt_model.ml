
type nat =
| O
| S of nat

(** val length : 'a1 list -> nat **)

let rec length = function
| [] -> O
| _ :: l' -> S (length l')

(** val app : 'a1 list -> 'a1 list -> 'a1 list **)

let rec app l m =
  match l with
  | [] -> m
  | a :: l1 -> a :: (app l1 m)

module Nat =
 struct
  (** val leb : nat -> nat -> bool **)

  let rec leb n0 m =
    match n0 with
    | O -> true
    | S n' -> (match m with
               | O -> false
               | S m' -> leb n' m')

  (** val ltb : nat -> nat -> bool **)

  let ltb n0 m =
    leb (S n0) m
 end

(** val map : ('a1 -> 'a2) -> 'a1 list -> 'a2 list **)

let rec map f = function
| [] -> []
| a :: t -> (f a) :: (map f t)

(** val repeat : 'a1 -> nat -> 'a1 list **)

let rec repeat x = function
| O -> []
| S k -> x :: (repeat x k)

type positive =
| XI of positive
| XO of positive
| XH

type n =
| N0
| Npos of positive

module Pos =
 struct
  (** val eqb : positive -> positive -> bool **)

  let rec eqb p q =
    match p with
    | XI p0 -> (match q with
                | XI q0 -> eqb p0 q0
                | _ -> false)
    | XO p0 -> (match q with
                | XO q0 -> eqb p0 q0
                | _ -> false)
    | XH -> (match q with
             | XH -> true
             | _ -> false)
 end

module N =
 struct
  (** val eqb : n -> n -> bool **)

  let eqb n0 m =
    match n0 with
    | N0 -> (match m with
             | N0 -> true
             | Npos _ -> false)
    | Npos p -> (match m with
                 | N0 -> false
                 | Npos q -> Pos.eqb p q)
 end

type bytes = n list

(** val bytes_eqb : bytes -> bytes -> bool **)

let rec bytes_eqb a b =
  match a with
  | [] -> (match b with
           | [] -> true
           | _ :: _ -> false)
  | x :: a' ->
    (match b with
     | [] -> false
     | y :: b' -> (&&) (N.eqb x y) (bytes_eqb a' b'))

(** val is_empty : bytes -> bool **)

let is_empty = function
| [] -> true
| _ :: _ -> false

type payload = { p_receipt : bytes; p_hash : bytes; p_sig : bytes }

type code =
| BadRequest
| TooBusy

(** val code_num : code -> n **)

let code_num = function
| BadRequest -> Npos (XO (XO (XO (XO (XI (XO (XO (XI XH))))))))
| TooBusy -> Npos (XI (XI (XI (XO (XI (XI (XI (XI XH))))))))

type answer =
| AReceiptResponse of n
| AError of n * code

(** val has_empty : payload -> bool **)

let has_empty p =
  (||) ((||) (is_empty p.p_receipt) (is_empty p.p_hash)) (is_empty p.p_sig)

type entry = { e_conn : n; e_rid : n; e_payload : payload; e_qlen : nat;
               e_answers : answer list; e_err : bool }

type state = { queue : payload list; up : bool; accepted : payload list;
               dequeued : payload list; posted : payload list;
               delivered : payload list; log : entry list }

(** val init : state **)

let init =
  { queue = []; up = true; accepted = []; dequeued = []; posted = [];
    delivered = []; log = [] }

type op =
| Submit of n * n * payload
| Forward
| ServiceUp of bool

type sres =
| Done of state * entry
| Blocked

(** val valid :
    (bytes -> bytes) -> (bytes -> bytes -> bool) -> payload -> bool **)

let valid keccak ecrecover_ok p =
  (&&) (bytes_eqb (keccak p.p_receipt) p.p_hash)
    (ecrecover_ok p.p_hash p.p_sig)

(** val add_log : state -> entry -> state **)

let add_log st e =
  { queue = st.queue; up = st.up; accepted = st.accepted; dequeued =
    st.dequeued; posted = st.posted; delivered = st.delivered; log =
    (app st.log (e :: [])) }

(** val enqueue : state -> payload -> state **)

let enqueue st p =
  { queue = (app st.queue (p :: [])); up = st.up; accepted =
    (app st.accepted (p :: [])); dequeued = st.dequeued; posted = st.posted;
    delivered = st.delivered; log = st.log }

(** val submit : nat -> bool -> state -> n -> n -> payload -> sres **)

let submit cap blocking st conn rid p =
  let ql = length st.queue in
  if has_empty p
  then let e = { e_conn = conn; e_rid = rid; e_payload = p; e_qlen = ql;
         e_answers = ((AError (rid, BadRequest)) :: []); e_err = true }
       in
       Done ((add_log st e), e)
  else if Nat.ltb ql cap
       then let e = { e_conn = conn; e_rid = rid; e_payload = p; e_qlen = ql;
              e_answers = ((AReceiptResponse rid) :: []); e_err = false }
            in
            Done ((add_log (enqueue st p) e), e)
       else if blocking
            then Blocked
            else let e = { e_conn = conn; e_rid = rid; e_payload = p;
                   e_qlen = ql; e_answers = ((AError (rid, TooBusy)) :: []);
                   e_err = true }
                 in
                 Done ((add_log st e), e)

(** val forward_step :
    (bytes -> bytes) -> (bytes -> bytes -> bool) -> state -> state **)

let forward_step keccak ecrecover_ok st =
  match st.queue with
  | [] -> st
  | p :: q ->
    if valid keccak ecrecover_ok p
    then { queue = q; up = st.up; accepted = st.accepted; dequeued =
           (app st.dequeued (p :: [])); posted = (app st.posted (p :: []));
           delivered =
           (if st.up then app st.delivered (p :: []) else st.delivered);
           log = st.log }
    else { queue = q; up = st.up; accepted = st.accepted; dequeued =
           (app st.dequeued (p :: [])); posted = st.posted; delivered =
           st.delivered; log = st.log }

(** val set_up : state -> bool -> state **)

let set_up st b =
  { queue = st.queue; up = b; accepted = st.accepted; dequeued = st.dequeued;
    posted = st.posted; delivered = st.delivered; log = st.log }

(** val step :
    (bytes -> bytes) -> (bytes -> bytes -> bool) -> nat -> bool -> state ->
    op -> state option **)

let step keccak ecrecover_ok cap blocking st = function
| Submit (c, r, p) ->
  (match submit cap blocking st c r p with
   | Done (st', _) -> Some st'
   | Blocked -> None)
| Forward -> Some (forward_step keccak ecrecover_ok st)
| ServiceUp b -> Some (set_up st b)

(** val run_from :
    (bytes -> bytes) -> (bytes -> bytes -> bool) -> nat -> bool -> state ->
    op list -> state option **)

let rec run_from keccak ecrecover_ok cap blocking st = function
| [] -> Some st
| o :: h' ->
  (match step keccak ecrecover_ok cap blocking st o with
   | Some st' -> run_from keccak ecrecover_ok cap blocking st' h'
   | None -> None)

(** val drain_ops : state -> op list **)

let drain_ops st =
  repeat Forward (length st.queue)

(** val obs_answers : state -> (answer list * bool) list **)

let obs_answers st =
  map (fun e -> (e.e_answers, e.e_err)) st.log

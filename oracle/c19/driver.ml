(* driver.ml - C19 oracle: runs the extracted Coq model of the receipt path on the history
   contained in a harness trace and prints the observables the model predicts, in the same
   line format as the trace (A lines per submission, D lines per forwarder run).

   keccak / ecrecover_ok (Section variables of the model) are instantiated by the finite tables
   the harness computed independently with go-ethereum (K and V lines of the trace).
   usage: oracle <trace> <blocking 0|1>                                                       *)
open Receipt_model

let rec pos_of_int n = if n = 1 then XH else if n land 1 = 0 then XO (pos_of_int (n lsr 1)) else XI (pos_of_int (n lsr 1))
let n_of_int n = if n = 0 then N0 else Npos (pos_of_int n)
let rec int_of_pos = function XH -> 1 | XO p -> 2 * int_of_pos p | XI p -> 2 * int_of_pos p + 1
let int_of_n = function N0 -> 0 | Npos p -> int_of_pos p
let rec nat_of_int n = if n <= 0 then O else S (nat_of_int (n - 1))

let hexval c = match c with
  | '0'..'9' -> Char.code c - 48 | 'a'..'f' -> Char.code c - 87 | 'A'..'F' -> Char.code c - 55
  | _ -> failwith "bad hex"
let bytes_of_hex s =
  if s = "-" then [] else begin
    let n = String.length s / 2 in
    let rec go i acc = if i < 0 then acc else go (i - 1) (n_of_int (hexval s.[2*i] * 16 + hexval s.[2*i+1]) :: acc) in
    go (n - 1) [] end
let hex_of_bytes b =
  if b = [] then "-" else begin
    let buf = Buffer.create 64 in
    List.iter (fun x -> Buffer.add_string buf (Printf.sprintf "%02x" (int_of_n x))) b;
    Buffer.contents buf end
let token p = hex_of_bytes p.p_receipt ^ ":" ^ hex_of_bytes p.p_hash ^ ":" ^ hex_of_bytes p.p_sig

let ktab : (string, string) Hashtbl.t = Hashtbl.create 1024
let vtab : (string, bool) Hashtbl.t = Hashtbl.create 1024
(* outside the tables: a digest nobody can have submitted / not recoverable *)
let keccak b = match Hashtbl.find_opt ktab (hex_of_bytes b) with Some h -> bytes_of_hex h | None -> []
let ecrecover_ok h s = match Hashtbl.find_opt vtab (hex_of_bytes h ^ " " ^ hex_of_bytes s) with Some b -> b | None -> false

let rec drop n l = if n <= 0 then l else match l with [] -> [] | _ :: t -> drop (n - 1) t
let print_tokens name l =
  let l = List.sort compare (List.map token l) in
  Printf.printf " %s %d" name (List.length l);
  List.iter (fun t -> Printf.printf " %s" t) l

let () =
  let path = Sys.argv.(1) in
  let blocking = Array.length Sys.argv > 2 && Sys.argv.(2) = "1" in
  let ic = open_in path in
  let cap = ref (nat_of_int 128) in
  let st = ref init in
  let stuck = ref false in
  let mode = ref "up" in
  let running = ref false in
  let np = ref 0 and nd = ref 0 in
  let stepm o =
    if not !stuck then
      match step keccak ecrecover_ok !cap blocking !st o with
      | Some s -> st := s
      | None -> stuck := true in
  let begin_run m =
    if not !running then begin
      running := true; mode := m;
      np := List.length !st.posted; nd := List.length !st.delivered;
      stepm (ServiceUp (m = "up" || m = "created" || m = "slow" || m = "err500"));
      Printf.printf "B %s\n" m end in
  let end_run () =
    if !running then begin
      running := false;
      List.iter stepm (drain_ops !st);
      let att = drop !np !st.posted and del = drop !nd !st.delivered in
      Printf.printf "D %s 0" !mode;
      print_tokens "attempts" att;
      (* in mode reset the endpoint reads the request and hangs up: it is a tap on the attempts,
         the POST itself fails (not delivered) *)
      print_tokens "received" (if !mode = "reset" then att else del);
      print_newline () end in
  (try
    while true do
      let line = input_line ic in
      let f = Array.of_list (String.split_on_char ' ' line) in
      if Array.length f > 0 then
      match f.(0) with
      | "H" ->
        cap := nat_of_int 128;
        Array.iter (fun x -> if String.length x > 4 && String.sub x 0 4 = "cap=" then
                       cap := nat_of_int (int_of_string (String.sub x 4 (String.length x - 4)))) f;
        st := init; stuck := false; running := false;
        Hashtbl.reset ktab; Hashtbl.reset vtab;
        Printf.printf "H %s\n" f.(1)
      | "K" -> Hashtbl.replace ktab f.(1) f.(2)
      | "V" -> Hashtbl.replace vtab (f.(1) ^ " " ^ f.(2)) (f.(3) = "1")
      | "S" ->
        let p = { p_receipt = bytes_of_hex f.(3); p_hash = bytes_of_hex f.(4); p_sig = bytes_of_hex f.(5) } in
        let before = List.length !st.log in
        stepm (Submit (n_of_int (int_of_string f.(1)), n_of_int (int_of_string f.(2)), p));
        if !stuck then Printf.printf "A 0 1 0\n"
        else begin
          match drop before (obs_answers !st) with
          | [ (answers, err) ] ->
            Printf.printf "A %d 0 %d" (if err then 1 else 0) (List.length answers);
            List.iter (function
                | AReceiptResponse rid -> Printf.printf " R %d" (int_of_n rid)
                | AError (rid, c) -> Printf.printf " E %d %d" (int_of_n rid) (int_of_n (code_num c))) answers;
            print_newline ()
          | _ -> Printf.printf "A ? model logged no entry\n" end
      | "B" -> begin_run f.(1)
      | "D" -> if not !running then begin_run f.(1); end_run ()
      | "X" -> ()
      | "E" -> if !running then end_run (); Printf.printf "E\n"
      | _ -> ()
    done
  with End_of_file -> ());
  close_in ic

#!/bin/sh
# builds the C19 oracle from coq/Receipt.v: extraction (ExtrOcamlBasic only) + hand-written driver.
# usage: build.sh [<coq dir>]   (default ../../coq; Receipt.vo must exist there)
set -e
cd "$(dirname "$0")"
COQDIR=${1:-../../coq}
coqc -Q "$COQDIR" hagall extract.v >/dev/null
rm -f extract.vo extract.glob .extract.aux extract.vok extract.vos
ocamlfind ocamlopt -O2 -w -a -package str receipt_model.mli receipt_model.ml driver.ml -o oracle 2>/dev/null || \
ocamlfind ocamlopt -w -a -package str receipt_model.mli receipt_model.ml driver.ml -o oracle


type nat =
| O
| S of nat

val length : 'a1 list -> nat

val app : 'a1 list -> 'a1 list -> 'a1 list

module Nat :
 sig
  val leb : nat -> nat -> bool

  val ltb : nat -> nat -> bool
 end

val map : ('a1 -> 'a2) -> 'a1 list -> 'a2 list

val repeat : 'a1 -> nat -> 'a1 list

type positive =
| XI of positive
| XO of positive
| XH

type n =
| N0
| Npos of positive

module Pos :
 sig
  val eqb : positive -> positive -> bool
 end

module N :
 sig
  val eqb : n -> n -> bool
 end

type bytes = n list

val bytes_eqb : bytes -> bytes -> bool

val is_empty : bytes -> bool

type payload = { p_receipt : bytes; p_hash : bytes; p_sig : bytes }

type code =
| BadRequest
| TooBusy

val code_num : code -> n

type answer =
| AReceiptResponse of n
| AError of n * code

val has_empty : payload -> bool

type entry = { e_conn : n; e_rid : n; e_payload : payload; e_qlen : nat;
               e_answers : answer list; e_err : bool }

type state = { queue : payload list; up : bool; accepted : payload list;
               dequeued : payload list; posted : payload list;
               delivered : payload list; log : entry list }

val init : state

type op =
| Submit of n * n * payload
| Forward
| ServiceUp of bool

type sres =
| Done of state * entry
| Blocked

val valid : (bytes -> bytes) -> (bytes -> bytes -> bool) -> payload -> bool

val add_log : state -> entry -> state

val enqueue : state -> payload -> state

val submit : nat -> bool -> state -> n -> n -> payload -> sres

val forward_step :
  (bytes -> bytes) -> (bytes -> bytes -> bool) -> state -> state

val set_up : state -> bool -> state

val step :
  (bytes -> bytes) -> (bytes -> bytes -> bool) -> nat -> bool -> state -> op
  -> state option

val run_from :
  (bytes -> bytes) -> (bytes -> bytes -> bool) -> nat -> bool -> state -> op
  list -> state option

val drain_ops : state -> op list

val obs_answers : state -> (answer list * bool) list

#!/bin/sh
# builds the oracle from the Coq development: extraction (ExtrOcamlBasic only) + driver
set -e
cd "$(dirname "$0")"
coqc -Q ../coq hagall ../coq/Extract.v >/dev/null
rm -f ../coq/Extract.vo ../coq/Extract.glob ../coq/.Extract.aux ../coq/Extract.vok ../coq/Extract.vos
ocamlfind ocamlopt -O2 -w -a -package str model.mli model.ml props.ml driver.ml -o oracle 2>&1 || \
ocamlfind ocamlopt -w -a -package str model.mli model.ml props.ml driver.ml -o oracle

(* driver.ml — C20 oracle.  Reads a trace written by harness/c20 (line-oriented integers, float32
   values as bit patterns), and for every history
   - rebuilds the dumped implementation state after every operation as a value of the extracted
     [grid] type (exact rationals),
   - STEP correspondence: runs the extracted model for one operation from the previous
     implementation state and compares with the next implementation state (cells exactly, bounds
     and counts exactly, coordinates to 1e-4); a disagreement whose conditioning margin
     (GridObs.insert_margin) is below 2^-10 is counted as ill-conditioned, otherwise reported,
   - FULL correspondence: also runs the model from new_grid over the whole history (diagnostic),
   - evaluates the property predicate P_C20 on the implementation's own states and query results
     (completeness, bounds, count, covering region exactly once, centre ray hits, retention across
     joins and departures, every participant's view), and prints a PVIOL line for each violation.
   usage: oracle <trace> [verbosity] [full-run every k-th history; 0 = never] *)
open Gridmodel

(* ------------------------------------------------------------------ conversions *)
let rec pos_of_int (i : int) : positive =
  if i <= 1 then XH else if i land 1 = 0 then XO (pos_of_int (i lsr 1)) else XI (pos_of_int (i lsr 1))
let z_of_int (i : int) : z = if i = 0 then Z0 else if i > 0 then Zpos (pos_of_int i) else Zneg (pos_of_int (- i))
let n_of_int (i : int) : n = if i <= 0 then N0 else Npos (pos_of_int i)
let rec nat_of_int (i : int) : nat = if i <= 0 then O else S (nat_of_int (i - 1))
let rec int_of_nat (n : nat) : int = match n with O -> 0 | S m -> 1 + int_of_nat m
let rec int_of_pos (p : positive) : int = match p with XH -> 1 | XO q -> 2 * int_of_pos q | XI q -> 2 * int_of_pos q + 1
let int_of_z (x : z) : int = match x with Z0 -> 0 | Zpos p -> int_of_pos p | Zneg p -> - (int_of_pos p)
let int_of_n (x : n) : int = match x with N0 -> 0 | Npos p -> int_of_pos p
let rec float_of_pos (p : positive) : float = match p with XH -> 1.0 | XO q -> 2.0 *. float_of_pos q | XI q -> 2.0 *. float_of_pos q +. 1.0
let float_of_q (x : q) : float =
  let nu = match x.qnum with Z0 -> 0.0 | Zpos p -> float_of_pos p | Zneg p -> -. (float_of_pos p) in
  nu /. float_of_pos x.qden
let q_of_ints (a : int) (b : int) : q = { qnum = z_of_int a; qden = pos_of_int b }
let qbits (b : int) : q option = q_of_f32bits (z_of_int b)

let tol_cmp = q_of_ints 1 10000      (* coordinates compared to 1e-4 *)
let tol_prop = q_of_ints 1 8192      (* a footprint must overlap a cell by more than 2^-13 to demand registration *)
let margin_min = q_of_ints 1 1024    (* decisions closer than 2^-10 to a boundary are not compared *)

(* ------------------------------------------------------------------ trace reading *)
type line = { tag : string; f : int array; raw : string }

let split_line (s : string) : line =
  let parts = List.filter (fun x -> x <> "") (String.split_on_char ' ' (String.trim s)) in
  match parts with
  | [] -> { tag = ""; f = [||]; raw = s }
  | t :: rest ->
      let arr = Array.of_list (List.map (fun x -> try int_of_string x with _ -> 0) rest) in
      { tag = t; f = arr; raw = s }

let read_lines (path : string) : line list =
  let ic = open_in path in
  let rec go acc = match input_line ic with
    | s -> go (split_line s :: acc)
    | exception End_of_file -> close_in ic; List.rev acc in
  go []

(* ------------------------------------------------------------------ counters *)
let counters : (string, int) Hashtbl.t = Hashtbl.create 64
let bump ?(by = 1) k = Hashtbl.replace counters k (by + (try Hashtbl.find counters k with Not_found -> 0))

(* ------------------------------------------------------------------ building a state *)
exception Bad_trace of string

let vec_of (f : int array) (i : int) : vec option =
  match qbits f.(i), qbits f.(i + 1), qbits f.(i + 2) with
  | Some x, Some y, Some z -> Some { vx = x; vy = y; vz = z }
  | _ -> None

let vec_exn f i = match vec_of f i with Some v -> v | None -> raise (Bad_trace "non-finite float in the trace")

let int_of_qint (x : q) : int * bool =          (* value, is an integer *)
  let r = qred x in
  match r.qden with XH -> (int_of_z r.qnum, true) | _ -> (int_of_z (qfloor r), false)

type block = {
  op : line option;                 (* the I / J / L line, None for the initial state *)
  lines : line list;                (* observation lines following it *)
}

let find_tag tag (ls : line list) = List.filter (fun l -> l.tag = tag) ls

(* returns the grid, whether Min/Max were integers, the unknown-pointer flag *)
let build_state (ls : line list) : (grid * bool * bool) option =
  match find_tag "S" ls with
  | [] -> None
  | s :: _ ->
      let f = s.f in
      let pc = f.(0) and mc = f.(1) in
      let mn = vec_exn f 2 and mx = vec_exn f 5 in
      let rows = f.(8) and res = f.(10) and np = f.(11) in
      let widths = match find_tag "W" ls with w :: _ -> w.f | [] -> [||] in
      if Array.length widths <> rows then raise (Bad_trace "W line does not match the row count");
      let cells = Array.init rows (fun y -> Array.make widths.(y) []) in
      let unknown = ref false in
      List.iter (fun c ->
        let y = c.f.(0) and x0 = c.f.(1) and x1 = c.f.(2) and n = c.f.(3) in
        let ids = List.init n (fun k -> let v = c.f.(4 + k) in if v < 0 then (unknown := true; 1000000) else v) in
        let l = List.map nat_of_int (List.map (fun v -> if v >= 1000000 then np + 7 else v) ids) in
        for x = x0 to x1 do cells.(y).(x) <- l done) (find_tag "C" ls);
      let planes = Array.make np None in
      List.iter (fun p ->
        let id = p.f.(0) in
        planes.(id) <- Some { qc = vec_exn p.f 1; qe = vec_exn p.f 4; qn = vec_exn p.f 7; qmerges = n_of_int p.f.(10) }) (find_tag "P" ls);
      let planes = Array.to_list (Array.map (function Some p -> p | None -> raise (Bad_trace "missing P line")) planes) in
      let (minx, i1) = int_of_qint mn.vx and (minz, i2) = int_of_qint mn.vz in
      let (maxx, i3) = int_of_qint mx.vx and (maxz, i4) = int_of_qint mx.vz in
      let yzero = qeq_bool mn.vy (q_of_ints 0 1) && qeq_bool mx.vy (q_of_ints 0 1) in
      let g = { g_res = z_of_int res; g_planecount = n_of_int pc; g_mergecount = n_of_int mc;
                g_minx = z_of_int minx; g_minz = z_of_int minz; g_maxx = z_of_int maxx; g_maxz = z_of_int maxz;
                g_cells = Array.to_list (Array.map Array.to_list cells); g_planes = planes } in
      Some (g, i1 && i2 && i3 && i4 && yzero, !unknown)

(* ------------------------------------------------------------------ per-history processing *)
type hres = {
  mutable pviol : (int * int * string) list;      (* code, op index, info *)
  mutable mism : (int * string * float) list;     (* op index, what, margin *)
  mutable ill : int;
  mutable steps : int;
  mutable appends : int; mutable merges : int; mutable cascades : int; mutable selfm : int;
  mutable grow : int;                              (* bit set: 1 left 2 right 4 up 8 down *)
  mutable joins : int; mutable leaves : int;
  mutable full_ok : bool;
  mutable nonlattice : bool;
}

let diff_string (d : ((z * z) * z) list) : string =
  String.concat ";" (List.map (fun ((c, a), b) ->
    let name = match int_of_z c with 1 -> "res" | 2 -> "planecount" | 3 -> "mergecount" | 4 -> "minx" | 5 -> "minz"
                | 6 -> "maxx" | 7 -> "maxz" | 8 -> "cell(y,x)" | 9 -> "plane" | _ -> "?" in
    Printf.sprintf "%s:%d,%d" name (int_of_z a) (int_of_z b)) d)

let ids_of (l : line) (start : int) (n : int) : int list = List.init n (fun k -> l.f.(start + k))

let sorted_ints (l : nat list) : int list = List.sort compare (List.map int_of_nat l)

let process_history (hdr : line) (blocks : block list) (verbose : int) (do_full : bool) : hres =
  let mode = hdr.f.(1) and res = hdr.f.(2) in
  let r = { pviol = []; mism = []; ill = 0; steps = 0; appends = 0; merges = 0; cascades = 0; selfm = 0; grow = 0;
            joins = 0; leaves = 0; full_ok = true; nonlattice = (hdr.f.(3) = 5) } in
  let pv code at info = r.pviol <- (code, at, info) :: r.pviol in
  let prev : grid option ref = ref None in
  let full : grid option ref = ref None in
  let full_alive = ref do_full in
  let fresh () = new_grid (nat_of_int 1) (nat_of_int 1) (z_of_int res) in
  List.iteri (fun idx b ->
    let replaced = find_tag "N" b.lines <> [] in
    List.iter (fun x -> match x.f.(0) with
      | 1 -> pv 8 idx "InsertQuad panicked on a valid quad"
      | 2 -> pv 8 idx "GetDebugInfo panicked"
      | 3 -> pv 6 idx "the session has no dagaz grid"
      | _ -> pv 8 idx "join failed") (find_tag "X" b.lines);
    match build_state b.lines with
    | None -> ()
    | Some (cur, integral, unknown) ->
        if not integral then pv 2 idx "grid bounds are not integers (Min/Max off the resolution lattice)";
        if unknown then pv 3 idx "a cell holds a nil pointer";
        (* ---- expected state: one model step from the previous implementation state *)
        let opk = match b.op with None -> "init" | Some l -> l.tag in
        let quad_of (l : line) = new_quad (vec_exn l.f 1) (vec_exn l.f 4) N0 in
        let expected, margin =
          match b.op, !prev with
          | None, _ -> (Some (fresh ()), None)
          | Some l, None when l.tag = "I" ->                            (* first observed state of a module history whose grid is created with the first sample *)
              let q = quad_of l in
              if not (valid_quad_b q) then (bump "invalid_input_skipped"; (None, None))
              else (Some (insert (fresh ()) q), Some (fun () -> insert_margin (fresh ()) q))
          | Some l, None -> (Some (fresh ()), None)                     (* first join of a module history *)
          | Some l, Some p when l.tag = "I" ->
              let q = quad_of l in
              if not (valid_quad_b q) then (bump "invalid_input_skipped"; (None, None))
              else (Some (insert p q), Some (fun () -> insert_margin p q))
          | Some l, Some p -> (Some p, None)                              (* J / L: the grid is untouched *)
        in
        (match b.op with
         | Some l when l.tag = "J" -> r.joins <- r.joins + 1
         | Some l when l.tag = "L" -> r.leaves <- r.leaves + 1
         | Some l when l.tag = "A" -> (r.leaves <- r.leaves + 1; bump "switches_away")
         | Some l when l.tag = "B" -> (r.joins <- r.joins + 1; bump "switches_in")
         | _ -> ());
        (* retention across joins and departures (the session is alive throughout a history) *)
        (match b.op, !prev with
         | Some l, Some p when (l.tag = "J" || l.tag = "L" || l.tag = "A" || l.tag = "B") ->
             let np = List.length p.g_planes in
             if replaced && np > 0 then
               pv 6 idx (Printf.sprintf "%s %d: the session's grid was replaced; %d stored plane(s) lost" l.tag l.f.(0) np)
             else if grid_diff tol_cmp p cur <> [] && not replaced then
               pv 6 idx (Printf.sprintf "%s %d changed the stored planes: %s" l.tag l.f.(0) (diff_string (grid_diff tol_cmp p cur)))
         | _ -> ());
        (* ---- step correspondence *)
        (match expected with
         | Some m when not (replaced && opk <> "I") ->
             if opk = "I" then r.steps <- r.steps + 1;
             let d = grid_diff tol_cmp m cur in
             if d = [] then bump "steps_agree"
             else begin
               let mg = match margin with Some f -> f () | None -> q_of_ints 1000 1 in
               if qlt_bool mg margin_min then (r.ill <- r.ill + 1; bump "steps_ill_conditioned")
               else begin
                 let detail = String.concat " " (List.filter_map (fun ((c, a), b') ->
                   if int_of_z c = 8 then
                     let y = nat_of_int (int_of_z a) and x = nat_of_int (int_of_z b') in
                     Some (Printf.sprintf "[model=%s impl=%s]"
                             (String.concat "," (List.map (fun k -> string_of_int (int_of_nat k)) (get_cell m.g_cells y x)))
                             (String.concat "," (List.map (fun k -> string_of_int (int_of_nat k)) (get_cell cur.g_cells y x))))
                   else None) d) in
                 r.mism <- (idx, Printf.sprintf "%s step: model/impl differ: %s %s" opk (diff_string d) detail, float_of_q mg) :: r.mism
               end
             end
         | _ -> ());
        (* ---- full-run model (diagnostic) *)
        (match b.op with
         | None -> full := Some (fresh ())
         | Some l when l.tag = "I" ->
             (match !full with
              | Some fm when !full_alive ->
                  let q = quad_of l in
                  if valid_quad_b q then begin
                    let fm' = insert fm q in
                    full := Some fm';
                    if grid_diff tol_cmp fm' cur <> [] then (full_alive := false; r.full_ok <- false)
                    else if check_state (q_of_ints 0 1) fm' <> [] || not (region_ok fm') || ray_misses fm' <> [] then
                      pv 99 idx "P(model) is not empty: the exact model violates the property (a theorem should exclude this)"
                  end else full_alive := false
              | None -> if mode = 1 then full := Some (fresh ())
              | _ -> ())
         | Some _ -> (match !full with None -> full := Some (fresh ()) | _ -> ()));
        (* ---- what happened (from the implementation's own counters) *)
        (match b.op, !prev with
         | Some l, Some p when l.tag = "I" ->
             let dpc = int_of_n cur.g_planecount - int_of_n p.g_planecount in
             let dmc = int_of_n cur.g_mergecount - int_of_n p.g_mergecount in
             if dpc > 0 then r.appends <- r.appends + 1;
             if dmc > 0 then r.merges <- r.merges + 1;
             if dmc >= 3 then r.cascades <- r.cascades + 1;
             if int_of_z cur.g_minx < int_of_z p.g_minx then r.grow <- r.grow lor 1;
             if int_of_z cur.g_maxx > int_of_z p.g_maxx then r.grow <- r.grow lor 2;
             if int_of_z cur.g_minz < int_of_z p.g_minz then r.grow <- r.grow lor 4;
             if int_of_z cur.g_maxz > int_of_z p.g_maxz then r.grow <- r.grow lor 8
         | _ -> ());
        (* ---- the property on the implementation's own state *)
        List.iter (fun (((c, a), b'), d) ->
          match int_of_z c with
          | 1 -> pv 1 idx (Printf.sprintf "plane %d overlaps cell (row %d, col %d) but is not registered there" (int_of_z a) (int_of_z b') (int_of_z d))
          | 2 -> pv 2 idx (Printf.sprintf "footprint of plane %d is outside the grid bounds" (int_of_z a))
          | _ -> pv 3 idx (Printf.sprintf "PlaneCount=%d but %d distinct planes are stored" (int_of_z b') (int_of_z a)))
          (check_state tol_prop cur);
        bump "states_checked";
        let np = List.length cur.g_planes in
        (* covering region query, as answered by the implementation *)
        (match find_tag "R" b.lines with
         | l :: _ ->
             if l.f.(0) <> 0 then pv 8 idx "GetRegion panicked on a covering query"
             else begin
               let ids = ids_of l 2 l.f.(1) in
               let ok = List.for_all (fun i -> i >= 0) ids && region_result_ok cur (List.map nat_of_int ids) in
               if not ok then pv 4 idx (Printf.sprintf "covering region query returned [%s] for %d stored planes"
                                          (String.concat "," (List.map string_of_int ids)) np);
               (* model's answer on the same state *)
               let mine = sorted_ints (get_region cur (cover_lo cur) (cover_hi cur)) in
               bump "region_queries";
               if mine <> List.sort compare ids then
                 r.mism <- (idx, "covering GetRegion: model and implementation differ on the same state", 1000.0) :: r.mism
             end
         | [] -> ());
        (* centre rays *)
        List.iter (fun l ->
          let id = l.f.(0) and hit = l.f.(7) in
          if hit = -2 then pv 8 idx (Printf.sprintf "IntersectQuad panicked on the centre ray of plane %d" id)
          else if hit < 0 then pv 5 idx (Printf.sprintf "vertical ray through the centre of plane %d hits nothing" id);
          match vec_of l.f 1, vec_of l.f 4 with
          | Some fr, Some to_ ->
              let ray = { rfrom = fr; rto = to_ } in
              bump "ray_queries";
              (match grid_intersect cur ray with
               | IRes (h, t) ->
                   let mh = match h with Some k -> int_of_nat k | None -> -1 in
                   let tok = match t, qbits l.f.(8) with
                     | Fin a, Some b -> qclose tol_cmp a b
                     | PInf, None -> true
                     | _ -> false in
                   if mh <> hit || (hit >= 0 && not tok) then begin
                     if qlt_bool (ray_margin cur ray) margin_min then bump "ray_ill_conditioned"
                     else r.mism <- (idx, Printf.sprintf "centre ray of plane %d: model hit %d, implementation hit %d" id mh hit, float_of_q (ray_margin cur ray)) :: r.mism
                   end
               | IPanic -> r.mism <- (idx, "model predicts a panic on a vertical ray", 1000.0) :: r.mism)
          | _ -> ()) (find_tag "V" b.lines);
        (* debug info *)
        (match find_tag "D" b.lines with
         | l :: _ ->
             let di = get_debug_info cur in
             let occ = ref [] in
             for k = 0 to l.f.(11) - 1 do
               for _ = 1 to l.f.(13 + 2 * k) do occ := l.f.(12 + 2 * k) :: !occ done
             done;
             let occ = List.rev !occ in
             bump "debug_queries";
             if l.f.(3) <> int_of_n cur.g_planecount then pv 9 idx "GetDebugInfo reports a plane count different from the grid's";
             if l.f.(0) <> int_of_z di.d_res || l.f.(1) <> int_of_nat di.d_rows || l.f.(2) <> int_of_nat di.d_cols
                || l.f.(3) <> int_of_n di.d_planes || l.f.(4) <> int_of_n di.d_merges
                || occ <> List.map int_of_nat di.d_occupancy then
               r.mism <- (idx, "GetDebugInfo: model and implementation differ on the same state", 1000.0) :: r.mism
         | [] -> ());
        (* every participant's view (module mode) *)
        List.iter (fun l ->
          let p = l.f.(0) in
          if l.f.(1) <> 0 then pv 8 idx (Printf.sprintf "region request of participant %d panicked" p)
          else begin
            let ids = ids_of l 3 l.f.(2) in
            bump "participant_region_views";
            if not (List.for_all (fun i -> i >= 0) ids && region_result_ok cur (List.map nat_of_int ids)) then
              pv 7 idx (Printf.sprintf "participant %d is returned [%s] although %d plane(s) are stored in the session" p
                          (String.concat "," (List.map string_of_int ids)) np)
          end) (find_tag "MR" b.lines);
        List.iter (fun l ->
          if l.f.(1) <> 0 then pv 8 idx "debug-info request panicked"
          else if l.f.(5) <> int_of_n cur.g_planecount then
            pv 7 idx (Printf.sprintf "participant %d is told plane_count=%d, the session grid has %d" l.f.(0) l.f.(5) (int_of_n cur.g_planecount)))
          (find_tag "MD" b.lines);
        List.iter (fun l ->
          if l.f.(2) = -2 then pv 8 idx "ground-plane request panicked"
          else if l.f.(2) < 0 then pv 5 idx (Printf.sprintf "participant %d: ground-plane request through the centre of plane %d returns no plane" l.f.(0) l.f.(1)))
          (find_tag "MV" b.lines);
        prev := Some cur;
        (* ---- extra queries (after the last state) *)
        List.iter (fun l ->
          match vec_of l.f 0, vec_of l.f 3 with
          | Some fr, Some to_ ->
              let ray = { rfrom = fr; rto = to_ } in
              let hit = l.f.(6) in
              bump "extra_ray_queries";
              let vertical = qeq_bool fr.vx to_.vx && qeq_bool fr.vz to_.vz in
              (match grid_intersect cur ray with
               | IRes (h, _) ->
                   let mh = match h with Some k -> int_of_nat k | None -> -1 in
                   if hit = -2 then bump "extra_ray_impl_panic";
                   if mh = hit then bump "extra_ray_agree"
                   else if vertical && not (qlt_bool (ray_margin cur ray) margin_min) then
                     r.mism <- (idx, Printf.sprintf "extra vertical ray: model %d implementation %d" mh hit, 1000.0) :: r.mism
                   else bump "extra_ray_differ"
               | IPanic ->
                   if hit = -2 then (bump "extra_ray_agree"; bump "extra_ray_impl_panic"; bump "extra_ray_panic_predicted")
                   else bump "extra_ray_differ")
          | _ -> ()) (find_tag "Y" b.lines);
        List.iter (fun l ->
          match vec_of l.f 0, vec_of l.f 3 with
          | Some lo, Some hi ->
              bump "extra_region_queries";
              if l.f.(6) <> 0 then bump "extra_region_impl_panic"
              else begin
                let ids = List.sort compare (ids_of l 8 l.f.(7)) in
                let mine = sorted_ints (get_region cur lo hi) in
                if mine = ids then bump "extra_region_agree"
                else r.mism <- (idx, "partial GetRegion: model and implementation differ on the same state", 1000.0) :: r.mism
              end
          | _ -> ()) (find_tag "G" b.lines))
    blocks;
  r

(* ------------------------------------------------------------------ primitives *)
let prim_stats : (string, int) Hashtbl.t = Hashtbl.create 16
let pb k = Hashtbl.replace prim_stats k (1 + (try Hashtbl.find prim_stats k with Not_found -> 0))

let process_prims (ls : line list) : (string * string) list =
  let bad = ref [] in
  let report what (l : line) = if List.length !bad < 20 then bad := (what, l.raw) :: !bad in
  List.iter (fun l ->
    match l.tag with
    | "K" ->
        (match qbits l.f.(1) with
         | Some v when qeq_bool v ray_reach -> pb "reach_constant_ok"
         | _ -> report "MERGE_EPSILON + 1.0 is not the model's ray_reach" l)
    | "PD" ->
        let a = vec_exn l.f 0 and b = vec_exn l.f 3 in
        pb "dot"; if not (dot_ok a b (qbits l.f.(6))) then report "dot outside tolerance" l
    | "PC" ->
        let a = vec_exn l.f 0 and b = vec_exn l.f 3 in
        pb "cross"; if not (cross_ok a b (qbits l.f.(6)) (qbits l.f.(7)) (qbits l.f.(8))) then report "cross outside tolerance" l
    | "PN" ->
        let c = vec_exn l.f 0 and e = vec_exn l.f 3 in
        pb "normal";
        (match vec_of l.f 6 with
         | Some n -> if not (normal_ok c e n) then report "normal outside tolerance" l
         | None -> report "normal is not finite" l)
    | "PO" ->
        let qa = new_quad (vec_exn l.f 0) (vec_exn l.f 3) N0 and qb = new_quad (vec_exn l.f 6) (vec_exn l.f 9) N0 in
        pb "overlap";
        let m = overlap qa qb in
        if m then pb "overlap_true";
        if m <> (l.f.(12) = 1) then begin
          if qlt_bool (overlap_margin qa qb) (q_of_ints 1 100000) then pb "overlap_ill_conditioned"
          else report "overlap decision differs" l
        end
    | "PQ" ->
        let ray = { rfrom = vec_exn l.f 0; rto = vec_exn l.f 3 } in
        let qd = { qc = vec_exn l.f 6; qe = vec_exn l.f 9; qn = vec_exn l.f 12; qmerges = N0 } in
        pb "ray_quad";
        let m = ray_quad ray qd in
        let hit = l.f.(15) = 1 in
        (match m, hit with
         | Some t, true ->
             pb "ray_quad_hit";
             (match qbits l.f.(16) with
              | Some tg -> if not (qle_bool (qabs (qminus tg t)) (ray_quad_ttol ray qd)) then report "ray-quad t outside tolerance" l
              | None -> report "ray-quad t not finite" l)
         | None, false -> ()
         | _ ->
             if qlt_bool (ray_quad_margin ray qd) (q_of_ints 1 100000) then pb "ray_quad_ill_conditioned"
             else report "ray-quad hit decision differs" l)
    | _ -> ()) ls;
  List.rev !bad

(* ------------------------------------------------------------------ main *)
let () =
  let path = Sys.argv.(1) in
  let verbose = if Array.length Sys.argv > 2 then int_of_string Sys.argv.(2) else 1 in
  let full_every = if Array.length Sys.argv > 3 then int_of_string Sys.argv.(3) else 1 in
  let lines = read_lines path in
  (* split into histories *)
  let hists = ref [] and cur = ref None in
  List.iter (fun l ->
    match l.tag with
    | "H" -> cur := Some (l, ref [])
    | "E" -> (match !cur with Some (h, ls) -> hists := (h, List.rev !ls) :: !hists; cur := None | None -> ())
    | "" -> ()
    | _ -> (match !cur with Some (_, ls) -> ls := l :: !ls | None -> ())) lines;
  let hists = List.rev !hists in
  let nbad = ref 0 and nok = ref 0 in
  List.iter (fun ((hdr : line), (ls : line list)) ->
    let hid = hdr.f.(0) in
    try
      if hdr.f.(1) = 2 then begin
        let bad = process_prims ls in
        if bad = [] then (incr nok; Printf.printf "OK %d prims\n" hid)
        else begin
          incr nbad;
          Printf.printf "BAD %d mismatches=%d violations=0\n" hid (List.length bad);
          List.iter (fun (w, raw) -> Printf.printf "  MISMATCH 0 at=0 margin=1000 what=%s | %s\n" w raw) bad
        end
      end else begin
        (* blocks: the initial observations, then one block per operation *)
        let blocks = ref [] and cop = ref None and acc = ref [] in
        let flush () = blocks := { op = !cop; lines = List.rev !acc } :: !blocks; acc := [] in
        List.iter (fun l ->
          match l.tag with
          | "I" | "J" | "L" | "A" | "B" -> flush (); cop := Some l
          | _ -> acc := l :: !acc) ls;
        flush ();
        let blocks = List.rev !blocks in
        (* a module history starts with J: the initial block is empty *)
        let blocks = List.filter (fun b -> b.op <> None || b.lines <> []) blocks in
        let do_full = full_every > 0 && hid mod full_every = 0 in
        let r = process_history hdr blocks verbose do_full in
        bump "histories"; if do_full then bump "full_run_histories";
        bump ~by:r.steps "insert_steps"; bump ~by:r.appends "appends"; bump ~by:r.merges "merging_inserts";
        bump ~by:r.cascades "cascade_inserts"; bump ~by:r.joins "joins"; bump ~by:r.leaves "leaves";
        if do_full && r.full_ok then bump "full_run_agree";
        let summary = Printf.sprintf "mode=%d kind=%d res=%d steps=%d appends=%d merges=%d cascades=%d grow=%d joins=%d leaves=%d ill=%d full=%b"
            hdr.f.(1) hdr.f.(3) hdr.f.(2) r.steps r.appends r.merges r.cascades r.grow r.joins r.leaves r.ill r.full_ok in
        if r.pviol = [] && r.mism = [] then (incr nok; Printf.printf "OK %d %s\n" hid summary)
        else begin
          incr nbad;
          Printf.printf "BAD %d mismatches=%d violations=%d %s\n" hid (List.length r.mism) (List.length r.pviol) summary;
          List.iteri (fun k (code, at, info) -> if k < 6 * verbose then Printf.printf "  PVIOL %d at=%d code=%d info=%s\n" k at code info) (List.rev r.pviol);
          List.iteri (fun k (at, what, mg) -> if k < 6 * verbose then Printf.printf "  MISMATCH %d at=%d margin=%g what=%s\n" k at mg what) (List.rev r.mism)
        end
      end
    with Bad_trace msg -> Printf.printf "DECODEFAIL history %d: %s\n" hid msg
       | Invalid_argument msg -> Printf.printf "DECODEFAIL history %d: %s\n" hid msg) hists;
  let kv tbl = String.concat " " (List.sort compare (Hashtbl.fold (fun k v acc -> Printf.sprintf "%s=%d" k v :: acc) tbl [])) in
  Printf.printf "SUMMARY ok=%d bad=%d %s %s\n" !nok !nbad (kv counters) (kv prim_stats)

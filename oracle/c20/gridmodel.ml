
(** val negb : bool -> bool **)

let negb = function
| true -> false
| false -> true

type nat =
| O
| S of nat

(** val option_map : ('a1 -> 'a2) -> 'a1 option -> 'a2 option **)

let option_map f = function
| Some a -> Some (f a)
| None -> None

(** val fst : ('a1 * 'a2) -> 'a1 **)

let fst = function
| (x, _) -> x

(** val snd : ('a1 * 'a2) -> 'a2 **)

let snd = function
| (_, y) -> y

(** val length : 'a1 list -> nat **)

let rec length = function
| [] -> O
| _ :: l' -> S (length l')

(** val app : 'a1 list -> 'a1 list -> 'a1 list **)

let rec app l m =
  match l with
  | [] -> m
  | a :: l1 -> a :: (app l1 m)

type comparison =
| Eq
| Lt
| Gt

(** val compOpp : comparison -> comparison **)

let compOpp = function
| Eq -> Eq
| Lt -> Gt
| Gt -> Lt

module Coq__1 = struct
 (** val add : nat -> nat -> nat **)
 let rec add n0 m =
   match n0 with
   | O -> m
   | S p -> S (add p m)
end
include Coq__1

(** val sub : nat -> nat -> nat **)

let rec sub n0 m =
  match n0 with
  | O -> n0
  | S k -> (match m with
            | O -> n0
            | S l -> sub k l)

type positive =
| XI of positive
| XO of positive
| XH

type n =
| N0
| Npos of positive

type z =
| Z0
| Zpos of positive
| Zneg of positive

(** val gmax : ('a1 -> 'a1 -> comparison) -> 'a1 -> 'a1 -> 'a1 **)

let gmax cmp x y =
  match cmp x y with
  | Lt -> y
  | _ -> x

(** val gmin : ('a1 -> 'a1 -> comparison) -> 'a1 -> 'a1 -> 'a1 **)

let gmin cmp x y =
  match cmp x y with
  | Gt -> y
  | _ -> x

module Nat =
 struct
  (** val eqb : nat -> nat -> bool **)

  let rec eqb n0 m =
    match n0 with
    | O -> (match m with
            | O -> true
            | S _ -> false)
    | S n' -> (match m with
               | O -> false
               | S m' -> eqb n' m')

  (** val leb : nat -> nat -> bool **)

  let rec leb n0 m =
    match n0 with
    | O -> true
    | S n' -> (match m with
               | O -> false
               | S m' -> leb n' m')

  (** val ltb : nat -> nat -> bool **)

  let ltb n0 m =
    leb (S n0) m

  (** val min : nat -> nat -> nat **)

  let rec min n0 m =
    match n0 with
    | O -> O
    | S n' -> (match m with
               | O -> O
               | S m' -> S (min n' m'))
 end

module Pos =
 struct
  type mask =
  | IsNul
  | IsPos of positive
  | IsNeg
 end

module Coq_Pos =
 struct
  (** val succ : positive -> positive **)

  let rec succ = function
  | XI p -> XO (succ p)
  | XO p -> XI p
  | XH -> XO XH

  (** val add : positive -> positive -> positive **)

  let rec add x y =
    match x with
    | XI p ->
      (match y with
       | XI q0 -> XO (add_carry p q0)
       | XO q0 -> XI (add p q0)
       | XH -> XO (succ p))
    | XO p ->
      (match y with
       | XI q0 -> XI (add p q0)
       | XO q0 -> XO (add p q0)
       | XH -> XI p)
    | XH -> (match y with
             | XI q0 -> XO (succ q0)
             | XO q0 -> XI q0
             | XH -> XO XH)

  (** val add_carry : positive -> positive -> positive **)

  and add_carry x y =
    match x with
    | XI p ->
      (match y with
       | XI q0 -> XI (add_carry p q0)
       | XO q0 -> XO (add_carry p q0)
       | XH -> XI (succ p))
    | XO p ->
      (match y with
       | XI q0 -> XO (add_carry p q0)
       | XO q0 -> XI (add p q0)
       | XH -> XO (succ p))
    | XH ->
      (match y with
       | XI q0 -> XI (succ q0)
       | XO q0 -> XO (succ q0)
       | XH -> XI XH)

  (** val pred_double : positive -> positive **)

  let rec pred_double = function
  | XI p -> XI (XO p)
  | XO p -> XI (pred_double p)
  | XH -> XH

  type mask = Pos.mask =
  | IsNul
  | IsPos of positive
  | IsNeg

  (** val succ_double_mask : mask -> mask **)

  let succ_double_mask = function
  | IsNul -> IsPos XH
  | IsPos p -> IsPos (XI p)
  | IsNeg -> IsNeg

  (** val double_mask : mask -> mask **)

  let double_mask = function
  | IsPos p -> IsPos (XO p)
  | x0 -> x0

  (** val double_pred_mask : positive -> mask **)

  let double_pred_mask = function
  | XI p -> IsPos (XO (XO p))
  | XO p -> IsPos (XO (pred_double p))
  | XH -> IsNul

  (** val sub_mask : positive -> positive -> mask **)

  let rec sub_mask x y =
    match x with
    | XI p ->
      (match y with
       | XI q0 -> double_mask (sub_mask p q0)
       | XO q0 -> succ_double_mask (sub_mask p q0)
       | XH -> IsPos (XO p))
    | XO p ->
      (match y with
       | XI q0 -> succ_double_mask (sub_mask_carry p q0)
       | XO q0 -> double_mask (sub_mask p q0)
       | XH -> IsPos (pred_double p))
    | XH -> (match y with
             | XH -> IsNul
             | _ -> IsNeg)

  (** val sub_mask_carry : positive -> positive -> mask **)

  and sub_mask_carry x y =
    match x with
    | XI p ->
      (match y with
       | XI q0 -> succ_double_mask (sub_mask_carry p q0)
       | XO q0 -> double_mask (sub_mask p q0)
       | XH -> IsPos (pred_double p))
    | XO p ->
      (match y with
       | XI q0 -> double_mask (sub_mask_carry p q0)
       | XO q0 -> succ_double_mask (sub_mask_carry p q0)
       | XH -> double_pred_mask p)
    | XH -> IsNeg

  (** val sub : positive -> positive -> positive **)

  let sub x y =
    match sub_mask x y with
    | IsPos z0 -> z0
    | _ -> XH

  (** val mul : positive -> positive -> positive **)

  let rec mul x y =
    match x with
    | XI p -> add y (XO (mul p y))
    | XO p -> XO (mul p y)
    | XH -> y

  (** val iter : ('a1 -> 'a1) -> 'a1 -> positive -> 'a1 **)

  let rec iter f x = function
  | XI n' -> f (iter f (iter f x n') n')
  | XO n' -> iter f (iter f x n') n'
  | XH -> f x

  (** val pow : positive -> positive -> positive **)

  let pow x =
    iter (mul x) XH

  (** val size_nat : positive -> nat **)

  let rec size_nat = function
  | XI p0 -> S (size_nat p0)
  | XO p0 -> S (size_nat p0)
  | XH -> S O

  (** val compare_cont : comparison -> positive -> positive -> comparison **)

  let rec compare_cont r x y =
    match x with
    | XI p ->
      (match y with
       | XI q0 -> compare_cont r p q0
       | XO q0 -> compare_cont Gt p q0
       | XH -> Gt)
    | XO p ->
      (match y with
       | XI q0 -> compare_cont Lt p q0
       | XO q0 -> compare_cont r p q0
       | XH -> Gt)
    | XH -> (match y with
             | XH -> r
             | _ -> Lt)

  (** val compare : positive -> positive -> comparison **)

  let compare =
    compare_cont Eq

  (** val eqb : positive -> positive -> bool **)

  let rec eqb p q0 =
    match p with
    | XI p0 -> (match q0 with
                | XI q1 -> eqb p0 q1
                | _ -> false)
    | XO p0 -> (match q0 with
                | XO q1 -> eqb p0 q1
                | _ -> false)
    | XH -> (match q0 with
             | XH -> true
             | _ -> false)

  (** val ggcdn :
      nat -> positive -> positive -> positive * (positive * positive) **)

  let rec ggcdn n0 a b =
    match n0 with
    | O -> (XH, (a, b))
    | S n1 ->
      (match a with
       | XI a' ->
         (match b with
          | XI b' ->
            (match compare a' b' with
             | Eq -> (a, (XH, XH))
             | Lt ->
               let (g, p) = ggcdn n1 (sub b' a') a in
               let (ba, aa) = p in (g, (aa, (add aa (XO ba))))
             | Gt ->
               let (g, p) = ggcdn n1 (sub a' b') b in
               let (ab, bb) = p in (g, ((add bb (XO ab)), bb)))
          | XO b0 ->
            let (g, p) = ggcdn n1 a b0 in
            let (aa, bb) = p in (g, (aa, (XO bb)))
          | XH -> (XH, (a, XH)))
       | XO a0 ->
         (match b with
          | XI _ ->
            let (g, p) = ggcdn n1 a0 b in
            let (aa, bb) = p in (g, ((XO aa), bb))
          | XO b0 -> let (g, p) = ggcdn n1 a0 b0 in ((XO g), p)
          | XH -> (XH, (a, XH)))
       | XH -> (XH, (XH, b)))

  (** val ggcd : positive -> positive -> positive * (positive * positive) **)

  let ggcd a b =
    ggcdn (Coq__1.add (size_nat a) (size_nat b)) a b

  (** val iter_op : ('a1 -> 'a1 -> 'a1) -> positive -> 'a1 -> 'a1 **)

  let rec iter_op op p a =
    match p with
    | XI p0 -> op a (iter_op op p0 (op a a))
    | XO p0 -> iter_op op p0 (op a a)
    | XH -> a

  (** val to_nat : positive -> nat **)

  let to_nat x =
    iter_op Coq__1.add x (S O)

  (** val of_succ_nat : nat -> positive **)

  let rec of_succ_nat = function
  | O -> XH
  | S x -> succ (of_succ_nat x)
 end

module N =
 struct
  (** val add : n -> n -> n **)

  let add n0 m =
    match n0 with
    | N0 -> m
    | Npos p -> (match m with
                 | N0 -> n0
                 | Npos q0 -> Npos (Coq_Pos.add p q0))

  (** val eqb : n -> n -> bool **)

  let eqb n0 m =
    match n0 with
    | N0 -> (match m with
             | N0 -> true
             | Npos _ -> false)
    | Npos p -> (match m with
                 | N0 -> false
                 | Npos q0 -> Coq_Pos.eqb p q0)

  (** val of_nat : nat -> n **)

  let of_nat = function
  | O -> N0
  | S n' -> Npos (Coq_Pos.of_succ_nat n')
 end

module Z =
 struct
  (** val double : z -> z **)

  let double = function
  | Z0 -> Z0
  | Zpos p -> Zpos (XO p)
  | Zneg p -> Zneg (XO p)

  (** val succ_double : z -> z **)

  let succ_double = function
  | Z0 -> Zpos XH
  | Zpos p -> Zpos (XI p)
  | Zneg p -> Zneg (Coq_Pos.pred_double p)

  (** val pred_double : z -> z **)

  let pred_double = function
  | Z0 -> Zneg XH
  | Zpos p -> Zpos (Coq_Pos.pred_double p)
  | Zneg p -> Zneg (XI p)

  (** val pos_sub : positive -> positive -> z **)

  let rec pos_sub x y =
    match x with
    | XI p ->
      (match y with
       | XI q0 -> double (pos_sub p q0)
       | XO q0 -> succ_double (pos_sub p q0)
       | XH -> Zpos (XO p))
    | XO p ->
      (match y with
       | XI q0 -> pred_double (pos_sub p q0)
       | XO q0 -> double (pos_sub p q0)
       | XH -> Zpos (Coq_Pos.pred_double p))
    | XH ->
      (match y with
       | XI q0 -> Zneg (XO q0)
       | XO q0 -> Zneg (Coq_Pos.pred_double q0)
       | XH -> Z0)

  (** val add : z -> z -> z **)

  let add x y =
    match x with
    | Z0 -> y
    | Zpos x' ->
      (match y with
       | Z0 -> x
       | Zpos y' -> Zpos (Coq_Pos.add x' y')
       | Zneg y' -> pos_sub x' y')
    | Zneg x' ->
      (match y with
       | Z0 -> x
       | Zpos y' -> pos_sub y' x'
       | Zneg y' -> Zneg (Coq_Pos.add x' y'))

  (** val opp : z -> z **)

  let opp = function
  | Z0 -> Z0
  | Zpos x0 -> Zneg x0
  | Zneg x0 -> Zpos x0

  (** val sub : z -> z -> z **)

  let sub m n0 =
    add m (opp n0)

  (** val mul : z -> z -> z **)

  let mul x y =
    match x with
    | Z0 -> Z0
    | Zpos x' ->
      (match y with
       | Z0 -> Z0
       | Zpos y' -> Zpos (Coq_Pos.mul x' y')
       | Zneg y' -> Zneg (Coq_Pos.mul x' y'))
    | Zneg x' ->
      (match y with
       | Z0 -> Z0
       | Zpos y' -> Zneg (Coq_Pos.mul x' y')
       | Zneg y' -> Zpos (Coq_Pos.mul x' y'))

  (** val pow_pos : z -> positive -> z **)

  let pow_pos z0 =
    Coq_Pos.iter (mul z0) (Zpos XH)

  (** val pow : z -> z -> z **)

  let pow x = function
  | Z0 -> Zpos XH
  | Zpos p -> pow_pos x p
  | Zneg _ -> Z0

  (** val compare : z -> z -> comparison **)

  let compare x y =
    match x with
    | Z0 -> (match y with
             | Z0 -> Eq
             | Zpos _ -> Lt
             | Zneg _ -> Gt)
    | Zpos x' -> (match y with
                  | Zpos y' -> Coq_Pos.compare x' y'
                  | _ -> Gt)
    | Zneg x' ->
      (match y with
       | Zneg y' -> compOpp (Coq_Pos.compare x' y')
       | _ -> Lt)

  (** val sgn : z -> z **)

  let sgn = function
  | Z0 -> Z0
  | Zpos _ -> Zpos XH
  | Zneg _ -> Zneg XH

  (** val leb : z -> z -> bool **)

  let leb x y =
    match compare x y with
    | Gt -> false
    | _ -> true

  (** val ltb : z -> z -> bool **)

  let ltb x y =
    match compare x y with
    | Lt -> true
    | _ -> false

  (** val eqb : z -> z -> bool **)

  let eqb x y =
    match x with
    | Z0 -> (match y with
             | Z0 -> true
             | _ -> false)
    | Zpos p -> (match y with
                 | Zpos q0 -> Coq_Pos.eqb p q0
                 | _ -> false)
    | Zneg p -> (match y with
                 | Zneg q0 -> Coq_Pos.eqb p q0
                 | _ -> false)

  (** val min : z -> z -> z **)

  let min n0 m =
    match compare n0 m with
    | Gt -> m
    | _ -> n0

  (** val abs : z -> z **)

  let abs = function
  | Zneg p -> Zpos p
  | x -> x

  (** val to_nat : z -> nat **)

  let to_nat = function
  | Zpos p -> Coq_Pos.to_nat p
  | _ -> O

  (** val of_nat : nat -> z **)

  let of_nat = function
  | O -> Z0
  | S n1 -> Zpos (Coq_Pos.of_succ_nat n1)

  (** val of_N : n -> z **)

  let of_N = function
  | N0 -> Z0
  | Npos p -> Zpos p

  (** val to_pos : z -> positive **)

  let to_pos = function
  | Zpos p -> p
  | _ -> XH

  (** val pos_div_eucl : positive -> z -> z * z **)

  let rec pos_div_eucl a b =
    match a with
    | XI a' ->
      let (q0, r) = pos_div_eucl a' b in
      let r' = add (mul (Zpos (XO XH)) r) (Zpos XH) in
      if ltb r' b
      then ((mul (Zpos (XO XH)) q0), r')
      else ((add (mul (Zpos (XO XH)) q0) (Zpos XH)), (sub r' b))
    | XO a' ->
      let (q0, r) = pos_div_eucl a' b in
      let r' = mul (Zpos (XO XH)) r in
      if ltb r' b
      then ((mul (Zpos (XO XH)) q0), r')
      else ((add (mul (Zpos (XO XH)) q0) (Zpos XH)), (sub r' b))
    | XH -> if leb (Zpos (XO XH)) b then (Z0, (Zpos XH)) else ((Zpos XH), Z0)

  (** val div_eucl : z -> z -> z * z **)

  let div_eucl a b =
    match a with
    | Z0 -> (Z0, Z0)
    | Zpos a' ->
      (match b with
       | Z0 -> (Z0, a)
       | Zpos _ -> pos_div_eucl a' b
       | Zneg b' ->
         let (q0, r) = pos_div_eucl a' (Zpos b') in
         (match r with
          | Z0 -> ((opp q0), Z0)
          | _ -> ((opp (add q0 (Zpos XH))), (add b r))))
    | Zneg a' ->
      (match b with
       | Z0 -> (Z0, a)
       | Zpos _ ->
         let (q0, r) = pos_div_eucl a' b in
         (match r with
          | Z0 -> ((opp q0), Z0)
          | _ -> ((opp (add q0 (Zpos XH))), (sub b r)))
       | Zneg b' -> let (q0, r) = pos_div_eucl a' (Zpos b') in (q0, (opp r)))

  (** val div : z -> z -> z **)

  let div a b =
    let (q0, _) = div_eucl a b in q0

  (** val modulo : z -> z -> z **)

  let modulo a b =
    let (_, r) = div_eucl a b in r

  (** val ggcd : z -> z -> z * (z * z) **)

  let ggcd a b =
    match a with
    | Z0 -> ((abs b), (Z0, (sgn b)))
    | Zpos a0 ->
      (match b with
       | Z0 -> ((abs a), ((sgn a), Z0))
       | Zpos b0 ->
         let (g, p) = Coq_Pos.ggcd a0 b0 in
         let (aa, bb) = p in ((Zpos g), ((Zpos aa), (Zpos bb)))
       | Zneg b0 ->
         let (g, p) = Coq_Pos.ggcd a0 b0 in
         let (aa, bb) = p in ((Zpos g), ((Zpos aa), (Zneg bb))))
    | Zneg a0 ->
      (match b with
       | Z0 -> ((abs a), ((sgn a), Z0))
       | Zpos b0 ->
         let (g, p) = Coq_Pos.ggcd a0 b0 in
         let (aa, bb) = p in ((Zpos g), ((Zneg aa), (Zpos bb)))
       | Zneg b0 ->
         let (g, p) = Coq_Pos.ggcd a0 b0 in
         let (aa, bb) = p in ((Zpos g), ((Zneg aa), (Zneg bb))))
 end

(** val zeq_bool : z -> z -> bool **)

let zeq_bool x y =
  match Z.compare x y with
  | Eq -> true
  | _ -> false

(** val hd : 'a1 -> 'a1 list -> 'a1 **)

let hd default = function
| [] -> default
| x :: _ -> x

(** val nth : nat -> 'a1 list -> 'a1 -> 'a1 **)

let rec nth n0 l default =
  match n0 with
  | O -> (match l with
          | [] -> default
          | x :: _ -> x)
  | S m -> (match l with
            | [] -> default
            | _ :: t -> nth m t default)

(** val nth_error : 'a1 list -> nat -> 'a1 option **)

let rec nth_error l = function
| O -> (match l with
        | [] -> None
        | x :: _ -> Some x)
| S n1 -> (match l with
           | [] -> None
           | _ :: l0 -> nth_error l0 n1)

(** val last : 'a1 list -> 'a1 -> 'a1 **)

let rec last l d =
  match l with
  | [] -> d
  | a :: l0 -> (match l0 with
                | [] -> a
                | _ :: _ -> last l0 d)

(** val removelast : 'a1 list -> 'a1 list **)

let rec removelast = function
| [] -> []
| a :: l0 -> (match l0 with
              | [] -> []
              | _ :: _ -> a :: (removelast l0))

(** val rev : 'a1 list -> 'a1 list **)

let rec rev = function
| [] -> []
| x :: l' -> app (rev l') (x :: [])

(** val concat : 'a1 list list -> 'a1 list **)

let rec concat = function
| [] -> []
| x :: l0 -> app x (concat l0)

(** val map : ('a1 -> 'a2) -> 'a1 list -> 'a2 list **)

let rec map f = function
| [] -> []
| a :: t -> (f a) :: (map f t)

(** val flat_map : ('a1 -> 'a2 list) -> 'a1 list -> 'a2 list **)

let rec flat_map f = function
| [] -> []
| x :: t -> app (f x) (flat_map f t)

(** val fold_left : ('a1 -> 'a2 -> 'a1) -> 'a2 list -> 'a1 -> 'a1 **)

let rec fold_left f l a0 =
  match l with
  | [] -> a0
  | b :: t -> fold_left f t (f a0 b)

(** val existsb : ('a1 -> bool) -> 'a1 list -> bool **)

let rec existsb f = function
| [] -> false
| a :: l0 -> (||) (f a) (existsb f l0)

(** val forallb : ('a1 -> bool) -> 'a1 list -> bool **)

let rec forallb f = function
| [] -> true
| a :: l0 -> (&&) (f a) (forallb f l0)

(** val combine : 'a1 list -> 'a2 list -> ('a1 * 'a2) list **)

let rec combine l l' =
  match l with
  | [] -> []
  | x :: tl ->
    (match l' with
     | [] -> []
     | y :: tl' -> (x, y) :: (combine tl tl'))

(** val seq : nat -> nat -> nat list **)

let rec seq start = function
| O -> []
| S len0 -> start :: (seq (S start) len0)

(** val repeat : 'a1 -> nat -> 'a1 list **)

let rec repeat x = function
| O -> []
| S k -> x :: (repeat x k)

type q = { qnum : z; qden : positive }

(** val inject_Z : z -> q **)

let inject_Z x =
  { qnum = x; qden = XH }

(** val qcompare : q -> q -> comparison **)

let qcompare p q0 =
  Z.compare (Z.mul p.qnum (Zpos q0.qden)) (Z.mul q0.qnum (Zpos p.qden))

(** val qeq_bool : q -> q -> bool **)

let qeq_bool x y =
  zeq_bool (Z.mul x.qnum (Zpos y.qden)) (Z.mul y.qnum (Zpos x.qden))

(** val qle_bool : q -> q -> bool **)

let qle_bool x y =
  Z.leb (Z.mul x.qnum (Zpos y.qden)) (Z.mul y.qnum (Zpos x.qden))

(** val qplus : q -> q -> q **)

let qplus x y =
  { qnum = (Z.add (Z.mul x.qnum (Zpos y.qden)) (Z.mul y.qnum (Zpos x.qden)));
    qden = (Coq_Pos.mul x.qden y.qden) }

(** val qmult : q -> q -> q **)

let qmult x y =
  { qnum = (Z.mul x.qnum y.qnum); qden = (Coq_Pos.mul x.qden y.qden) }

(** val qopp : q -> q **)

let qopp x =
  { qnum = (Z.opp x.qnum); qden = x.qden }

(** val qminus : q -> q -> q **)

let qminus x y =
  qplus x (qopp y)

(** val qinv : q -> q **)

let qinv x =
  match x.qnum with
  | Z0 -> { qnum = Z0; qden = XH }
  | Zpos p -> { qnum = (Zpos x.qden); qden = p }
  | Zneg p -> { qnum = (Zneg x.qden); qden = p }

(** val qdiv : q -> q -> q **)

let qdiv x y =
  qmult x (qinv y)

(** val qred : q -> q **)

let qred q0 =
  let { qnum = q1; qden = q2 } = q0 in
  let (r1, r2) = snd (Z.ggcd q1 (Zpos q2)) in
  { qnum = r1; qden = (Z.to_pos r2) }

(** val qfloor : q -> z **)

let qfloor x =
  let { qnum = n0; qden = d } = x in Z.div n0 (Zpos d)

(** val qabs : q -> q **)

let qabs x =
  let { qnum = n0; qden = d } = x in { qnum = (Z.abs n0); qden = d }

(** val qmax : q -> q -> q **)

let qmax =
  gmax qcompare

(** val qmin : q -> q -> q **)

let qmin =
  gmin qcompare

(** val merge_epsilon : q **)

let merge_epsilon =
  { qnum = (Zpos (XI (XO (XI (XI (XO (XO (XI (XI (XO (XO (XI (XI (XO (XO (XI
    (XI (XO (XO (XI (XI (XO (XO XH))))))))))))))))))))))); qden = (XO (XO (XO
    (XO (XO (XO (XO (XO (XO (XO (XO (XO (XO (XO (XO (XO (XO (XO (XO (XO (XO
    (XO (XO XH))))))))))))))))))))))) }

(** val merge_blend : q **)

let merge_blend =
  { qnum = (Zpos (XI (XO (XI (XI (XO (XO (XI (XI (XO (XO (XI (XI (XO (XO (XI
    (XI (XO (XO (XI (XI (XO (XO (XI XH)))))))))))))))))))))))); qden = (XO
    (XO (XO (XO (XO (XO (XO (XO (XO (XO (XO (XO (XO (XO (XO (XO (XO (XO (XO
    (XO (XO (XO (XO (XO (XO (XO XH)))))))))))))))))))))))))) }

(** val range_epsilon : q **)

let range_epsilon =
  { qnum = (Zpos (XI (XI (XI (XO (XI (XO (XO (XO (XI (XI (XI (XO (XI (XI (XO
    (XI (XI (XO (XO (XO (XI (XO (XI XH)))))))))))))))))))))))); qden = (XO
    (XO (XO (XO (XO (XO (XO (XO (XO (XO (XO (XO (XO (XO (XO (XO (XO (XO (XO
    (XO (XO (XO (XO (XO (XO (XO (XO (XO (XO (XO (XO (XO (XO (XO (XO (XO (XO
    XH))))))))))))))))))))))))))))))))))))) }

(** val ray_reach : q **)

let ray_reach =
  { qnum = (Zpos (XI (XO (XI (XI (XO (XO (XI (XI (XO (XO (XI (XI (XO (XO (XI
    (XI (XO (XO (XI (XI (XO (XO (XI XH)))))))))))))))))))))))); qden = (XO
    (XO (XO (XO (XO (XO (XO (XO (XO (XO (XO (XO (XO (XO (XO (XO (XO (XO (XO
    (XO (XO (XO (XO XH))))))))))))))))))))))) }

(** val module_resolution : z **)

let module_resolution =
  Zpos (XO XH)

(** val qlt_bool : q -> q -> bool **)

let qlt_bool a b =
  negb (qle_bool b a)

type vec = { vx : q; vy : q; vz : q }

(** val vadd : vec -> vec -> vec **)

let vadd a b =
  { vx = (qplus a.vx b.vx); vy = (qplus a.vy b.vy); vz = (qplus a.vz b.vz) }

(** val vsub : vec -> vec -> vec **)

let vsub a b =
  { vx = (qminus a.vx b.vx); vy = (qminus a.vy b.vy); vz =
    (qminus a.vz b.vz) }

(** val vmul : vec -> q -> vec **)

let vmul a s =
  { vx = (qmult a.vx s); vy = (qmult a.vy s); vz = (qmult a.vz s) }

(** val vred : vec -> vec **)

let vred a =
  { vx = (qred a.vx); vy = (qred a.vy); vz = (qred a.vz) }

(** val dot : vec -> vec -> q **)

let dot a b =
  qplus (qplus (qmult a.vx b.vx) (qmult a.vy b.vy)) (qmult a.vz b.vz)

(** val cross : vec -> vec -> vec **)

let cross a b =
  { vx = (qminus (qmult a.vy b.vz) (qmult a.vz b.vy)); vy =
    (qminus (qmult a.vz b.vx) (qmult a.vx b.vz)); vz =
    (qminus (qmult a.vx b.vy) (qmult a.vy b.vx)) }

(** val veq_bool : vec -> vec -> bool **)

let veq_bool a b =
  (&&) ((&&) (qeq_bool a.vx b.vx) (qeq_bool a.vy b.vy)) (qeq_bool a.vz b.vz)

(** val qsgn : q -> q **)

let qsgn q0 =
  inject_Z (Z.sgn q0.qnum)

(** val isz : q -> bool **)

let isz q0 =
  qeq_bool q0 { qnum = Z0; qden = XH }

(** val normalize : vec -> vec **)

let normalize v =
  if (&&) (isz v.vx) (isz v.vz)
  then { vx = { qnum = Z0; qden = XH }; vy = (qsgn v.vy); vz = { qnum = Z0;
         qden = XH } }
  else if (&&) (isz v.vy) (isz v.vz)
       then { vx = (qsgn v.vx); vy = { qnum = Z0; qden = XH }; vz = { qnum =
              Z0; qden = XH } }
       else if (&&) (isz v.vx) (isz v.vy)
            then { vx = { qnum = Z0; qden = XH }; vy = { qnum = Z0; qden =
                   XH }; vz = (qsgn v.vz) }
            else v

(** val calc_normal : vec -> vec -> vec **)

let calc_normal c e =
  let pointA = vadd c { vx = e.vx; vy = e.vy; vz = { qnum = Z0; qden = XH } }
  in
  let pointB = vadd c { vx = { qnum = Z0; qden = XH }; vy = e.vy; vz = e.vz }
  in
  let vectorA = vsub pointA c in
  let vectorB = vsub pointB c in normalize (cross vectorB vectorA)

type quad = { qc : vec; qe : vec; qn : vec; qmerges : n }

type ray = { rfrom : vec; rto : vec }

(** val new_quad : vec -> vec -> n -> quad **)

let new_quad c e mc =
  { qc = c; qe = e; qn = (calc_normal c e); qmerges = mc }

(** val qmin0 : quad -> vec **)

let qmin0 q0 =
  vsub q0.qc q0.qe

(** val qmax0 : quad -> vec **)

let qmax0 q0 =
  vadd q0.qc q0.qe

(** val overlap : quad -> quad -> bool **)

let overlap a b =
  let minA = qmin0 a in
  let maxA = qmax0 a in
  let minB = qmin0 b in
  let maxB = qmax0 b in
  if qle_bool maxB.vx minA.vx
  then false
  else if qle_bool maxA.vx minB.vx
       then false
       else if qle_bool maxB.vz minA.vz
            then false
            else if qle_bool maxA.vz minB.vz then false else true

(** val in_range : q -> q -> q -> q -> bool **)

let in_range value lo hi eps =
  (&&) (qle_bool lo (qplus value eps)) (qle_bool (qminus value eps) hi)

(** val equal_eps : q -> q -> q -> bool **)

let equal_eps a b eps =
  qle_bool (qabs (qminus a b)) eps

(** val ray_quad : ray -> quad -> q option **)

let ray_quad r q0 =
  let dir = vsub r.rto r.rfrom in
  let den = dot q0.qn dir in
  if isz den
  then None
  else let t = qdiv (qminus (dot q0.qn q0.qc) (dot q0.qn r.rfrom)) den in
       if (&&) (qle_bool { qnum = Z0; qden = XH } t)
            (qle_bool t { qnum = (Zpos XH); qden = XH })
       then let hp = vadd r.rfrom (vmul dir t) in
            let mn = qmin0 q0 in
            let mx = qmax0 q0 in
            if (&&)
                 ((&&) (in_range hp.vx mn.vx mx.vx range_epsilon)
                   (in_range hp.vy mn.vy mx.vy range_epsilon))
                 (in_range hp.vz mn.vz mx.vz range_epsilon)
            then Some t
            else None
       else None

type cells_t = nat list list list

type grid = { g_res : z; g_planecount : n; g_mergecount : n; g_minx : 
              z; g_minz : z; g_maxx : z; g_maxz : z; g_cells : cells_t;
              g_planes : quad list }

(** val nrows : grid -> nat **)

let nrows g =
  length g.g_cells

(** val ncols : grid -> nat **)

let ncols g =
  length (hd [] g.g_cells)

(** val new_grid : nat -> nat -> z -> grid **)

let new_grid numCols numRows res =
  let numCols0 = match numCols with
                 | O -> S O
                 | S _ -> numCols in
  let numRows0 = match numRows with
                 | O -> S O
                 | S _ -> numRows in
  let res0 = if Z.leb res Z0 then Zpos XH else res in
  { g_res = res0; g_planecount = N0; g_mergecount = N0; g_minx = Z0; g_minz =
  Z0; g_maxx = res0; g_maxz = res0; g_cells =
  (repeat (repeat [] numCols0) numRows0); g_planes = [] }

(** val get_cell : cells_t -> nat -> nat -> nat list **)

let get_cell cs y x =
  nth x (nth y cs []) []

(** val upd_nth : nat -> ('a1 -> 'a1) -> 'a1 list -> 'a1 list **)

let rec upd_nth n0 f = function
| [] -> []
| a :: l' -> (match n0 with
              | O -> (f a) :: l'
              | S n' -> a :: (upd_nth n' f l'))

(** val upd_cell :
    cells_t -> nat -> nat -> (nat list -> nat list) -> cells_t **)

let upd_cell cs y x f =
  upd_nth y (upd_nth x f) cs

(** val cell_coord : z -> z -> q -> z **)

let cell_coord res mn v =
  qfloor (qdiv (qminus v (inject_Z mn)) (inject_Z res))

(** val cellx : grid -> q -> z **)

let cellx g v =
  cell_coord g.g_res g.g_minx v

(** val cellz : grid -> q -> z **)

let cellz g v =
  cell_coord g.g_res g.g_minz v

(** val ceil_div : z -> z -> z **)

let ceil_div a b =
  Z.opp (Z.div (Z.opp a) b)

(** val expand : grid -> vec -> grid **)

let expand g p =
  let px = p.vx in
  let pz = p.vz in
  let mnx = inject_Z g.g_minx in
  let mxx = inject_Z g.g_maxx in
  let mnz = inject_Z g.g_minz in
  let mxz = inject_Z g.g_maxz in
  let inx = (&&) (qle_bool mnx px) (qlt_bool px mxx) in
  let inz = (&&) (qle_bool mnz pz) (qlt_bool pz mxz) in
  if (&&) inx inz
  then g
  else let xCount0 =
         if inx
         then Z0
         else if qlt_bool px mnx
              then Z.abs (qfloor (qminus px mnx))
              else Z.add (qfloor (qabs (qminus px mxx))) (Zpos XH)
       in
       let yCount0 =
         if inz
         then Z0
         else if qlt_bool pz mnz
              then Z.abs (qfloor (qminus pz mnz))
              else Z.add (qfloor (qabs (qminus pz mxz))) (Zpos XH)
       in
       let xCountZ = ceil_div xCount0 g.g_res in
       let yCountZ = ceil_div yCount0 g.g_res in
       let xCount = Z.to_nat xCountZ in
       let yCount = Z.to_nat yCountZ in
       let curRowCount = ncols g in
       let left = qlt_bool px mnx in
       let up = qlt_bool pz mnz in
       let cells1 =
         if left
         then map (fun row -> app (repeat [] xCount) row) g.g_cells
         else map (fun row -> app row (repeat [] xCount)) g.g_cells
       in
       let newrow = repeat [] (add xCount curRowCount) in
       let cells2 =
         if up
         then app (repeat newrow yCount) cells1
         else app cells1 (repeat newrow yCount)
       in
       { g_res = g.g_res; g_planecount = g.g_planecount; g_mergecount =
       g.g_mergecount; g_minx =
       (if left then Z.sub g.g_minx (Z.mul xCountZ g.g_res) else g.g_minx);
       g_minz =
       (if up then Z.sub g.g_minz (Z.mul yCountZ g.g_res) else g.g_minz);
       g_maxx =
       (if left then g.g_maxx else Z.add g.g_maxx (Z.mul xCountZ g.g_res));
       g_maxz =
       (if up then g.g_maxz else Z.add g.g_maxz (Z.mul yCountZ g.g_res));
       g_cells = cells2; g_planes = g.g_planes }

type ext =
| Fin of q
| PInf

(** val ext_ltb : ext -> ext -> bool **)

let ext_ltb a b =
  match a with
  | Fin x -> (match b with
              | Fin y -> qlt_bool x y
              | PInf -> true)
  | PInf -> false

(** val scan_cell :
    ray -> quad list -> nat list -> nat option -> ext -> nat option * ext **)

let rec scan_cell r planes ids best tmin =
  match ids with
  | [] -> (best, tmin)
  | id :: rest ->
    (match nth_error planes id with
     | Some q0 ->
       (match ray_quad r q0 with
        | Some t ->
          if ext_ltb (Fin t) tmin
          then scan_cell r planes rest (Some id) (Fin t)
          else scan_cell r planes rest best tmin
        | None -> scan_cell r planes rest best tmin)
     | None -> scan_cell r planes rest best tmin)

type ires =
| IRes of nat option * ext
| IPanic

(** val miss : ires **)

let miss =
  IRes (None, (Fin { qnum = (Zneg XH); qden = XH }))

(** val intersect_cell : grid -> ray -> ires **)

let intersect_cell g r =
  let cx = cellx g r.rfrom.vx in
  let cy = cellz g r.rfrom.vz in
  if (||) (Z.ltb cx Z0) (Z.leb (Z.of_nat (ncols g)) cx)
  then miss
  else if (||) (Z.ltb cy Z0) (Z.leb (Z.of_nat (nrows g)) cy)
       then miss
       else let (best, tmin) =
              scan_cell r g.g_planes
                (get_cell g.g_cells (Z.to_nat cy) (Z.to_nat cx)) None PInf
            in
            IRes (best, tmin)

type dlt =
| DFin of q
| DInf
| DNaN

(** val uint_of_Z : z -> z **)

let uint_of_Z z0 =
  if Z.ltb z0 Z0
  then Z.add (Zpos (XO (XO (XO (XO (XO (XO (XO (XO (XO (XO (XO (XO (XO (XO
         (XO (XO (XO (XO (XO (XO (XO (XO (XO (XO (XO (XO (XO (XO (XO (XO (XO
         (XO (XO (XO (XO (XO (XO (XO (XO (XO (XO (XO (XO (XO (XO (XO (XO (XO
         (XO (XO (XO (XO (XO (XO (XO (XO (XO (XO (XO (XO (XO (XO (XO (XO
         XH)))))))))))))))))))))))))))))))))))))))))))))))))))))))))))))))))
         z0
  else z0

(** val step_fuel : nat **)

let step_fuel =
  S (S (S (S (S (S (S (S (S (S (S (S (S (S (S (S (S (S (S (S (S (S (S (S (S
    (S (S (S (S (S (S (S (S (S (S (S (S (S (S (S (S (S (S (S (S (S (S (S (S
    (S (S (S (S (S (S (S (S (S (S (S (S (S (S (S (S (S (S (S (S (S (S (S (S
    (S (S (S (S (S (S (S (S (S (S (S (S (S (S (S (S (S (S (S (S (S (S (S (S
    (S (S (S (S (S (S (S (S (S (S (S (S (S (S (S (S (S (S (S (S (S (S (S (S
    (S (S (S (S (S (S (S (S (S (S (S (S (S (S (S (S (S (S (S (S (S (S (S (S
    (S (S (S (S (S (S (S (S (S (S (S (S (S (S (S (S (S (S (S (S (S (S (S (S
    (S (S (S (S (S (S (S (S (S (S (S (S (S (S (S (S (S (S (S (S (S (S (S (S
    (S (S (S (S (S (S (S (S (S (S (S (S (S (S (S (S (S (S (S (S (S (S (S (S
    (S (S (S (S (S (S (S (S (S (S (S (S (S (S (S (S (S (S (S (S (S (S (S (S
    (S (S (S (S (S (S (S (S (S (S (S (S (S (S (S (S (S (S (S (S (S (S (S (S
    (S (S (S (S (S (S (S (S (S (S (S (S (S (S (S (S (S (S (S (S (S (S (S (S
    (S (S (S (S (S (S (S (S (S (S (S (S (S (S (S (S (S (S (S (S (S (S (S (S
    (S (S (S (S (S (S (S (S (S (S (S (S (S (S (S (S (S (S (S (S (S (S (S (S
    (S (S (S (S (S (S (S (S (S (S (S (S (S (S (S (S (S (S (S (S (S (S (S (S
    (S (S (S (S (S (S (S (S (S (S (S (S (S (S (S (S (S (S (S (S (S (S (S (S
    (S (S (S (S (S (S (S (S (S (S (S (S (S (S (S (S (S (S (S (S (S (S (S (S
    (S (S (S (S (S (S (S (S (S (S (S (S (S (S (S (S (S (S (S (S (S (S (S (S
    (S (S (S (S (S (S (S (S (S (S (S (S (S (S (S (S (S (S (S (S (S (S (S (S
    (S (S (S (S (S (S (S (S (S (S (S (S (S (S (S (S (S (S (S (S (S (S (S (S
    (S (S (S (S (S (S (S (S (S (S (S (S (S (S (S (S (S (S (S (S (S (S (S (S
    (S (S (S (S (S (S (S (S (S (S (S (S (S (S (S (S (S (S (S (S (S (S (S (S
    (S (S (S (S (S (S (S (S (S (S (S (S (S (S (S (S (S (S (S (S (S (S (S (S
    (S (S (S (S (S (S (S (S (S (S (S (S (S (S (S (S (S (S (S (S (S (S (S (S
    (S (S (S (S (S (S (S (S (S (S (S (S (S (S (S (S (S (S (S (S (S (S (S (S
    (S (S (S (S (S (S (S (S (S (S (S (S (S (S (S (S (S (S (S (S (S (S (S (S
    (S (S (S (S (S (S (S (S (S (S (S (S (S (S (S (S (S (S (S (S (S (S (S (S
    (S (S (S (S (S (S (S (S (S (S (S (S (S (S (S (S (S (S (S (S (S (S (S (S
    (S (S (S (S (S (S (S (S (S (S (S (S (S (S (S (S (S (S (S (S (S (S (S (S
    (S (S (S (S (S (S (S (S (S (S (S (S (S (S (S (S (S (S (S (S (S (S (S (S
    (S (S (S (S (S (S (S (S (S (S (S (S (S (S (S (S (S (S (S (S (S (S (S (S
    (S (S (S (S (S (S (S (S (S (S (S (S (S (S (S (S (S (S (S (S (S (S (S (S
    (S (S (S (S (S (S (S (S (S (S (S (S (S (S (S (S (S (S (S (S (S (S (S (S
    (S (S (S (S (S (S (S (S (S (S (S (S (S (S (S (S (S (S (S (S (S (S (S (S
    (S (S (S (S (S (S (S (S (S (S (S (S (S (S (S (S (S (S (S (S (S (S (S (S
    (S (S (S (S (S (S (S (S (S (S (S (S (S (S (S (S (S (S (S (S (S (S (S (S
    (S (S (S (S (S (S (S (S (S (S (S (S (S (S (S (S (S (S (S (S (S (S (S (S
    (S (S (S (S (S (S (S (S (S (S (S (S (S (S (S (S (S (S (S (S (S (S (S (S
    (S (S (S (S (S (S (S (S (S (S (S (S (S (S (S (S (S (S (S (S (S (S (S (S
    (S (S (S (S (S (S (S (S (S (S (S (S (S (S (S (S (S (S (S (S (S (S (S (S
    (S (S (S (S (S (S (S (S (S (S (S (S (S (S (S (S (S (S (S (S (S (S (S (S
    (S (S (S (S (S (S (S (S (S (S (S (S (S (S (S (S (S (S (S (S (S (S (S (S
    (S (S (S (S (S (S (S (S (S (S (S (S (S (S (S (S (S (S (S (S (S (S (S (S
    (S (S (S (S (S (S (S (S (S (S (S (S (S (S (S (S (S (S (S (S (S (S (S (S
    (S (S (S (S (S (S (S (S (S (S (S (S (S (S (S (S (S (S (S (S (S (S (S (S
    (S (S (S (S (S (S (S (S (S (S (S (S (S (S (S (S (S (S (S (S (S (S (S (S
    (S (S (S (S (S (S (S (S (S (S (S (S (S (S (S (S (S (S (S (S (S (S (S (S
    (S (S (S (S (S (S (S (S (S (S (S (S (S (S (S (S (S (S (S (S (S (S (S (S
    (S (S (S (S (S (S (S (S (S (S (S (S (S (S (S (S (S (S (S (S (S (S (S (S
    (S (S (S (S (S (S (S (S (S (S (S (S (S (S (S (S (S (S (S (S (S (S (S (S
    (S (S (S (S (S (S (S (S (S (S (S (S (S (S (S (S (S (S (S (S (S (S (S (S
    (S (S (S (S (S (S (S (S (S (S (S (S (S (S (S (S (S (S (S (S (S (S (S (S
    (S (S (S (S (S (S (S (S (S (S (S (S (S (S (S (S (S (S (S (S (S (S (S (S
    (S (S (S (S (S (S (S (S (S (S (S (S (S (S (S (S (S (S (S (S (S (S (S (S
    (S (S (S (S (S (S (S (S (S (S (S (S (S (S (S (S (S (S (S (S (S (S (S (S
    (S (S (S (S (S (S (S (S (S (S (S (S (S (S (S (S (S (S (S (S (S (S (S (S
    (S (S (S (S (S (S (S (S (S (S (S (S (S (S (S (S (S (S (S (S (S (S (S (S
    (S (S (S (S (S (S (S (S (S (S (S (S (S (S (S (S (S (S (S (S (S (S (S (S
    (S (S (S (S (S (S (S (S (S (S (S (S (S (S (S (S (S (S (S (S (S (S (S (S
    (S (S (S (S (S (S (S (S (S (S (S (S (S (S (S (S (S (S (S (S (S (S (S (S
    (S (S (S (S (S (S (S (S (S (S (S (S (S (S (S (S (S (S (S (S (S (S (S (S
    (S (S (S (S (S (S (S (S (S (S (S (S (S (S (S (S (S (S (S (S (S (S (S (S
    (S (S (S (S (S (S (S (S (S (S (S (S (S (S (S (S (S (S (S (S (S (S (S (S
    (S (S (S (S (S (S (S (S (S (S (S (S (S (S (S (S (S (S (S (S (S (S (S (S
    (S (S (S (S (S (S (S (S (S (S (S (S (S (S (S (S (S (S (S (S (S (S (S (S
    (S (S (S (S (S (S (S (S (S (S (S (S (S (S (S (S (S (S (S (S (S (S (S (S
    (S (S (S (S (S (S (S (S (S (S (S (S (S (S (S (S (S (S (S (S (S (S (S (S
    (S (S (S (S (S (S (S (S (S (S (S (S (S (S (S (S (S (S (S (S (S (S (S (S
    (S (S (S (S (S (S (S (S (S (S (S (S (S (S (S (S (S (S (S (S (S (S (S (S
    (S (S (S (S (S (S (S (S (S (S (S (S (S (S (S (S (S (S (S (S (S (S (S (S
    (S (S (S (S (S (S (S (S (S (S (S (S (S (S (S (S (S (S (S (S (S (S (S (S
    (S (S (S (S (S (S (S (S (S (S (S (S (S (S (S (S (S (S (S (S (S (S (S (S
    (S (S (S (S (S (S (S (S (S (S (S (S (S (S (S (S (S (S (S (S (S (S (S (S
    (S (S (S (S (S (S (S (S (S (S (S (S (S (S (S (S (S (S (S (S (S (S (S (S
    (S (S (S (S (S (S (S (S (S (S (S (S (S (S (S (S (S (S (S (S (S (S (S (S
    (S (S (S (S (S (S (S (S (S (S (S (S (S (S (S (S (S (S (S (S (S (S (S (S
    (S (S (S (S (S (S (S (S (S (S (S (S (S (S (S (S (S (S (S (S (S (S (S (S
    (S (S (S (S (S (S (S (S (S (S (S (S (S (S (S (S (S (S (S (S (S (S (S (S
    (S (S (S (S (S (S (S (S (S (S (S (S (S (S (S (S (S (S (S (S (S (S (S (S
    (S (S (S (S (S (S (S (S (S (S (S (S (S (S (S (S (S (S (S (S (S (S (S (S
    (S (S (S (S (S (S (S (S (S (S (S (S (S (S (S (S (S (S (S (S (S (S (S (S
    (S (S (S (S (S (S (S (S (S (S (S (S (S (S (S (S (S (S (S (S (S (S (S (S
    (S (S (S (S (S (S (S (S (S (S (S (S (S (S (S (S (S (S (S (S (S (S (S (S
    (S (S (S (S (S (S (S
    O)))))))))))))))))))))))))))))))))))))))))))))))))))))))))))))))))))))))))))))))))))))))))))))))))))))))))))))))))))))))))))))))))))))))))))))))))))))))))))))))))))))))))))))))))))))))))))))))))))))))))))))))))))))))))))))))))))))))))))))))))))))))))))))))))))))))))))))))))))))))))))))))))))))))))))))))))))))))))))))))))))))))))))))))))))))))))))))))))))))))))))))))))))))))))))))))))))))))))))))))))))))))))))))))))))))))))))))))))))))))))))))))))))))))))))))))))))))))))))))))))))))))))))))))))))))))))))))))))))))))))))))))))))))))))))))))))))))))))))))))))))))))))))))))))))))))))))))))))))))))))))))))))))))))))))))))))))))))))))))))))))))))))))))))))))))))))))))))))))))))))))))))))))))))))))))))))))))))))))))))))))))))))))))))))))))))))))))))))))))))))))))))))))))))))))))))))))))))))))))))))))))))))))))))))))))))))))))))))))))))))))))))))))))))))))))))))))))))))))))))))))))))))))))))))))))))))))))))))))))))))))))))))))))))))))))))))))))))))))))))))))))))))))))))))))))))))))))))))))))))))))))))))))))))))))))))))))))))))))))))))))))))))))))))))))))))))))))))))))))))))))))))))))))))))))))))))))))))))))))))))))))))))))))))))))))))))))))))))))))))))))))))))))))))))))))))))))))))))))))))))))))))))))))))))))))))))))))))))))))))))))))))))))))))))))))))))))))))))))))))))))))))))))))))))))))))))))))))))))))))))))))))))))))))))))))))))))))))))))))))))))))))))))))))))))))))))))))))))))))))))))))))))))))))))))))))))))))))))))))))))))))))))))))))))))))))))))))))))))))))))))))))))))))))))))))))))))))))))))))))))))))))))))))))))))))))))))))))))))))))))))))))))))))))))))))))))))))))))))))))))))))))))))))))))))))))))))))))))))))))))))))))))))))))))))))))))))))))))))))))))))))))))))))))))))))))))))))))))))))))))))))))))))))))))))))))))))))))))))))))))))))))))))))))))))))))))))))))))))))))))))))))))))))))))))))))))))))))))))))))))))))))))))))))))))))))))))))))))))))))))))))))))))))))))))))))))))))))))))))))))))))))))))))))))))))))))))))))))))))))))))))))))))))))))))))))))))))))))))))))

(** val step_loop :
    nat -> grid -> ray -> q -> q -> q -> q -> dlt -> dlt -> q -> ires **)

let rec step_loop fuel g r fx fz dx dz dtx dty t =
  match fuel with
  | O -> IPanic
  | S fuel' ->
    let hz = qplus fz (qmult dz t) in
    let cellY = uint_of_Z (cellz g hz) in
    let cellX = Z.min cellY (Z.sub (Z.of_nat (nrows g)) (Zpos XH)) in
    if Z.leb (Z.of_nat (nrows g)) cellY
    then IPanic
    else if Z.leb (Z.of_nat (length (nth (Z.to_nat cellY) g.g_cells [])))
              cellX
         then IPanic
         else let (best, tmin) =
                scan_cell r g.g_planes
                  (get_cell g.g_cells (Z.to_nat cellY) (Z.to_nat cellX)) None
                  PInf
              in
              (match best with
               | Some id -> IRes ((Some id), tmin)
               | None ->
                 let next =
                   match dtx with
                   | DFin a ->
                     (match dty with
                      | DFin b ->
                        if qlt_bool a b
                        then Some (qplus t a)
                        else Some (qplus t b)
                      | DInf -> Some (qplus t a)
                      | DNaN -> None)
                   | _ ->
                     (match dty with
                      | DFin b -> Some (qplus t b)
                      | _ -> None)
                 in
                 (match next with
                  | Some t' ->
                    if qlt_bool { qnum = (Zpos XH); qden = XH } t'
                    then miss
                    else step_loop fuel' g r fx fz dx dz dtx dty t'
                  | None -> miss))

(** val intersect_step : grid -> ray -> ires **)

let intersect_step g r =
  let fx = r.rfrom.vx in
  let fz = r.rfrom.vz in
  let dx = qminus r.rto.vx fx in
  let dz = qminus r.rto.vz fz in
  let mnx = inject_Z g.g_minx in
  let mxx = inject_Z g.g_maxx in
  let mnz = inject_Z g.g_minz in
  let mxz = inject_Z g.g_maxz in
  let xt =
    if qlt_bool fx mnx
    then if qlt_bool dx (qminus mnx fx)
         then None
         else Some (qdiv (qminus mnx fx) dx)
    else if qlt_bool mxx fx
         then if qlt_bool (qminus mxx fx) dx
              then None
              else Some (qdiv (qminus mxx fx) dx)
         else Some { qnum = Z0; qden = XH }
  in
  (match xt with
   | Some xt0 ->
     let zt =
       if qlt_bool fz mnz
       then if qlt_bool dz (qminus mnz fz)
            then None
            else Some (qdiv (qminus mnz fz) dz)
       else if qlt_bool mxz fz
            then if qlt_bool (qminus mxz fz) dz
                 then None
                 else Some (qdiv (qminus mxz fz) dz)
            else Some { qnum = Z0; qden = XH }
     in
     (match zt with
      | Some zt0 ->
        let delta = fun lo hi f d n0 ->
          if isz d
          then if (||) (qeq_bool lo f) (qeq_bool hi f) then DNaN else DInf
          else DFin
                 (qdiv
                   (qabs
                     (qminus (qdiv (qminus hi f) d) (qdiv (qminus lo f) d)))
                   (inject_Z (Z.of_nat n0)))
        in
        let dtx = delta mnx mxx fx dx (ncols g) in
        let dty = delta mnz mxz fz dz (nrows g) in
        let t0 = if qlt_bool zt0 xt0 then xt0 else zt0 in
        step_loop step_fuel g r fx fz dx dz dtx dty t0
      | None -> miss)
   | None -> miss)

(** val grid_intersect : grid -> ray -> ires **)

let grid_intersect g r =
  let dx = qminus r.rto.vx r.rfrom.vx in
  let dz = qminus r.rto.vz r.rfrom.vz in
  if (&&) (isz dx) (isz dz) then intersect_cell g r else intersect_step g r

(** val range_incl : nat -> nat -> nat list **)

let range_incl a b =
  seq a (sub (S b) a)

(** val range_excl : nat -> nat -> nat list **)

let range_excl a b =
  seq a (sub b a)

(** val find_idx : nat -> nat list -> nat option **)

let rec find_idx id = function
| [] -> None
| a :: l' ->
  if Nat.eqb a id then Some O else option_map (fun x -> S x) (find_idx id l')

(** val swap_remove : nat -> nat list -> nat list **)

let swap_remove id l =
  match find_idx id l with
  | Some i -> removelast (upd_nth i (fun _ -> last l O) l)
  | None -> l

(** val strip :
    cells_t -> nat list -> nat list -> (nat list -> nat list) -> cells_t **)

let strip cs ys xs f =
  fold_left (fun cs0 y -> fold_left (fun cs1 x -> upd_cell cs1 y x f) xs cs0)
    ys cs

(** val footprint : grid -> quad -> ((nat * nat) * nat) * nat **)

let footprint g q0 =
  ((((Z.to_nat (cellx g (qmin0 q0).vx)), (Z.to_nat (cellz g (qmin0 q0).vz))),
    (Z.to_nat (cellx g (qmax0 q0).vx))), (Z.to_nat (cellz g (qmax0 q0).vz)))

(** val blend_quad : quad -> quad -> quad **)

let blend_quad e n0 =
  { qc = (vred (vadd e.qc (vmul (vsub n0.qc e.qc) merge_blend))); qe =
    (vred (vadd e.qe (vmul (vsub n0.qe e.qe) merge_blend))); qn = e.qn;
    qmerges = (N.add e.qmerges (Npos XH)) }

(** val set_plane : grid -> nat -> quad -> cells_t -> n -> grid **)

let set_plane g id q0 cs mc =
  { g_res = g.g_res; g_planecount = g.g_planecount; g_mergecount = mc;
    g_minx = g.g_minx; g_minz = g.g_minz; g_maxx = g.g_maxx; g_maxz =
    g.g_maxz; g_cells = cs; g_planes = (upd_nth id (fun _ -> q0) g.g_planes) }

(** val merge_cells :
    cells_t -> nat -> nat -> nat -> nat -> nat -> nat -> nat -> nat -> nat ->
    cells_t **)

let merge_cells cs hit x0m y0m x0M y0M x1m y1m x1M y1M =
  let expandLeft = Nat.ltb x1m x0m in
  let minMinX = if expandLeft then x1m else x0m in
  let maxMinX = if expandLeft then x0m else x1m in
  let shrinkRight = Nat.ltb x1M x0M in
  let minMaxX = if shrinkRight then x1M else x0M in
  let maxMaxX = if shrinkRight then x0M else x1M in
  let expandTop = Nat.ltb y1m y0m in
  let minMinY = if expandTop then y1m else y0m in
  let maxMinY = if expandTop then y0m else y1m in
  let shrinkBottom = Nat.ltb y1M y0M in
  let minMaxY = if shrinkBottom then y1M else y0M in
  let maxMaxY = if shrinkBottom then y0M else y1M in
  let add0 = fun l -> app l (hit :: []) in
  let del = swap_remove hit in
  let cs0 =
    strip cs (range_incl minMinY maxMaxY) (range_excl minMinX maxMinX)
      (if expandLeft then add0 else del)
  in
  let cs1 =
    strip cs0 (range_incl minMinY maxMaxY)
      (rev (range_incl (S minMaxX) maxMaxX))
      (if shrinkRight then del else add0)
  in
  let cs2 =
    strip cs1 (range_excl minMinY maxMinY) (range_incl maxMinX minMaxX)
      (if expandTop then add0 else del)
  in
  strip cs2 (rev (range_incl (S minMaxY) maxMaxY))
    (range_incl maxMinX minMaxX) (if shrinkBottom then del else add0)

(** val merge_quads : grid -> nat -> quad -> grid **)

let merge_quads g hit nq =
  match nth_error g.g_planes hit with
  | Some eq ->
    let (p, y0M) = footprint g eq in
    let (p0, x0M) = p in
    let (x0m, y0m) = p0 in
    let eq' = blend_quad eq nq in
    let (p1, y1M) = footprint g eq' in
    let (p2, x1M) = p1 in
    let (x1m, y1m) = p2 in
    set_plane g hit eq'
      (merge_cells g.g_cells hit x0m y0m x0M y0M x1m y1m x1M y1M)
      (N.add g.g_mergecount (Npos XH))
  | None -> g

type qref =
| QNew
| QOld of nat

(** val deref : grid -> quad -> qref -> quad option **)

let deref g q0 = function
| QNew -> Some q0
| QOld id -> nth_error g.g_planes id

(** val merge_fuel : nat **)

let merge_fuel =
  S (S (S (S (S (S (S (S (S (S (S (S (S (S (S (S (S (S (S (S (S (S (S (S (S
    (S (S (S (S (S (S (S (S (S (S (S (S (S (S (S (S (S (S (S (S (S (S (S (S
    (S (S (S (S (S (S (S (S (S (S (S (S (S (S (S (S (S (S (S (S (S (S (S (S
    (S (S (S (S (S (S (S (S (S (S (S (S (S (S (S (S (S (S (S (S (S (S (S (S
    (S (S (S (S (S (S (S (S (S (S (S (S (S (S (S (S (S (S (S (S (S (S (S (S
    (S (S (S (S (S (S (S (S (S (S (S (S (S (S (S (S (S (S (S (S (S (S (S (S
    (S (S (S (S (S (S (S (S (S (S (S (S (S (S (S (S (S (S (S (S (S (S (S (S
    (S (S (S (S (S (S (S (S (S (S (S (S (S (S (S (S (S (S (S (S (S (S (S (S
    (S (S (S (S (S (S (S (S (S (S (S (S (S (S (S (S (S (S (S (S (S (S (S (S
    (S (S (S (S (S (S (S (S (S (S (S (S (S (S (S (S (S (S (S (S (S (S (S (S
    (S (S (S (S (S (S (S (S (S (S (S (S (S (S (S (S (S (S (S (S (S (S (S (S
    (S (S (S (S (S (S (S (S (S (S (S (S (S (S (S (S (S (S (S (S (S (S (S (S
    (S (S (S (S (S (S (S (S (S (S (S (S (S (S (S (S (S (S (S (S (S (S (S (S
    (S (S (S (S (S (S (S (S (S (S (S (S (S (S (S (S (S (S (S (S (S (S (S (S
    (S (S (S (S (S (S (S (S (S (S (S (S (S (S (S (S (S (S (S (S (S (S (S (S
    (S (S (S (S (S (S (S (S (S (S (S (S (S (S (S (S (S (S (S (S (S (S (S (S
    (S (S (S (S (S (S (S (S (S (S (S (S (S (S (S (S (S (S (S (S (S (S (S (S
    (S (S (S (S (S (S (S (S (S (S (S (S (S (S (S (S (S (S (S (S (S (S (S (S
    (S (S (S (S (S (S (S (S (S (S (S (S (S (S (S (S (S (S (S (S (S (S (S (S
    (S (S (S (S (S (S (S (S (S (S (S (S (S (S (S (S (S (S (S (S (S (S (S (S
    (S (S (S (S (S (S (S (S (S (S (S (S (S (S (S (S (S (S (S (S (S (S (S (S
    (S (S (S (S (S (S (S (S (S (S (S (S (S (S (S (S (S (S (S (S (S (S (S (S
    (S (S (S (S (S (S (S (S (S (S (S (S (S (S (S (S (S (S (S (S (S (S (S (S
    (S (S (S (S (S (S (S (S (S (S (S (S (S (S (S (S (S (S (S (S (S (S (S (S
    (S (S (S (S (S (S (S (S (S (S (S (S (S (S (S (S (S (S (S (S (S (S (S (S
    (S (S (S (S (S (S (S (S (S (S (S (S (S (S (S (S (S (S (S (S (S (S (S (S
    (S (S (S (S (S (S (S (S (S (S (S (S (S (S (S (S (S (S (S (S (S (S (S (S
    (S (S (S (S (S (S (S (S (S (S (S (S (S (S (S (S (S (S (S (S (S (S (S (S
    (S (S (S (S (S (S (S (S (S (S (S (S (S (S (S (S (S (S (S (S (S (S (S (S
    (S (S (S (S (S (S (S (S (S (S (S (S (S (S (S (S (S (S (S (S (S (S (S (S
    (S (S (S (S (S (S (S (S (S (S (S (S (S (S (S (S (S (S (S (S (S (S (S (S
    (S (S (S (S (S (S (S (S (S (S (S (S (S (S (S (S (S (S (S (S (S (S (S (S
    (S (S (S (S (S (S (S (S (S (S (S (S (S (S (S (S (S (S (S (S (S (S (S (S
    (S (S (S (S (S (S (S (S (S (S (S (S (S (S (S (S (S (S (S (S (S (S (S (S
    (S (S (S (S (S (S (S (S (S (S (S (S (S (S (S (S (S (S (S (S (S (S (S (S
    (S (S (S (S (S (S (S (S (S (S (S (S (S (S (S (S (S (S (S (S (S (S (S (S
    (S (S (S (S (S (S (S (S (S (S (S (S (S (S (S (S (S (S (S (S (S (S (S (S
    (S (S (S (S (S (S (S (S (S (S (S (S (S (S (S (S (S (S (S (S (S (S (S (S
    (S (S (S (S (S (S (S (S (S (S (S (S (S (S (S (S (S (S (S (S (S (S (S (S
    (S (S (S (S (S (S (S (S (S (S (S (S (S (S (S (S (S (S (S (S (S (S (S (S
    (S (S (S (S (S (S (S (S (S (S (S (S (S (S (S (S (S (S (S (S (S (S (S (S
    (S (S (S (S (S (S (S (S (S (S (S (S (S (S (S
    O)))))))))))))))))))))))))))))))))))))))))))))))))))))))))))))))))))))))))))))))))))))))))))))))))))))))))))))))))))))))))))))))))))))))))))))))))))))))))))))))))))))))))))))))))))))))))))))))))))))))))))))))))))))))))))))))))))))))))))))))))))))))))))))))))))))))))))))))))))))))))))))))))))))))))))))))))))))))))))))))))))))))))))))))))))))))))))))))))))))))))))))))))))))))))))))))))))))))))))))))))))))))))))))))))))))))))))))))))))))))))))))))))))))))))))))))))))))))))))))))))))))))))))))))))))))))))))))))))))))))))))))))))))))))))))))))))))))))))))))))))))))))))))))))))))))))))))))))))))))))))))))))))))))))))))))))))))))))))))))))))))))))))))))))))))))))))))))))))))))))))))))))))))))))))))))))))))))))))))))))))))))))))))))))))))))))))))))))))))))))))))))))))))))))))))))))))))))))))))))))))))))))))))))))))))))))))))))))))))))))))))))))))))))))))))))))))))))))))))))))))))))))))))))))))))))))))))))))))))))))))))))))))))))))))))))))))))))))))))))))))))))))))))))))))))))))))))))))))))))))

(** val vertical_ray : vec -> q -> ray **)

let vertical_ray c dy =
  { rfrom = c; rto = { vx = c.vx; vy = (qplus c.vy dy); vz = c.vz } }

(** val ires_hit : ires -> nat option **)

let ires_hit = function
| IRes (h, _) -> h
| IPanic -> None

(** val ires_t : ires -> ext **)

let ires_t = function
| IRes (_, t) -> t
| IPanic -> Fin { qnum = (Zneg XH); qden = XH }

(** val merge_loop : nat -> grid -> quad -> qref -> grid * qref option **)

let rec merge_loop fuel g q0 cur =
  match fuel with
  | O -> (g, None)
  | S fuel' ->
    (match deref g q0 cur with
     | Some qm ->
       let up = grid_intersect g (vertical_ray qm.qc ray_reach) in
       let down = grid_intersect g (vertical_ray qm.qc (qopp ray_reach)) in
       (match ires_hit up with
        | Some n0 ->
          let hit =
            if ext_ltb (ires_t down) (ires_t up)
            then ires_hit down
            else Some n0
          in
          (match hit with
           | Some h ->
             (match nth_error g.g_planes h with
              | Some hq ->
                if (&&) (equal_eps hq.qc.vy qm.qc.vy merge_epsilon)
                     (overlap hq qm)
                then let g' = merge_quads g h qm in
                     (match nth_error g'.g_planes h with
                      | Some hq' ->
                        (match deref g' q0 cur with
                         | Some qm' ->
                           if veq_bool hq'.qc qm'.qc
                           then (g', None)
                           else merge_loop fuel' g' q0 (QOld h)
                         | None -> (g', None))
                      | None -> (g', None))
                else (g, (Some cur))
              | None -> (g, (Some cur)))
           | None -> (g, (Some cur)))
        | None ->
          (match ires_hit down with
           | Some n0 ->
             let hit =
               if ext_ltb (ires_t down) (ires_t up) then Some n0 else None
             in
             (match hit with
              | Some h ->
                (match nth_error g.g_planes h with
                 | Some hq ->
                   if (&&) (equal_eps hq.qc.vy qm.qc.vy merge_epsilon)
                        (overlap hq qm)
                   then let g' = merge_quads g h qm in
                        (match nth_error g'.g_planes h with
                         | Some hq' ->
                           (match deref g' q0 cur with
                            | Some qm' ->
                              if veq_bool hq'.qc qm'.qc
                              then (g', None)
                              else merge_loop fuel' g' q0 (QOld h)
                            | None -> (g', None))
                         | None -> (g', None))
                   else (g, (Some cur))
                 | None -> (g, (Some cur)))
              | None -> (g, (Some cur)))
           | None -> (g, (Some cur))))
     | None -> (g, (Some cur)))

(** val append_plane : grid -> quad -> grid **)

let append_plane g q0 =
  let id = length g.g_planes in
  let (p, y1) = footprint g q0 in
  let (p0, x1) = p in
  let (x0, y0) = p0 in
  let ys = range_incl y0 (Nat.min y1 (sub (nrows g) (S O))) in
  let cs =
    fold_left (fun cs y ->
      fold_left (fun cs0 x -> upd_cell cs0 y x (fun l -> app l (id :: [])))
        (range_incl x0 (Nat.min x1 (sub (length (nth y cs [])) (S O)))) cs)
      ys g.g_cells
  in
  { g_res = g.g_res; g_planecount = (N.add g.g_planecount (Npos XH));
  g_mergecount = g.g_mergecount; g_minx = g.g_minx; g_minz = g.g_minz;
  g_maxx = g.g_maxx; g_maxz = g.g_maxz; g_cells = cs; g_planes =
  (app g.g_planes (q0 :: [])) }

(** val insert_with : nat -> grid -> quad -> grid **)

let insert_with fuel g q0 =
  let g1 = expand (expand g (qmin0 q0)) (qmax0 q0) in
  let (g2, o) = merge_loop fuel g1 q0 QNew in
  (match o with
   | Some q1 -> (match q1 with
                 | QNew -> append_plane g2 q0
                 | QOld _ -> g2)
   | None -> g2)

(** val insert : grid -> quad -> grid **)

let insert g q0 =
  insert_with merge_fuel g q0

(** val dedup : nat list -> nat list -> nat list **)

let rec dedup seen = function
| [] -> []
| a :: l' ->
  if existsb (Nat.eqb a) seen
  then dedup seen l'
  else a :: (dedup (a :: seen) l')

(** val get_region : grid -> vec -> vec -> nat list **)

let get_region g lo hi =
  let lox = qmax lo.vx (inject_Z g.g_minx) in
  let loz = qmax lo.vz (inject_Z g.g_minz) in
  let hix = qmin hi.vx (inject_Z g.g_maxx) in
  let hiz = qmin hi.vz (inject_Z g.g_maxz) in
  let x0 = Z.to_nat (cellx g lox) in
  let y0 = Z.to_nat (cellz g loz) in
  let x1 = Z.to_nat (cellx g hix) in
  let y1 = Z.to_nat (cellz g hiz) in
  dedup []
    (flat_map (fun y ->
      flat_map (fun x -> get_cell g.g_cells y x) (range_excl x0 x1))
      (range_excl y0 y1))

type debug_info = { d_res : z; d_rows : nat; d_cols : nat; d_planes : 
                    n; d_merges : n; d_minx : z; d_minz : z; d_maxx : 
                    z; d_maxz : z; d_occupancy : nat list }

(** val get_debug_info : grid -> debug_info **)

let get_debug_info g =
  { d_res = g.g_res; d_rows = (nrows g); d_cols = (ncols g); d_planes =
    g.g_planecount; d_merges = g.g_mergecount; d_minx = g.g_minx; d_minz =
    g.g_minz; d_maxx = g.g_maxx; d_maxz = g.g_maxz; d_occupancy =
    (flat_map (fun y ->
      map (fun x -> length (get_cell g.g_cells y x)) (seq O (ncols g)))
      (seq O (nrows g))) }

(** val bound : q **)

let bound =
  { qnum = (Zpos (XO (XO (XO (XO (XO (XO XH))))))); qden = XH }

(** val valid_quad_b : quad -> bool **)

let valid_quad_b q0 =
  (&&)
    ((&&)
      ((&&)
        ((&&)
          ((&&)
            ((&&)
              ((&&)
                ((&&)
                  ((&&) (qlt_bool { qnum = Z0; qden = XH } q0.qe.vx)
                    (isz q0.qe.vy))
                  (qlt_bool { qnum = Z0; qden = XH } q0.qe.vz))
                (qle_bool (qopp bound) (qmin0 q0).vx))
              (qle_bool (qmax0 q0).vx bound))
            (qle_bool (qopp bound) (qmin0 q0).vz))
          (qle_bool (qmax0 q0).vz bound)) (qle_bool (qopp bound) q0.qc.vy))
      (qle_bool q0.qc.vy bound)) (veq_bool q0.qn (calc_normal q0.qc q0.qe))

(** val overlaps_col_b : q -> grid -> quad -> nat -> bool **)

let overlaps_col_b tol g q0 x =
  let res = inject_Z g.g_res in
  let lox = qplus (inject_Z g.g_minx) (qmult (inject_Z (Z.of_nat x)) res) in
  (&&) (qle_bool (qplus lox tol) (qmax0 q0).vx)
    (qlt_bool (qplus (qmin0 q0).vx tol) (qplus lox res))

(** val overlaps_row_b : q -> grid -> quad -> nat -> bool **)

let overlaps_row_b tol g q0 y =
  let res = inject_Z g.g_res in
  let loz = qplus (inject_Z g.g_minz) (qmult (inject_Z (Z.of_nat y)) res) in
  (&&) (qle_bool (qplus loz tol) (qmax0 q0).vz)
    (qlt_bool (qplus (qmin0 q0).vz tol) (qplus loz res))

(** val mem : nat -> nat list -> bool **)

let mem id l =
  existsb (Nat.eqb id) l

(** val incomplete : q -> grid -> ((nat * nat) * nat) list **)

let incomplete tol g =
  flat_map (fun idq ->
    flat_map (fun y ->
      if overlaps_row_b tol g (snd idq) y
      then flat_map (fun x ->
             if (&&) (overlaps_col_b tol g (snd idq) x)
                  (negb (mem (fst idq) (get_cell g.g_cells y x)))
             then (((fst idq), y), x) :: []
             else []) (seq O (length (nth y g.g_cells [])))
      else []) (seq O (nrows g)))
    (combine (seq O (length g.g_planes)) g.g_planes)

(** val out_of_bounds : q -> grid -> nat list **)

let out_of_bounds tol g =
  flat_map (fun idq ->
    let q0 = snd idq in
    if (&&)
         ((&&)
           ((&&) (qle_bool (qminus (inject_Z g.g_minx) tol) (qmin0 q0).vx)
             (qle_bool (qmax0 q0).vx (qplus (inject_Z g.g_maxx) tol)))
           (qle_bool (qminus (inject_Z g.g_minz) tol) (qmin0 q0).vz))
         (qle_bool (qmax0 q0).vz (qplus (inject_Z g.g_maxz) tol))
    then []
    else (fst idq) :: []) (combine (seq O (length g.g_planes)) g.g_planes)

(** val all_ids : grid -> nat list **)

let all_ids g =
  dedup [] (concat (concat g.g_cells))

(** val count_ok : grid -> bool **)

let count_ok g =
  N.eqb (N.of_nat (length (all_ids g))) g.g_planecount

(** val cover_lo : grid -> vec **)

let cover_lo g =
  { vx = (qminus (inject_Z g.g_minx) { qnum = (Zpos XH); qden = XH }); vy =
    { qnum = Z0; qden = XH }; vz =
    (qminus (inject_Z g.g_minz) { qnum = (Zpos XH); qden = XH }) }

(** val cover_hi : grid -> vec **)

let cover_hi g =
  { vx = (qplus (inject_Z g.g_maxx) { qnum = (Zpos XH); qden = XH }); vy =
    { qnum = Z0; qden = XH }; vz =
    (qplus (inject_Z g.g_maxz) { qnum = (Zpos XH); qden = XH }) }

(** val nodup_b : nat list -> bool **)

let rec nodup_b = function
| [] -> true
| a :: l' -> (&&) (negb (mem a l')) (nodup_b l')

(** val same_set : nat list -> nat list -> bool **)

let same_set a b =
  (&&) (forallb (fun x -> mem x b) a) (forallb (fun x -> mem x a) b)

(** val region_ok : grid -> bool **)

let region_ok g =
  let r = get_region g (cover_lo g) (cover_hi g) in
  (&&) (nodup_b r) (same_set r (seq O (length g.g_planes)))

(** val centre_ray : quad -> ray **)

let centre_ray q0 =
  { rfrom = { vx = q0.qc.vx; vy =
    (qplus q0.qc.vy { qnum = (Zpos XH); qden = XH }); vz = q0.qc.vz }; rto =
    { vx = q0.qc.vx; vy = (qminus q0.qc.vy { qnum = (Zpos XH); qden = XH });
    vz = q0.qc.vz } }

(** val ray_misses : grid -> nat list **)

let ray_misses g =
  flat_map (fun idq ->
    match grid_intersect g (centre_ray (snd idq)) with
    | IRes (hit, _) -> (match hit with
                        | Some _ -> []
                        | None -> (fst idq) :: [])
    | IPanic -> (fst idq) :: [])
    (combine (seq O (length g.g_planes)) g.g_planes)

(** val q_of_f32bits : z -> q option **)

let q_of_f32bits b =
  let sign =
    Z.modulo
      (Z.div b (Zpos (XO (XO (XO (XO (XO (XO (XO (XO (XO (XO (XO (XO (XO (XO
        (XO (XO (XO (XO (XO (XO (XO (XO (XO (XO (XO (XO (XO (XO (XO (XO (XO
        XH))))))))))))))))))))))))))))))))) (Zpos (XO XH))
  in
  let e =
    Z.modulo
      (Z.div b (Zpos (XO (XO (XO (XO (XO (XO (XO (XO (XO (XO (XO (XO (XO (XO
        (XO (XO (XO (XO (XO (XO (XO (XO (XO XH))))))))))))))))))))))))) (Zpos
      (XO (XO (XO (XO (XO (XO (XO (XO XH)))))))))
  in
  let m =
    Z.modulo b (Zpos (XO (XO (XO (XO (XO (XO (XO (XO (XO (XO (XO (XO (XO (XO
      (XO (XO (XO (XO (XO (XO (XO (XO (XO XH))))))))))))))))))))))))
  in
  if Z.eqb e (Zpos (XI (XI (XI (XI (XI (XI (XI XH))))))))
  then None
  else let mant =
         if Z.eqb e Z0
         then m
         else Z.add m (Zpos (XO (XO (XO (XO (XO (XO (XO (XO (XO (XO (XO (XO
                (XO (XO (XO (XO (XO (XO (XO (XO (XO (XO (XO
                XH))))))))))))))))))))))))
       in
       let ex =
         if Z.eqb e Z0
         then Zneg (XI (XO (XI (XO (XI (XO (XO XH)))))))
         else Z.sub e (Zpos (XO (XI (XI (XO (XI (XO (XO XH))))))))
       in
       let mag =
         match ex with
         | Z0 -> inject_Z mant
         | Zpos p -> inject_Z (Z.mul mant (Z.pow (Zpos (XO XH)) (Zpos p)))
         | Zneg p -> qred { qnum = mant; qden = (Coq_Pos.pow (XO XH) p) }
       in
       Some (if Z.eqb sign (Zpos XH) then qopp mag else mag)

(** val qclose : q -> q -> q -> bool **)

let qclose tol a b =
  qle_bool (qabs (qminus a b)) tol

(** val vclose : q -> vec -> vec -> bool **)

let vclose tol a b =
  (&&) ((&&) (qclose tol a.vx b.vx) (qclose tol a.vy b.vy))
    (qclose tol a.vz b.vz)

(** val list_eqb : nat list -> nat list -> bool **)

let rec list_eqb a b =
  match a with
  | [] -> (match b with
           | [] -> true
           | _ :: _ -> false)
  | x :: a' ->
    (match b with
     | [] -> false
     | y :: b' -> (&&) (Nat.eqb x y) (list_eqb a' b'))

(** val row_diff : nat -> nat list list -> nat list list -> nat option **)

let rec row_diff x a b =
  match a with
  | [] -> (match b with
           | [] -> None
           | _ :: _ -> Some x)
  | ca :: a' ->
    (match b with
     | [] -> Some x
     | cb :: b' -> if list_eqb ca cb then row_diff (S x) a' b' else Some x)

(** val cells_diff : nat -> cells_t -> cells_t -> (nat * nat) option **)

let rec cells_diff y a b =
  match a with
  | [] -> (match b with
           | [] -> None
           | _ :: _ -> Some (y, O))
  | ra :: a' ->
    (match b with
     | [] -> Some (y, O)
     | rb :: b' ->
       (match row_diff O ra rb with
        | Some x -> Some (y, x)
        | None -> cells_diff (S y) a' b'))

(** val planes_diff : q -> nat -> quad list -> quad list -> nat option **)

let rec planes_diff tol k a b =
  match a with
  | [] -> (match b with
           | [] -> None
           | _ :: _ -> Some k)
  | p :: a' ->
    (match b with
     | [] -> Some k
     | q0 :: b' ->
       if (&&)
            ((&&) ((&&) (vclose tol p.qc q0.qc) (vclose tol p.qe q0.qe))
              (vclose tol p.qn q0.qn)) (N.eqb p.qmerges q0.qmerges)
       then planes_diff tol (S k) a' b'
       else Some k)

(** val grid_diff : q -> grid -> grid -> ((z * z) * z) list **)

let grid_diff tol m i =
  app
    (if Z.eqb m.g_res i.g_res
     then []
     else (((Zpos XH), m.g_res), i.g_res) :: [])
    (app
      (if N.eqb m.g_planecount i.g_planecount
       then []
       else (((Zpos (XO XH)), (Z.of_N m.g_planecount)),
              (Z.of_N i.g_planecount)) :: [])
      (app
        (if N.eqb m.g_mergecount i.g_mergecount
         then []
         else (((Zpos (XI XH)), (Z.of_N m.g_mergecount)),
                (Z.of_N i.g_mergecount)) :: [])
        (app
          (if Z.eqb m.g_minx i.g_minx
           then []
           else (((Zpos (XO (XO XH))), m.g_minx), i.g_minx) :: [])
          (app
            (if Z.eqb m.g_minz i.g_minz
             then []
             else (((Zpos (XI (XO XH))), m.g_minz), i.g_minz) :: [])
            (app
              (if Z.eqb m.g_maxx i.g_maxx
               then []
               else (((Zpos (XO (XI XH))), m.g_maxx), i.g_maxx) :: [])
              (app
                (if Z.eqb m.g_maxz i.g_maxz
                 then []
                 else (((Zpos (XI (XI XH))), m.g_maxz), i.g_maxz) :: [])
                (app
                  (match cells_diff O m.g_cells i.g_cells with
                   | Some p ->
                     let (y, x) = p in
                     (((Zpos (XO (XO (XO XH)))), (Z.of_nat y)),
                     (Z.of_nat x)) :: []
                   | None -> [])
                  (match planes_diff tol O m.g_planes i.g_planes with
                   | Some k ->
                     (((Zpos (XI (XO (XO XH)))), (Z.of_nat k)), Z0) :: []
                   | None -> []))))))))

(** val check_state : q -> grid -> (((z * z) * z) * z) list **)

let check_state tol g =
  app
    (map (fun t ->
      let (p, x) = t in
      let (id, y) = p in
      ((((Zpos XH), (Z.of_nat id)), (Z.of_nat y)), (Z.of_nat x)))
      (incomplete tol g))
    (app
      (map (fun id -> ((((Zpos (XO XH)), (Z.of_nat id)), Z0), Z0))
        (out_of_bounds tol g))
      (if count_ok g
       then []
       else ((((Zpos (XI XH)), (Z.of_nat (length (all_ids g)))),
              (Z.of_N g.g_planecount)), Z0) :: []))

(** val region_result_ok : grid -> nat list -> bool **)

let region_result_ok g ids =
  (&&) (nodup_b ids) (same_set ids (seq O (length g.g_planes)))

(** val qmin_list : q list -> q **)

let qmin_list l =
  fold_left qmin l { qnum = (Zpos (XO (XO (XO (XI (XO (XI (XI (XI (XI
    XH)))))))))); qden = XH }

(** val frac_dist : q -> q **)

let frac_dist v =
  let f = qminus v (inject_Z (qfloor v)) in
  qmin f (qminus { qnum = (Zpos XH); qden = XH } f)

(** val quad_margin : quad -> q **)

let quad_margin q0 =
  qmin_list
    ((frac_dist (qmin0 q0).vx) :: ((frac_dist (qmax0 q0).vx) :: ((frac_dist
                                                                   (qmin0 q0).vz) :: (
    (frac_dist (qmax0 q0).vz) :: []))))

(** val nz : q -> q list **)

let nz q0 =
  if isz q0 then [] else (qabs q0) :: []

(** val probe_margin : quad -> quad -> q list **)

let probe_margin qm p =
  let dy = qminus p.qc.vy qm.qc.vy in
  let cx = qm.qc.vx in
  let cz = qm.qc.vz in
  app (nz dy)
    ((qabs (qminus (qabs dy) ray_reach)) :: ((qabs
                                               (qminus (qabs dy)
                                                 merge_epsilon)) :: (
    (qabs (qminus (qplus cx range_epsilon) (qmin0 p).vx)) :: ((qabs
                                                                (qminus
                                                                  (qminus cx
                                                                    range_epsilon)
                                                                  (qmax0 p).vx)) :: (
    (qabs (qminus (qplus cz range_epsilon) (qmin0 p).vz)) :: ((qabs
                                                                (qminus
                                                                  (qminus cz
                                                                    range_epsilon)
                                                                  (qmax0 p).vz)) :: (
    (qabs (qminus (qmin0 p).vx (qmax0 qm).vx)) :: ((qabs
                                                     (qminus (qmax0 p).vx
                                                       (qmin0 qm).vx)) :: (
    (qabs (qminus (qmin0 p).vz (qmax0 qm).vz)) :: ((qabs
                                                     (qminus (qmax0 p).vz
                                                       (qmin0 qm).vz)) :: []))))))))))

(** val pair_margin : q list -> q list **)

let rec pair_margin = function
| [] -> []
| d :: rest ->
  app
    (flat_map (fun d' ->
      if (&&) (qeq_bool d d') (isz d)
      then []
      else (qabs (qminus (qabs d) (qabs d'))) :: []) rest) (pair_margin rest)

(** val centre_cell : grid -> quad -> nat list **)

let centre_cell g qm =
  get_cell g.g_cells (Z.to_nat (cellz g qm.qc.vz))
    (Z.to_nat (cellx g qm.qc.vx))

(** val cell_planes : grid -> nat list -> quad list **)

let cell_planes g ids =
  flat_map (fun id ->
    match nth_error g.g_planes id with
    | Some p -> p :: []
    | None -> []) ids

(** val iteration_margin : grid -> quad -> q **)

let iteration_margin g qm =
  let ps = cell_planes g (centre_cell g qm) in
  qmin_list
    (app ((frac_dist qm.qc.vx) :: ((frac_dist qm.qc.vz) :: []))
      (app (flat_map (probe_margin qm) ps)
        (pair_margin (map (fun p -> qminus p.qc.vy qm.qc.vy) ps))))

(** val loop_margin : nat -> grid -> quad -> qref -> q **)

let rec loop_margin fuel g q0 cur =
  match fuel with
  | O -> { qnum = Z0; qden = XH }
  | S fuel' ->
    (match deref g q0 cur with
     | Some qm ->
       let here = iteration_margin g qm in
       let up = grid_intersect g (vertical_ray qm.qc ray_reach) in
       let down = grid_intersect g (vertical_ray qm.qc (qopp ray_reach)) in
       (match ires_hit up with
        | Some n0 ->
          let hit =
            if ext_ltb (ires_t down) (ires_t up)
            then ires_hit down
            else Some n0
          in
          (match hit with
           | Some h ->
             (match nth_error g.g_planes h with
              | Some hq ->
                if (&&) (equal_eps hq.qc.vy qm.qc.vy merge_epsilon)
                     (overlap hq qm)
                then let g' = merge_quads g h qm in
                     (match nth_error g'.g_planes h with
                      | Some hq' ->
                        (match deref g' q0 cur with
                         | Some qm' ->
                           let moved = qmin (quad_margin hq) (quad_margin hq')
                           in
                           if veq_bool hq'.qc qm'.qc
                           then qmin here moved
                           else let d =
                                  qmax (qabs (qminus hq'.qc.vx qm'.qc.vx))
                                    (qmax (qabs (qminus hq'.qc.vy qm'.qc.vy))
                                      (qabs (qminus hq'.qc.vz qm'.qc.vz)))
                                in
                                qmin (qmin here moved)
                                  (qmin d (loop_margin fuel' g' q0 (QOld h)))
                         | None -> here)
                      | None -> here)
                else here
              | None -> here)
           | None -> here)
        | None ->
          (match ires_hit down with
           | Some n0 ->
             let hit =
               if ext_ltb (ires_t down) (ires_t up) then Some n0 else None
             in
             (match hit with
              | Some h ->
                (match nth_error g.g_planes h with
                 | Some hq ->
                   if (&&) (equal_eps hq.qc.vy qm.qc.vy merge_epsilon)
                        (overlap hq qm)
                   then let g' = merge_quads g h qm in
                        (match nth_error g'.g_planes h with
                         | Some hq' ->
                           (match deref g' q0 cur with
                            | Some qm' ->
                              let moved =
                                qmin (quad_margin hq) (quad_margin hq')
                              in
                              if veq_bool hq'.qc qm'.qc
                              then qmin here moved
                              else let d =
                                     qmax (qabs (qminus hq'.qc.vx qm'.qc.vx))
                                       (qmax
                                         (qabs (qminus hq'.qc.vy qm'.qc.vy))
                                         (qabs (qminus hq'.qc.vz qm'.qc.vz)))
                                   in
                                   qmin (qmin here moved)
                                     (qmin d
                                       (loop_margin fuel' g' q0 (QOld h)))
                            | None -> here)
                         | None -> here)
                   else here
                 | None -> here)
              | None -> here)
           | None -> here))
     | None -> { qnum = Z0; qden = XH })

(** val insert_margin : grid -> quad -> q **)

let insert_margin g q0 =
  let g1 = expand (expand g (qmin0 q0)) (qmax0 q0) in
  qmin (quad_margin q0) (loop_margin merge_fuel g1 q0 QNew)

(** val ray_margin : grid -> ray -> q **)

let ray_margin g r =
  let fx = r.rfrom.vx in
  let fz = r.rfrom.vz in
  let ids = get_cell g.g_cells (Z.to_nat (cellz g fz)) (Z.to_nat (cellx g fx))
  in
  let ps = cell_planes g ids in
  let dy = qminus r.rto.vy r.rfrom.vy in
  let ts = map (fun p -> qdiv (qminus p.qc.vy r.rfrom.vy) dy) ps in
  qmin_list
    (app ((frac_dist fx) :: ((frac_dist fz) :: []))
      (app
        (flat_map (fun t ->
          (qabs t) :: ((qabs (qminus t { qnum = (Zpos XH); qden = XH })) :: []))
          ts)
        (app
          (flat_map (fun p ->
            (qabs (qminus (qplus fx range_epsilon) (qmin0 p).vx)) :: (
            (qabs (qminus (qminus fx range_epsilon) (qmax0 p).vx)) :: (
            (qabs (qminus (qplus fz range_epsilon) (qmin0 p).vz)) :: (
            (qabs (qminus (qminus fz range_epsilon) (qmax0 p).vz)) :: []))))
            ps) (pair_margin ts))))

(** val two_pow : positive -> q **)

let two_pow n0 =
  inject_Z (Z.pow (Zpos (XO XH)) (Zpos n0))

(** val rel_tol : q **)

let rel_tol =
  { qnum = (Zpos XH); qden = (Coq_Pos.pow (XO XH) (XO (XI (XI (XO XH))))) }

(** val abs_tol : q **)

let abs_tol =
  { qnum = (Zpos XH); qden =
    (Coq_Pos.pow (XO XH) (XO (XO (XI (XI (XO (XO (XO XH)))))))) }

(** val huge : q **)

let huge =
  two_pow (XI (XI (XI (XI (XI (XI XH))))))

(** val sum_abs : vec -> vec -> q **)

let sum_abs a b =
  qplus (qplus (qabs (qmult a.vx b.vx)) (qabs (qmult a.vy b.vy)))
    (qabs (qmult a.vz b.vz))

(** val dot_ok : vec -> vec -> q option -> bool **)

let dot_ok a b = function
| Some r0 ->
  qle_bool (qabs (qminus r0 (dot a b)))
    (qplus (qmult rel_tol (sum_abs a b)) abs_tol)
| None -> qle_bool huge (sum_abs a b)

(** val comp_ok : q -> q -> q option -> bool **)

let comp_ok p1 p2 = function
| Some r0 ->
  qle_bool (qabs (qminus r0 (qminus p1 p2)))
    (qplus (qmult rel_tol (qplus (qabs p1) (qabs p2))) abs_tol)
| None -> qle_bool huge (qplus (qabs p1) (qabs p2))

(** val cross_ok : vec -> vec -> q option -> q option -> q option -> bool **)

let cross_ok a b rx ry rz =
  (&&)
    ((&&) (comp_ok (qmult a.vy b.vz) (qmult a.vz b.vy) rx)
      (comp_ok (qmult a.vz b.vx) (qmult a.vx b.vz) ry))
    (comp_ok (qmult a.vx b.vy) (qmult a.vy b.vx) rz)

(** val unit_tol : q **)

let unit_tol =
  { qnum = (Zpos XH); qden = (Coq_Pos.pow (XO XH) (XO (XO (XI (XO XH))))) }

(** val normal_ok : vec -> vec -> vec -> bool **)

let normal_ok c e n0 =
  let pointA = vadd c { vx = e.vx; vy = e.vy; vz = { qnum = Z0; qden = XH } }
  in
  let pointB = vadd c { vx = { qnum = Z0; qden = XH }; vy = e.vy; vz = e.vz }
  in
  let w = cross (vsub pointB c) (vsub pointA c) in
  let ww = dot w w in
  if isz ww
  then vclose unit_tol n0 w
  else let ex = calc_normal c e in
       if (&&) (isz w.vx) (isz w.vz)
       then vclose unit_tol n0 ex
       else let nn = dot n0 n0 in
            let k = cross n0 w in
            (&&)
              ((&&) (qclose unit_tol nn { qnum = (Zpos XH); qden = XH })
                (qlt_bool { qnum = Z0; qden = XH } (dot n0 w)))
              (qle_bool (dot k k) (qmult (qmult unit_tol unit_tol) ww))

(** val overlap_margin : quad -> quad -> q **)

let overlap_margin a b =
  qmin_list
    ((qabs (qminus (qmin0 a).vx (qmax0 b).vx)) :: ((qabs
                                                     (qminus (qmax0 a).vx
                                                       (qmin0 b).vx)) :: (
    (qabs (qminus (qmin0 a).vz (qmax0 b).vz)) :: ((qabs
                                                    (qminus (qmax0 a).vz
                                                      (qmin0 b).vz)) :: []))))

(** val ray_quad_t : ray -> quad -> q option **)

let ray_quad_t r q0 =
  let dir = vsub r.rto r.rfrom in
  let den = dot q0.qn dir in
  if isz den
  then None
  else Some (qdiv (qminus (dot q0.qn q0.qc) (dot q0.qn r.rfrom)) den)

(** val ray_quad_ttol : ray -> quad -> q **)

let ray_quad_ttol r q0 =
  let dir = vsub r.rto r.rfrom in
  let den = dot q0.qn dir in
  if isz den
  then { qnum = Z0; qden = XH }
  else qplus
         (qplus
           (qdiv
             (qmult { qnum = (Zpos XH); qden =
               (Coq_Pos.pow (XO XH) (XI (XI (XO (XO XH))))) }
               (qplus (sum_abs q0.qn q0.qc) (sum_abs q0.qn r.rfrom)))
             (qabs den))
           (qmult { qnum = (Zpos XH); qden =
             (Coq_Pos.pow (XO XH) (XI (XI (XO (XO XH))))) }
             (qdiv (sum_abs q0.qn dir) (qabs den)))) { qnum = (Zpos XH);
         qden = (Coq_Pos.pow (XO XH) (XI (XI (XO (XO XH))))) }

(** val ray_quad_margin : ray -> quad -> q **)

let ray_quad_margin r q0 =
  let dir = vsub r.rto r.rfrom in
  (match ray_quad_t r q0 with
   | Some t ->
     let hp = vadd r.rfrom (vmul dir t) in
     let mn = qmin0 q0 in
     let mx = qmax0 q0 in
     qmin_list
       ((qabs t) :: ((qabs (qminus t { qnum = (Zpos XH); qden = XH })) :: (
       (qabs (dot q0.qn dir)) :: ((qabs
                                    (qminus (qplus hp.vx range_epsilon) mn.vx)) :: (
       (qabs (qminus (qminus hp.vx range_epsilon) mx.vx)) :: ((qabs
                                                                (qminus
                                                                  (qplus
                                                                    hp.vz
                                                                    range_epsilon)
                                                                  mn.vz)) :: (
       (qabs (qminus (qminus hp.vz range_epsilon) mx.vz)) :: [])))))))
   | None -> { qnum = Z0; qden = XH })

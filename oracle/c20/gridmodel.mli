
val negb : bool -> bool

type nat =
| O
| S of nat

val option_map : ('a1 -> 'a2) -> 'a1 option -> 'a2 option

val fst : ('a1 * 'a2) -> 'a1

val snd : ('a1 * 'a2) -> 'a2

val length : 'a1 list -> nat

val app : 'a1 list -> 'a1 list -> 'a1 list

type comparison =
| Eq
| Lt
| Gt

val compOpp : comparison -> comparison

val add : nat -> nat -> nat

val sub : nat -> nat -> nat

type positive =
| XI of positive
| XO of positive
| XH

type n =
| N0
| Npos of positive

type z =
| Z0
| Zpos of positive
| Zneg of positive

val gmax : ('a1 -> 'a1 -> comparison) -> 'a1 -> 'a1 -> 'a1

val gmin : ('a1 -> 'a1 -> comparison) -> 'a1 -> 'a1 -> 'a1

module Nat :
 sig
  val eqb : nat -> nat -> bool

  val leb : nat -> nat -> bool

  val ltb : nat -> nat -> bool

  val min : nat -> nat -> nat
 end

module Pos :
 sig
  type mask =
  | IsNul
  | IsPos of positive
  | IsNeg
 end

module Coq_Pos :
 sig
  val succ : positive -> positive

  val add : positive -> positive -> positive

  val add_carry : positive -> positive -> positive

  val pred_double : positive -> positive

  type mask = Pos.mask =
  | IsNul
  | IsPos of positive
  | IsNeg

  val succ_double_mask : mask -> mask

  val double_mask : mask -> mask

  val double_pred_mask : positive -> mask

  val sub_mask : positive -> positive -> mask

  val sub_mask_carry : positive -> positive -> mask

  val sub : positive -> positive -> positive

  val mul : positive -> positive -> positive

  val iter : ('a1 -> 'a1) -> 'a1 -> positive -> 'a1

  val pow : positive -> positive -> positive

  val size_nat : positive -> nat

  val compare_cont : comparison -> positive -> positive -> comparison

  val compare : positive -> positive -> comparison

  val eqb : positive -> positive -> bool

  val ggcdn : nat -> positive -> positive -> positive * (positive * positive)

  val ggcd : positive -> positive -> positive * (positive * positive)

  val iter_op : ('a1 -> 'a1 -> 'a1) -> positive -> 'a1 -> 'a1

  val to_nat : positive -> nat

  val of_succ_nat : nat -> positive
 end

module N :
 sig
  val add : n -> n -> n

  val eqb : n -> n -> bool

  val of_nat : nat -> n
 end

module Z :
 sig
  val double : z -> z

  val succ_double : z -> z

  val pred_double : z -> z

  val pos_sub : positive -> positive -> z

  val add : z -> z -> z

  val opp : z -> z

  val sub : z -> z -> z

  val mul : z -> z -> z

  val pow_pos : z -> positive -> z

  val pow : z -> z -> z

  val compare : z -> z -> comparison

  val sgn : z -> z

  val leb : z -> z -> bool

  val ltb : z -> z -> bool

  val eqb : z -> z -> bool

  val min : z -> z -> z

  val abs : z -> z

  val to_nat : z -> nat

  val of_nat : nat -> z

  val of_N : n -> z

  val to_pos : z -> positive

  val pos_div_eucl : positive -> z -> z * z

  val div_eucl : z -> z -> z * z

  val div : z -> z -> z

  val modulo : z -> z -> z

  val ggcd : z -> z -> z * (z * z)
 end

val zeq_bool : z -> z -> bool

val hd : 'a1 -> 'a1 list -> 'a1

val nth : nat -> 'a1 list -> 'a1 -> 'a1

val nth_error : 'a1 list -> nat -> 'a1 option

val last : 'a1 list -> 'a1 -> 'a1

val removelast : 'a1 list -> 'a1 list

val rev : 'a1 list -> 'a1 list

val concat : 'a1 list list -> 'a1 list

val map : ('a1 -> 'a2) -> 'a1 list -> 'a2 list

val flat_map : ('a1 -> 'a2 list) -> 'a1 list -> 'a2 list

val fold_left : ('a1 -> 'a2 -> 'a1) -> 'a2 list -> 'a1 -> 'a1

val existsb : ('a1 -> bool) -> 'a1 list -> bool

val forallb : ('a1 -> bool) -> 'a1 list -> bool

val combine : 'a1 list -> 'a2 list -> ('a1 * 'a2) list

val seq : nat -> nat -> nat list

val repeat : 'a1 -> nat -> 'a1 list

type q = { qnum : z; qden : positive }

val inject_Z : z -> q

val qcompare : q -> q -> comparison

val qeq_bool : q -> q -> bool

val qle_bool : q -> q -> bool

val qplus : q -> q -> q

val qmult : q -> q -> q

val qopp : q -> q

val qminus : q -> q -> q

val qinv : q -> q

val qdiv : q -> q -> q

val qred : q -> q

val qfloor : q -> z

val qabs : q -> q

val qmax : q -> q -> q

val qmin : q -> q -> q

val merge_epsilon : q

val merge_blend : q

val range_epsilon : q

val ray_reach : q

val module_resolution : z

val qlt_bool : q -> q -> bool

type vec = { vx : q; vy : q; vz : q }

val vadd : vec -> vec -> vec

val vsub : vec -> vec -> vec

val vmul : vec -> q -> vec

val vred : vec -> vec

val dot : vec -> vec -> q

val cross : vec -> vec -> vec

val veq_bool : vec -> vec -> bool

val qsgn : q -> q

val isz : q -> bool

val normalize : vec -> vec

val calc_normal : vec -> vec -> vec

type quad = { qc : vec; qe : vec; qn : vec; qmerges : n }

type ray = { rfrom : vec; rto : vec }

val new_quad : vec -> vec -> n -> quad

val qmin0 : quad -> vec

val qmax0 : quad -> vec

val overlap : quad -> quad -> bool

val in_range : q -> q -> q -> q -> bool

val equal_eps : q -> q -> q -> bool

val ray_quad : ray -> quad -> q option

type cells_t = nat list list list

type grid = { g_res : z; g_planecount : n; g_mergecount : n; g_minx : 
              z; g_minz : z; g_maxx : z; g_maxz : z; g_cells : cells_t;
              g_planes : quad list }

val nrows : grid -> nat

val ncols : grid -> nat

val new_grid : nat -> nat -> z -> grid

val get_cell : cells_t -> nat -> nat -> nat list

val upd_nth : nat -> ('a1 -> 'a1) -> 'a1 list -> 'a1 list

val upd_cell : cells_t -> nat -> nat -> (nat list -> nat list) -> cells_t

val cell_coord : z -> z -> q -> z

val cellx : grid -> q -> z

val cellz : grid -> q -> z

val ceil_div : z -> z -> z

val expand : grid -> vec -> grid

type ext =
| Fin of q
| PInf

val ext_ltb : ext -> ext -> bool

val scan_cell :
  ray -> quad list -> nat list -> nat option -> ext -> nat option * ext

type ires =
| IRes of nat option * ext
| IPanic

val miss : ires

val intersect_cell : grid -> ray -> ires

type dlt =
| DFin of q
| DInf
| DNaN

val uint_of_Z : z -> z

val step_fuel : nat

val step_loop :
  nat -> grid -> ray -> q -> q -> q -> q -> dlt -> dlt -> q -> ires

val intersect_step : grid -> ray -> ires

val grid_intersect : grid -> ray -> ires

val range_incl : nat -> nat -> nat list

val range_excl : nat -> nat -> nat list

val find_idx : nat -> nat list -> nat option

val swap_remove : nat -> nat list -> nat list

val strip :
  cells_t -> nat list -> nat list -> (nat list -> nat list) -> cells_t

val footprint : grid -> quad -> ((nat * nat) * nat) * nat

val blend_quad : quad -> quad -> quad

val set_plane : grid -> nat -> quad -> cells_t -> n -> grid

val merge_cells :
  cells_t -> nat -> nat -> nat -> nat -> nat -> nat -> nat -> nat -> nat ->
  cells_t

val merge_quads : grid -> nat -> quad -> grid

type qref =
| QNew
| QOld of nat

val deref : grid -> quad -> qref -> quad option

val merge_fuel : nat

val vertical_ray : vec -> q -> ray

val ires_hit : ires -> nat option

val ires_t : ires -> ext

val merge_loop : nat -> grid -> quad -> qref -> grid * qref option

val append_plane : grid -> quad -> grid

val insert_with : nat -> grid -> quad -> grid

val insert : grid -> quad -> grid

val dedup : nat list -> nat list -> nat list

val get_region : grid -> vec -> vec -> nat list

type debug_info = { d_res : z; d_rows : nat; d_cols : nat; d_planes : 
                    n; d_merges : n; d_minx : z; d_minz : z; d_maxx : 
                    z; d_maxz : z; d_occupancy : nat list }

val get_debug_info : grid -> debug_info

val bound : q

val valid_quad_b : quad -> bool

val overlaps_col_b : q -> grid -> quad -> nat -> bool

val overlaps_row_b : q -> grid -> quad -> nat -> bool

val mem : nat -> nat list -> bool

val incomplete : q -> grid -> ((nat * nat) * nat) list

val out_of_bounds : q -> grid -> nat list

val all_ids : grid -> nat list

val count_ok : grid -> bool

val cover_lo : grid -> vec

val cover_hi : grid -> vec

val nodup_b : nat list -> bool

val same_set : nat list -> nat list -> bool

val region_ok : grid -> bool

val centre_ray : quad -> ray

val ray_misses : grid -> nat list

val q_of_f32bits : z -> q option

val qclose : q -> q -> q -> bool

val vclose : q -> vec -> vec -> bool

val list_eqb : nat list -> nat list -> bool

val row_diff : nat -> nat list list -> nat list list -> nat option

val cells_diff : nat -> cells_t -> cells_t -> (nat * nat) option

val planes_diff : q -> nat -> quad list -> quad list -> nat option

val grid_diff : q -> grid -> grid -> ((z * z) * z) list

val check_state : q -> grid -> (((z * z) * z) * z) list

val region_result_ok : grid -> nat list -> bool

val qmin_list : q list -> q

val frac_dist : q -> q

val quad_margin : quad -> q

val nz : q -> q list

val probe_margin : quad -> quad -> q list

val pair_margin : q list -> q list

val centre_cell : grid -> quad -> nat list

val cell_planes : grid -> nat list -> quad list

val iteration_margin : grid -> quad -> q

val loop_margin : nat -> grid -> quad -> qref -> q

val insert_margin : grid -> quad -> q

val ray_margin : grid -> ray -> q

val two_pow : positive -> q

val rel_tol : q

val abs_tol : q

val huge : q

val sum_abs : vec -> vec -> q

val dot_ok : vec -> vec -> q option -> bool

val comp_ok : q -> q -> q option -> bool

val cross_ok : vec -> vec -> q option -> q option -> q option -> bool

val unit_tol : q

val normal_ok : vec -> vec -> vec -> bool

val overlap_margin : quad -> quad -> q

val ray_quad_t : ray -> quad -> q option

val ray_quad_ttol : ray -> quad -> q

val ray_quad_margin : ray -> quad -> q

(* extraction of the grid model (coq/Grid.v) and of the oracle's comparison functions (coq/GridObs.v).
   Only ExtrOcamlBasic: bool, option, unit, list, prod, sumbool, comparison become OCaml natives;
   nat, positive, N, Z, Q stay extracted inductive datatypes. *)
From Coq Require Import QArith.
From hagall Require Import Grid GridObs.
Require Extraction.
Require ExtrOcamlBasic.
Extraction Language OCaml.
Extraction "gridmodel.ml"
  new_grid new_quad insert insert_with expand merge_quads append_plane
  grid_intersect get_region get_debug_info
  valid_quad_b check_state region_result_ok ray_misses region_ok count_ok
  grid_diff insert_margin ray_margin quad_margin
  Q_of_f32bits qclose Qle_bool Qlt_bool Qred Qminus Qeq_bool
  dot cross calc_normal overlap ray_quad
  dot_ok cross_ok normal_ok overlap_margin ray_quad_t ray_quad_ttol ray_quad_margin
  merge_epsilon merge_blend range_epsilon ray_reach module_resolution merge_fuel.

#!/bin/sh
# builds the C20 oracle: extraction of coq/Grid.v + coq/GridObs.v (ExtrOcamlBasic only) + driver.ml
# usage: build.sh [coq dir]   (default ../../coq; the .vo files must exist)
set -e
cd "$(dirname "$0")"
COQDIR=${1:-../../coq}
coqc -Q "$COQDIR" hagall ExtractGrid.v >/dev/null
rm -f ExtractGrid.vo ExtractGrid.glob .ExtractGrid.aux ExtractGrid.vok ExtractGrid.vos
ocamlfind ocamlopt -O2 -w -a -package str -linkpkg gridmodel.mli gridmodel.ml driver.ml -o oracle 2>/dev/null || \
ocamlfind ocamlopt -w -a -package str -linkpkg gridmodel.mli gridmodel.ml driver.ml -o oracle

(* connoracle: explores the extracted connection-shell model (coq/Conn.v) against a client script.

   stdin:
     P cap_send cap_disc cap_queue cap_tcp idle_timeout blocking sender_discards queue_discarded write_deadline rearm
     C <id> <budget> <target> <token> <token> ...
   tokens (a client script, executed in order; `*n` = n times, atomically):
     V J Q F P B D   a frame of that kind (valid, join, quiet, failing, panicking, bad, deferred)
     S R C X         stall, resume, close, reset
     T               one tick of logical time
     Y               the sync-clock ticker fires (the main loop sends one message to its client)
     E               a broadcast by another member (one more message for this client)
   target: clean | wedged | ghost | double | crash | open | all
     all  = exhaustive exploration (within the budget): prints every outcome class of a terminal state
     else = search for a terminal state of that class
   stdout, per case:  R <id> REACH|UNREACH|BUDGET states=<n> classes=<c1,c2,..>

   A terminal state: no step of the server's own goroutines is enabled and the script is exhausted
   (or its next token can never be enabled).  Its class is Conn.classify.
   Hand-written glue (trusted): this file.  The transition function is the extracted one. *)

open Connmodel

let rec nat_of_int n = if n <= 0 then O else S (nat_of_int (n - 1))
let rec int_of_nat = function O -> 0 | S n -> 1 + int_of_nat n

let class_name = function
  | OClean -> "clean" | OWedged -> "wedged" | OGhost -> "ghost" | ODouble -> "double" | OCrash -> "crash" | OOpen -> "open"

let kind_code = function
  | KValid -> 'V' | KJoin -> 'J' | KQuiet -> 'Q' | KFail -> 'F' | KPanic -> 'P' | KBad -> 'B' | KDeferred -> 'D'

let label_of_token c =
  match c with
  | 'V' -> LClientSend KValid | 'J' -> LClientSend KJoin | 'Q' -> LClientSend KQuiet | 'F' -> LClientSend KFail
  | 'P' -> LClientSend KPanic | 'B' -> LClientSend KBad | 'D' -> LClientSend KDeferred
  | 'S' -> LClientStall | 'R' -> LClientResume | 'C' -> LClientClose | 'X' -> LClientReset
  | 'T' -> LTick | 'E' -> LPeerSend | 'Y' -> LMainSync
  | _ -> failwith (Printf.sprintf "unknown token %c" c)

let parse_token t =
  match String.split_on_char '*' t with
  | [k] when String.length k = 1 -> (label_of_token k.[0], 1)
  | [k; n] when String.length k = 1 -> (label_of_token k.[0], int_of_string n)
  | _ -> failwith ("bad token " ^ t)

(* the sync-clock ticker is a timer: it fires when the script says so (token Y), not freely *)
let internal_labels = List.filter (fun l -> internal l && l <> LMainSync) all_labels

(* the part of a state that transitions depend on (ghost counters dropped, the idle clock capped) *)
let key (p : params) (s : state) (i : int) (r : int) : string =
  let b = Buffer.create 64 in
  let add_int n = Buffer.add_string b (string_of_int n); Buffer.add_char b ',' in
  let add_bool x = Buffer.add_char b (if x then '1' else '0') in
  add_int (Obj.magic (Obj.repr s.main) : int);
  (match s.recv with RHave k -> Buffer.add_char b 'h'; Buffer.add_char b (kind_code k)
                   | RIdle -> Buffer.add_char b 'i' | RReading -> Buffer.add_char b 'r' | RFailed -> Buffer.add_char b 'f' | RDone -> Buffer.add_char b 'd');
  add_int (Obj.magic (Obj.repr s.snd) : int);
  add_int (Obj.magic (Obj.repr s.cli) : int);
  List.iter (fun k -> Buffer.add_char b (kind_code k)) s.net_in; Buffer.add_char b '|';
  List.iter (fun k -> Buffer.add_char b (kind_code k)) s.queue; Buffer.add_char b '|';
  add_int (int_of_nat s.pend); add_int (int_of_nat s.sendq); add_int (int_of_nat s.dchan); add_int (int_of_nat s.tcp_out);
  add_bool s.conn_open; add_bool s.cancelled; add_bool s.sched_closed; add_bool s.discarding; add_bool s.frame_blocked;
  add_bool s.joined; add_bool s.in_session;
  add_int (min (int_of_nat s.idle) (int_of_nat p.idle_timeout)); add_bool s.idle_fired;
  add_int (int_of_nat s.disconnect_calls); add_bool s.fired; add_bool s.crashed;
  add_int i; add_int r;
  Digest.string (Buffer.contents b)

let is_send = function LClientSend _ -> true | _ -> false

(* can the token never be enabled any more? *)
let dead_token (s : state) (l : label) : bool =
  s.crashed ||
  (match l with
   | LClientSend _ -> (not s.conn_open) || s.cli = CGone
   | LClientStall -> s.cli <> CAlive
   | LClientResume -> s.cli <> CStalled
   | LClientClose | LClientReset -> s.cli = CGone
   | LPeerSend -> true   (* a peer that cannot deliver stays blocked; the script goes on without it *)
   | _ -> false)

(* apply a token atomically up to r times; returns (state, applied) *)
let apply_token p l r s =
  let rec go s k =
    if k >= r then (s, k)
    else match step p l s with
      | Some s' -> go s' (k + 1)
      | None -> (s, k)
  in go s 0

let explore (p : params) (tokens : (label * int) array) (budget : int) (target : string) =
  let n = Array.length tokens in
  let visited = Hashtbl.create 65536 in
  let stack = Stack.create () in
  let classes = Hashtbl.create 8 in
  let found = ref false in
  let over = ref false in
  let push s i r =
    let k = key p s i r in
    if not (Hashtbl.mem visited k) then begin
      Hashtbl.add visited k ();
      Stack.push (s, i, r) stack
    end in
  push init 0 (if n > 0 then snd tokens.(0) else 0);
  while not (Stack.is_empty stack) && not !found && not !over do
    let (s, i, r) = Stack.pop stack in
    if Hashtbl.length visited > budget then over := true
    else begin
      let moved = ref false in
      (* the client's next token *)
      if i < n then begin
        let (l, _) = tokens.(i) in
        let (s', k) = apply_token p l r s in
        let next_r j = if j < n then snd tokens.(j) else 0 in
        if k = r then (moved := true; push s' (i + 1) (next_r (i + 1)))
        else if k > 0 then (moved := true; push s' i (r - k))
        else if dead_token s l then (moved := true; push s (i + 1) (next_r (i + 1)))
      end;
      (* the server's own goroutines *)
      let internal_moved = ref false in
      List.iter (fun l ->
          match step p l s with
          | Some s' -> internal_moved := true; push s' i r
          | None -> ()) internal_labels;
      (* terminal: nothing internal, and the client has nothing (possible) left to do *)
      if not !internal_moved && not !moved then begin
        let c = class_name (classify s) in
        let c = if i < n && c = "open" then "open" else c in
        Hashtbl.replace classes c ();
        if c = target then found := true
      end
    end
  done;
  let cl = Hashtbl.fold (fun k () acc -> k :: acc) classes [] |> List.sort compare in
  let verdict =
    if target = "all" then (if !over then "BUDGET" else "REACH")
    else if !found then "REACH" else if !over then "BUDGET" else "UNREACH" in
  (verdict, Hashtbl.length visited, cl)

let () =
  let p = ref None in
  (try
     while true do
       let line = input_line stdin in
       let ws = List.filter (fun x -> x <> "") (String.split_on_char ' ' (String.trim line)) in
       match ws with
       | "P" :: a ->
         (match List.map int_of_string a with
          | [cs; cd; cq; ct; idle; bl; sd; qd; wd; re] ->
            p := Some { cap_send = nat_of_int cs; cap_disc = nat_of_int cd; cap_queue = nat_of_int cq; cap_tcp = nat_of_int ct;
                        idle_timeout = nat_of_int idle; disc_blocking = (bl <> 0); sender_discards = (sd <> 0);
                        queue_discarded = (qd <> 0); write_deadline = (wd <> 0); rearm = (re <> 0) }
          | _ -> failwith "P line: 10 integers expected")
       | "C" :: id :: budget :: target :: toks ->
         (match !p with
          | None -> failwith "no P line"
          | Some p ->
            let tokens = Array.of_list (List.map parse_token toks) in
            let (v, st, cl) = explore p tokens (int_of_string budget) target in
            Printf.printf "R %s %s states=%d classes=%s\n%!" id v st (String.concat "," cl))
       | [] -> ()
       | _ -> failwith ("bad line: " ^ line)
     done
   with End_of_file -> ())

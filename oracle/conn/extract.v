(* extraction of the connection-shell model for the C08 explorer.  ExtrOcamlBasic only. *)
From hagall Require Import Conn.
Require Extraction.
Require ExtrOcamlBasic.
Extraction Language OCaml.
Extraction "connmodel.ml" step init classify stuck internal all_labels enabled main fired.

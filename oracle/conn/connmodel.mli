
val negb : bool -> bool

type nat =
| O
| S of nat

val length : 'a1 list -> nat

val app : 'a1 list -> 'a1 list -> 'a1 list

val pred : nat -> nat

module Nat :
 sig
  val eqb : nat -> nat -> bool

  val leb : nat -> nat -> bool

  val ltb : nat -> nat -> bool
 end

val forallb : ('a1 -> bool) -> 'a1 list -> bool

type params = { cap_send : nat; cap_disc : nat; cap_queue : nat;
                cap_tcp : nat; idle_timeout : nat; disc_blocking : bool;
                sender_discards : bool; queue_discarded : bool;
                write_deadline : bool; rearm : bool }

type kind =
| KValid
| KJoin
| KQuiet
| KFail
| KPanic
| KBad
| KDeferred

type mainpc =
| MSelect
| MLoop
| MBlockDisc
| MBlockSend
| MHD
| MLeave
| MCancel
| MWait
| MReturned
| MPanicking
| MPanicked

type recvpc =
| RIdle
| RReading
| RHave of kind
| RFailed
| RDone

type sendpc =
| SIdle
| SHave
| SFailed
| SSink
| SDone

type cstate =
| CAlive
| CStalled
| CGone

type state = { main : mainpc; recv : recvpc; snd : sendpc; cli : cstate;
               net_in : kind list; queue : kind list; pend : nat;
               sendq : nat; dchan : nat; tcp_out : nat; conn_open : bool;
               cancelled : bool; sched_closed : bool; discarding : bool;
               frame_blocked : bool; joined : bool; in_session : bool;
               idle : nat; idle_fired : bool; disconnect_calls : nat;
               gauge : nat; fired : bool; main_disc_calls : nat;
               consumed : nat; crashed : bool }

val main : state -> mainpc

val fired : state -> bool

val init : state

val set_main : mainpc -> state -> state

val set_recv : recvpc -> state -> state

val set_snd : sendpc -> state -> state

val set_cli : cstate -> state -> state

val set_net : kind list -> state -> state

val set_queue : kind list -> state -> state

val set_pend : nat -> state -> state

val set_sendq : nat -> state -> state

val set_dchan : nat -> state -> state

val set_tcp : nat -> state -> state

val set_open : bool -> state -> state

val set_cancelled : bool -> state -> state

val set_sched_closed : bool -> state -> state

val set_discarding : bool -> state -> state

val set_frame_blocked : bool -> state -> state

val set_joined : bool -> state -> state

val set_in_session : bool -> state -> state

val set_idle : nat -> state -> state

val set_idle_fired : bool -> state -> state

val set_dcalls : nat -> state -> state

val set_gauge : nat -> state -> state

val set_fired : bool -> state -> state

val set_mdc : nat -> state -> state

val set_consumed : nat -> state -> state

val set_crashed : bool -> state -> state

type label =
| LClientSend of kind
| LClientStall
| LClientResume
| LClientClose
| LClientReset
| LTick
| LShutdown
| LPeerSend
| LRecvPass
| LRecvExit
| LRecvRead
| LRecvErr
| LRecvDispatch
| LRecvDisc
| LFrame
| LDiscard
| LMainMsg
| LMainSync
| LMainIdle
| LMainCtx
| LMainDisc
| LMainUnblockDisc
| LMainSendDone
| LMainLoop
| LMainHDClose
| LMainHDLeave
| LMainCancel
| LMainWaitDone
| LHttpRecover
| LSendTake
| LSendWrite
| LSendWriteFail
| LSendTimeout
| LSendDisc
| LSendExit

val disc : params -> state -> state option

val main_disc : params -> state -> state

val main_send : params -> state -> state

val client_gone : state -> bool

val client_stalled : state -> bool

val is_bad : kind -> bool

val is_deferred : kind -> bool

val step : params -> label -> state -> state option

val all_labels : label list

val internal : label -> bool

val enabled : params -> label -> state -> bool

type outcome =
| OClean
| OWedged
| OGhost
| ODouble
| OCrash
| OOpen

val classify : state -> outcome

val stuck : params -> state -> bool


(** val negb : bool -> bool **)

let negb = function
| true -> false
| false -> true

type nat =
| O
| S of nat

(** val length : 'a1 list -> nat **)

let rec length = function
| [] -> O
| _ :: l' -> S (length l')

(** val app : 'a1 list -> 'a1 list -> 'a1 list **)

let rec app l m =
  match l with
  | [] -> m
  | a :: l1 -> a :: (app l1 m)

(** val pred : nat -> nat **)

let pred n = match n with
| O -> n
| S u -> u

module Nat =
 struct
  (** val eqb : nat -> nat -> bool **)

  let rec eqb n m =
    match n with
    | O -> (match m with
            | O -> true
            | S _ -> false)
    | S n' -> (match m with
               | O -> false
               | S m' -> eqb n' m')

  (** val leb : nat -> nat -> bool **)

  let rec leb n m =
    match n with
    | O -> true
    | S n' -> (match m with
               | O -> false
               | S m' -> leb n' m')

  (** val ltb : nat -> nat -> bool **)

  let ltb n m =
    leb (S n) m
 end

(** val forallb : ('a1 -> bool) -> 'a1 list -> bool **)

let rec forallb f = function
| [] -> true
| a :: l0 -> (&&) (f a) (forallb f l0)

type params = { cap_send : nat; cap_disc : nat; cap_queue : nat;
                cap_tcp : nat; idle_timeout : nat; disc_blocking : bool;
                sender_discards : bool; queue_discarded : bool;
                write_deadline : bool; rearm : bool }

type kind =
| KValid
| KJoin
| KQuiet
| KFail
| KPanic
| KBad
| KDeferred

type mainpc =
| MSelect
| MLoop
| MBlockDisc
| MBlockSend
| MHD
| MLeave
| MCancel
| MWait
| MReturned
| MPanicking
| MPanicked

type recvpc =
| RIdle
| RReading
| RHave of kind
| RFailed
| RDone

type sendpc =
| SIdle
| SHave
| SFailed
| SSink
| SDone

type cstate =
| CAlive
| CStalled
| CGone

type state = { main : mainpc; recv : recvpc; snd : sendpc; cli : cstate;
               net_in : kind list; queue : kind list; pend : nat;
               sendq : nat; dchan : nat; tcp_out : nat; conn_open : bool;
               cancelled : bool; sched_closed : bool; discarding : bool;
               frame_blocked : bool; joined : bool; in_session : bool;
               idle : nat; idle_fired : bool; disconnect_calls : nat;
               gauge : nat; fired : bool; main_disc_calls : nat;
               consumed : nat; crashed : bool }

(** val main : state -> mainpc **)

let main s =
  s.main

(** val fired : state -> bool **)

let fired s =
  s.fired

(** val init : state **)

let init =
  { main = MSelect; recv = RIdle; snd = SIdle; cli = CAlive; net_in = [];
    queue = []; pend = O; sendq = O; dchan = O; tcp_out = O; conn_open =
    true; cancelled = false; sched_closed = false; discarding = false;
    frame_blocked = false; joined = false; in_session = false; idle = O;
    idle_fired = false; disconnect_calls = O; gauge = (S O); fired = false;
    main_disc_calls = O; consumed = O; crashed = false }

(** val set_main : mainpc -> state -> state **)

let set_main v s =
  { main = v; recv = s.recv; snd = s.snd; cli = s.cli; net_in = s.net_in;
    queue = s.queue; pend = s.pend; sendq = s.sendq; dchan = s.dchan;
    tcp_out = s.tcp_out; conn_open = s.conn_open; cancelled = s.cancelled;
    sched_closed = s.sched_closed; discarding = s.discarding; frame_blocked =
    s.frame_blocked; joined = s.joined; in_session = s.in_session; idle =
    s.idle; idle_fired = s.idle_fired; disconnect_calls = s.disconnect_calls;
    gauge = s.gauge; fired = s.fired; main_disc_calls = s.main_disc_calls;
    consumed = s.consumed; crashed = s.crashed }

(** val set_recv : recvpc -> state -> state **)

let set_recv v s =
  { main = s.main; recv = v; snd = s.snd; cli = s.cli; net_in = s.net_in;
    queue = s.queue; pend = s.pend; sendq = s.sendq; dchan = s.dchan;
    tcp_out = s.tcp_out; conn_open = s.conn_open; cancelled = s.cancelled;
    sched_closed = s.sched_closed; discarding = s.discarding; frame_blocked =
    s.frame_blocked; joined = s.joined; in_session = s.in_session; idle =
    s.idle; idle_fired = s.idle_fired; disconnect_calls = s.disconnect_calls;
    gauge = s.gauge; fired = s.fired; main_disc_calls = s.main_disc_calls;
    consumed = s.consumed; crashed = s.crashed }

(** val set_snd : sendpc -> state -> state **)

let set_snd v s =
  { main = s.main; recv = s.recv; snd = v; cli = s.cli; net_in = s.net_in;
    queue = s.queue; pend = s.pend; sendq = s.sendq; dchan = s.dchan;
    tcp_out = s.tcp_out; conn_open = s.conn_open; cancelled = s.cancelled;
    sched_closed = s.sched_closed; discarding = s.discarding; frame_blocked =
    s.frame_blocked; joined = s.joined; in_session = s.in_session; idle =
    s.idle; idle_fired = s.idle_fired; disconnect_calls = s.disconnect_calls;
    gauge = s.gauge; fired = s.fired; main_disc_calls = s.main_disc_calls;
    consumed = s.consumed; crashed = s.crashed }

(** val set_cli : cstate -> state -> state **)

let set_cli v s =
  { main = s.main; recv = s.recv; snd = s.snd; cli = v; net_in = s.net_in;
    queue = s.queue; pend = s.pend; sendq = s.sendq; dchan = s.dchan;
    tcp_out = s.tcp_out; conn_open = s.conn_open; cancelled = s.cancelled;
    sched_closed = s.sched_closed; discarding = s.discarding; frame_blocked =
    s.frame_blocked; joined = s.joined; in_session = s.in_session; idle =
    s.idle; idle_fired = s.idle_fired; disconnect_calls = s.disconnect_calls;
    gauge = s.gauge; fired = s.fired; main_disc_calls = s.main_disc_calls;
    consumed = s.consumed; crashed = s.crashed }

(** val set_net : kind list -> state -> state **)

let set_net v s =
  { main = s.main; recv = s.recv; snd = s.snd; cli = s.cli; net_in = v;
    queue = s.queue; pend = s.pend; sendq = s.sendq; dchan = s.dchan;
    tcp_out = s.tcp_out; conn_open = s.conn_open; cancelled = s.cancelled;
    sched_closed = s.sched_closed; discarding = s.discarding; frame_blocked =
    s.frame_blocked; joined = s.joined; in_session = s.in_session; idle =
    s.idle; idle_fired = s.idle_fired; disconnect_calls = s.disconnect_calls;
    gauge = s.gauge; fired = s.fired; main_disc_calls = s.main_disc_calls;
    consumed = s.consumed; crashed = s.crashed }

(** val set_queue : kind list -> state -> state **)

let set_queue v s =
  { main = s.main; recv = s.recv; snd = s.snd; cli = s.cli; net_in =
    s.net_in; queue = v; pend = s.pend; sendq = s.sendq; dchan = s.dchan;
    tcp_out = s.tcp_out; conn_open = s.conn_open; cancelled = s.cancelled;
    sched_closed = s.sched_closed; discarding = s.discarding; frame_blocked =
    s.frame_blocked; joined = s.joined; in_session = s.in_session; idle =
    s.idle; idle_fired = s.idle_fired; disconnect_calls = s.disconnect_calls;
    gauge = s.gauge; fired = s.fired; main_disc_calls = s.main_disc_calls;
    consumed = s.consumed; crashed = s.crashed }

(** val set_pend : nat -> state -> state **)

let set_pend v s =
  { main = s.main; recv = s.recv; snd = s.snd; cli = s.cli; net_in =
    s.net_in; queue = s.queue; pend = v; sendq = s.sendq; dchan = s.dchan;
    tcp_out = s.tcp_out; conn_open = s.conn_open; cancelled = s.cancelled;
    sched_closed = s.sched_closed; discarding = s.discarding; frame_blocked =
    s.frame_blocked; joined = s.joined; in_session = s.in_session; idle =
    s.idle; idle_fired = s.idle_fired; disconnect_calls = s.disconnect_calls;
    gauge = s.gauge; fired = s.fired; main_disc_calls = s.main_disc_calls;
    consumed = s.consumed; crashed = s.crashed }

(** val set_sendq : nat -> state -> state **)

let set_sendq v s =
  { main = s.main; recv = s.recv; snd = s.snd; cli = s.cli; net_in =
    s.net_in; queue = s.queue; pend = s.pend; sendq = v; dchan = s.dchan;
    tcp_out = s.tcp_out; conn_open = s.conn_open; cancelled = s.cancelled;
    sched_closed = s.sched_closed; discarding = s.discarding; frame_blocked =
    s.frame_blocked; joined = s.joined; in_session = s.in_session; idle =
    s.idle; idle_fired = s.idle_fired; disconnect_calls = s.disconnect_calls;
    gauge = s.gauge; fired = s.fired; main_disc_calls = s.main_disc_calls;
    consumed = s.consumed; crashed = s.crashed }

(** val set_dchan : nat -> state -> state **)

let set_dchan v s =
  { main = s.main; recv = s.recv; snd = s.snd; cli = s.cli; net_in =
    s.net_in; queue = s.queue; pend = s.pend; sendq = s.sendq; dchan = v;
    tcp_out = s.tcp_out; conn_open = s.conn_open; cancelled = s.cancelled;
    sched_closed = s.sched_closed; discarding = s.discarding; frame_blocked =
    s.frame_blocked; joined = s.joined; in_session = s.in_session; idle =
    s.idle; idle_fired = s.idle_fired; disconnect_calls = s.disconnect_calls;
    gauge = s.gauge; fired = s.fired; main_disc_calls = s.main_disc_calls;
    consumed = s.consumed; crashed = s.crashed }

(** val set_tcp : nat -> state -> state **)

let set_tcp v s =
  { main = s.main; recv = s.recv; snd = s.snd; cli = s.cli; net_in =
    s.net_in; queue = s.queue; pend = s.pend; sendq = s.sendq; dchan =
    s.dchan; tcp_out = v; conn_open = s.conn_open; cancelled = s.cancelled;
    sched_closed = s.sched_closed; discarding = s.discarding; frame_blocked =
    s.frame_blocked; joined = s.joined; in_session = s.in_session; idle =
    s.idle; idle_fired = s.idle_fired; disconnect_calls = s.disconnect_calls;
    gauge = s.gauge; fired = s.fired; main_disc_calls = s.main_disc_calls;
    consumed = s.consumed; crashed = s.crashed }

(** val set_open : bool -> state -> state **)

let set_open v s =
  { main = s.main; recv = s.recv; snd = s.snd; cli = s.cli; net_in =
    s.net_in; queue = s.queue; pend = s.pend; sendq = s.sendq; dchan =
    s.dchan; tcp_out = s.tcp_out; conn_open = v; cancelled = s.cancelled;
    sched_closed = s.sched_closed; discarding = s.discarding; frame_blocked =
    s.frame_blocked; joined = s.joined; in_session = s.in_session; idle =
    s.idle; idle_fired = s.idle_fired; disconnect_calls = s.disconnect_calls;
    gauge = s.gauge; fired = s.fired; main_disc_calls = s.main_disc_calls;
    consumed = s.consumed; crashed = s.crashed }

(** val set_cancelled : bool -> state -> state **)

let set_cancelled v s =
  { main = s.main; recv = s.recv; snd = s.snd; cli = s.cli; net_in =
    s.net_in; queue = s.queue; pend = s.pend; sendq = s.sendq; dchan =
    s.dchan; tcp_out = s.tcp_out; conn_open = s.conn_open; cancelled = v;
    sched_closed = s.sched_closed; discarding = s.discarding; frame_blocked =
    s.frame_blocked; joined = s.joined; in_session = s.in_session; idle =
    s.idle; idle_fired = s.idle_fired; disconnect_calls = s.disconnect_calls;
    gauge = s.gauge; fired = s.fired; main_disc_calls = s.main_disc_calls;
    consumed = s.consumed; crashed = s.crashed }

(** val set_sched_closed : bool -> state -> state **)

let set_sched_closed v s =
  { main = s.main; recv = s.recv; snd = s.snd; cli = s.cli; net_in =
    s.net_in; queue = s.queue; pend = s.pend; sendq = s.sendq; dchan =
    s.dchan; tcp_out = s.tcp_out; conn_open = s.conn_open; cancelled =
    s.cancelled; sched_closed = v; discarding = s.discarding; frame_blocked =
    s.frame_blocked; joined = s.joined; in_session = s.in_session; idle =
    s.idle; idle_fired = s.idle_fired; disconnect_calls = s.disconnect_calls;
    gauge = s.gauge; fired = s.fired; main_disc_calls = s.main_disc_calls;
    consumed = s.consumed; crashed = s.crashed }

(** val set_discarding : bool -> state -> state **)

let set_discarding v s =
  { main = s.main; recv = s.recv; snd = s.snd; cli = s.cli; net_in =
    s.net_in; queue = s.queue; pend = s.pend; sendq = s.sendq; dchan =
    s.dchan; tcp_out = s.tcp_out; conn_open = s.conn_open; cancelled =
    s.cancelled; sched_closed = s.sched_closed; discarding = v;
    frame_blocked = s.frame_blocked; joined = s.joined; in_session =
    s.in_session; idle = s.idle; idle_fired = s.idle_fired;
    disconnect_calls = s.disconnect_calls; gauge = s.gauge; fired = s.fired;
    main_disc_calls = s.main_disc_calls; consumed = s.consumed; crashed =
    s.crashed }

(** val set_frame_blocked : bool -> state -> state **)

let set_frame_blocked v s =
  { main = s.main; recv = s.recv; snd = s.snd; cli = s.cli; net_in =
    s.net_in; queue = s.queue; pend = s.pend; sendq = s.sendq; dchan =
    s.dchan; tcp_out = s.tcp_out; conn_open = s.conn_open; cancelled =
    s.cancelled; sched_closed = s.sched_closed; discarding = s.discarding;
    frame_blocked = v; joined = s.joined; in_session = s.in_session; idle =
    s.idle; idle_fired = s.idle_fired; disconnect_calls = s.disconnect_calls;
    gauge = s.gauge; fired = s.fired; main_disc_calls = s.main_disc_calls;
    consumed = s.consumed; crashed = s.crashed }

(** val set_joined : bool -> state -> state **)

let set_joined v s =
  { main = s.main; recv = s.recv; snd = s.snd; cli = s.cli; net_in =
    s.net_in; queue = s.queue; pend = s.pend; sendq = s.sendq; dchan =
    s.dchan; tcp_out = s.tcp_out; conn_open = s.conn_open; cancelled =
    s.cancelled; sched_closed = s.sched_closed; discarding = s.discarding;
    frame_blocked = s.frame_blocked; joined = v; in_session = s.in_session;
    idle = s.idle; idle_fired = s.idle_fired; disconnect_calls =
    s.disconnect_calls; gauge = s.gauge; fired = s.fired; main_disc_calls =
    s.main_disc_calls; consumed = s.consumed; crashed = s.crashed }

(** val set_in_session : bool -> state -> state **)

let set_in_session v s =
  { main = s.main; recv = s.recv; snd = s.snd; cli = s.cli; net_in =
    s.net_in; queue = s.queue; pend = s.pend; sendq = s.sendq; dchan =
    s.dchan; tcp_out = s.tcp_out; conn_open = s.conn_open; cancelled =
    s.cancelled; sched_closed = s.sched_closed; discarding = s.discarding;
    frame_blocked = s.frame_blocked; joined = s.joined; in_session = v;
    idle = s.idle; idle_fired = s.idle_fired; disconnect_calls =
    s.disconnect_calls; gauge = s.gauge; fired = s.fired; main_disc_calls =
    s.main_disc_calls; consumed = s.consumed; crashed = s.crashed }

(** val set_idle : nat -> state -> state **)

let set_idle v s =
  { main = s.main; recv = s.recv; snd = s.snd; cli = s.cli; net_in =
    s.net_in; queue = s.queue; pend = s.pend; sendq = s.sendq; dchan =
    s.dchan; tcp_out = s.tcp_out; conn_open = s.conn_open; cancelled =
    s.cancelled; sched_closed = s.sched_closed; discarding = s.discarding;
    frame_blocked = s.frame_blocked; joined = s.joined; in_session =
    s.in_session; idle = v; idle_fired = s.idle_fired; disconnect_calls =
    s.disconnect_calls; gauge = s.gauge; fired = s.fired; main_disc_calls =
    s.main_disc_calls; consumed = s.consumed; crashed = s.crashed }

(** val set_idle_fired : bool -> state -> state **)

let set_idle_fired v s =
  { main = s.main; recv = s.recv; snd = s.snd; cli = s.cli; net_in =
    s.net_in; queue = s.queue; pend = s.pend; sendq = s.sendq; dchan =
    s.dchan; tcp_out = s.tcp_out; conn_open = s.conn_open; cancelled =
    s.cancelled; sched_closed = s.sched_closed; discarding = s.discarding;
    frame_blocked = s.frame_blocked; joined = s.joined; in_session =
    s.in_session; idle = s.idle; idle_fired = v; disconnect_calls =
    s.disconnect_calls; gauge = s.gauge; fired = s.fired; main_disc_calls =
    s.main_disc_calls; consumed = s.consumed; crashed = s.crashed }

(** val set_dcalls : nat -> state -> state **)

let set_dcalls v s =
  { main = s.main; recv = s.recv; snd = s.snd; cli = s.cli; net_in =
    s.net_in; queue = s.queue; pend = s.pend; sendq = s.sendq; dchan =
    s.dchan; tcp_out = s.tcp_out; conn_open = s.conn_open; cancelled =
    s.cancelled; sched_closed = s.sched_closed; discarding = s.discarding;
    frame_blocked = s.frame_blocked; joined = s.joined; in_session =
    s.in_session; idle = s.idle; idle_fired = s.idle_fired;
    disconnect_calls = v; gauge = s.gauge; fired = s.fired; main_disc_calls =
    s.main_disc_calls; consumed = s.consumed; crashed = s.crashed }

(** val set_gauge : nat -> state -> state **)

let set_gauge v s =
  { main = s.main; recv = s.recv; snd = s.snd; cli = s.cli; net_in =
    s.net_in; queue = s.queue; pend = s.pend; sendq = s.sendq; dchan =
    s.dchan; tcp_out = s.tcp_out; conn_open = s.conn_open; cancelled =
    s.cancelled; sched_closed = s.sched_closed; discarding = s.discarding;
    frame_blocked = s.frame_blocked; joined = s.joined; in_session =
    s.in_session; idle = s.idle; idle_fired = s.idle_fired;
    disconnect_calls = s.disconnect_calls; gauge = v; fired = s.fired;
    main_disc_calls = s.main_disc_calls; consumed = s.consumed; crashed =
    s.crashed }

(** val set_fired : bool -> state -> state **)

let set_fired v s =
  { main = s.main; recv = s.recv; snd = s.snd; cli = s.cli; net_in =
    s.net_in; queue = s.queue; pend = s.pend; sendq = s.sendq; dchan =
    s.dchan; tcp_out = s.tcp_out; conn_open = s.conn_open; cancelled =
    s.cancelled; sched_closed = s.sched_closed; discarding = s.discarding;
    frame_blocked = s.frame_blocked; joined = s.joined; in_session =
    s.in_session; idle = s.idle; idle_fired = s.idle_fired;
    disconnect_calls = s.disconnect_calls; gauge = s.gauge; fired = v;
    main_disc_calls = s.main_disc_calls; consumed = s.consumed; crashed =
    s.crashed }

(** val set_mdc : nat -> state -> state **)

let set_mdc v s =
  { main = s.main; recv = s.recv; snd = s.snd; cli = s.cli; net_in =
    s.net_in; queue = s.queue; pend = s.pend; sendq = s.sendq; dchan =
    s.dchan; tcp_out = s.tcp_out; conn_open = s.conn_open; cancelled =
    s.cancelled; sched_closed = s.sched_closed; discarding = s.discarding;
    frame_blocked = s.frame_blocked; joined = s.joined; in_session =
    s.in_session; idle = s.idle; idle_fired = s.idle_fired;
    disconnect_calls = s.disconnect_calls; gauge = s.gauge; fired = s.fired;
    main_disc_calls = v; consumed = s.consumed; crashed = s.crashed }

(** val set_consumed : nat -> state -> state **)

let set_consumed v s =
  { main = s.main; recv = s.recv; snd = s.snd; cli = s.cli; net_in =
    s.net_in; queue = s.queue; pend = s.pend; sendq = s.sendq; dchan =
    s.dchan; tcp_out = s.tcp_out; conn_open = s.conn_open; cancelled =
    s.cancelled; sched_closed = s.sched_closed; discarding = s.discarding;
    frame_blocked = s.frame_blocked; joined = s.joined; in_session =
    s.in_session; idle = s.idle; idle_fired = s.idle_fired;
    disconnect_calls = s.disconnect_calls; gauge = s.gauge; fired = s.fired;
    main_disc_calls = s.main_disc_calls; consumed = v; crashed = s.crashed }

(** val set_crashed : bool -> state -> state **)

let set_crashed v s =
  { main = s.main; recv = s.recv; snd = s.snd; cli = s.cli; net_in =
    s.net_in; queue = s.queue; pend = s.pend; sendq = s.sendq; dchan =
    s.dchan; tcp_out = s.tcp_out; conn_open = s.conn_open; cancelled =
    s.cancelled; sched_closed = s.sched_closed; discarding = s.discarding;
    frame_blocked = s.frame_blocked; joined = s.joined; in_session =
    s.in_session; idle = s.idle; idle_fired = s.idle_fired;
    disconnect_calls = s.disconnect_calls; gauge = s.gauge; fired = s.fired;
    main_disc_calls = s.main_disc_calls; consumed = s.consumed; crashed = v }

type label =
| LClientSend of kind
| LClientStall
| LClientResume
| LClientClose
| LClientReset
| LTick
| LShutdown
| LPeerSend
| LRecvPass
| LRecvExit
| LRecvRead
| LRecvErr
| LRecvDispatch
| LRecvDisc
| LFrame
| LDiscard
| LMainMsg
| LMainSync
| LMainIdle
| LMainCtx
| LMainDisc
| LMainUnblockDisc
| LMainSendDone
| LMainLoop
| LMainHDClose
| LMainHDLeave
| LMainCancel
| LMainWaitDone
| LHttpRecover
| LSendTake
| LSendWrite
| LSendWriteFail
| LSendTimeout
| LSendDisc
| LSendExit

(** val disc : params -> state -> state option **)

let disc p s =
  if Nat.ltb s.dchan p.cap_disc
  then Some (set_fired true (set_dchan (S s.dchan) s))
  else if p.disc_blocking then None else Some (set_fired true s)

(** val main_disc : params -> state -> state **)

let main_disc p s =
  let s1 = set_mdc (S s.main_disc_calls) s in
  (match disc p s1 with
   | Some s2 -> set_main MLoop s2
   | None -> set_main MBlockDisc (set_fired true s1))

(** val main_send : params -> state -> state **)

let main_send p s =
  if Nat.ltb s.sendq p.cap_send
  then set_main MLoop (set_sendq (S s.sendq) s)
  else set_main MBlockSend s

(** val client_gone : state -> bool **)

let client_gone s =
  match s.cli with
  | CGone -> true
  | _ -> false

(** val client_stalled : state -> bool **)

let client_stalled s =
  match s.cli with
  | CStalled -> true
  | _ -> false

(** val is_bad : kind -> bool **)

let is_bad = function
| KBad -> true
| _ -> false

(** val is_deferred : kind -> bool **)

let is_deferred = function
| KDeferred -> true
| _ -> false

(** val step : params -> label -> state -> state option **)

let step p l s =
  if s.crashed
  then None
  else (match l with
        | LClientSend k ->
          if (&&) s.conn_open (negb (client_gone s))
          then Some (set_net (app s.net_in (k :: [])) s)
          else None
        | LClientStall ->
          (match s.cli with
           | CAlive -> Some (set_cli CStalled s)
           | _ -> None)
        | LClientResume ->
          (match s.cli with
           | CStalled -> Some (set_tcp O (set_cli CAlive s))
           | _ -> None)
        | LClientClose ->
          if client_gone s then None else Some (set_cli CGone s)
        | LClientReset ->
          if client_gone s then None else Some (set_net [] (set_cli CGone s))
        | LTick -> Some (set_idle (S s.idle) s)
        | LShutdown ->
          if s.cancelled then None else Some (set_cancelled true s)
        | LPeerSend ->
          if (&&) s.in_session (Nat.ltb s.sendq p.cap_send)
          then Some (set_sendq (S s.sendq) s)
          else None
        | LRecvPass ->
          (match s.recv with
           | RIdle -> if s.cancelled then None else Some (set_recv RReading s)
           | _ -> None)
        | LRecvExit ->
          (match s.recv with
           | RIdle -> if s.cancelled then Some (set_recv RDone s) else None
           | _ -> None)
        | LRecvRead ->
          (match s.recv with
           | RReading ->
             (match s.net_in with
              | [] -> None
              | k :: rest ->
                if s.conn_open
                then Some
                       (set_recv (if is_bad k then RFailed else RHave k)
                         (set_net rest s))
                else None)
           | _ -> None)
        | LRecvErr ->
          (match s.recv with
           | RReading ->
             if negb s.conn_open
             then Some (set_recv RFailed s)
             else (match s.net_in with
                   | [] ->
                     if client_gone s then Some (set_recv RFailed s) else None
                   | _ :: _ -> None)
           | _ -> None)
        | LRecvDispatch ->
          (match s.recv with
           | RHave k ->
             if is_deferred k
             then Some (set_recv RIdle (set_pend (S s.pend) s))
             else if s.sched_closed
                  then Some (set_crashed true s)
                  else if Nat.ltb (length s.queue) p.cap_queue
                       then Some
                              (set_recv RIdle
                                (set_queue (app s.queue (k :: [])) s))
                       else None
           | _ -> None)
        | LRecvDisc ->
          (match s.recv with
           | RFailed ->
             (match disc p s with
              | Some s1 -> Some (set_recv RDone s1)
              | None -> None)
           | _ -> None)
        | LFrame ->
          if (&&) s.in_session (negb (Nat.eqb s.pend O))
          then if s.sched_closed
               then Some (set_crashed true s)
               else if Nat.ltb (length s.queue) p.cap_queue
                    then Some
                           (set_frame_blocked false
                             (set_pend (pred s.pend)
                               (set_queue (app s.queue (KQuiet :: [])) s)))
                    else if s.frame_blocked
                         then None
                         else Some (set_frame_blocked true s)
          else None
        | LDiscard ->
          if s.discarding
          then (match s.queue with
                | [] -> None
                | _ :: q -> Some (set_queue q s))
          else None
        | LMainMsg ->
          (match s.main with
           | MSelect ->
             (match s.queue with
              | [] -> None
              | k :: q ->
                let s1 = set_consumed (S s.consumed) (set_queue q s) in
                let s2 =
                  if p.rearm then set_idle_fired false (set_idle O s1) else s1
                in
                (match k with
                 | KValid -> Some (main_send p s2)
                 | KJoin ->
                   Some
                     (main_send p (set_in_session true (set_joined true s2)))
                 | KFail -> Some (main_disc p s2)
                 | KPanic -> Some (set_main MPanicking s2)
                 | _ -> Some (set_main MLoop s2)))
           | _ -> None)
        | LMainSync ->
          (match s.main with
           | MSelect -> Some (main_send p s)
           | _ -> None)
        | LMainIdle ->
          (match s.main with
           | MSelect ->
             if (&&) (Nat.leb p.idle_timeout s.idle) (negb s.idle_fired)
             then Some (main_disc p (set_idle_fired true s))
             else None
           | _ -> None)
        | LMainCtx ->
          (match s.main with
           | MSelect -> if s.cancelled then Some (main_disc p s) else None
           | _ -> None)
        | LMainDisc ->
          (match s.main with
           | MSelect ->
             (match s.dchan with
              | O -> None
              | S n ->
                Some
                  (set_main MHD
                    (set_discarding p.queue_discarded (set_dchan n s))))
           | _ -> None)
        | LMainUnblockDisc ->
          (match s.main with
           | MBlockDisc ->
             if Nat.ltb s.dchan p.cap_disc
             then Some (set_main MLoop (set_dchan (S s.dchan) s))
             else None
           | _ -> None)
        | LMainSendDone ->
          (match s.main with
           | MBlockSend ->
             if Nat.ltb s.sendq p.cap_send
             then Some (set_main MLoop (set_sendq (S s.sendq) s))
             else None
           | _ -> None)
        | LMainLoop ->
          (match s.main with
           | MLoop ->
             Some (set_main (if s.cancelled then MWait else MSelect) s)
           | _ -> None)
        | LMainHDClose ->
          (match s.main with
           | MHD -> Some (set_main MLeave (set_open false s))
           | _ -> None)
        | LMainHDLeave ->
          (match s.main with
           | MLeave ->
             if (&&) s.in_session s.frame_blocked
             then None
             else Some
                    (set_main MCancel
                      (set_in_session false
                        (set_gauge (pred s.gauge)
                          (set_dcalls (S s.disconnect_calls) s))))
           | _ -> None)
        | LMainCancel ->
          (match s.main with
           | MCancel -> Some (set_main MWait (set_cancelled true s))
           | _ -> None)
        | LMainWaitDone ->
          (match s.main with
           | MWait ->
             (match s.recv with
              | RDone ->
                (match s.snd with
                 | SDone ->
                   Some
                     (set_main MReturned
                       (set_discarding false (set_sched_closed true s)))
                 | _ -> None)
              | _ -> None)
           | _ -> None)
        | LHttpRecover ->
          (match s.main with
           | MPanicking ->
             Some
               (set_main MPanicked
                 (set_open false
                   (set_cancelled true (set_sched_closed true s))))
           | _ -> None)
        | LSendTake ->
          (match s.snd with
           | SIdle ->
             (match s.sendq with
              | O -> None
              | S n -> Some (set_snd SHave (set_sendq n s)))
           | SSink ->
             (match s.sendq with
              | O -> None
              | S n -> Some (set_sendq n s))
           | _ -> None)
        | LSendWrite ->
          (match s.snd with
           | SHave ->
             if s.conn_open
             then (match s.cli with
                   | CAlive -> Some (set_snd SIdle s)
                   | CStalled ->
                     if Nat.ltb s.tcp_out p.cap_tcp
                     then Some (set_snd SIdle (set_tcp (S s.tcp_out) s))
                     else None
                   | CGone -> None)
             else None
           | _ -> None)
        | LSendWriteFail ->
          (match s.snd with
           | SHave ->
             if (||) (negb s.conn_open) (client_gone s)
             then Some (set_snd SFailed s)
             else None
           | _ -> None)
        | LSendTimeout ->
          (match s.snd with
           | SHave ->
             if (&&)
                  ((&&) ((&&) p.write_deadline s.conn_open)
                    (client_stalled s)) (negb (Nat.ltb s.tcp_out p.cap_tcp))
             then Some (set_snd SFailed s)
             else None
           | _ -> None)
        | LSendDisc ->
          (match s.snd with
           | SFailed ->
             (match disc p s with
              | Some s1 ->
                Some
                  (if p.sender_discards
                   then set_snd SSink s1
                   else set_snd SDone (set_sendq O s1))
              | None -> None)
           | _ -> None)
        | LSendExit ->
          (match s.snd with
           | SIdle ->
             if s.cancelled
             then Some (set_snd SDone (set_sendq O s))
             else None
           | SSink ->
             if s.cancelled
             then Some (set_snd SDone (set_sendq O s))
             else None
           | _ -> None))

(** val all_labels : label list **)

let all_labels =
  (LClientSend KValid) :: ((LClientSend KJoin) :: ((LClientSend
    KQuiet) :: ((LClientSend KFail) :: ((LClientSend KPanic) :: ((LClientSend
    KBad) :: ((LClientSend
    KDeferred) :: (LClientStall :: (LClientResume :: (LClientClose :: (LClientReset :: (LTick :: (LShutdown :: (LPeerSend :: (LRecvPass :: (LRecvExit :: (LRecvRead :: (LRecvErr :: (LRecvDispatch :: (LRecvDisc :: (LFrame :: (LDiscard :: (LMainMsg :: (LMainSync :: (LMainIdle :: (LMainCtx :: (LMainDisc :: (LMainUnblockDisc :: (LMainSendDone :: (LMainLoop :: (LMainHDClose :: (LMainHDLeave :: (LMainCancel :: (LMainWaitDone :: (LHttpRecover :: (LSendTake :: (LSendWrite :: (LSendWriteFail :: (LSendTimeout :: (LSendDisc :: (LSendExit :: []))))))))))))))))))))))))))))))))))))))))

(** val internal : label -> bool **)

let internal = function
| LClientSend _ -> false
| LClientStall -> false
| LClientResume -> false
| LClientClose -> false
| LClientReset -> false
| LTick -> false
| LShutdown -> false
| LPeerSend -> false
| _ -> true

(** val enabled : params -> label -> state -> bool **)

let enabled p l s =
  match step p l s with
  | Some _ -> true
  | None -> false

type outcome =
| OClean
| OWedged
| OGhost
| ODouble
| OCrash
| OOpen

(** val classify : state -> outcome **)

let classify s =
  if s.crashed
  then OCrash
  else (match s.main with
        | MSelect -> if s.fired then OWedged else OOpen
        | MReturned ->
          if Nat.eqb s.disconnect_calls (S O)
          then OClean
          else if Nat.eqb s.disconnect_calls O then OGhost else ODouble
        | MPanicked -> OGhost
        | _ -> OWedged)

(** val stuck : params -> state -> bool **)

let stuck p s =
  forallb (fun l -> negb ((&&) (internal l) (enabled p l s))) all_labels

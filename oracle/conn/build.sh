#!/bin/sh
# builds oracle/conn/connoracle from coq/Conn.v: extraction (ExtrOcamlBasic only) + hand-written explorer
# usage: build.sh [coq dir]   (default ../../coq; Conn.vo must exist there)
set -e
cd "$(dirname "$0")"
COQ=${1:-../../coq}
coqc -Q "$COQ" hagall extract.v >/dev/null
rm -f extract.vo extract.glob .extract.aux extract.vok extract.vos
ocamlfind ocamlopt -O2 -w -a -package str connmodel.mli connmodel.ml driver.ml -o connoracle 2>/dev/null || \
ocamlfind ocamlopt -w -a -package str connmodel.mli connmodel.ml driver.ml -o connoracle

(* driver.ml — hand-written glue around the extracted judge of concurrent executions (cv_model.ml, from coq/ConcView.v).
   Reads the output of harness/l3v on stdin (lines B / X / C / P / Q0 / I / Q1 / E per execution, see
   harness/l3v/main.go), decodes messages, requests and snapshots with the extracted decoders of coq/Codec.v, runs
   the extracted [conc_judge], and prints per execution
       R <index> <#strict> <#lenient> <#relay> <#inapplicable>
       V <index> S|L|R|N <code> <info...>        one line per violation (S strict client, L lenient client,
                                                  R relay clause of C02, N note: inapplicable broadcast)
   With `-model <id>` every execution is also compared with the interleaving model of coq/ConcView.v (scenario <id> of
   [scenario_of]) run under the same schedule ([model_tie_id]: instruction trace = the Go functions of the P line,
   state when the race starts, state at quiescence, what every connection was sent and did in the race):
       T <index> ok | T <index> <codes of what differs>
   Part of the trusted base. *)
open Cv_model

let rec pos_of_int (n : int) : positive =
  if n = 1 then XH else if n land 1 = 0 then XO (pos_of_int (n lsr 1)) else XI (pos_of_int (n lsr 1))
let z_of_int (n : int) : z = if n = 0 then Z0 else if n > 0 then Zpos (pos_of_int n) else Zneg (pos_of_int (-n))
let n_of_int (n : int) : n = if n <= 0 then N0 else Npos (pos_of_int n)
let rec int_of_pos = function XH -> 1 | XO p -> 2 * int_of_pos p | XI p -> 2 * int_of_pos p + 1
let int_of_z = function Z0 -> 0 | Zpos p -> int_of_pos p | Zneg p -> - (int_of_pos p)

let ints_of_line (s : string) : int list =
  List.filter_map (fun t -> if t = "" then None else Some (int_of_string t)) (String.split_on_char ' ' s)

(* the Go function whose lock acquisition a step entered -> [label] of coq/ConcView.v *)
let labels = [
  "start", 0; "models.(*SessionStore).GetByGlobalID", 1; "models.(*SequentialIDGenerator).New", 2;
  "models.(*Session).AddParticipant", 3; "models.(*Session).HandleFrame", 4; "models.(*Session).GetParticipants", 5;
  "models.(*Session).Entities", 6; "models.(*Entity).ToProtobuf", 7; "models.(*EntityComponentStore).ListAll", 8;
  "models.(*Session).Broadcast", 9; "models.(*Session).LoadOrStoreModuleState", 10; "modules/vikja.(*State).EntityActions", 11;
  "modules/odal.(*State).AssetInstances", 12; "models.(*Session).EntityByID", 13; "models.(*EntityComponentStore).DeleteByEntityID", 14;
  "models.(*Session).RemoveEntity", 15; "modules/vikja.(*State).RemoveEntityActions", 16; "modules/odal.(*State).RemoveAssetInstance", 17;
  "models.(*Entity).SetPose", 18; "models.(*Session).AddEntity", 19; "models.(*EntityComponentStore).Update", 20;
  "models.(*EntityComponentStore).Notify", 21; "models.(*Session).GetParticipantsByIDs", 22; "models.(*Session).BroadcastTo", 22 (* since /repo 24b0f8e the recipients are looked up and served in BroadcastTo's own critical section *);
  "modules/vikja.(*State).EntityAction", 23;
  "modules/vikja.(*State).SetEntityAction", 24; "models.(*EntityComponentStore).Add", 25 ]

let fail_decode what line = Printf.printf "DECODEFAIL %s: %s\n" what line; exit 2

let () =
  let model = if Array.length Sys.argv > 2 && Sys.argv.(1) = "-model" then Some (int_of_string Sys.argv.(2)) else None in
  let steps = ref [] in
  let idx = ref 0 in
  let pre = ref [] and post = ref [] in
  let streams : (int, item list) Hashtbl.t = Hashtbl.create 8 in
  let conns = ref [] in
  let reset () = pre := []; post := []; Hashtbl.reset streams; conns := [] in
  let show tag (vs : violation list) =
    List.iter (fun v -> Printf.printf "V %d %s %d %s\n" !idx tag (int_of_z v.v_code)
                  (String.concat " " (List.map (fun z -> string_of_int (int_of_z z)) v.v_info))) vs in
  (try
     while true do
       let line = input_line stdin in
       let n = String.length line in
       if n >= 1 then begin
         let sp = try String.index line ' ' with Not_found -> n in
         let tag = String.sub line 0 sp in
         let rest = if sp < n then String.sub line (sp + 1) (n - sp - 1) else "" in
         match tag with
         | "B" -> reset ()
         | "P" ->
           steps := List.filter_map (fun t ->
               if t = "" then None else
                 let i = String.index t ':' in
                 let th = int_of_string (String.sub t 0 i) and fn = String.sub t (i + 1) (String.length t - i - 1) in
                 Some (n_of_int th, n_of_int (try List.assoc fn labels with Not_found -> 999))) (String.split_on_char ' ' rest)
         | "X" | "C" | "Z" -> ()
         | "Q0" | "Q1" ->
           (match dec_dump (List.map z_of_int (ints_of_line rest)) with
            | Some d -> if tag = "Q0" then pre := d :: !pre else post := d :: !post
            | None -> fail_decode "dump" line)
         | "I" ->
           (match ints_of_line rest with
            | c :: k :: body ->
              let it =
                match k with
                | 0 -> (match dec_msg (List.map z_of_int body) with Some m -> IRecv m | None -> fail_decode "msg" line)
                | 1 -> (match dec_req (List.map z_of_int body) with Some r -> IOwn r | None -> fail_decode "req" line)
                | 2 -> ILeft
                | 3 -> IRace
                | _ -> fail_decode "item" line in
              if not (Hashtbl.mem streams c) then conns := c :: !conns;
              Hashtbl.replace streams c (it :: (try Hashtbl.find streams c with Not_found -> []))
            | _ -> fail_decode "I" line)
         | "E" ->
           let ss = List.map (fun c -> (n_of_int c, List.rev (Hashtbl.find streams c))) (List.sort compare !conns) in
           let (((s, l), r), nt) = conc_judge ss (List.rev !pre) (List.rev !post) in
           Printf.printf "R %d %d %d %d %d\n" !idx (List.length s) (List.length l) (List.length r) (List.length nt);
           show "S" s; show "L" l; show "R" r; show "N" nt;
           (match model with
            | Some id ->
              let d = model_tie_id (n_of_int id) !steps ss (List.rev !pre) (List.rev !post) in
              if d = [] then Printf.printf "T %d ok\n" !idx
              else Printf.printf "T %d %s\n" !idx (String.concat " " (List.map (fun z -> string_of_int (int_of_z z)) d))
            | None -> ());
           incr idx
         | _ -> if line.[0] <> '#' then fail_decode "tag" line
       end
     done
   with End_of_file -> ());
  Printf.printf "SUMMARY executions=%d\n" !idx

(* extraction of the judge of concurrent executions, coq/ConcView.v (ExtrOcamlBasic only; N, Z, positive, nat stay inductives) *)
From hagall Require Import ConcView.
Require Extraction.
Require ExtrOcamlBasic.
Extraction Language OCaml.
Extraction "cv_model.ml" dec_msg dec_req dec_dump conc_judge model_tie_id.

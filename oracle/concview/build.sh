#!/bin/sh
# builds the C01/C02 concurrent-clause oracle from coq/ConcView.v: extraction (ExtrOcamlBasic only) + hand-written driver.
# usage: build.sh [<coq dir>]   (default ../../coq; ConcView.vo must exist there)
set -e
cd "$(dirname "$0")"
COQDIR=${1:-../../coq}
coqc -Q "$COQDIR" hagall extract.v >/dev/null
rm -f extract.vo extract.glob .extract.aux extract.vok extract.vos
ocamlfind ocamlopt -O2 -w -a -package str -linkpkg cv_model.mli cv_model.ml driver.ml -o oracle 2>/dev/null || \
ocamlfind ocamlopt -w -a -package str -linkpkg cv_model.mli cv_model.ml driver.ml -o oracle


(** val negb : bool -> bool **)

let negb = function
| true -> false
| false -> true

type comparison =
| Eq
| Lt
| Gt

(** val compOpp : comparison -> comparison **)

let compOpp = function
| Eq -> Eq
| Lt -> Gt
| Gt -> Lt

(** val eqb : bool -> bool -> bool **)

let eqb b1 b2 =
  if b1 then b2 else if b2 then false else true

type positive =
| XI of positive
| XO of positive
| XH

type z =
| Z0
| Zpos of positive
| Zneg of positive

module Pos =
 struct
  (** val succ : positive -> positive **)

  let rec succ = function
  | XI p -> XO (succ p)
  | XO p -> XI p
  | XH -> XO XH

  (** val add : positive -> positive -> positive **)

  let rec add x y =
    match x with
    | XI p ->
      (match y with
       | XI q -> XO (add_carry p q)
       | XO q -> XI (add p q)
       | XH -> XO (succ p))
    | XO p ->
      (match y with
       | XI q -> XI (add p q)
       | XO q -> XO (add p q)
       | XH -> XI p)
    | XH -> (match y with
             | XI q -> XO (succ q)
             | XO q -> XI q
             | XH -> XO XH)

  (** val add_carry : positive -> positive -> positive **)

  and add_carry x y =
    match x with
    | XI p ->
      (match y with
       | XI q -> XI (add_carry p q)
       | XO q -> XO (add_carry p q)
       | XH -> XI (succ p))
    | XO p ->
      (match y with
       | XI q -> XO (add_carry p q)
       | XO q -> XI (add p q)
       | XH -> XO (succ p))
    | XH ->
      (match y with
       | XI q -> XI (succ q)
       | XO q -> XO (succ q)
       | XH -> XI XH)

  (** val pred_double : positive -> positive **)

  let rec pred_double = function
  | XI p -> XI (XO p)
  | XO p -> XI (pred_double p)
  | XH -> XH

  (** val compare_cont : comparison -> positive -> positive -> comparison **)

  let rec compare_cont r x y =
    match x with
    | XI p ->
      (match y with
       | XI q -> compare_cont r p q
       | XO q -> compare_cont Gt p q
       | XH -> Gt)
    | XO p ->
      (match y with
       | XI q -> compare_cont Lt p q
       | XO q -> compare_cont r p q
       | XH -> Gt)
    | XH -> (match y with
             | XH -> r
             | _ -> Lt)

  (** val compare : positive -> positive -> comparison **)

  let compare =
    compare_cont Eq
 end

module Z =
 struct
  (** val double : z -> z **)

  let double = function
  | Z0 -> Z0
  | Zpos p -> Zpos (XO p)
  | Zneg p -> Zneg (XO p)

  (** val succ_double : z -> z **)

  let succ_double = function
  | Z0 -> Zpos XH
  | Zpos p -> Zpos (XI p)
  | Zneg p -> Zneg (Pos.pred_double p)

  (** val pred_double : z -> z **)

  let pred_double = function
  | Z0 -> Zneg XH
  | Zpos p -> Zpos (Pos.pred_double p)
  | Zneg p -> Zneg (XI p)

  (** val pos_sub : positive -> positive -> z **)

  let rec pos_sub x y =
    match x with
    | XI p ->
      (match y with
       | XI q -> double (pos_sub p q)
       | XO q -> succ_double (pos_sub p q)
       | XH -> Zpos (XO p))
    | XO p ->
      (match y with
       | XI q -> pred_double (pos_sub p q)
       | XO q -> double (pos_sub p q)
       | XH -> Zpos (Pos.pred_double p))
    | XH ->
      (match y with
       | XI q -> Zneg (XO q)
       | XO q -> Zneg (Pos.pred_double q)
       | XH -> Z0)

  (** val add : z -> z -> z **)

  let add x y =
    match x with
    | Z0 -> y
    | Zpos x' ->
      (match y with
       | Z0 -> x
       | Zpos y' -> Zpos (Pos.add x' y')
       | Zneg y' -> pos_sub x' y')
    | Zneg x' ->
      (match y with
       | Z0 -> x
       | Zpos y' -> pos_sub y' x'
       | Zneg y' -> Zneg (Pos.add x' y'))

  (** val opp : z -> z **)

  let opp = function
  | Z0 -> Z0
  | Zpos x0 -> Zneg x0
  | Zneg x0 -> Zpos x0

  (** val sub : z -> z -> z **)

  let sub m n =
    add m (opp n)

  (** val compare : z -> z -> comparison **)

  let compare x y =
    match x with
    | Z0 -> (match y with
             | Z0 -> Eq
             | Zpos _ -> Lt
             | Zneg _ -> Gt)
    | Zpos x' -> (match y with
                  | Zpos y' -> Pos.compare x' y'
                  | _ -> Gt)
    | Zneg x' ->
      (match y with
       | Zneg y' -> compOpp (Pos.compare x' y')
       | _ -> Lt)

  (** val leb : z -> z -> bool **)

  let leb x y =
    match compare x y with
    | Gt -> false
    | _ -> true

  (** val ltb : z -> z -> bool **)

  let ltb x y =
    match compare x y with
    | Lt -> true
    | _ -> false
 end

type ascii =
| Ascii of bool * bool * bool * bool * bool * bool * bool * bool

(** val eqb0 : ascii -> ascii -> bool **)

let eqb0 a b =
  let Ascii (a0, a1, a2, a3, a4, a5, a6, a7) = a in
  let Ascii (b0, b1, b2, b3, b4, b5, b6, b7) = b in
  if if if if if if if eqb a0 b0 then eqb a1 b1 else false
                 then eqb a2 b2
                 else false
              then eqb a3 b3
              else false
           then eqb a4 b4
           else false
        then eqb a5 b5
        else false
     then eqb a6 b6
     else false
  then eqb a7 b7
  else false

type string =
| EmptyString
| String of ascii * string

(** val eqb1 : string -> string -> bool **)

let rec eqb1 s1 s2 =
  match s1 with
  | EmptyString ->
    (match s2 with
     | EmptyString -> true
     | String (_, _) -> false)
  | String (c1, s1') ->
    (match s2 with
     | EmptyString -> false
     | String (c2, s2') -> if eqb0 c1 c2 then eqb1 s1' s2' else false)

(** val append : string -> string -> string **)

let rec append s1 s2 =
  match s1 with
  | EmptyString -> s2
  | String (c, s1') -> String (c, (append s1' s2))

(** val strip_prefix : string -> string -> string option **)

let rec strip_prefix p s =
  match p with
  | EmptyString -> Some s
  | String (a, p') ->
    (match s with
     | EmptyString -> None
     | String (b, s') -> if eqb0 a b then strip_prefix p' s' else None)

(** val dot : ascii **)

let dot =
  Ascii (false, true, true, true, false, true, false, false)

(** val cut_dot : string -> (string * string) option **)

let rec cut_dot = function
| EmptyString -> None
| String (c, s') ->
  if eqb0 c dot
  then Some (EmptyString, s')
  else (match cut_dot s' with
        | Some p -> let (a, b) = p in Some ((String (c, a)), b)
        | None -> None)

(** val split3 : string -> ((string * string) * string) option **)

let split3 tok =
  match cut_dot tok with
  | Some p ->
    let (h, r) = p in
    (match cut_dot r with
     | Some p0 ->
       let (p1, r2) = p0 in
       (match cut_dot r2 with
        | Some _ -> None
        | None -> Some ((h, p1), r2))
     | None -> None)
  | None -> None

(** val is_empty : string -> bool **)

let is_empty = function
| EmptyString -> true
| String (_, _) -> false

type request = { authorization : string option; query_token : string option;
                 cookie_token : string option }

(** val val0 : string option -> string **)

let val0 = function
| Some s -> s
| None -> EmptyString

(** val bearer : string **)

let bearer =
  String ((Ascii (false, true, false, false, false, false, true, false)),
    (String ((Ascii (true, false, true, false, false, true, true, false)),
    (String ((Ascii (true, false, false, false, false, true, true, false)),
    (String ((Ascii (false, true, false, false, true, true, true, false)),
    (String ((Ascii (true, false, true, false, false, true, true, false)),
    (String ((Ascii (false, true, false, false, true, true, true, false)),
    (String ((Ascii (false, false, false, false, false, true, false, false)),
    EmptyString)))))))))))))

(** val token_from_header : request -> string **)

let token_from_header r =
  match strip_prefix bearer (val0 r.authorization) with
  | Some t -> t
  | None -> EmptyString

(** val token_of : request -> string **)

let token_of r =
  let h = token_from_header r in
  if negb (is_empty h)
  then h
  else let q = val0 r.query_token in
       if negb (is_empty q) then q else val0 r.cookie_token

type hash =
| SHA256
| SHA384
| SHA512

type method0 =
| MHmac of hash
| MNone
| MAsym

(** val signing_method : string -> method0 option **)

let signing_method alg =
  if eqb1 alg (String ((Ascii (false, false, false, true, false, false, true,
       false)), (String ((Ascii (true, true, false, false, true, false, true,
       false)), (String ((Ascii (false, true, false, false, true, true,
       false, false)), (String ((Ascii (true, false, true, false, true, true,
       false, false)), (String ((Ascii (false, true, true, false, true, true,
       false, false)), EmptyString))))))))))
  then Some (MHmac SHA256)
  else if eqb1 alg (String ((Ascii (false, false, false, true, false, false,
            true, false)), (String ((Ascii (true, true, false, false, true,
            false, true, false)), (String ((Ascii (true, true, false, false,
            true, true, false, false)), (String ((Ascii (false, false, false,
            true, true, true, false, false)), (String ((Ascii (false, false,
            true, false, true, true, false, false)), EmptyString))))))))))
       then Some (MHmac SHA384)
       else if eqb1 alg (String ((Ascii (false, false, false, true, false,
                 false, true, false)), (String ((Ascii (true, true, false,
                 false, true, false, true, false)), (String ((Ascii (true,
                 false, true, false, true, true, false, false)), (String
                 ((Ascii (true, false, false, false, true, true, false,
                 false)), (String ((Ascii (false, true, false, false, true,
                 true, false, false)), EmptyString))))))))))
            then Some (MHmac SHA512)
            else if eqb1 alg (String ((Ascii (false, true, true, true, false,
                      true, true, false)), (String ((Ascii (true, true, true,
                      true, false, true, true, false)), (String ((Ascii
                      (false, true, true, true, false, true, true, false)),
                      (String ((Ascii (true, false, true, false, false, true,
                      true, false)), EmptyString))))))))
                 then Some MNone
                 else if eqb1 alg (String ((Ascii (false, true, false, false,
                           true, false, true, false)), (String ((Ascii (true,
                           true, false, false, true, false, true, false)),
                           (String ((Ascii (false, true, false, false, true,
                           true, false, false)), (String ((Ascii (true,
                           false, true, false, true, true, false, false)),
                           (String ((Ascii (false, true, true, false, true,
                           true, false, false)), EmptyString))))))))))
                      then Some MAsym
                      else if eqb1 alg (String ((Ascii (false, true, false,
                                false, true, false, true, false)), (String
                                ((Ascii (true, true, false, false, true,
                                false, true, false)), (String ((Ascii (true,
                                true, false, false, true, true, false,
                                false)), (String ((Ascii (false, false,
                                false, true, true, true, false, false)),
                                (String ((Ascii (false, false, true, false,
                                true, true, false, false)),
                                EmptyString))))))))))
                           then Some MAsym
                           else if eqb1 alg (String ((Ascii (false, true,
                                     false, false, true, false, true,
                                     false)), (String ((Ascii (true, true,
                                     false, false, true, false, true,
                                     false)), (String ((Ascii (true, false,
                                     true, false, true, true, false, false)),
                                     (String ((Ascii (true, false, false,
                                     false, true, true, false, false)),
                                     (String ((Ascii (false, true, false,
                                     false, true, true, false, false)),
                                     EmptyString))))))))))
                                then Some MAsym
                                else if eqb1 alg (String ((Ascii (false,
                                          false, false, false, true, false,
                                          true, false)), (String ((Ascii
                                          (true, true, false, false, true,
                                          false, true, false)), (String
                                          ((Ascii (false, true, false, false,
                                          true, true, false, false)), (String
                                          ((Ascii (true, false, true, false,
                                          true, true, false, false)), (String
                                          ((Ascii (false, true, true, false,
                                          true, true, false, false)),
                                          EmptyString))))))))))
                                     then Some MAsym
                                     else if eqb1 alg (String ((Ascii (false,
                                               false, false, false, true,
                                               false, true, false)), (String
                                               ((Ascii (true, true, false,
                                               false, true, false, true,
                                               false)), (String ((Ascii
                                               (true, true, false, false,
                                               true, true, false, false)),
                                               (String ((Ascii (false, false,
                                               false, true, true, true,
                                               false, false)), (String
                                               ((Ascii (false, false, true,
                                               false, true, true, false,
                                               false)), EmptyString))))))))))
                                          then Some MAsym
                                          else if eqb1 alg (String ((Ascii
                                                    (false, false, false,
                                                    false, true, false, true,
                                                    false)), (String ((Ascii
                                                    (true, true, false,
                                                    false, true, false, true,
                                                    false)), (String ((Ascii
                                                    (true, false, true,
                                                    false, true, true, false,
                                                    false)), (String ((Ascii
                                                    (true, false, false,
                                                    false, true, true, false,
                                                    false)), (String ((Ascii
                                                    (false, true, false,
                                                    false, true, true, false,
                                                    false)),
                                                    EmptyString))))))))))
                                               then Some MAsym
                                               else if eqb1 alg (String
                                                         ((Ascii (true,
                                                         false, true, false,
                                                         false, false, true,
                                                         false)), (String
                                                         ((Ascii (true, true,
                                                         false, false, true,
                                                         false, true,
                                                         false)), (String
                                                         ((Ascii (false,
                                                         true, false, false,
                                                         true, true, false,
                                                         false)), (String
                                                         ((Ascii (true,
                                                         false, true, false,
                                                         true, true, false,
                                                         false)), (String
                                                         ((Ascii (false,
                                                         true, true, false,
                                                         true, true, false,
                                                         false)),
                                                         EmptyString))))))))))
                                                    then Some MAsym
                                                    else if eqb1 alg (String
                                                              ((Ascii (true,
                                                              false, true,
                                                              false, false,
                                                              false, true,
                                                              false)),
                                                              (String ((Ascii
                                                              (true, true,
                                                              false, false,
                                                              true, false,
                                                              true, false)),
                                                              (String ((Ascii
                                                              (true, true,
                                                              false, false,
                                                              true, true,
                                                              false, false)),
                                                              (String ((Ascii
                                                              (false, false,
                                                              false, true,
                                                              true, true,
                                                              false, false)),
                                                              (String ((Ascii
                                                              (false, false,
                                                              true, false,
                                                              true, true,
                                                              false, false)),
                                                              EmptyString))))))))))
                                                         then Some MAsym
                                                         else if eqb1 alg
                                                                   (String
                                                                   ((Ascii
                                                                   (true,
                                                                   false,
                                                                   true,
                                                                   false,
                                                                   false,
                                                                   false,
                                                                   true,
                                                                   false)),
                                                                   (String
                                                                   ((Ascii
                                                                   (true,
                                                                   true,
                                                                   false,
                                                                   false,
                                                                   true,
                                                                   false,
                                                                   true,
                                                                   false)),
                                                                   (String
                                                                   ((Ascii
                                                                   (true,
                                                                   false,
                                                                   true,
                                                                   false,
                                                                   true,
                                                                   true,
                                                                   false,
                                                                   false)),
                                                                   (String
                                                                   ((Ascii
                                                                   (true,
                                                                   false,
                                                                   false,
                                                                   false,
                                                                   true,
                                                                   true,
                                                                   false,
                                                                   false)),
                                                                   (String
                                                                   ((Ascii
                                                                   (false,
                                                                   true,
                                                                   false,
                                                                   false,
                                                                   true,
                                                                   true,
                                                                   false,
                                                                   false)),
                                                                   EmptyString))))))))))
                                                              then Some MAsym
                                                              else if 
                                                                    eqb1 alg
                                                                    (String
                                                                    ((Ascii
                                                                    (true,
                                                                    false,
                                                                    true,
                                                                    false,
                                                                    false,
                                                                    false,
                                                                    true,
                                                                    false)),
                                                                    (String
                                                                    ((Ascii
                                                                    (false,
                                                                    false,
                                                                    true,
                                                                    false,
                                                                    false,
                                                                    true,
                                                                    true,
                                                                    false)),
                                                                    (String
                                                                    ((Ascii
                                                                    (false,
                                                                    false,
                                                                    true,
                                                                    false,
                                                                    false,
                                                                    false,
                                                                    true,
                                                                    false)),
                                                                    (String
                                                                    ((Ascii
                                                                    (true,
                                                                    true,
                                                                    false,
                                                                    false,
                                                                    true,
                                                                    false,
                                                                    true,
                                                                    false)),
                                                                    (String
                                                                    ((Ascii
                                                                    (true,
                                                                    false,
                                                                    false,
                                                                    false,
                                                                    false,
                                                                    false,
                                                                    true,
                                                                    false)),
                                                                    EmptyString))))))))))
                                                                   then 
                                                                    Some MAsym
                                                                   else None

type claims = { c_exp : z option; c_nbf : z option; c_iat : z option }

type cflags = { f_expired : bool; f_iat : bool; f_nbf : bool }

(** val claim_flags : z -> claims -> cflags **)

let claim_flags now c =
  { f_expired =
    (match c.c_exp with
     | Some e -> negb (Z.ltb now e)
     | None -> false); f_iat =
    (match c.c_iat with
     | Some i -> negb (Z.leb i now)
     | None -> false); f_nbf =
    (match c.c_nbf with
     | Some n -> negb (Z.leb n now)
     | None -> false) }

(** val no_flag : cflags -> bool **)

let no_flag f =
  (&&) ((&&) (negb f.f_expired) (negb f.f_iat)) (negb f.f_nbf)

(** val only_iat : cflags -> bool **)

let only_iat f =
  (&&) ((&&) (negb f.f_expired) f.f_iat) (negb f.f_nbf)

type jwt_error =
| Malformed
| Unverifiable
| SignatureInvalid
| ClaimsInvalid of cflags

type jwt_result =
| JOk of claims
| JErr of jwt_error * claims option

(** val leeway : z **)

let leeway =
  Zpos (XO (XI (XO XH)))

(** val signing_input : string -> string -> string **)

let signing_input h p =
  append h
    (append (String ((Ascii (false, true, true, true, false, true, false,
      false)), EmptyString)) p)

(** val verify_sig :
    (string -> string option) -> (hash -> string -> string -> string) ->
    method0 -> string -> string -> string -> string -> bool **)

let verify_sig b64dec mac m secret h p s =
  match m with
  | MHmac hh ->
    (match b64dec s with
     | Some sg -> eqb1 sg (mac hh secret (signing_input h p))
     | None -> false)
  | _ -> false

(** val parse_with_claims :
    (string -> string option) -> (string -> string option option) -> (string
    -> claims option) -> (hash -> string -> string -> string) -> string -> z
    -> string -> jwt_result **)

let parse_with_claims b64dec header_alg claims_of mac secret now1 tok =
  match split3 tok with
  | Some p0 ->
    let (p1, s) = p0 in
    let (h, p) = p1 in
    (match b64dec h with
     | Some hb ->
       (match header_alg hb with
        | Some oalg ->
          (match b64dec p with
           | Some pb ->
             (match claims_of pb with
              | Some c ->
                (match oalg with
                 | Some alg ->
                   (match signing_method alg with
                    | Some m ->
                      if verify_sig b64dec mac m secret h p s
                      then let f = claim_flags now1 c in
                           if no_flag f
                           then JOk c
                           else JErr ((ClaimsInvalid f), (Some c))
                      else JErr (SignatureInvalid, (Some c))
                    | None -> JErr (Unverifiable, (Some c)))
                 | None -> JErr (Unverifiable, (Some c)))
              | None -> JErr (Malformed, None))
           | None -> JErr (Malformed, None))
        | None -> JErr (Malformed, None))
     | None -> JErr (Malformed, None))
  | None -> JErr (Malformed, None)

(** val verify_access_token :
    (string -> string option) -> (string -> string option option) -> (string
    -> claims option) -> (hash -> string -> string -> string) -> string -> z
    -> z -> string -> bool **)

let verify_access_token b64dec header_alg claims_of mac secret now1 now2 tok =
  match parse_with_claims b64dec header_alg claims_of mac secret now1 tok with
  | JOk _ -> true
  | JErr (e, c0) ->
    (match e with
     | ClaimsInvalid f ->
       (match c0 with
        | Some c ->
          if only_iat f
          then (match c.c_iat with
                | Some i -> Z.ltb (Z.sub i now2) leeway
                | None -> false)
          else false
        | None -> false)
     | _ -> false)

(** val verify_user_auth :
    (string -> string option) -> (string -> string option option) -> (string
    -> claims option) -> (hash -> string -> string -> string) -> string -> z
    -> z -> string -> bool **)

let verify_user_auth b64dec header_alg claims_of mac secret now1 now2 tok =
  if is_empty secret
  then false
  else verify_access_token b64dec header_alg claims_of mac secret now1 now2
         tok

(** val accept2 :
    (string -> string option) -> (string -> string option option) -> (string
    -> claims option) -> (hash -> string -> string -> string) -> string -> z
    -> z -> request -> bool **)

let accept2 b64dec header_alg claims_of mac secret now1 now2 r =
  verify_user_auth b64dec header_alg claims_of mac secret now1 now2
    (token_of r)

type status =
| St101
| St2xx
| St401
| St403
| StOther

(** val ws_model : bool -> status * bool **)

let ws_model = function
| true -> (St101, true)
| false -> (St403, false)

(** val mw_model : bool -> status * bool **)

let mw_model = function
| true -> (St2xx, true)
| false -> (St401, false)

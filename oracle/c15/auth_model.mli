
val negb : bool -> bool

type comparison =
| Eq
| Lt
| Gt

val compOpp : comparison -> comparison

val eqb : bool -> bool -> bool

type positive =
| XI of positive
| XO of positive
| XH

type z =
| Z0
| Zpos of positive
| Zneg of positive

module Pos :
 sig
  val succ : positive -> positive

  val add : positive -> positive -> positive

  val add_carry : positive -> positive -> positive

  val pred_double : positive -> positive

  val compare_cont : comparison -> positive -> positive -> comparison

  val compare : positive -> positive -> comparison
 end

module Z :
 sig
  val double : z -> z

  val succ_double : z -> z

  val pred_double : z -> z

  val pos_sub : positive -> positive -> z

  val add : z -> z -> z

  val opp : z -> z

  val sub : z -> z -> z

  val compare : z -> z -> comparison

  val leb : z -> z -> bool

  val ltb : z -> z -> bool
 end

type ascii =
| Ascii of bool * bool * bool * bool * bool * bool * bool * bool

val eqb0 : ascii -> ascii -> bool

type string =
| EmptyString
| String of ascii * string

val eqb1 : string -> string -> bool

val append : string -> string -> string

val strip_prefix : string -> string -> string option

val dot : ascii

val cut_dot : string -> (string * string) option

val split3 : string -> ((string * string) * string) option

val is_empty : string -> bool

type request = { authorization : string option; query_token : string option;
                 cookie_token : string option }

val val0 : string option -> string

val bearer : string

val token_from_header : request -> string

val token_of : request -> string

type hash =
| SHA256
| SHA384
| SHA512

type method0 =
| MHmac of hash
| MNone
| MAsym

val signing_method : string -> method0 option

type claims = { c_exp : z option; c_nbf : z option; c_iat : z option }

type cflags = { f_expired : bool; f_iat : bool; f_nbf : bool }

val claim_flags : z -> claims -> cflags

val no_flag : cflags -> bool

val only_iat : cflags -> bool

type jwt_error =
| Malformed
| Unverifiable
| SignatureInvalid
| ClaimsInvalid of cflags

type jwt_result =
| JOk of claims
| JErr of jwt_error * claims option

val leeway : z

val signing_input : string -> string -> string

val verify_sig :
  (string -> string option) -> (hash -> string -> string -> string) ->
  method0 -> string -> string -> string -> string -> bool

val parse_with_claims :
  (string -> string option) -> (string -> string option option) -> (string ->
  claims option) -> (hash -> string -> string -> string) -> string -> z ->
  string -> jwt_result

val verify_access_token :
  (string -> string option) -> (string -> string option option) -> (string ->
  claims option) -> (hash -> string -> string -> string) -> string -> z -> z
  -> string -> bool

val verify_user_auth :
  (string -> string option) -> (string -> string option option) -> (string ->
  claims option) -> (hash -> string -> string -> string) -> string -> z -> z
  -> string -> bool

val accept2 :
  (string -> string option) -> (string -> string option option) -> (string ->
  claims option) -> (hash -> string -> string -> string) -> string -> z -> z
  -> request -> bool

type status =
| St101
| St2xx
| St401
| St403
| StOther

val ws_model : bool -> status * bool

val mw_model : bool -> status * bool

(* extraction of the acceptance model (coq/Auth.v) for the C15 oracle; ExtrOcamlBasic only *)
From hagall Require Import Auth.
Require Extraction.
Require ExtrOcamlBasic.
Extraction Language OCaml.
Extraction "auth_model.ml" accept2 parse_with_claims verify_access_token token_of ws_model mw_model is_empty.

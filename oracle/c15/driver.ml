(* driver.ml — C15 oracle: runs the extracted acceptance model (Auth_model.accept2) on the cases of
   the harness.  The four trusted functions of the model (base64url decoding, header reader, claims
   reader, HMAC) are instantiated from the fact lines the harness computed with the Go standard
   library, independently of hagall-common and golang-jwt.

   input (one record per line; strings are "x"+hex, "-" is absent):
     B <seg> <bytes|->                     b64dec seg
     H <bytes> <!|-|alg>                   header_alg bytes: ! not JSON, - no alg / not a string
     K <bytes> <!| exp nbf iat>            claims_of bytes: ! not decodable; each claim "-" or integer
     M <256|384|512> <key> <msg> <mac>     mac hash key msg
     R <rid> <secret> <n1lo> <n1hi> <n2lo> <n2hi> <authorization> <query> <cookie>
   output, per R line:
     <rid> <0|1|?> <ws status> <ws entered> <mw status> <mw entered> <reason>
   "?" = the decision depends on which clock reading in the bracket is taken.
   A model query that has no fact line is an error of the machinery: line "MISSING …", exit 3. *)

module A = Auth_model

let of_hex (s : string) : string option =
  (* "x"+hex *)
  if s = "-" || s = "!" then None
  else begin
    let n = (String.length s - 1) / 2 in
    let b = Bytes.create n in
    for i = 0 to n - 1 do
      Bytes.set b i (Char.chr (int_of_string ("0x" ^ String.sub s (1 + 2 * i) 2)))
    done;
    Some (Bytes.to_string b)
  end

let hex_exn s = match of_hex s with Some v -> v | None -> failwith ("bad hex field " ^ s)

(* OCaml string <-> extracted Coq string (ascii = 8 booleans, least significant first) *)
let ascii_of_char (c : char) : A.ascii =
  let n = Char.code c in
  let b i = (n lsr i) land 1 = 1 in
  A.Ascii (b 0, b 1, b 2, b 3, b 4, b 5, b 6, b 7)

let char_of_ascii (a : A.ascii) : char =
  match a with
  | A.Ascii (b0, b1, b2, b3, b4, b5, b6, b7) ->
    let v b i = if b then 1 lsl i else 0 in
    Char.chr (v b0 0 + v b1 1 + v b2 2 + v b3 3 + v b4 4 + v b5 5 + v b6 6 + v b7 7)

let to_coq (s : string) : A.string =
  let r = ref A.EmptyString in
  for i = String.length s - 1 downto 0 do
    r := A.String (ascii_of_char s.[i], !r)
  done;
  !r

let of_coq (s : A.string) : string =
  let b = Buffer.create 64 in
  let rec go = function
    | A.EmptyString -> ()
    | A.String (a, t) -> Buffer.add_char b (char_of_ascii a); go t in
  go s; Buffer.contents b

let rec pos_of_int (n : int) : A.positive =
  if n = 1 then A.XH
  else if n land 1 = 1 then A.XI (pos_of_int (n lsr 1))
  else A.XO (pos_of_int (n lsr 1))

let z_of_int (n : int) : A.z =
  if n = 0 then A.Z0 else if n > 0 then A.Zpos (pos_of_int n) else A.Zneg (pos_of_int (- n))

let z_of_string s = z_of_int (int_of_string s)

exception Missing of string

let tb : (string, string option) Hashtbl.t = Hashtbl.create 4096
let th : (string, string option option) Hashtbl.t = Hashtbl.create 4096
let tk : (string, A.claims option) Hashtbl.t = Hashtbl.create 4096
let tm : (string, string) Hashtbl.t = Hashtbl.create 4096

let hex_of s =
  let b = Buffer.create (2 * String.length s + 1) in
  Buffer.add_char b 'x';
  String.iter (fun c -> Buffer.add_string b (Printf.sprintf "%02x" (Char.code c))) s;
  Buffer.contents b

let b64dec (s : A.string) : A.string option =
  let k = of_coq s in
  match Hashtbl.find_opt tb k with
  | Some (Some v) -> Some (to_coq v)
  | Some None -> None
  | None -> raise (Missing ("B " ^ hex_of k))

let header_alg (s : A.string) : A.string option option =
  let k = of_coq s in
  match Hashtbl.find_opt th k with
  | Some None -> None
  | Some (Some None) -> Some None
  | Some (Some (Some a)) -> Some (Some (to_coq a))
  | None -> raise (Missing ("H " ^ hex_of k))

let claims_of (s : A.string) : A.claims option =
  let k = of_coq s in
  match Hashtbl.find_opt tk k with
  | Some v -> v
  | None -> raise (Missing ("K " ^ hex_of k))

let hash_name = function A.SHA256 -> "256" | A.SHA384 -> "384" | A.SHA512 -> "512"

let mac (h : A.hash) (key : A.string) (msg : A.string) : A.string =
  let k = hash_name h ^ " " ^ hex_of (of_coq key) ^ " " ^ hex_of (of_coq msg) in
  match Hashtbl.find_opt tm k with
  | Some v -> to_coq v
  | None -> raise (Missing ("M " ^ k))

let status_name = function
  | A.St101 -> "101" | A.St2xx -> "2xx" | A.St401 -> "401" | A.St403 -> "403" | A.StOther -> "other"

let carrier s = match of_hex s with Some v -> Some (to_coq v) | None -> None

let reason secret n1 n2 req =
  if A.is_empty secret then "no-secret"
  else begin
    let tok = A.token_of req in
    if A.is_empty tok then "no-token"
    else match A.parse_with_claims b64dec header_alg claims_of mac secret n1 tok with
      | A.JOk _ -> "ok"
      | A.JErr (A.Malformed, _) -> "malformed"
      | A.JErr (A.Unverifiable, _) -> "unverifiable"
      | A.JErr (A.SignatureInvalid, _) -> "signature"
      | A.JErr (A.ClaimsInvalid f, _) ->
        let l = (if f.A.f_expired then ["exp"] else []) @ (if f.A.f_iat then ["iat"] else []) @ (if f.A.f_nbf then ["nbf"] else []) in
        let a = A.verify_access_token b64dec header_alg claims_of mac secret n1 n2 tok in
        "claims-" ^ String.concat "+" l ^ (if a then "-leeway" else "")
  end

let () =
  let ic = if Array.length Sys.argv > 1 then open_in Sys.argv.(1) else stdin in
  let nr = ref 0 in
  (try
    while true do
      let line = input_line ic in
      match String.split_on_char ' ' line with
      | ["B"; seg; v] -> Hashtbl.replace tb (hex_exn seg) (of_hex v)
      | ["H"; b; v] ->
        Hashtbl.replace th (hex_exn b) (if v = "!" then None else if v = "-" then Some None else Some (Some (hex_exn v)))
      | ["K"; b; "!"] -> Hashtbl.replace tk (hex_exn b) None
      | ["K"; b; e; n; i] ->
        let c s = if s = "-" then None else Some (z_of_string s) in
        Hashtbl.replace tk (hex_exn b) (Some { A.c_exp = c e; A.c_nbf = c n; A.c_iat = c i })
      | ["M"; h; key; msg; v] -> Hashtbl.replace tm (h ^ " " ^ key ^ " " ^ msg) (hex_exn v)
      | ["R"; rid; secret; n1lo; n1hi; n2lo; n2hi; a; q; c] ->
        incr nr;
        let secret = to_coq (hex_exn secret) in
        let req = { A.authorization = carrier a; A.query_token = carrier q; A.cookie_token = carrier c } in
        let run n1 n2 = A.accept2 b64dec header_alg claims_of mac secret (z_of_string n1) (z_of_string n2) req in
        (try
          let rs = [run n1lo n2lo; run n1lo n2hi; run n1hi n2lo; run n1hi n2hi] in
          let all_t = List.for_all (fun x -> x) rs and all_f = List.for_all (fun x -> not x) rs in
          let d = if all_t then "1" else if all_f then "0" else "?" in
          let adm = all_t in
          let (ws, wse) = A.ws_model adm and (mw, mwe) = A.mw_model adm in
          Printf.printf "%s %s %s %d %s %d %s\n" rid d (status_name ws) (if wse then 1 else 0)
            (status_name mw) (if mwe then 1 else 0) (reason secret (z_of_string n1lo) (z_of_string n2lo) req)
        with Missing what -> Printf.printf "MISSING rid=%s %s\n" rid what; exit 3)
      | [""] | [] -> ()
      | _ -> Printf.printf "BADLINE %s\n" line; exit 3
    done
  with End_of_file -> ());
  Printf.printf "SUMMARY requests=%d\n" !nr

(* driver.ml — hand-written glue around the extracted model (model.ml).
   Reads trace files in the integer-line format, decodes them with the extracted
   decoders, runs the extracted comparison / predicates, prints one result line
   per history.  Part of the trusted base (see DESIGN.md §2.8).

   usage: oracle <property> <trace> [maxshow]
          oracle C17pair <trace under no flag> <trace under flags> [maxshow] *)
open Model

let rec pos_of_int (n : int) : positive =
  if n = 1 then XH else if n land 1 = 0 then XO (pos_of_int (n lsr 1)) else XI (pos_of_int (n lsr 1))
let z_of_int (n : int) : z = if n = 0 then Z0 else if n > 0 then Zpos (pos_of_int n) else Zneg (pos_of_int (-n))
let rec int_of_pos = function XH -> 1 | XO p -> 2 * int_of_pos p | XI p -> 2 * int_of_pos p + 1
let int_of_z = function Z0 -> 0 | Zpos p -> int_of_pos p | Zneg p -> - (int_of_pos p)
let rec int_of_nat = function O -> 0 | S n -> 1 + int_of_nat n

let ints_of_line (s : string) : int list =
  let toks = String.split_on_char ' ' s in
  List.filter_map (fun t -> if t = "" then None else Some (int_of_string t)) toks

let show_ints (l : z list) = String.concat " " (List.map (fun z -> string_of_int (int_of_z z)) l)
let show_lines (ls : z list list) = String.concat " | " (List.map show_ints ls)

type hist = { hid : int; cfg : config; mutable evs : event list (* reversed while parsing *);
              mutable digs : n list list (* per event: payload digests of its deliveries, purge experiment *) }

let props : (string * (Model.tproj * (config -> trace -> Model.violation list) * Model.skipper)) list = Props.table

let fail_decode what line = Printf.printf "DECODEFAIL %s: %s\n" what line; exit 2

(* calls [k] on every complete history of the file, in order *)
let iter_file (file : string) (k : hist -> unit) : int =
  let ic = open_in file in
  let cur : hist option ref = ref None in
  let cop : op option ref = ref None in
  let creq : req option ref = ref None in
  let couts : (n * msg) list ref = ref [] in
  let cdigs : n list ref = ref [] in
  let n_of_int (i : int) : n = match z_of_int i with Zpos p -> Npos p | _ -> N0 in
  let n_ev = ref 0 in
  (try
     while true do
       let line = input_line ic in
       if String.length line >= 1 then begin
         let tag = line.[0] in
         let rest = if String.length line > 1 then String.sub line 1 (String.length line - 1) else "" in
         match tag with
         | 'H' ->
           (match List.map z_of_int (ints_of_line rest) with
            | h :: c ->
              (match dec_cfg c with
               | Some cfg -> cur := Some { hid = int_of_z h; cfg; evs = []; digs = [] }
               | None -> fail_decode "cfg" line)
            | [] -> fail_decode "H" line)
         | 'O' ->
           (match dec_op (List.map z_of_int (ints_of_line rest)) with
            | Some o -> cop := Some o; creq := None; couts := []; cdigs := []
            | None -> fail_decode "op" line)
         | 'R' ->
           (match dec_req (List.map z_of_int (ints_of_line rest)) with
            | Some r -> creq := Some r
            | None -> fail_decode "req" line)
         | 'D' ->
           (match List.map z_of_int (ints_of_line rest) with
            | c :: m ->
              (match dec_msg m with
               | Some m' -> couts := ((match c with Z0 -> N0 | Zpos p -> Npos p | Zneg _ -> N0), m') :: !couts; cdigs := N0 :: !cdigs
               | None -> fail_decode "msg" line)
            | [] -> fail_decode "D" line)
         | 'X' ->
           (match ints_of_line rest, !cdigs with
            | [d], _ :: tl -> cdigs := n_of_int d :: tl
            | _ -> fail_decode "X" line)
         | 'G' -> ()
         | 'V' ->
           (match !cur, !cop, ints_of_line rest with
            | Some h, Some o, [v] ->
              h.evs <- { ev_op = o; ev_req = !creq; ev_outs = List.rev !couts;
                         ev_verdict = dec_verdict (z_of_int v) } :: h.evs;
              h.digs <- List.rev !cdigs :: h.digs;
              incr n_ev; cop := None
            | _ -> fail_decode "V" line)
         | 'E' ->
           (match !cur with
            | Some h -> h.evs <- List.rev h.evs; h.digs <- List.rev h.digs; k h; cur := None
            | None -> fail_decode "E" line)
         | '#' -> ()
         | _ -> fail_decode "tag" line
       end
     done
   with End_of_file -> ());
  close_in ic;
  !n_ev

let show_viols hid maxshow tag (pv : violation list) =
  List.iteri (fun i v ->
      if i < maxshow then
        Printf.printf "%s %d at=%d code=%d info=%s\n" tag hid
          (int_of_nat v.v_index) (int_of_z v.v_code) (show_ints v.v_info)) pv

let () =
  let prop = Sys.argv.(1) in
  let n_hist = ref 0 and n_bad = ref 0 in
  if prop = "C17pair" then begin
    let maxshow = if Array.length Sys.argv > 4 then int_of_string Sys.argv.(4) else 3 in
    let base : (int, hist) Hashtbl.t = Hashtbl.create 64 in
    let _ = iter_file Sys.argv.(2) (fun h -> Hashtbl.replace base h.hid h) in
    let n_ev = iter_file Sys.argv.(3) (fun hf ->
        incr n_hist;
        (* history ids of the flagged runs are base id * 1000 + k *)
        match Hashtbl.find_opt base (hf.hid / 1000) with
        | None -> Printf.printf "DECODEFAIL nobase: %d\n" hf.hid; exit 2
        | Some h0 ->
          let pv = run_P_C17_pair hf.cfg h0.evs hf.evs in
          if pv = [] then Printf.printf "OK %d %d\n" hf.hid (List.length hf.evs)
          else begin
            incr n_bad;
            Printf.printf "BAD %d mismatches=0 violations=%d\n" hf.hid (List.length pv);
            show_viols hf.hid maxshow "  PVIOL" pv
          end) in
    Printf.printf "SUMMARY histories=%d events=%d bad=%d\n" !n_hist n_ev !n_bad;
    exit (if !n_bad = 0 then 0 else 1)
  end;
  if prop = "C03purge" then begin
    (* file: per experiment a "G <id> <n> <conns>" line, the full trace, the purged trace *)
    let maxshow = if Array.length Sys.argv > 3 then int_of_string Sys.argv.(3) else 3 in
    let groups : (int * n list) list ref = ref [] in
    let ic = open_in Sys.argv.(2) in
    (try while true do
         let l = input_line ic in
         if String.length l > 1 && l.[0] = 'G' then
           (match ints_of_line (String.sub l 1 (String.length l - 1)) with
            | id :: _ :: cs -> groups := (id, List.map (fun c -> match z_of_int c with Zpos p -> Npos p | _ -> N0) cs) :: !groups
            | _ -> fail_decode "G" l)
       done with End_of_file -> ());
    close_in ic;
    let groups = ref (List.rev !groups) in
    let pending : hist option ref = ref None in
    let n_skip = ref 0 and codes : (int, int) Hashtbl.t = Hashtbl.create 8 in
    let n_ev = iter_file Sys.argv.(2) (fun h ->
        match !pending with
        | None -> pending := Some h
        | Some full ->
          pending := None;
          let (gid, a) = match !groups with g :: tl -> groups := tl; g | [] -> (Printf.printf "DECODEFAIL nogroup: %d\n" h.hid; exit 2) in
          incr n_hist;
          let t1 = List.combine full.evs full.digs and t2 = List.combine h.evs h.digs in
          let pv = run_P_C03_purge a t1 t2 in
          (* diagnostic only: the experiment on the model's own runs (no violation code by the theorems) *)
          let pvm = List.filter (fun v -> not (is_skip_code v.v_code)) (model_purge full.cfg a (List.map (fun e -> e.ev_op) full.evs)) in
          show_viols gid maxshow "MODELVIOL" pvm;
          let real = List.filter (fun v -> not (is_skip_code v.v_code)) pv in
          List.iter (fun v -> let c = int_of_z v.v_code in Hashtbl.replace codes c (1 + try Hashtbl.find codes c with Not_found -> 0)) pv;
          if pv = [] then Printf.printf "OK %d %d %d\n" gid (List.length full.evs) (List.length h.evs)
          else if real = [] then begin
            incr n_skip;
            Printf.printf "SKIP %d code=%d at=%d\n" gid (int_of_z (List.hd pv).v_code) (int_of_nat (List.hd pv).v_index)
          end else begin
            incr n_bad;
            Printf.printf "BAD %d mismatches=0 violations=%d\n" gid (List.length real);
            show_viols gid maxshow "  PVIOL" real
          end) in
    Printf.printf "SUMMARY histories=%d events=%d bad=%d skipped=%d%s\n" !n_hist n_ev !n_bad !n_skip
      (Hashtbl.fold (fun c k acc -> acc ^ Printf.sprintf " code%d=%d" c k) codes "");
    exit (if !n_bad = 0 then 0 else 1)
  end;
  let file = Sys.argv.(2) in
  let maxshow = if Array.length Sys.argv > 3 then int_of_string Sys.argv.(3) else 3 in
  let (pi, pred, sk) =
    try List.assoc prop props with Not_found -> (prerr_endline ("unknown property " ^ prop); exit 2) in
  let n_ev = iter_file file (fun h ->
      incr n_hist;
      let impl = h.evs in
      let mm = diff_trace_t h.cfg pi sk impl in
      let pv = pred h.cfg impl in
      (* diagnostic only: the predicate on the model's own trace (empty by the theorems) *)
      let pvm = pred h.cfg (run h.cfg (List.map (fun e -> e.ev_op) impl)) in
      show_viols h.hid maxshow "MODELVIOL" pvm;
      if mm = [] && pv = [] then Printf.printf "OK %d %d\n" h.hid (List.length impl)
      else begin
        incr n_bad;
        Printf.printf "BAD %d mismatches=%d violations=%d\n" h.hid (List.length mm) (List.length pv);
        List.iteri (fun i m ->
            if i < maxshow then
              Printf.printf "  MISMATCH %d at=%d\n    impl : %s\n    model: %s\n" h.hid
                (int_of_nat m.mm_index) (show_lines m.mm_impl) (show_lines m.mm_model)) mm;
        show_viols h.hid maxshow "  PVIOL" pv
      end) in
  Printf.printf "SUMMARY histories=%d events=%d bad=%d\n" !n_hist n_ev !n_bad;
  exit (if !n_bad = 0 then 0 else 1)

(* props.ml — property id -> (projection, predicate), both extracted from Coq (Obs.v). *)
open Model
let table : (string * (proj * (config -> trace -> violation list))) list = [
  ("full", (pi_full, p_none));
  ("C14", (pi_C14, p_C14));
]

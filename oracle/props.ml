(* props.ml — property id -> (projection, predicate), both extracted from Coq (Obs.v, Preds.v, Preds2.v). *)
open Model
let table : (string * (tproj * (config -> trace -> violation list))) list = [
  ("full", (lift pi_full, p_none));
  ("C01", (lift pi_C01, p_C01));
  ("C02", (lift pi_C02, p_C02));
  ("C03", (pi_C03, p_C03));
  ("C04", (lift pi_C04, p_C04));
  ("C05", (lift pi_C05, p_C05));
  ("C06", (lift pi_C06, p_C06));
  ("C07", (lift pi_C07, p_C07));
  ("C10", (lift pi_C10, p_C10));
  ("C11", (lift pi_C11, p_C11));
  ("C12", (lift pi_C12, p_C12));
  ("C13", (lift pi_C13, p_C13));
  ("C14", (lift pi_C14, p_C14));
  ("C16", (lift pi_C16, p_C16));
  ("C17", (lift pi_C17, p_C17));
  ("C18", (lift pi_C18, p_C18));
]

(* props.ml — property id -> (projection, predicate), both extracted from Coq (Obs.v, Preds.v, Preds2.v). *)
open Model
let table : (string * (tproj * (config -> trace -> violation list) * skipper)) list = [
  ("full", (lift pi_full, p_none, no_skip));
  ("C01", (tpi_C01, p_C01, skip_limit));
  ("C02", (lift pi_C02, p_C02, skip_limit));
  ("C03", (pi_C03, p_C03, skip_limit));
  ("C04", (lift pi_C04, p_C04_full, skip_limit));
  ("C05", (tpi_C05, p_C05, skip_limit));
  ("C06", (lift pi_C06, p_C06, skip_limit));
  ("C07", (lift pi_C07, p_C07, skip_limit));
  ("C10", (lift pi_C10, p_C10, skip_limit));
  ("C11", (lift pi_C11, p_C11, skip_limit));
  ("C12", (lift pi_C12, p_C12, skip_limit));
  ("C13", (lift pi_C13, p_C13, skip_limit));
  ("C14", (lift pi_C14, p_C14, no_skip));
  ("C16", (lift pi_C16, p_C16, skip_limit));
  ("C17", (lift pi_C17, p_C17, skip_limit));
  ("C18", (lift pi_C18, p_C18, skip_limit));
]

// receiptfacts: syntactic facts about the receipt path, regenerated from the Go sources on
// every check run and written as coq/GenReceipt.v (property C19).  Fails closed: a pattern
// that is not found is emitted as None / the unsafe value, so the Coq obligation over it fails.
package main

import (
	"bytes"
	"fmt"
	"go/ast"
	"go/parser"
	"go/token"
	"os"
	"os/exec"
	"path/filepath"
	"sort"
	"strconv"
	"strings"
)

func parseDir(dir string) (*token.FileSet, []*ast.File, error) {
	fset := token.NewFileSet()
	ents, err := os.ReadDir(dir)
	if err != nil {
		return nil, nil, err
	}
	var files []*ast.File
	for _, e := range ents {
		n := e.Name()
		if e.IsDir() || !strings.HasSuffix(n, ".go") || strings.HasSuffix(n, "_test.go") || strings.HasPrefix(n, "zz_verif_") {
			continue
		}
		f, err := parser.ParseFile(fset, filepath.Join(dir, n), nil, 0)
		if err != nil {
			return nil, nil, err
		}
		files = append(files, f)
	}
	return fset, files, nil
}

func selName(e ast.Expr) string {
	switch x := e.(type) {
	case *ast.SelectorExpr:
		return x.Sel.Name
	case *ast.Ident:
		return x.Name
	case *ast.ParenExpr:
		return selName(x.X)
	}
	return ""
}

// ---- cmd/main.go: make(chan <pkg>.ReceiptPayload, N) and who gets the channel
func chanFacts(repo string) (capStr string, shared bool, notes []string) {
	capStr = "None"
	_, files, err := parseDir(filepath.Join(repo, "cmd"))
	if err != nil {
		return capStr, false, []string{"cmd: " + err.Error()}
	}
	type site struct {
		cap  string
		name string
	}
	var sites []site
	consts := map[string]string{}
	for _, f := range files {
		ast.Inspect(f, func(n ast.Node) bool {
			if vs, ok := n.(*ast.ValueSpec); ok {
				for i, nm := range vs.Names {
					if i < len(vs.Values) {
						if bl, ok := vs.Values[i].(*ast.BasicLit); ok && bl.Kind == token.INT {
							consts[nm.Name] = bl.Value
						}
					}
				}
			}
			return true
		})
	}
	isMake := func(e ast.Expr) (string, bool) {
		c, ok := e.(*ast.CallExpr)
		if !ok {
			return "", false
		}
		if id, ok := c.Fun.(*ast.Ident); !ok || id.Name != "make" || len(c.Args) == 0 {
			return "", false
		}
		ct, ok := c.Args[0].(*ast.ChanType)
		if !ok || selName(ct.Value) != "ReceiptPayload" {
			return "", false
		}
		if len(c.Args) == 1 {
			return "0", true
		}
		switch a := c.Args[1].(type) {
		case *ast.BasicLit:
			if a.Kind == token.INT {
				if v, err := strconv.ParseUint(a.Value, 0, 62); err == nil {
					return strconv.FormatUint(v, 10), true
				}
			}
		case *ast.Ident:
			if v, ok := consts[a.Name]; ok {
				if u, err := strconv.ParseUint(v, 0, 62); err == nil {
					return strconv.FormatUint(u, 10), true
				}
			}
		}
		return "?", true
	}
	users := map[string]map[string]bool{} // variable -> composite literal type names that receive it as ReceiptChan
	for _, f := range files {
		ast.Inspect(f, func(n ast.Node) bool {
			switch x := n.(type) {
			case *ast.AssignStmt:
				for i, r := range x.Rhs {
					if c, ok := isMake(r); ok {
						nm := ""
						if i < len(x.Lhs) {
							nm = selName(x.Lhs[i])
						}
						sites = append(sites, site{c, nm})
					}
				}
			case *ast.ValueSpec:
				for i, r := range x.Values {
					if c, ok := isMake(r); ok {
						nm := ""
						if i < len(x.Names) {
							nm = x.Names[i].Name
						}
						sites = append(sites, site{c, nm})
					}
				}
			case *ast.CompositeLit:
				tn := selName(x.Type)
				for _, el := range x.Elts {
					if kv, ok := el.(*ast.KeyValueExpr); ok && selName(kv.Key) == "ReceiptChan" {
						if c, ok := isMake(kv.Value); ok {
							sites = append(sites, site{c, ""}) // a private channel: not shared
						} else if v := selName(kv.Value); v != "" {
							if users[v] == nil {
								users[v] = map[string]bool{}
							}
							users[v][tn] = true
						}
					}
				}
			}
			return true
		})
	}
	if len(sites) != 1 {
		notes = append(notes, fmt.Sprintf("expected exactly one make(chan ...ReceiptPayload, N) in cmd/, found %d", len(sites)))
		return "None", false, notes
	}
	if sites[0].cap != "?" {
		capStr = "Some " + sites[0].cap + "%N"
	} else {
		notes = append(notes, "channel capacity is not an integer literal/constant")
	}
	u := users[sites[0].name]
	shared = sites[0].name != "" && u["ReceiptHandler"] && u["RealtimeHandler"]
	if !shared {
		notes = append(notes, "the channel made in cmd/ is not handed to both receipt.ReceiptHandler and RealtimeHandler")
	}
	return capStr, shared, notes
}

// ---- package websocket: every send on .ReceiptChan, and the refusal codes of HandleReceipt
type wsFacts struct {
	sends, blockingSends int
	emptyCode, fullCode  string
	notes                []string
}

func codeIn(n ast.Node) []string {
	var out []string
	ast.Inspect(n, func(m ast.Node) bool {
		if kv, ok := m.(*ast.KeyValueExpr); ok && selName(kv.Key) == "Code" {
			if s := selName(kv.Value); strings.HasPrefix(s, "ErrorCode_") {
				out = append(out, strings.TrimPrefix(s, "ErrorCode_"))
			}
		}
		// … or the code is handed to a helper that builds the error response: f(…, hagallpb.ErrorCode_X)
		if ce, ok := m.(*ast.CallExpr); ok {
			for _, a := range ce.Args {
				if se, ok := a.(*ast.SelectorExpr); ok && strings.HasPrefix(se.Sel.Name, "ErrorCode_") {
					out = append(out, strings.TrimPrefix(se.Sel.Name, "ErrorCode_"))
				}
			}
		}
		return true
	})
	return out
}

func isReceiptSend(s ast.Stmt) bool {
	ss, ok := s.(*ast.SendStmt)
	return ok && selName(ss.Chan) == "ReceiptChan"
}

func mentionsLenZero(e ast.Expr) bool {
	found := false
	ast.Inspect(e, func(n ast.Node) bool {
		if be, ok := n.(*ast.BinaryExpr); ok && (be.Op == token.EQL || be.Op == token.LSS || be.Op == token.LEQ) {
			if c, ok := be.X.(*ast.CallExpr); ok {
				if id, ok := c.Fun.(*ast.Ident); ok && id.Name == "len" {
					found = true
				}
			}
		}
		return true
	})
	return found
}

func websocketFacts(repo string) wsFacts {
	var w wsFacts
	_, files, err := parseDir(filepath.Join(repo, "websocket"))
	if err != nil {
		w.notes = append(w.notes, "websocket: "+err.Error())
		return w
	}
	nonBlocking := map[ast.Stmt]*ast.SelectStmt{}
	for _, f := range files {
		// selects with a default clause make their comm sends non-blocking
		ast.Inspect(f, func(n ast.Node) bool {
			sel, ok := n.(*ast.SelectStmt)
			if !ok {
				return true
			}
			hasDefault := false
			for _, c := range sel.Body.List {
				if cc := c.(*ast.CommClause); cc.Comm == nil {
					hasDefault = true
				}
			}
			if hasDefault {
				for _, c := range sel.Body.List {
					if cc := c.(*ast.CommClause); cc.Comm != nil && isReceiptSend(cc.Comm) {
						nonBlocking[cc.Comm] = sel
					}
				}
			}
			return true
		})
		ast.Inspect(f, func(n ast.Node) bool {
			if s, ok := n.(ast.Stmt); ok && isReceiptSend(s) {
				w.sends++
				if sel := nonBlocking[s]; sel == nil {
					w.blockingSends++
				} else if w.fullCode == "" {
					for _, c := range sel.Body.List {
						if cc := c.(*ast.CommClause); cc.Comm == nil {
							cs := codeIn(cc)
							if len(cs) == 1 {
								w.fullCode = cs[0]
							}
						}
					}
				}
			}
			return true
		})
		for _, d := range f.Decls {
			fd, ok := d.(*ast.FuncDecl)
			if !ok || fd.Name.Name != "HandleReceipt" || fd.Recv == nil || fd.Body == nil {
				continue
			}
			if len(fd.Recv.List) != 1 || selName(starOf(fd.Recv.List[0].Type)) != "RealtimeHandler" {
				continue
			}
			ast.Inspect(fd.Body, func(n ast.Node) bool {
				if is, ok := n.(*ast.IfStmt); ok && mentionsLenZero(is.Cond) && w.emptyCode == "" {
					cs := codeIn(is.Body)
					if len(cs) == 1 {
						w.emptyCode = cs[0]
					}
				}
				return true
			})
		}
	}
	if w.sends == 0 {
		w.notes = append(w.notes, "no send on .ReceiptChan found in package websocket")
	}
	return w
}

func starOf(e ast.Expr) ast.Expr {
	if s, ok := e.(*ast.StarExpr); ok {
		return s.X
	}
	return e
}

// numeric values of hagallpb.ErrorCode_* from the module the repository is built against
func errorCodeValues(repo string) (map[string]string, string) {
	cmd := exec.Command("go", "list", "-m", "-f", "{{.Dir}}", "github.com/aukilabs/hagall-common")
	cmd.Dir = repo
	out, err := cmd.Output()
	if err != nil {
		return nil, "go list -m hagall-common: " + err.Error()
	}
	dir := filepath.Join(strings.TrimSpace(string(out)), "messages", "hagallpb")
	fset := token.NewFileSet()
	pkgs, err := parser.ParseDir(fset, dir, func(fi os.FileInfo) bool { return !strings.HasSuffix(fi.Name(), "_test.go") }, 0)
	if err != nil {
		return nil, "parse hagallpb: " + err.Error()
	}
	vals := map[string]string{}
	for _, p := range pkgs {
		for _, f := range p.Files {
			for _, d := range f.Decls {
				gd, ok := d.(*ast.GenDecl)
				if !ok || gd.Tok != token.CONST {
					continue
				}
				for _, s := range gd.Specs {
					vs := s.(*ast.ValueSpec)
					if selName(vs.Type) != "ErrorCode" {
						continue
					}
					for i, nm := range vs.Names {
						if i < len(vs.Values) {
							if bl, ok := vs.Values[i].(*ast.BasicLit); ok && bl.Kind == token.INT && strings.HasPrefix(nm.Name, "ErrorCode_") {
								vals[strings.TrimPrefix(nm.Name, "ErrorCode_")] = bl.Value
							}
						}
					}
				}
			}
		}
	}
	return vals, ""
}

func main() {
	if len(os.Args) != 3 {
		fmt.Fprintln(os.Stderr, "usage: receiptfacts <repo> <coq dir>")
		os.Exit(2)
	}
	repo, coqDir := os.Args[1], os.Args[2]
	capStr, shared, notes := chanFacts(repo)
	w := websocketFacts(repo)
	notes = append(notes, w.notes...)
	vals, note := errorCodeValues(repo)
	if note != "" {
		notes = append(notes, note)
	}
	code := func(name string) string {
		if name == "" {
			return "None"
		}
		v, ok := vals[name]
		if !ok {
			return "None"
		}
		return fmt.Sprintf("Some (%q%%string, %s%%N)", name, v)
	}
	blocking := w.sends == 0 || w.blockingSends > 0
	sort.Strings(notes)
	var b bytes.Buffer
	fmt.Fprintf(&b, "(* GenReceipt.v - GENERATED by tools/receiptfacts from the Go sources; do not edit. *)\n")
	fmt.Fprintf(&b, "From Coq Require Import NArith String.\n\n")
	fmt.Fprintf(&b, "(* cmd/: capacity N of the single `make(chan ...ReceiptPayload, N)`; None when not found/not a literal *)\n")
	fmt.Fprintf(&b, "Definition receipt_chan_cap : option N := %s.\n", capStr)
	fmt.Fprintf(&b, "(* cmd/: that channel is the ReceiptChan of both receipt.ReceiptHandler and RealtimeHandler *)\n")
	fmt.Fprintf(&b, "Definition receipt_chan_shared : bool := %v.\n", shared)
	fmt.Fprintf(&b, "(* package websocket: sends on .ReceiptChan, and how many are NOT the comm of a select with a default clause *)\n")
	fmt.Fprintf(&b, "Definition receipt_enqueue_sites : N := %d%%N.\n", w.sends)
	fmt.Fprintf(&b, "Definition receipt_enqueue_blocking_sites : N := %d%%N.\n", w.blockingSends)
	fmt.Fprintf(&b, "(* true when some send can block, or when no send was found (fail closed) *)\n")
	fmt.Fprintf(&b, "Definition receipt_enqueue_blocking : bool := %v.\n", blocking)
	fmt.Fprintf(&b, "(* HandleReceipt: ErrorCode answered in the zero-length branch / in the default branch of the enqueue select *)\n")
	fmt.Fprintf(&b, "Definition receipt_empty_code : option (string * N) := %s.\n", code(w.emptyCode))
	fmt.Fprintf(&b, "Definition receipt_full_code : option (string * N) := %s.\n", code(w.fullCode))
	for _, n := range notes {
		fmt.Fprintf(&b, "(* note: %s *)\n", strings.ReplaceAll(strings.ReplaceAll(n, "*)", "* )"), "\n", " "))
	}
	dst := filepath.Join(coqDir, "GenReceipt.v")
	if old, err := os.ReadFile(dst); err == nil && bytes.Equal(old, b.Bytes()) {
		return
	}
	if err := os.WriteFile(dst+".tmp", b.Bytes(), 0o644); err != nil {
		fmt.Fprintln(os.Stderr, err)
		os.Exit(1)
	}
	if err := os.Rename(dst+".tmp", dst); err != nil {
		fmt.Fprintln(os.Stderr, err)
		os.Exit(1)
	}
}

module receiptfacts

go 1.21

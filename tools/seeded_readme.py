#!/usr/bin/env python3
"""tools/seeded_readme.py — renders seeded/README.md from seeded/*/meta.json and seeded/MATRIX.json"""
import json, os, re
S = "/verif/seeded"
mx = json.load(open(S + "/MATRIX.json")) if os.path.exists(S + "/MATRIX.json") else {}
names = sorted(d for d in os.listdir(S) if os.path.exists(os.path.join(S, d, "meta.json")))
checks = ["C%02d" % i for i in range(1, 21)]
out = ["# Seeded breaking changes", "",
       "Each directory holds `patch.diff` (applies to /repo's HEAD), the demonstration test (`demo_test.go.txt`, to be placed at",
       "`meta.json: demo_path`), `meta.json` (what it breaks, what it needs to manifest, what was run) and the replay the",
       "property's own check produced against it. Written by fresh sub-agents that saw only the property text.",
       "Apply with `git -C /repo apply <patch>`, run `python3 bin/check <id>`, undo with `git -C /repo checkout -- .`",
       "(or use a scratch worktree and `VERIF_REPO=<worktree>`; `tools/reconfirm.py <name>` does all of it).", "",
       "## What each change is", ""]
for n in names:
    m = json.load(open(os.path.join(S, n, "meta.json")))
    d = m.get("description", "")
    t = re.search(r"^#+\s*(.*)$", d, flags=re.M)
    title = (t.group(1) if t else d.strip().splitlines()[0] if d.strip() else "").strip()
    ck = m.get("checks", {}).get(m.get("breaks") or m.get("property"), {})
    out.append("* **%s** — %s  \n  own check: %s" % (n, title[:220], (ck.get("line") or "NOT CAUGHT").replace("/verif/work/", "work/")))
out += ["", "## Matrix (rows: changes, columns: checks; V = violation with a failing input, N = no-failing-input-found, . = quiet)", "",
        "| change | " + " | ".join(c[1:] for c in checks) + " |", "|---|" + "---|" * len(checks)]
for n in names:
    row = dict(mx.get(n, {}))
    # cells known from the runs recorded in meta.json (the property's own check, and others that were tried)
    m = json.load(open(os.path.join(S, n, "meta.json")))
    for c, r in m.get("checks", {}).items():
        if c in checks and c not in row:
            line = r.get("line") or ""
            row[c] = "." if r.get("rc") == 0 else ("N" if "no-failing-input-found" in line else "V")
    out.append("| %s | " % n + " | ".join(row.get(c, " ") for c in checks) + " |")
out += ["", "Rows of the first two rounds come from the full cross runs (seeded/MATRIX.json; the first round before C08/C09/C15/C19/C20 were part",
        "of it); for the later rounds only the checks that were actually run against a change are filled in (blank = not run).",
        "An alarm outside the diagonal is either a genuine violation of that property's text as well (cascades, DESIGN §6)",
        "or `N`: a tie that the change breaks although the property holds (DESIGN §6 lists the ones that were removed)."]
open(S + "/README.md", "w").write("\n".join(out) + "\n")
print(len(names), "changes")

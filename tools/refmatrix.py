#!/usr/bin/env python3
"""tools/refmatrix.py <dir with refactor_<n>.diff> [workers] — runs all 20 quick checks against each behaviour-preserving
refactoring and writes seeded/REFACTOR_MATRIX.json (expected: every cell quiet)."""
import json, os, subprocess, sys, hashlib, shutil
from concurrent.futures import ThreadPoolExecutor
ENV = dict(os.environ, GOFLAGS="-mod=mod", GOPROXY="off", GOSUMDB="off", GOTOOLCHAIN="local")
CHECKS = ["C%02d" % i for i in range(1, 21)]
D = sys.argv[1]
def run_one(fn):
    name = fn[:-5]
    wt = "/tmp/rfx-%s" % name
    subprocess.run(["git", "-C", "/repo", "worktree", "remove", "--force", wt], capture_output=True)
    subprocess.run(["git", "-C", "/repo", "worktree", "add", "-q", wt, "HEAD"], capture_output=True)
    row = {}
    try:
        r = subprocess.run(["git", "-C", wt, "apply", os.path.join(D, fn)], capture_output=True, text=True)
        if r.returncode != 0:
            return name, {"error": r.stderr[-200:]}
        for cid in CHECKS:
            p = subprocess.run(["python3", "bin/check", cid], cwd="/verif", env=dict(ENV, VERIF_REPO=wt), capture_output=True, text=True, timeout=3000)
            v = [l for l in p.stdout.splitlines() if l.startswith("VIOLATION")]
            row[cid] = "." if p.returncode == 0 else ("N" if v and "no-failing-input-found" in v[0] else ("V" if v else "E%d" % p.returncode))
            if row[cid] != ".":
                rp = v[0].split("replay=")[1].split()[0] if v else ""
                if rp and os.path.exists(rp):
                    row[cid + "_why"] = open(rp, errors="replace").read()[:600]
                else:
                    row[cid + "_why"] = p.stdout[-400:]
    finally:
        subprocess.run(["git", "-C", "/repo", "worktree", "remove", "--force", wt], capture_output=True)
        tag = "-" + hashlib.sha1(os.path.realpath(wt).encode()).hexdigest()[:8]
        for f in os.listdir("/verif/work"):
            if f.endswith(tag) or tag + "." in f or tag + "_" in f:
                q = os.path.join("/verif/work", f)
                shutil.rmtree(q, ignore_errors=True) if os.path.isdir(q) else os.remove(q)
    return name, row
names = sorted(f for f in os.listdir(D) if f.endswith(".diff"))
out = {}
with ThreadPoolExecutor(int(sys.argv[2]) if len(sys.argv) > 2 else 3) as ex:
    for name, row in ex.map(run_one, names):
        out[name] = row
        json.dump(out, open(os.path.join("/verif/seeded", os.environ.get("REFMATRIX_OUT", "REFACTOR_MATRIX.json")), "w"), indent=1, sort_keys=True)
        print(name, " ".join("%s=%s" % (k, v) for k, v in sorted(row.items()) if not k.endswith("_why")), flush=True)

// gridconsts reads the grid constants of modules/dagaz from the CURRENT Go sources and writes
// coq/GenGrid.v.  It fails closed: a pattern that is not found (or found with conflicting values)
// is emitted as None, so that the Coq obligation over it (Properties/C20.v) fails.
package main

import (
	"bytes"
	"fmt"
	"go/ast"
	"go/parser"
	"go/token"
	"math/big"
	"os"
	"path/filepath"
	"strconv"
)

func f32rat(lit string) *big.Rat {
	v, err := strconv.ParseFloat(lit, 64)
	if err != nil {
		return nil
	}
	// the Go compiler converts an untyped constant to float32 by rounding the exact decimal value
	r, ok := new(big.Rat).SetString(lit)
	if !ok {
		return nil
	}
	f, _ := r.Float32()
	_ = v
	return new(big.Rat).SetFloat64(float64(f))
}

func qs(r *big.Rat) string {
	if r == nil {
		return "None"
	}
	return fmt.Sprintf("Some (%s # %s)", zs(r.Num()), r.Denom().String())
}

func zs(z *big.Int) string {
	if z.Sign() < 0 {
		return "(" + z.String() + ")"
	}
	return z.String()
}

// numeric constants of the package declared as `const name = <literal>` (a literal moved into a named constant is the
// same literal)
var namedConsts = map[string]string{}

func lit(e ast.Expr) (string, bool) {
	for {
		if p, ok := e.(*ast.ParenExpr); ok {
			e = p.X
			continue
		}
		break
	}
	if b, ok := e.(*ast.BasicLit); ok && (b.Kind == token.FLOAT || b.Kind == token.INT) {
		return b.Value, true
	}
	if id, ok := e.(*ast.Ident); ok {
		if v, ok := namedConsts[id.Name]; ok {
			return v, true
		}
	}
	return "", false
}

func callName(c *ast.CallExpr) string {
	switch f := c.Fun.(type) {
	case *ast.Ident:
		return f.Name
	case *ast.ParenExpr:
		if id, ok := f.X.(*ast.Ident); ok {
			return id.Name
		}
	}
	return ""
}

type agg struct {
	val  *big.Rat
	n    int
	conf bool
}

func (a *agg) add(r *big.Rat) {
	if r == nil {
		a.conf = true
		return
	}
	if a.n > 0 && a.val.Cmp(r) != 0 {
		a.conf = true
	}
	a.val = r
	a.n++
}

func (a *agg) get(want int) *big.Rat {
	if a.conf || a.n != want {
		return nil
	}
	return a.val
}

// loadOrStoreKeepsRegistered: models.(*Session).LoadOrStoreModuleState has the shape
//   lock; defer unlock; if r, ok := s.moduleStates[name]; ok { return r }; s.moduleStates[name] = state; return state
// i.e. an already registered state is returned and never replaced.  Anything else: false (fail closed).
func loadOrStoreKeepsRegistered(repo string) bool {
	fset := token.NewFileSet()
	pkgs, err := parser.ParseDir(fset, filepath.Join(repo, "models"), func(fi os.FileInfo) bool {
		n := fi.Name()
		return len(n) < 8 || n[len(n)-8:] != "_test.go"
	}, 0)
	if err != nil {
		return false
	}
	found, good := 0, false
	for _, pkg := range pkgs {
		for _, file := range pkg.Files {
			for _, d := range file.Decls {
				fd, ok := d.(*ast.FuncDecl)
				if !ok || fd.Body == nil || fd.Recv == nil || fd.Name.Name != "LoadOrStoreModuleState" {
					continue
				}
				found++
				if fd.Type.Params == nil || len(fd.Type.Params.List) != 2 || len(fd.Type.Params.List[0].Names) != 1 || len(fd.Type.Params.List[1].Names) != 1 {
					continue
				}
				key, val := fd.Type.Params.List[0].Names[0].Name, fd.Type.Params.List[1].Names[0].Name
				var rest []ast.Stmt
				for _, st := range fd.Body.List {
					// skip x.Lock() / defer x.Unlock()
					if es, ok := st.(*ast.ExprStmt); ok {
						if ce, ok := es.X.(*ast.CallExpr); ok {
							if se, ok := ce.Fun.(*ast.SelectorExpr); ok && se.Sel.Name == "Lock" {
								continue
							}
						}
					}
					if ds, ok := st.(*ast.DeferStmt); ok {
						if se, ok := ds.Call.Fun.(*ast.SelectorExpr); ok && se.Sel.Name == "Unlock" {
							continue
						}
					}
					rest = append(rest, st)
				}
				if len(rest) != 3 {
					continue
				}
				isStates := func(e ast.Expr) bool {
					ix, ok := e.(*ast.IndexExpr)
					if !ok {
						return false
					}
					se, ok := ix.X.(*ast.SelectorExpr)
					id, ok2 := ix.Index.(*ast.Ident)
					return ok && ok2 && se.Sel.Name == "moduleStates" && id.Name == key
				}
				is, ok := rest[0].(*ast.IfStmt)
				if !ok || is.Else != nil || is.Init == nil {
					continue
				}
				as, ok := is.Init.(*ast.AssignStmt)
				if !ok || as.Tok != token.DEFINE || len(as.Lhs) != 2 || len(as.Rhs) != 1 || !isStates(as.Rhs[0]) {
					continue
				}
				rv, ok1 := as.Lhs[0].(*ast.Ident)
				okv, ok2 := as.Lhs[1].(*ast.Ident)
				cond, ok3 := is.Cond.(*ast.Ident)
				if !ok1 || !ok2 || !ok3 || cond.Name != okv.Name || len(is.Body.List) != 1 {
					continue
				}
				rs, ok := is.Body.List[0].(*ast.ReturnStmt)
				if !ok || len(rs.Results) != 1 {
					continue
				}
				if id, ok := rs.Results[0].(*ast.Ident); !ok || id.Name != rv.Name {
					continue
				}
				st, ok := rest[1].(*ast.AssignStmt)
				if !ok || st.Tok != token.ASSIGN || len(st.Lhs) != 1 || len(st.Rhs) != 1 || !isStates(st.Lhs[0]) {
					continue
				}
				if id, ok := st.Rhs[0].(*ast.Ident); !ok || id.Name != val {
					continue
				}
				rs2, ok := rest[2].(*ast.ReturnStmt)
				if !ok || len(rs2.Results) != 1 {
					continue
				}
				if id, ok := rs2.Results[0].(*ast.Ident); !ok || id.Name != val {
					continue
				}
				good = true
			}
		}
	}
	return found == 1 && good
}

func main() {
	if len(os.Args) < 3 {
		fmt.Fprintln(os.Stderr, "usage: gridconsts <repo> <coq dir>")
		os.Exit(2)
	}
	repo, coqdir := os.Args[1], os.Args[2]
	fset := token.NewFileSet()
	dir := filepath.Join(repo, "modules", "dagaz")
	pkgs, err := parser.ParseDir(fset, dir, func(fi os.FileInfo) bool {
		n := fi.Name()
		return len(n) < 8 || n[len(n)-8:] != "_test.go"
	}, 0)
	var eps *big.Rat
	var blend, rng, reach agg
	var gridArgs []string
	gridCalls, gridInsideNotOk, gridInsideLoadOrStore := 0, 0, 0
	// pre-pass: named numeric constants; the functions IntersectQuad calls (the in-range test may live in a helper of
	// it); the helper, if any, that builds the state Init hands to LoadOrStoreModuleState
	funcs := map[string]*ast.FuncDecl{}
	intersectHelpers := map[string]bool{}
	stateHelper := ""
	if err == nil {
		for _, pkg := range pkgs {
			for _, file := range pkg.Files {
				for _, d := range file.Decls {
					switch v := d.(type) {
					case *ast.GenDecl:
						if v.Tok == token.CONST {
							for _, sp := range v.Specs {
								vs := sp.(*ast.ValueSpec)
								for i, nm := range vs.Names {
									if i < len(vs.Values) && vs.Type == nil {
										if bl, ok := vs.Values[i].(*ast.BasicLit); ok && (bl.Kind == token.FLOAT || bl.Kind == token.INT) {
											namedConsts[nm.Name] = bl.Value
										}
									}
								}
							}
						}
					case *ast.FuncDecl:
						if v.Body != nil {
							funcs[v.Name.Name] = v
						}
					}
				}
			}
		}
		if fd := funcs["IntersectQuad"]; fd != nil {
			for _, pkg := range pkgs {
				for _, file := range pkg.Files {
					for _, d := range file.Decls {
						if f2, ok := d.(*ast.FuncDecl); ok && f2.Name.Name == "IntersectQuad" && f2.Recv == nil && f2.Body != nil {
							ast.Inspect(f2.Body, func(n ast.Node) bool {
								if ce, ok := n.(*ast.CallExpr); ok {
									switch f := ce.Fun.(type) {
									case *ast.Ident:
										intersectHelpers[f.Name] = true
									case *ast.SelectorExpr:
										intersectHelpers[f.Sel.Name] = true
									}
								}
								return true
							})
						}
					}
				}
			}
			delete(intersectHelpers, "InRangeWithEpsilon")
		}
		// Init: `LoadOrStoreModuleState(name, h())` or `x := h(); … LoadOrStoreModuleState(name, x)` with h a function of the
		// package whose body is a single return of the state literal
		for _, pkg := range pkgs {
			for _, file := range pkg.Files {
				for _, d := range file.Decls {
					f2, ok := d.(*ast.FuncDecl)
					if !ok || f2.Name.Name != "Init" || f2.Body == nil {
						continue
					}
					assigned := map[string]string{}
					ast.Inspect(f2.Body, func(n ast.Node) bool {
						if as, ok := n.(*ast.AssignStmt); ok && len(as.Lhs) == 1 && len(as.Rhs) == 1 {
							if id, ok := as.Lhs[0].(*ast.Ident); ok {
								if ce, ok := as.Rhs[0].(*ast.CallExpr); ok && len(ce.Args) == 0 {
									assigned[id.Name] = callName(ce)
								}
							}
						}
						if ce, ok := n.(*ast.CallExpr); ok {
							if se, ok := ce.Fun.(*ast.SelectorExpr); ok && se.Sel.Name == "LoadOrStoreModuleState" && len(ce.Args) == 2 {
								switch a := ce.Args[1].(type) {
								case *ast.CallExpr:
									if len(a.Args) == 0 {
										stateHelper = callName(a)
									}
								case *ast.Ident:
									stateHelper = assigned[a.Name]
								}
							}
						}
						return true
					})
				}
			}
		}
		if h := funcs[stateHelper]; h == nil || len(h.Body.List) != 1 {
			stateHelper = ""
		} else if _, ok := h.Body.List[0].(*ast.ReturnStmt); !ok {
			stateHelper = ""
		}
	}
	if err == nil {
		for _, pkg := range pkgs {
			for _, file := range pkg.Files {
				// const MERGE_EPSILON = (float32)(0.6)
				for _, d := range file.Decls {
					gd, ok := d.(*ast.GenDecl)
					if !ok || gd.Tok != token.CONST {
						continue
					}
					for _, sp := range gd.Specs {
						vs := sp.(*ast.ValueSpec)
						for i, nm := range vs.Names {
							if nm.Name == "MERGE_EPSILON" && i < len(vs.Values) {
								if c, ok := vs.Values[i].(*ast.CallExpr); ok && callName(c) == "float32" && len(c.Args) == 1 {
									if l, ok := lit(c.Args[0]); ok {
										eps = f32rat(l)
									}
								}
							}
						}
					}
				}
				for _, d := range file.Decls {
					fd, ok := d.(*ast.FuncDecl)
					if !ok || fd.Body == nil {
						continue
					}
					name := fd.Name.Name
					var stack []ast.Node
					ast.Inspect(fd.Body, func(n ast.Node) bool {
						if n == nil {
							stack = stack[:len(stack)-1]
							return true
						}
						stack = append(stack, n)
						switch x := n.(type) {
						case *ast.CallExpr:
							cn := callName(x)
							if name == "mergeQuads" && cn == "Mul" && len(x.Args) == 2 {
								if l, ok := lit(x.Args[1]); ok {
									blend.add(f32rat(l))
								} else {
									blend.add(nil)
								}
							}
							if ((name == "IntersectQuad" && fd.Recv == nil) || (name != "IntersectQuad" && intersectHelpers[name])) && cn == "InRangeWithEpsilon" && len(x.Args) == 4 {
								if l, ok := lit(x.Args[3]); ok {
									rng.add(f32rat(l))
								} else {
									rng.add(nil)
								}
							}
							if stateHelper != "" && name == stateHelper && cn == "NewRegularGrid" {
								// the state literal of the helper Init hands to LoadOrStoreModuleState
								gridCalls++
								gridArgs = nil
								for _, a := range x.Args {
									if l, ok := lit(a); ok {
										gridArgs = append(gridArgs, l)
									}
								}
								gridInsideLoadOrStore++
							}
							if name == "Init" && cn == "NewRegularGrid" {
								gridCalls++
								gridArgs = nil
								for _, a := range x.Args {
									if l, ok := lit(a); ok {
										gridArgs = append(gridArgs, l)
									}
								}
								// is the call an argument of `s.LoadOrStoreModuleState(name, &State{…})` (which keeps a
								// registered state: checked below on models/session.go) ?
								for _, s := range stack {
									if ce, ok := s.(*ast.CallExpr); ok && ce != x {
										if se, ok := ce.Fun.(*ast.SelectorExpr); ok && se.Sel.Name == "LoadOrStoreModuleState" {
											gridInsideLoadOrStore++
										}
									}
								}
								// is the call inside the body of `if !ok { … }` ?
								for _, s := range stack {
									if is, ok := s.(*ast.IfStmt); ok {
										if u, ok := is.Cond.(*ast.UnaryExpr); ok && u.Op == token.NOT {
											if id, ok := u.X.(*ast.Ident); ok && id.Name == "ok" {
												inBody := false
												for _, t := range stack {
													if t == ast.Node(is.Body) {
														inBody = true
													}
												}
												if inBody {
													gridInsideNotOk++
												}
											}
										}
									}
								}
							}
						case *ast.BinaryExpr:
							if name == "InsertQuad" && x.Op == token.ADD {
								if id, ok := x.X.(*ast.Ident); ok && id.Name == "MERGE_EPSILON" {
									if l, ok := lit(x.Y); ok && eps != nil {
										r, ok2 := new(big.Rat).SetString(l)
										if ok2 {
											sum := new(big.Rat).Add(eps, r)
											f, exact := sum.Float32()
											_ = exact
											reach.add(new(big.Rat).SetFloat64(float64(f)))
										} else {
											reach.add(nil)
										}
									} else {
										reach.add(nil)
									}
								}
							}
						}
						return true
					})
				}
			}
		}
	}
	var b bytes.Buffer
	b.WriteString("(* GenGrid.v — GENERATED by tools/gridconsts from modules/dagaz/*.go; do not edit. *)\n")
	b.WriteString("From Coq Require Import ZArith QArith.\nOpen Scope Q_scope.\n")
	fmt.Fprintf(&b, "Definition merge_epsilon : option Q := %s.\n", qs(eps))
	fmt.Fprintf(&b, "Definition merge_blend : option Q := %s.\n", qs(blend.get(2)))
	fmt.Fprintf(&b, "Definition range_epsilon : option Q := %s.\n", qs(rng.get(3)))
	fmt.Fprintf(&b, "Definition ray_reach : option Q := %s.\n", qs(reach.get(2)))
	if gridCalls == 1 && len(gridArgs) == 3 {
		fmt.Fprintf(&b, "Definition module_grid_args : option (Z * Z * Z) := Some (%s, %s, %s)%%Z.\n", gridArgs[0], gridArgs[1], gridArgs[2])
		guarded := gridInsideNotOk > 0 || (gridInsideLoadOrStore > 0 && loadOrStoreKeepsRegistered(repo))
		fmt.Fprintf(&b, "Definition init_recreates_grid : option bool := Some %v.\n", !guarded)
	} else {
		b.WriteString("Definition module_grid_args : option (Z * Z * Z) := None.\n")
		b.WriteString("Definition init_recreates_grid : option bool := None.\n")
	}
	out := filepath.Join(coqdir, "GenGrid.v")
	old, _ := os.ReadFile(out)
	if !bytes.Equal(old, b.Bytes()) {
		if err := os.WriteFile(out, b.Bytes(), 0o644); err != nil {
			fmt.Fprintln(os.Stderr, err)
			os.Exit(2)
		}
	}
}

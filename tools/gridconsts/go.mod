module gridconsts

go 1.23

#!/bin/sh
# usage: run.sh <repo> <coq dir>  — (re)writes <coq dir>/GenGrid.v from <repo>/modules/dagaz/*.go
set -e
cd "$(dirname "$0")"
export GOFLAGS=-mod=mod GOPROXY=off GOSUMDB=off GOTOOLCHAIN=local
mkdir -p ../../work
if [ ! -x ../../work/gridconsts ] || [ main.go -nt ../../work/gridconsts ]; then
  go build -o ../../work/gridconsts . 
fi
exec ../../work/gridconsts "$1" "$2"

module instrument

go 1.23

// instrument <repo> <outdir> <sched.go>
//
// Rewrites, into <outdir>/src/…, every non-test Go file of <repo>/models, <repo>/websocket and <repo>/modules/*
// that contains a statement `x.Lock()` or `x.RLock()` (a call with no argument used as a statement), replacing
// that statement by `verifsched.Acquire(x.TryLock, "file:line", &x)` / `verifsched.RAcquire(x.TryRLock, "file:line", &x)`,
// and every `x.Unlock()` / `x.RUnlock()` (statement or deferred) by `verifsched.Release(x.Unlock, &x)`: the scheduler
// then knows what every goroutine holds and records the lock-order pairs it observes (C09's cross-validation). The replacement is textual at the positions given by go/ast, so that
// every other byte - and every line number - of the file is preserved; the import is added on the line of the
// package clause. Writes <outdir>/overlay-extra.json ({"<repo>/<file>": "<outdir>/src/<file>", …,
// "<repo>/verifsched/sched.go": "<sched.go>"}) and <outdir>/sites.json (site -> enclosing function, lock
// expression, kind). Deterministic; exits non-zero on a parse error or when no lock site at all is found.
package main

import (
	"encoding/json"
	"fmt"
	"go/ast"
	"go/parser"
	"go/token"
	"os"
	"path/filepath"
	"sort"
	"strings"
)

type site struct {
	Site string `json:"site"`
	Func string `json:"func"`
	Lock string `json:"lock"`
	Kind string `json:"kind"`
}

type edit struct {
	from, to int
	text     string
}

func die(f string, a ...any) {
	fmt.Fprintf(os.Stderr, "instrument: "+f+"\n", a...)
	os.Exit(2)
}

func funcName(fd *ast.FuncDecl) string {
	if fd.Recv == nil || len(fd.Recv.List) == 0 {
		return fd.Name.Name
	}
	t := fd.Recv.List[0].Type
	if s, ok := t.(*ast.StarExpr); ok {
		t = s.X
	}
	if ix, ok := t.(*ast.IndexExpr); ok {
		t = ix.X
	}
	if id, ok := t.(*ast.Ident); ok {
		return id.Name + "." + fd.Name.Name
	}
	return fd.Name.Name
}

func main() {
	if len(os.Args) != 4 {
		die("usage: instrument <repo> <outdir> <sched.go>")
	}
	repo, out, sched := os.Args[1], os.Args[2], os.Args[3]
	repo, _ = filepath.Abs(repo)
	out, _ = filepath.Abs(out)
	sched, _ = filepath.Abs(sched)
	var dirs []string
	for _, d := range []string{"models", "websocket"} {
		dirs = append(dirs, filepath.Join(repo, d))
	}
	mods, _ := os.ReadDir(filepath.Join(repo, "modules"))
	dirs = append(dirs, filepath.Join(repo, "modules"))
	for _, m := range mods {
		if m.IsDir() {
			dirs = append(dirs, filepath.Join(repo, "modules", m.Name()))
		}
	}
	if err := os.RemoveAll(filepath.Join(out, "src")); err != nil {
		die("%v", err)
	}
	overlay := map[string]string{}
	var sites []site
	for _, d := range dirs {
		ents, err := os.ReadDir(d)
		if err != nil {
			continue
		}
		for _, e := range ents {
			n := e.Name()
			if e.IsDir() || !strings.HasSuffix(n, ".go") || strings.HasSuffix(n, "_test.go") {
				continue
			}
			p := filepath.Join(d, n)
			src, err := os.ReadFile(p)
			if err != nil {
				die("%v", err)
			}
			fset := token.NewFileSet()
			f, err := parser.ParseFile(fset, p, src, parser.ParseComments)
			if err != nil {
				die("parse %s: %v", p, err)
			}
			rel, _ := filepath.Rel(repo, p)
			var edits []edit
			for _, decl := range f.Decls {
				fd, ok := decl.(*ast.FuncDecl)
				if !ok || fd.Body == nil {
					continue
				}
				fn := funcName(fd)
				ast.Inspect(fd.Body, func(nd ast.Node) bool {
					var call *ast.CallExpr
					deferred := false
					switch st := nd.(type) {
					case *ast.ExprStmt:
						call, _ = st.X.(*ast.CallExpr)
					case *ast.DeferStmt:
						call, deferred = st.Call, true
					default:
						return true
					}
					if call == nil {
						return true
					}
					sel, ok := call.Fun.(*ast.SelectorExpr)
					if !ok {
						return true
					}
					if len(call.Args) != 0 && sel.Sel.Name != "Send" && sel.Sel.Name != "SendMsg" {
						return true
					}
					x := string(src[fset.Position(sel.X.Pos()).Offset:fset.Position(sel.X.End()).Offset])
					pos := fset.Position(call.Pos())
					st := fmt.Sprintf("%s:%d", rel, pos.Line)
					if (sel.Sel.Name == "Send" || sel.Sel.Name == "SendMsg") && !deferred && strings.HasSuffix(x, ".Responder") {
						// a delivery to another connection: an optional scheduling point (enabled per run), so that a
						// schedule can separate "who was picked" from "who is told" when no lock is held in between
						edits = append(edits, edit{pos.Offset, pos.Offset, fmt.Sprintf("verifsched.Point(%q); ", st)})
						return true
					}
					switch sel.Sel.Name {
					case "Lock", "RLock":
						if deferred {
							return true
						}
						fun, try, kind := "Acquire", "TryLock", "W"
						if sel.Sel.Name == "RLock" {
							fun, try, kind = "RAcquire", "TryRLock", "R"
						}
						edits = append(edits, edit{pos.Offset, fset.Position(call.End()).Offset,
							fmt.Sprintf("verifsched.%s(%s.%s, %q, &%s)", fun, x, try, st, x)})
						sites = append(sites, site{st, fn, x, kind})
					case "Unlock", "RUnlock":
						// the release is observed too (plain or deferred), so that the scheduler knows what a goroutine holds
						edits = append(edits, edit{pos.Offset, fset.Position(call.End()).Offset,
							fmt.Sprintf("verifsched.Release(%s.%s, &%s)", x, sel.Sel.Name, x)})
					}
					return true
				})
			}
			if len(edits) == 0 {
				continue
			}
			// the import goes on the line of the package clause
			pe := fset.Position(f.Name.End()).Offset
			edits = append(edits, edit{pe, pe, `; import verifsched "github.com/aukilabs/hagall/verifsched"`})
			sort.Slice(edits, func(i, j int) bool { return edits[i].from > edits[j].from })
			res := src
			for _, ed := range edits {
				res = append(append(append([]byte{}, res[:ed.from]...), ed.text...), res[ed.to:]...)
			}
			dst := filepath.Join(out, "src", rel)
			if err := os.MkdirAll(filepath.Dir(dst), 0o755); err != nil {
				die("%v", err)
			}
			if err := os.WriteFile(dst, res, 0o644); err != nil {
				die("%v", err)
			}
			overlay[p] = dst
		}
	}
	if len(sites) == 0 {
		die("no lock site found under %s", repo)
	}
	overlay[filepath.Join(repo, "verifsched", "sched.go")] = sched
	sort.Slice(sites, func(i, j int) bool { return sites[i].Site < sites[j].Site })
	wj := func(name string, v any) {
		b, _ := json.MarshalIndent(v, "", " ")
		if err := os.WriteFile(filepath.Join(out, name), append(b, '\n'), 0o644); err != nil {
			die("%v", err)
		}
	}
	wj("overlay-extra.json", overlay)
	wj("sites.json", sites)
	fmt.Printf("instrument: %d sites in %d files\n", len(sites), len(overlay)-1)
}

// Package verifsched is a cooperative scheduler for controlled-schedule (L3) replays.
//
// It is NOT part of the repository: bin/check adds it at check time, through the `go build -overlay`
// file, under <repo>/verifsched/sched.go (import path github.com/aukilabs/hagall/verifsched), together with
// instrumented copies of the repository's sources in which every `x.Lock()` / `x.RLock()` statement has been
// rewritten into `verifsched.Acquire(x.TryLock, "file:line")` / `verifsched.RAcquire(x.TryRLock, "file:line")`.
//
// Threads are goroutines created with Spawn; exactly one of them (or the driver) runs at any time. A thread
// runs until it reaches an Acquire: there it parks and hands control back to the driver (a *yield*). When the
// driver resumes it, it tries the lock once: on success it goes on to the next Acquire (or to its end), on
// failure it parks again and the driver is told the thread is *blocked*. One Resume therefore executes one
// critical section together with the lock-free code that follows it, which is the atomic action of coq/Conc.v.
// A goroutine that is not a scheduler thread (the driver itself, a frame worker) falls through to a plain
// blocking acquisition.
package verifsched

import (
	"fmt"
	"runtime"
	"sort"
	"strings"
	"sync"
)

const (
	Yield   = 0 // the critical section ran; the thread is parked at its next acquisition
	Blocked = 1 // the lock was not free; nothing happened
	Done    = 2 // the critical section ran and the thread function returned
	Panic   = 3 // the thread function panicked (Info holds the value)
	NoSuch  = 4 // unknown or finished thread; nothing happened
)

// Event is what one Resume (or Spawn) did.
type Event struct {
	Kind int
	// Site and Chain describe the acquisition the thread is parked at after the event (Yield, Blocked),
	// or are empty (Done, Panic).
	Site  string
	Chain []string // call chain, outermost first, functions of the hagall module only
	Info  string
}

type thread struct {
	id     int
	resume chan struct{}
	events chan Event
	done   bool
	site   string
	chain  []string
	goid   string
}

var (
	mu      sync.Mutex
	threads = map[int]*thread{}
	byGoid  = map[string]*thread{}
	// lock-order observation: what every goroutine (scheduler thread or not) holds, and every pair
	// (site of a lock held, site of the lock acquired while holding it) seen so far
	held  = map[string][]heldLock{}
	edges = map[[2]string]int{}
)

type heldLock struct {
	m    any // address of the mutex
	site string
}

func noteAcquired(m any, site string) {
	if m == nil {
		return
	}
	g := goid()
	mu.Lock()
	for _, h := range held[g] {
		if h.m != m {
			edges[[2]string{h.site, site}]++
		}
	}
	held[g] = append(held[g], heldLock{m, site})
	mu.Unlock()
}

// Release replaces x.Unlock() / x.RUnlock() (plain or deferred): m is &x.
func Release(unlock func(), m any) {
	g := goid()
	mu.Lock()
	hs := held[g]
	for i := len(hs) - 1; i >= 0; i-- {
		if hs[i].m == m {
			hs = append(hs[:i], hs[i+1:]...)
			break
		}
	}
	if len(hs) == 0 {
		delete(held, g)
	} else {
		held[g] = hs
	}
	mu.Unlock()
	unlock()
}

// Edges returns the lock-order pairs observed since the process started: "heldSite acquiredSite count".
func Edges() []string {
	mu.Lock()
	defer mu.Unlock()
	var out []string
	for k, n := range edges {
		out = append(out, fmt.Sprintf("%s %s %d", k[0], k[1], n))
	}
	sort.Strings(out)
	return out
}

// Reset forgets every thread (finished or not). Unfinished threads stay parked forever; the driver is
// expected to run every thread to completion before it calls Reset.
func Reset() {
	mu.Lock()
	threads = map[int]*thread{}
	byGoid = map[string]*thread{}
	mu.Unlock()
}

func goid() string {
	var buf [64]byte
	n := runtime.Stack(buf[:], false)
	// "goroutine 123 [running]:..."
	s := string(buf[:n])
	s = strings.TrimPrefix(s, "goroutine ")
	if i := strings.IndexByte(s, ' '); i >= 0 {
		return s[:i]
	}
	return s
}

func current() *thread {
	g := goid()
	mu.Lock()
	t := byGoid[g]
	mu.Unlock()
	return t
}

const modPrefix = "github.com/aukilabs/hagall/"

func chain() []string {
	pcs := make([]uintptr, 64)
	n := runtime.Callers(3, pcs)
	frames := runtime.CallersFrames(pcs[:n])
	var out []string
	for {
		f, more := frames.Next()
		if strings.HasPrefix(f.Function, modPrefix) && !strings.HasPrefix(f.Function, modPrefix+"verifsched.") {
			out = append(out, strings.TrimPrefix(f.Function, modPrefix))
		}
		if !more {
			break
		}
	}
	for i, j := 0, len(out)-1; i < j; i, j = i+1, j-1 {
		out[i], out[j] = out[j], out[i]
	}
	return out
}

// Spawn creates thread id running f and runs it up to its first acquisition (the prefix of a handler before
// its first critical section touches no shared state). The returned event is Yield (parked), Done or Panic.
func Spawn(id int, f func()) Event {
	t := &thread{id: id, resume: make(chan struct{}), events: make(chan Event)}
	mu.Lock()
	threads[id] = t
	mu.Unlock()
	go func() {
		g := goid()
		mu.Lock()
		t.goid = g
		byGoid[g] = t
		mu.Unlock()
		defer func() {
			mu.Lock()
			delete(byGoid, g)
			mu.Unlock()
			if r := recover(); r != nil {
				t.events <- Event{Kind: Panic, Info: fmt.Sprint(r)}
				return
			}
			t.events <- Event{Kind: Done}
		}()
		<-t.resume
		f()
	}()
	t.resume <- struct{}{}
	return t.wait()
}

func (t *thread) wait() Event {
	ev := <-t.events
	if ev.Kind == Done || ev.Kind == Panic {
		t.done = true
		t.site, t.chain = "", nil
	}
	return ev
}

// Resume lets thread id attempt the acquisition it is parked at.
func Resume(id int) Event {
	mu.Lock()
	t := threads[id]
	mu.Unlock()
	if t == nil || t.done {
		return Event{Kind: NoSuch}
	}
	t.resume <- struct{}{}
	return t.wait()
}

// Pending returns the acquisition thread id is parked at (ok=false: finished or unknown).
func Pending(id int) (site string, chain []string, ok bool) {
	mu.Lock()
	t := threads[id]
	mu.Unlock()
	if t == nil || t.done {
		return "", nil, false
	}
	return t.site, t.chain, true
}

func acquire(try func() bool, site string, m any) {
	t := current()
	if t == nil {
		// not a scheduler thread: blocking acquisition
		for !try() {
			runtime.Gosched()
		}
		noteAcquired(m, site)
		return
	}
	t.site, t.chain = site, chain()
	t.events <- Event{Kind: Yield, Site: t.site, Chain: t.chain}
	for {
		<-t.resume
		if try() {
			noteAcquired(m, site)
			return
		}
		t.events <- Event{Kind: Blocked, Site: t.site, Chain: t.chain}
	}
}

var pointsOn bool

// EnablePoints turns the delivery points (Point) into scheduling points for the threads spawned from now on.
func EnablePoints(on bool) { pointsOn = on }

// Point is placed before a delivery to another connection (p.Responder.SendMsg): when enabled, a scheduler thread
// yields there like at a lock acquisition that always succeeds.
func Point(site string) {
	if !pointsOn || current() == nil {
		return
	}
	acquire(func() bool { return true }, "pt:"+site, nil)
}

// Acquire replaces x.Lock(): try is x.TryLock, m is &x.
func Acquire(try func() bool, site string, m any) { acquire(try, site, m) }

// RAcquire replaces x.RLock(): try is x.TryRLock, m is &x.
func RAcquire(try func() bool, site string, m any) { acquire(try, site, m) }

#!/bin/sh
# usage: tools/runmutant.sh <name> <patch.diff> <check ids...>
# applies the patch to a scratch worktree of /repo's HEAD, runs the given checks against it, prints one line per check
set -u
NAME=$1; PATCH=$2; shift 2
WT=/tmp/eval-$NAME
git -C /repo worktree remove --force $WT >/dev/null 2>&1
git -C /repo worktree add -q $WT HEAD || exit 2
if ! git -C $WT apply "$PATCH"; then echo "$NAME: PATCH DOES NOT APPLY"; git -C /repo worktree remove --force $WT; exit 2; fi
for id in "$@"; do
  out=$(cd /verif && VERIF_REPO=$WT timeout 1500 python3 bin/check $id 2>&1); rc=$?
  v=$(echo "$out" | grep -m1 "^VIOLATION" || true)
  echo "$NAME $id rc=$rc ${v:-no-violation-line}"
  if [ -n "$v" ]; then
    rp=$(echo "$v" | sed 's/.*replay=\([^ ]*\).*/\1/'); [ -f "$rp" ] && head -3 "$rp" | sed 's/^/      /'
  fi
done
git -C /repo worktree remove --force $WT
rm -rf /verif/work/*$(python3 -c "import hashlib,os;print('-'+hashlib.sha1(os.path.realpath('$WT').encode()).hexdigest()[:8])")* 2>/dev/null

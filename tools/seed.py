#!/usr/bin/env python3
"""tools/seed.py <property id> <a|b> [extra check ids...]
Confirms a mutant delivered by a mutant agent in /tmp/mut-<id> (suite passes with it, demo fails with it, demo passes
without it), runs the property's check (and any extra checks) against it, and stores it under /verif/seeded/<id>-<x>/."""
import json, os, re, subprocess, sys, shutil, hashlib, time
ENV = dict(os.environ, GOFLAGS="-mod=mod", GOPROXY="off", GOSUMDB="off", GOTOOLCHAIN="local")
def sh(cmd, cwd=None, env=None, timeout=3000):
    p = subprocess.run(cmd, cwd=cwd, env=env or ENV, shell=isinstance(cmd, str), stdout=subprocess.PIPE, stderr=subprocess.STDOUT, text=True, timeout=timeout)
    return p.returncode, p.stdout
def main():
    pid, x = sys.argv[1], sys.argv[2]
    extra = sys.argv[3:]
    src = "/tmp/mut-%s" % pid
    diff = os.path.join(src, "mutant_%s.diff" % x)
    demo = os.path.join(src, "mutant_%s_test.go.txt" % x)
    md = open(os.path.join(src, "MUTANTS.md")).read() if os.path.exists(os.path.join(src, "MUTANTS.md")) else ""
    m = re.search(r"([\w/]+/zz_mutant_%s\w*_test\.go)" % x, md + open(demo).read()[:400])
    dest = m.group(1) if m else "websocket/zz_mutant_%s_test.go" % x
    dest = dest.lstrip("/")
    if dest.startswith("tmp/"):
        dest = dest.split("/", 2)[2]
    wt = "/tmp/seedwt-%s-%s" % (pid, x)
    sh(["git", "-C", "/repo", "worktree", "remove", "--force", wt])
    rc, o = sh(["git", "-C", "/repo", "worktree", "add", "-q", wt, "HEAD"])
    res = {"property": pid, "mutant": x, "demo_path": dest}
    try:
        # demo on the clean tree
        shutil.copy(demo, os.path.join(wt, dest))
        pkg = "./" + os.path.dirname(dest) + "/"
        rc0, o0 = sh("go test -vet=off -count=1 -run 'Mutant' %s" % pkg, cwd=wt)
        res["demo_without_mutation"] = "pass" if rc0 == 0 else "FAIL"
        os.remove(os.path.join(wt, dest))
        rc, o = sh(["git", "-C", wt, "apply", diff])
        if rc != 0:
            res["error"] = "patch does not apply: " + o[-300:]; print(json.dumps(res, indent=1)); return 1
        rc1, o1 = sh("go test -vet=off -count=1 ./...", cwd=wt)
        if rc1 != 0:
            # TestHandlerHandleSignedLatency is a wall-clock tolerance test, flaky under load (listed as flaky in BASELINE.json)
            fails = set(re.findall(r"^--- FAIL: (\S+)", o1, flags=re.M))
            if fails <= {"TestHandlerHandleSignedLatency"}:
                rc1 = 0
            else:
                rc1, o1 = sh("go test -vet=off -count=1 ./...", cwd=wt)
        res["suite_with_mutation"] = "pass" if rc1 == 0 else "FAIL"
        shutil.copy(demo, os.path.join(wt, dest))
        rc2, o2 = sh("go test -vet=off -count=1 -run 'Mutant' %s" % pkg, cwd=wt)
        res["demo_with_mutation"] = "fail" if rc2 != 0 else "PASSES (not a breaking change?)"
        os.remove(os.path.join(wt, dest))
        confirmed = rc0 == 0 and rc1 == 0 and rc2 != 0
        res["confirmed"] = confirmed
        checks = {}
        for cid in [pid] + extra:
            t0 = time.time()
            rc, out = sh(["python3", "bin/check", cid], cwd="/verif", env=dict(ENV, VERIF_REPO=wt))
            v = [l for l in out.splitlines() if l.startswith("VIOLATION")]
            checks[cid] = {"rc": rc, "line": v[0] if v else None, "wall_s": round(time.time() - t0, 1)}
            if v:
                rp = re.search(r"replay=(\S+)", v[0]).group(1)
                if os.path.exists(rp):
                    checks[cid]["replay_head"] = open(rp).read().splitlines()[:2]
                    if cid == pid and confirmed:
                        sd0 = "/verif/seeded/%s-%s" % (pid, x)
                        os.makedirs(sd0, exist_ok=True)
                        shutil.copy(rp, os.path.join(sd0, "replay.hist"))
        res["checks"] = checks
        if confirmed:
            sd = "/verif/seeded/%s-%s" % (pid, x)
            os.makedirs(sd, exist_ok=True)
            shutil.copy(diff, os.path.join(sd, "patch.diff"))
            shutil.copy(demo, os.path.join(sd, "demo_test.go.txt"))
            sec = re.split(r"\n(?=#+ )", md)
            meta = {"property": pid, "breaks": pid, "patch": "patch.diff", "demo": "demo_test.go.txt", "demo_path": dest,
                    "needs_to_manifest": "see description", "description": next((s for s in sec if re.search(r"mutant %s|mutation %s" % (x, x), s, re.I)), md)[:3000],
                    "confirmed": {"suite_with_mutation": res["suite_with_mutation"], "demo_with_mutation": res["demo_with_mutation"], "demo_without_mutation": res["demo_without_mutation"]},
                    "commands": ["go test -vet=off -count=1 ./... (with patch)", "go test -run Mutant %s (with / without patch)" % pkg,
                                 "VERIF_REPO=<worktree with patch> python3 bin/check %s" % pid],
                    "checks": checks}
            json.dump(meta, open(os.path.join(sd, "meta.json"), "w"), indent=1)
        print(json.dumps(res, indent=1))
    finally:
        sh(["git", "-C", "/repo", "worktree", "remove", "--force", wt])
        tag = "-" + hashlib.sha1(os.path.realpath(wt).encode()).hexdigest()[:8]
        for f in os.listdir("/verif/work"):
            if f.endswith(tag) or tag + "." in f or tag + "_" in f:
                p = os.path.join("/verif/work", f)
                shutil.rmtree(p, ignore_errors=True) if os.path.isdir(p) else os.remove(p)
    return 0
sys.exit(main())

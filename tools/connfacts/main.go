// connfacts: facts about the connection shell (websocket/handler.go), the sender
// (websocket/realtime.go) and the decoded-request handlers (websocket, modules/*), regenerated from
// the current Go sources and printed as coq/GenConn.v.
//
// Everything is recognised by ROLE (types and shapes), not by identifier, so that renaming a
// channel or a helper does not change the output; anything not recognised is emitted as the
// unsafe value so that the obligations in coq/Properties/C08.v fail (fail closed).
package main

import (
	"fmt"
	"go/ast"
	"go/constant"
	"go/parser"
	"go/token"
	"go/types"
	"os"
	"os/exec"
	"path/filepath"
	"sort"
	"strings"

	"golang.org/x/tools/go/packages"
)

const hagall = "github.com/aukilabs/hagall"

type facts struct {
	sendCap, discCap, queueCap int64 // -1 = not found
	discBlocking               bool
	discSends                  int
	hdDirect, hdEntry          int
	hdEntryInMainLoop          bool
	idleCase, idleRearmed      bool
	senderDiscards             bool
	queueDiscarded             bool
	writeDeadline              bool
	shellRecovers              bool
	nilSites                   []string
	notes                      []string
	loadFailed                 string
}

func main() {
	repo := "/repo"
	if len(os.Args) > 1 {
		repo = os.Args[1]
	}
	abs, _ := filepath.Abs(repo)
	f := &facts{sendCap: -1, discCap: -1, queueCap: -1, discBlocking: true}
	analyse(abs, f)
	emit(f)
}

func analyse(repo string, f *facts) {
	cfg := &packages.Config{Mode: packages.LoadSyntax, Dir: repo, Tests: false}
	pkgs, err := packages.Load(cfg, hagall+"/websocket", hagall+"/modules/...", hagall+"/models")
	if err != nil {
		f.loadFailed = "load: " + err.Error()
		return
	}
	var errs []string
	for _, p := range pkgs {
		for _, e := range p.Errors {
			errs = append(errs, e.Error())
		}
	}
	if len(errs) > 0 {
		f.loadFailed = "packages do not type-check: " + strings.Join(errs, "; ")
		if len(f.loadFailed) > 400 {
			f.loadFailed = f.loadFailed[:400]
		}
		f.nilSites = append(f.nilSites, "the repository does not type-check: no analysis")
		return
	}
	var ws *packages.Package
	for _, p := range pkgs {
		if p.PkgPath == hagall+"/websocket" {
			ws = p
		}
	}
	if ws == nil {
		f.loadFailed = "package websocket not found"
		f.nilSites = append(f.nilSites, "package websocket not found: no analysis")
		return
	}
	shellFacts(ws, f)
	f.queueCap = schedulerQueue(repo)
	nilAnalysis(pkgs, f)
}

// ---------------------------------------------------------------- the shell

func isErrorChan(t types.Type) bool {
	c, ok := t.Underlying().(*types.Chan)
	return ok && types.Identical(c.Elem(), types.Universe.Lookup("error").Type())
}

func isMsgChan(t types.Type) bool {
	c, ok := t.Underlying().(*types.Chan)
	if !ok {
		return false
	}
	n, ok := c.Elem().(*types.Named)
	return ok && n.Obj().Name() == "Msg" && strings.Contains(n.Obj().Pkg().Path(), "hagall-common/websocket")
}

func isTimer(t types.Type) bool {
	if p, ok := t.(*types.Pointer); ok {
		t = p.Elem()
	}
	n, ok := t.(*types.Named)
	return ok && n.Obj().Pkg() != nil && n.Obj().Pkg().Path() == "time" && n.Obj().Name() == "Timer"
}

type funcInfo struct {
	decl *ast.FuncDecl
	pkg  *packages.Package
}

func shellFacts(ws *packages.Package, f *facts) {
	info := ws.TypesInfo
	// the shell type: the struct that has a field of type chan error
	var shell *types.Named
	for _, name := range ws.Types.Scope().Names() {
		tn, ok := ws.Types.Scope().Lookup(name).(*types.TypeName)
		if !ok {
			continue
		}
		st, ok := tn.Type().Underlying().(*types.Struct)
		if !ok {
			continue
		}
		for i := 0; i < st.NumFields(); i++ {
			if isErrorChan(st.Field(i).Type()) {
				shell, _ = tn.Type().(*types.Named)
			}
		}
	}
	if shell == nil {
		f.notes = append(f.notes, "no struct with a `chan error` field found in package websocket")
		return
	}
	recvIs := func(fd *ast.FuncDecl) bool {
		if fd.Recv == nil || len(fd.Recv.List) == 0 {
			return false
		}
		t := info.TypeOf(fd.Recv.List[0].Type)
		if p, ok := t.(*types.Pointer); ok {
			t = p.Elem()
		}
		return types.Identical(t, shell)
	}
	var funcs []*ast.FuncDecl
	for _, file := range ws.Syntax {
		if strings.HasSuffix(ws.Fset.Position(file.Pos()).Filename, "_test.go") {
			continue
		}
		for _, d := range file.Decls {
			if fd, ok := d.(*ast.FuncDecl); ok && fd.Body != nil {
				funcs = append(funcs, fd)
			}
		}
	}
	// 1. channel capacities: make(chan T, n) assigned to a field of the shell
	for _, fd := range funcs {
		ast.Inspect(fd, func(n ast.Node) bool {
			as, ok := n.(*ast.AssignStmt)
			if !ok || len(as.Lhs) != 1 || len(as.Rhs) != 1 {
				return true
			}
			call, ok := as.Rhs[0].(*ast.CallExpr)
			if !ok {
				return true
			}
			if id, ok := call.Fun.(*ast.Ident); !ok || id.Name != "make" || len(call.Args) != 2 {
				return true
			}
			t := info.TypeOf(call.Args[0])
			tv := info.Types[call.Args[1]]
			if tv.Value == nil {
				return true
			}
			n64, ok := constant.Int64Val(constant.ToInt(tv.Value))
			if !ok {
				return true
			}
			if _, isSel := as.Lhs[0].(*ast.SelectorExpr); !isSel {
				return true
			}
			switch {
			case isErrorChan(t):
				f.discCap = n64
			case isMsgChan(t):
				f.sendCap = n64
			}
			return true
		})
	}
	// 2. sends on the error channel: blocking unless inside a select that has a default clause
	senders := map[string]bool{} // functions that send on the error channel ("disconnect" by role)
	allNonBlocking := true
	for _, fd := range funcs {
		var walk func(n ast.Node, inSelectWithDefault bool)
		walk = func(n ast.Node, nb bool) {
			switch x := n.(type) {
			case nil:
				return
			case *ast.SelectStmt:
				hasDefault := false
				for _, c := range x.Body.List {
					if cc := c.(*ast.CommClause); cc.Comm == nil {
						hasDefault = true
					}
				}
				for _, c := range x.Body.List {
					cc := c.(*ast.CommClause)
					if cc.Comm != nil {
						walk(cc.Comm, hasDefault)
					}
					for _, s := range cc.Body {
						walk(s, false)
					}
				}
				return
			case *ast.SendStmt:
				if isErrorChan(info.TypeOf(x.Chan)) {
					f.discSends++
					senders[fd.Name.Name] = true
					if !nb {
						allNonBlocking = false
					}
				}
				return
			}
			// generic descent
			ast.Inspect(n, func(m ast.Node) bool {
				if m == n || m == nil {
					return true
				}
				switch m.(type) {
				case *ast.SelectStmt, *ast.SendStmt:
					walk(m, false)
					return false
				}
				return true
			})
		}
		walk(fd.Body, false)
	}
	f.discBlocking = !(f.discSends > 0 && allNonBlocking)

	// 3. HandleDisconnect call sites (outside forwarding decorators) and their entry points
	direct := map[string]int{} // enclosing function -> count
	for _, fd := range funcs {
		if fd.Name.Name == "HandleDisconnect" {
			continue // a decorator forwarding to the handler it wraps
		}
		ast.Inspect(fd.Body, func(n ast.Node) bool {
			call, ok := n.(*ast.CallExpr)
			if !ok {
				return true
			}
			if sel, ok := call.Fun.(*ast.SelectorExpr); ok && isShellHandleDisconnect(info, sel) {
				direct[fd.Name.Name]++
				f.hdDirect++
			}
			return true
		})
	}
	// entry sites: calls of the functions that contain a direct site; a direct site inside the main
	// function of the shell is its own entry site
	f.hdEntryInMainLoop = true
	mainName := ""
	for _, fd := range funcs {
		// the main function of the shell: the method that creates the error channel
		if recvIs(fd) {
			ast.Inspect(fd.Body, func(n ast.Node) bool {
				if call, ok := n.(*ast.CallExpr); ok {
					if id, ok := call.Fun.(*ast.Ident); ok && id.Name == "make" && len(call.Args) == 2 && isErrorChan(info.TypeOf(call.Args[0])) {
						mainName = fd.Name.Name
					}
				}
				return true
			})
		}
	}
	for _, fd := range funcs {
		var walk func(n ast.Node, inGo bool)
		walk = func(n ast.Node, inGo bool) {
			ast.Inspect(n, func(m ast.Node) bool {
				switch x := m.(type) {
				case *ast.GoStmt:
					walk(x.Call.Fun, true)
					for _, a := range x.Call.Args {
						walk(a, inGo)
					}
					return false
				case *ast.CallExpr:
					name := ""
					isHD := false
					switch fn := x.Fun.(type) {
					case *ast.SelectorExpr:
						name = fn.Sel.Name
						isHD = isShellHandleDisconnect(info, fn)
					case *ast.Ident:
						name = fn.Name
					}
					isEntry := false
					if direct[name] > 0 && !isHD && name != "HandleDisconnect" {
						isEntry = true
					}
					if isHD && fd.Name.Name != "HandleDisconnect" && fd.Name.Name == mainName {
						isEntry = true
					}
					if isEntry {
						f.hdEntry++
						if inGo || fd.Name.Name != mainName || !recvIs(fd) {
							f.hdEntryInMainLoop = false
						}
					}
				}
				return true
			})
		}
		walk(fd.Body, false)
	}
	if mainName == "" || f.hdEntry == 0 {
		f.hdEntryInMainLoop = false
	}

	// helpers: functions of the package that re-arm a timer they are handed (Reset on a parameter of timer type), and the
	// methods / functions the main function calls or starts (a clean-up moved into a method is still the main loop's)
	resetHelpers := map[string]bool{}
	for _, fd := range funcs {
		if fd.Type.Params == nil {
			continue
		}
		timerParams := map[string]bool{}
		for _, fld := range fd.Type.Params.List {
			if isTimer(info.TypeOf(fld.Type)) {
				for _, nm := range fld.Names {
					timerParams[nm.Name] = true
				}
			}
		}
		if len(timerParams) == 0 {
			continue
		}
		ast.Inspect(fd.Body, func(m ast.Node) bool {
			if c, ok := m.(*ast.CallExpr); ok {
				if se, ok := c.Fun.(*ast.SelectorExpr); ok && se.Sel.Name == "Reset" {
					if id, ok := se.X.(*ast.Ident); ok && timerParams[id.Name] {
						resetHelpers[fd.Name.Name] = true
					}
				}
			}
			return true
		})
	}
	calledFromMain := map[string]bool{}
	for _, fd := range funcs {
		if fd.Name.Name != mainName || !recvIs(fd) {
			continue
		}
		ast.Inspect(fd.Body, func(m ast.Node) bool {
			if c, ok := m.(*ast.CallExpr); ok {
				switch fn := c.Fun.(type) {
				case *ast.SelectorExpr:
					calledFromMain[fn.Sel.Name] = true
				case *ast.Ident:
					calledFromMain[fn.Name] = true
				}
			}
			return true
		})
	}

	// 4..6. shapes inside the main function and the sender loop
	for _, fd := range funcs {
		if !recvIs(fd) {
			continue
		}
		ast.Inspect(fd.Body, func(n ast.Node) bool {
			switch x := n.(type) {
			case *ast.CommClause:
				if x.Comm == nil {
					return true
				}
				recvFrom, assigned := commRecv(x.Comm)
				if recvFrom == nil {
					return true
				}
				// <-timer.C : the idle case, if its body reports a failure
				if sel, ok := recvFrom.(*ast.SelectorExpr); ok && sel.Sel.Name == "C" && isTimer(info.TypeOf(sel.X)) {
					if callsAny(x.Body, senders) {
						f.idleCase = true
					}
				}
				// <-X.Messages()
				if call, ok := recvFrom.(*ast.CallExpr); ok {
					if sel, ok := call.Fun.(*ast.SelectorExpr); ok && sel.Sel.Name == "Messages" {
						if assigned {
							// the message case: re-arms the idle timer?
							for _, s := range x.Body {
								ast.Inspect(s, func(m ast.Node) bool {
									if c, ok := m.(*ast.CallExpr); ok {
										if se, ok := c.Fun.(*ast.SelectorExpr); ok && se.Sel.Name == "Reset" && isTimer(info.TypeOf(se.X)) {
											f.idleRearmed = true
										}
										// … or hands the timer to a helper that re-arms it
										hn := ""
										switch fn := c.Fun.(type) {
										case *ast.SelectorExpr:
											hn = fn.Sel.Name
										case *ast.Ident:
											hn = fn.Name
										}
										if resetHelpers[hn] {
											for _, a := range c.Args {
												if isTimer(info.TypeOf(a)) {
													f.idleRearmed = true
												}
											}
										}
									}
									return true
								})
							}
						} else if fd.Name.Name == mainName || calledFromMain[fd.Name.Name] {
							f.queueDiscarded = true
						}
					}
				}
			}
			return true
		})
		// the sender loop: the function that calls the `sender` field; does the failure branch return?
		ast.Inspect(fd.Body, func(n ast.Node) bool {
			ifs, ok := n.(*ast.IfStmt)
			if !ok || ifs.Init == nil {
				return true
			}
			callsSender := false
			ast.Inspect(ifs.Init, func(m ast.Node) bool {
				if c, ok := m.(*ast.CallExpr); ok {
					if se, ok := c.Fun.(*ast.SelectorExpr); ok {
						if sig, ok := info.TypeOf(se).(*types.Named); ok && sig.Obj().Name() == "Sender" {
							callsSender = true
						}
					}
				}
				return true
			})
			if !callsSender {
				return true
			}
			hasReturn := false
			ast.Inspect(ifs.Body, func(m ast.Node) bool {
				if _, ok := m.(*ast.ReturnStmt); ok {
					hasReturn = true
				}
				return true
			})
			f.senderDiscards = callsAny(ifs.Body.List, senders) && !hasReturn
			return true
		})
	}
	// 6b. the same fact, structurally: the loop that receives from sendChan in a select never returns except in its
	// ctx.Done() case, and it (or a method it calls) writes to the client through the Sender field and asks for the
	// disconnection when that fails - whatever the shape of the failure branch (a helper, a flag, an early `continue`)
	if !f.senderDiscards {
		byName := map[string]*ast.FuncDecl{}
		for _, fd := range funcs {
			byName[fd.Name.Name] = fd
		}
		callsSenderField := func(body ast.Node) bool {
			found := false
			ast.Inspect(body, func(m ast.Node) bool {
				if c, ok := m.(*ast.CallExpr); ok {
					if se, ok := c.Fun.(*ast.SelectorExpr); ok {
						if sig, ok := info.TypeOf(se).(*types.Named); ok && sig.Obj().Name() == "Sender" {
							found = true
						}
					}
				}
				return true
			})
			return found
		}
		for _, fd := range funcs {
			ast.Inspect(fd.Body, func(n ast.Node) bool {
				fs, ok := n.(*ast.ForStmt)
				if !ok {
					return true
				}
				for _, st := range fs.Body.List {
					sel, ok := st.(*ast.SelectStmt)
					if !ok {
						continue
					}
					recvSend, okLoop := false, true
					var sendBody []ast.Stmt
					for _, cc := range sel.Body.List {
						c := cc.(*ast.CommClause)
						from := ""
						var e ast.Expr
						switch v := c.Comm.(type) {
						case *ast.ExprStmt:
							e = v.X
						case *ast.AssignStmt:
							if len(v.Rhs) == 1 {
								e = v.Rhs[0]
							}
						}
						if ue, ok := e.(*ast.UnaryExpr); ok && ue.Op == token.ARROW {
							switch x := ue.X.(type) {
							case *ast.SelectorExpr:
								from = x.Sel.Name
							case *ast.CallExpr:
								if se, ok := x.Fun.(*ast.SelectorExpr); ok {
									from = se.Sel.Name + "()"
								}
							}
						}
						if from == "sendChan" {
							recvSend = true
							sendBody = c.Body
						}
						if from != "Done()" {
							for _, b := range c.Body {
								ast.Inspect(b, func(m ast.Node) bool {
									switch m.(type) {
									case *ast.FuncLit:
										return false
									case *ast.ReturnStmt:
										okLoop = false
									case *ast.BranchStmt:
										if m.(*ast.BranchStmt).Tok == token.BREAK || m.(*ast.BranchStmt).Tok == token.GOTO {
											okLoop = false
										}
									}
									return true
								})
							}
						}
					}
					if !recvSend || !okLoop {
						continue
					}
					// the write and the request for disconnection: in the case body or in a method of the shell it calls
					writes, asks := false, false
					check := func(body ast.Node) {
						if callsSenderField(body) {
							writes = true
						}
						ast.Inspect(body, func(m ast.Node) bool {
							if c, ok := m.(*ast.CallExpr); ok {
								if se, ok := c.Fun.(*ast.SelectorExpr); ok && senders[se.Sel.Name] {
									asks = true
								}
							}
							return true
						})
					}
					for _, b := range sendBody {
						check(b)
						ast.Inspect(b, func(m ast.Node) bool {
							if c, ok := m.(*ast.CallExpr); ok {
								if se, ok := c.Fun.(*ast.SelectorExpr); ok {
									if h := byName[se.Sel.Name]; h != nil && h != fd {
										check(h.Body)
									}
								}
							}
							return true
						})
					}
					if writes && asks {
						f.senderDiscards = true
					}
				}
				return true
			})
		}
	}
	// 7. recover() anywhere in the shell's methods
	for _, fd := range funcs {
		if !recvIs(fd) {
			continue
		}
		ast.Inspect(fd.Body, func(n ast.Node) bool {
			if c, ok := n.(*ast.CallExpr); ok {
				if id, ok := c.Fun.(*ast.Ident); ok && id.Name == "recover" {
					if _, isBuiltin := info.Uses[id].(*types.Builtin); isBuiltin {
						f.shellRecovers = true
					}
				}
			}
			return true
		})
	}
	// 8. write deadline: the function literal returned by RealtimeHandler.Sender sets one before sending
	for _, fd := range funcs {
		if fd.Name.Name != "Sender" || fd.Recv == nil {
			continue
		}
		t := info.TypeOf(fd.Recv.List[0].Type)
		if p, ok := t.(*types.Pointer); ok {
			t = p.Elem()
		}
		if n, ok := t.(*types.Named); !ok || n.Obj().Name() != "RealtimeHandler" {
			continue
		}
		ast.Inspect(fd.Body, func(n ast.Node) bool {
			if c, ok := n.(*ast.CallExpr); ok {
				if se, ok := c.Fun.(*ast.SelectorExpr); ok && (se.Sel.Name == "SetWriteDeadline" || se.Sel.Name == "SetDeadline") {
					f.writeDeadline = true
				}
			}
			return true
		})
	}
}

// isShellHandleDisconnect: a call of the websocket Handler's HandleDisconnect(error) (not the modules' HandleDisconnect())
func isShellHandleDisconnect(info *types.Info, sel *ast.SelectorExpr) bool {
	if sel.Sel.Name != "HandleDisconnect" {
		return false
	}
	fn, ok := info.Uses[sel.Sel].(*types.Func)
	if !ok || fn.Pkg() == nil || fn.Pkg().Path() != hagall+"/websocket" {
		return false
	}
	sig, ok := fn.Type().(*types.Signature)
	return ok && sig.Params().Len() == 1
}

func commRecv(s ast.Stmt) (from ast.Expr, assigned bool) {
	switch x := s.(type) {
	case *ast.ExprStmt:
		if u, ok := x.X.(*ast.UnaryExpr); ok && u.Op == token.ARROW {
			return u.X, false
		}
	case *ast.AssignStmt:
		if len(x.Rhs) == 1 {
			if u, ok := x.Rhs[0].(*ast.UnaryExpr); ok && u.Op == token.ARROW {
				return u.X, true
			}
		}
	}
	return nil, false
}

func callsAny(stmts []ast.Stmt, names map[string]bool) bool {
	found := false
	for _, s := range stmts {
		ast.Inspect(s, func(n ast.Node) bool {
			if c, ok := n.(*ast.CallExpr); ok {
				switch fn := c.Fun.(type) {
				case *ast.SelectorExpr:
					if names[fn.Sel.Name] {
						found = true
					}
				case *ast.Ident:
					if names[fn.Name] {
						found = true
					}
				}
			}
			return true
		})
	}
	return found
}

func schedulerQueue(repo string) int64 {
	cmd := exec.Command("go", "list", "-m", "-f", "{{.Dir}}", "github.com/aukilabs/hagall-common")
	cmd.Dir = repo
	out, err := cmd.Output()
	if err != nil {
		return -1
	}
	dir := filepath.Join(strings.TrimSpace(string(out)), "websocket")
	fset := token.NewFileSet()
	pkgs, err := parser.ParseDir(fset, dir, func(fi os.FileInfo) bool { return !strings.HasSuffix(fi.Name(), "_test.go") }, 0)
	if err != nil {
		return -1
	}
	res := int64(-1)
	for _, p := range pkgs {
		for _, file := range p.Files {
			ast.Inspect(file, func(n ast.Node) bool {
				vs, ok := n.(*ast.ValueSpec)
				if !ok {
					return true
				}
				for i, id := range vs.Names {
					if id.Name == "schedulerQueueSize" && i < len(vs.Values) {
						if bl, ok := vs.Values[i].(*ast.BasicLit); ok {
							fmt.Sscan(bl.Value, &res)
						}
					}
				}
				return true
			})
		}
	}
	return res
}

// ---------------------------------------------------------------- nil dereference analysis

func isPBMessage(t types.Type) bool {
	n, ok := t.(*types.Named)
	if !ok || n.Obj().Pkg() == nil {
		return false
	}
	if _, ok := n.Underlying().(*types.Struct); !ok {
		return false
	}
	p := n.Obj().Pkg().Path()
	return strings.Contains(p, "/messages/") && strings.HasSuffix(p, "pb") || strings.HasSuffix(p, "/timestamppb")
}

func isPBPointer(t types.Type) bool {
	p, ok := t.(*types.Pointer)
	return ok && isPBMessage(p.Elem())
}

type set map[string]bool

func (s set) clone() set {
	o := set{}
	for k := range s {
		o[k] = true
	}
	return o
}
func (s set) addAll(o set) set {
	for k := range o {
		s[k] = true
	}
	return s
}
func inter(a, b set) set {
	o := set{}
	for k := range a {
		if b[k] {
			o[k] = true
		}
	}
	return o
}

type summary struct {
	requires set // paths rooted at "$i" dereferenced without a guard
	nnTrue   set // paths rooted at "$i" known non nil when the function returns true
	done     bool
}

type analyser struct {
	funcs map[*types.Func]*funcInfo
	sums  map[*types.Func]*summary
	sites map[string]bool
}

func nilAnalysis(pkgs []*packages.Package, f *facts) {
	a := &analyser{funcs: map[*types.Func]*funcInfo{}, sums: map[*types.Func]*summary{}, sites: map[string]bool{}}
	for _, p := range pkgs {
		for _, file := range p.Syntax {
			if strings.HasSuffix(p.Fset.Position(file.Pos()).Filename, "_test.go") {
				continue
			}
			for _, d := range file.Decls {
				if fd, ok := d.(*ast.FuncDecl); ok && fd.Body != nil {
					if obj, ok := p.TypesInfo.Defs[fd.Name].(*types.Func); ok {
						a.funcs[obj] = &funcInfo{fd, p}
					}
				}
			}
		}
	}
	for obj, fi := range a.funcs {
		if strings.HasSuffix(fi.pkg.PkgPath, "/models") {
			continue // summaries only
		}
		a.summarise(obj)
	}
	for s := range a.sites {
		f.nilSites = append(f.nilSites, s)
	}
	sort.Strings(f.nilSites)
}

type fnCtx struct {
	a       *analyser
	fi      *funcInfo
	info    *types.Info
	params  map[types.Object]int
	alias   map[types.Object]string // local -> canonical path
	reqRoot map[types.Object]bool   // request-derived roots: decoded message locals, range variables over their repeated fields
	sum     *summary
}

func (a *analyser) summarise(obj *types.Func) *summary {
	if s, ok := a.sums[obj]; ok {
		return s // (in progress: empty summary)
	}
	s := &summary{requires: set{}, nnTrue: set{}}
	a.sums[obj] = s
	fi := a.funcs[obj]
	if fi == nil {
		s.done = true
		return s
	}
	c := &fnCtx{a: a, fi: fi, info: fi.pkg.TypesInfo, params: map[types.Object]int{}, alias: map[types.Object]string{}, reqRoot: map[types.Object]bool{}, sum: s}
	i := 0
	for _, fld := range fi.decl.Type.Params.List {
		for _, nm := range fld.Names {
			if o := c.info.Defs[nm]; o != nil {
				c.params[o] = i
			}
			i++
		}
		if len(fld.Names) == 0 {
			i++
		}
	}
	c.block(fi.decl.Body.List, set{})
	s.nnTrue = c.nnTrueOfFunc()
	s.done = true
	return s
}

// canon: the canonical access path of an expression, if it is one
func (c *fnCtx) canon(e ast.Expr) (string, bool) {
	switch x := e.(type) {
	case *ast.ParenExpr:
		return c.canon(x.X)
	case *ast.Ident:
		o := c.info.Uses[x]
		if o == nil {
			o = c.info.Defs[x]
		}
		if o == nil {
			return "", false
		}
		if p, ok := c.alias[o]; ok {
			return p, true
		}
		if i, ok := c.params[o]; ok {
			return fmt.Sprintf("$%d", i), true
		}
		if c.reqRoot[o] {
			return x.Name, true
		}
		return "", false
	case *ast.SelectorExpr:
		sel := c.info.Selections[x]
		if sel == nil || sel.Kind() != types.FieldVal {
			return "", false
		}
		p, ok := c.canon(x.X)
		if !ok {
			return "", false
		}
		return p + "." + x.Sel.Name, true
	}
	return "", false
}

// mayBeNil: a pointer-to-message path that may hold nil: a pointer parameter, or a field below a root
func (c *fnCtx) mayBeNil(e ast.Expr, path string) bool {
	return isPBPointer(c.info.TypeOf(e))
}

func (c *fnCtx) need(path string, nn set, what string, pos token.Pos) {
	if nn[path] {
		return
	}
	if strings.HasPrefix(path, "$") {
		c.sum.requires[path] = true
		return
	}
	p := c.fi.pkg.Fset.Position(pos)
	rel := p.Filename
	if i := strings.Index(rel, "/websocket/"); i >= 0 {
		rel = rel[i+1:]
	} else if i := strings.Index(rel, "/modules/"); i >= 0 {
		rel = rel[i+1:]
	}
	c.a.sites[fmt.Sprintf("%s %s: %s %s", rel, c.fi.decl.Name.Name, path, what)] = true
}

func (c *fnCtx) nnT(e ast.Expr) set { return c.nnCond(e, true) }
func (c *fnCtx) nnF(e ast.Expr) set { return c.nnCond(e, false) }

func isNilIdent(e ast.Expr) bool {
	id, ok := e.(*ast.Ident)
	return ok && id.Name == "nil"
}

func (c *fnCtx) nnCond(e ast.Expr, truth bool) set {
	switch x := e.(type) {
	case *ast.ParenExpr:
		return c.nnCond(x.X, truth)
	case *ast.UnaryExpr:
		if x.Op == token.NOT {
			return c.nnCond(x.X, !truth)
		}
	case *ast.BinaryExpr:
		switch x.Op {
		case token.LAND:
			if truth {
				return c.nnCond(x.X, true).clone().addAll(c.nnCond(x.Y, true))
			}
			return inter(c.nnCond(x.X, false), c.nnCond(x.Y, false))
		case token.LOR:
			if !truth {
				return c.nnCond(x.X, false).clone().addAll(c.nnCond(x.Y, false))
			}
			return inter(c.nnCond(x.X, true), c.nnCond(x.Y, true))
		case token.NEQ, token.EQL:
			var other ast.Expr
			if isNilIdent(x.Y) {
				other = x.X
			} else if isNilIdent(x.X) {
				other = x.Y
			}
			if other != nil && (x.Op == token.NEQ) == truth {
				if p, ok := c.canon(other); ok {
					return set{p: true}
				}
			}
		}
	case *ast.CallExpr:
		if truth {
			if callee := c.callee(x); callee != nil {
				s := c.a.summarise(callee)
				out := set{}
				for r := range s.nnTrue {
					if p, ok := c.subst(r, x); ok {
						out[p] = true
					}
				}
				return out
			}
		}
	}
	return set{}
}

func (c *fnCtx) callee(call *ast.CallExpr) *types.Func {
	var id *ast.Ident
	switch fn := call.Fun.(type) {
	case *ast.Ident:
		id = fn
	case *ast.SelectorExpr:
		id = fn.Sel
	default:
		return nil
	}
	f, _ := c.info.Uses[id].(*types.Func)
	if f == nil {
		return nil
	}
	if _, ok := c.a.funcs[f]; !ok {
		return nil
	}
	return f
}

// subst: "$i.rest" with the canonical path of argument i
func (c *fnCtx) subst(rel string, call *ast.CallExpr) (string, bool) {
	var i int
	rest := ""
	if k := strings.Index(rel, "."); k >= 0 {
		rest = rel[k:]
		fmt.Sscanf(rel[:k], "$%d", &i)
	} else {
		fmt.Sscanf(rel, "$%d", &i)
	}
	if i >= len(call.Args) {
		return "", false
	}
	p, ok := c.canon(call.Args[i])
	if !ok {
		return "", false
	}
	return p + rest, true
}

// expr checks the dereferences an expression performs, in evaluation order
func (c *fnCtx) expr(e ast.Expr, nn set) {
	switch x := e.(type) {
	case nil:
		return
	case *ast.ParenExpr:
		c.expr(x.X, nn)
	case *ast.BinaryExpr:
		c.expr(x.X, nn)
		switch x.Op {
		case token.LAND:
			c.expr(x.Y, nn.clone().addAll(c.nnT(x.X)))
		case token.LOR:
			c.expr(x.Y, nn.clone().addAll(c.nnF(x.X)))
		default:
			c.expr(x.Y, nn)
		}
	case *ast.SelectorExpr:
		if sel := c.info.Selections[x]; sel != nil && sel.Kind() == types.FieldVal && isPBPointer(c.info.TypeOf(x.X)) {
			if p, ok := c.canon(x.X); ok {
				c.need(p, nn, "is read ."+x.Sel.Name+" without a nil check", x.Pos())
			}
		}
		c.expr(x.X, nn)
	case *ast.StarExpr:
		if isPBPointer(c.info.TypeOf(x.X)) {
			if p, ok := c.canon(x.X); ok {
				c.need(p, nn, "is dereferenced without a nil check", x.Pos())
			}
		}
		c.expr(x.X, nn)
	case *ast.CallExpr:
		c.expr(x.Fun, nn)
		for _, a := range x.Args {
			c.expr(a, nn)
		}
		if callee := c.callee(x); callee != nil {
			s := c.a.summarise(callee)
			reqs := make([]string, 0, len(s.requires))
			for r := range s.requires {
				reqs = append(reqs, r)
			}
			sort.Strings(reqs)
			for _, r := range reqs {
				if p, ok := c.subst(r, x); ok {
					c.need(p, nn, "is passed to "+callee.Name()+", which reads through it without a nil check", x.Pos())
				}
			}
		}
	case *ast.FuncLit:
		c.block(x.Body.List, nn.clone())
	case *ast.CompositeLit:
		for _, el := range x.Elts {
			if kv, ok := el.(*ast.KeyValueExpr); ok {
				c.expr(kv.Value, nn)
			} else {
				c.expr(el, nn)
			}
		}
	case *ast.UnaryExpr:
		c.expr(x.X, nn)
	case *ast.IndexExpr:
		c.expr(x.X, nn)
		c.expr(x.Index, nn)
	case *ast.SliceExpr:
		c.expr(x.X, nn)
		c.expr(x.Low, nn)
		c.expr(x.High, nn)
	case *ast.TypeAssertExpr:
		c.expr(x.X, nn)
	case *ast.KeyValueExpr:
		c.expr(x.Value, nn)
	}
}

func terminates(stmts []ast.Stmt) bool {
	if len(stmts) == 0 {
		return false
	}
	switch x := stmts[len(stmts)-1].(type) {
	case *ast.ReturnStmt:
		return true
	case *ast.BranchStmt:
		return x.Tok == token.CONTINUE || x.Tok == token.BREAK || x.Tok == token.GOTO
	case *ast.ExprStmt:
		if call, ok := x.X.(*ast.CallExpr); ok {
			if id, ok := call.Fun.(*ast.Ident); ok && id.Name == "panic" {
				return true
			}
		}
	case *ast.BlockStmt:
		return terminates(x.List)
	}
	return false
}

// block analyses statements in order; returns the non-nil facts at its end
func (c *fnCtx) block(stmts []ast.Stmt, nn set) set {
	for _, s := range stmts {
		nn = c.stmt(s, nn)
	}
	return nn
}

func (c *fnCtx) bindAlias(lhs ast.Expr, rhs ast.Expr) {
	id, ok := lhs.(*ast.Ident)
	if !ok {
		return
	}
	o := c.info.Defs[id]
	if o == nil {
		o = c.info.Uses[id]
	}
	if o == nil {
		return
	}
	if p, ok := c.canon(rhs); ok && isPBPointer(c.info.TypeOf(rhs)) {
		c.alias[o] = p
	} else {
		delete(c.alias, o)
	}
}

func (c *fnCtx) stmt(s ast.Stmt, nn set) set {
	switch x := s.(type) {
	case *ast.DeclStmt:
		if gd, ok := x.Decl.(*ast.GenDecl); ok {
			for _, sp := range gd.Specs {
				if vs, ok := sp.(*ast.ValueSpec); ok {
					for i, nm := range vs.Names {
						o := c.info.Defs[nm]
						if o != nil && isPBMessage(o.Type()) {
							c.reqRoot[o] = true // `var req pb.X`: a decoded request
						}
						if i < len(vs.Values) {
							c.expr(vs.Values[i], nn)
						}
					}
				}
			}
		}
	case *ast.AssignStmt:
		for _, r := range x.Rhs {
			c.expr(r, nn)
		}
		for _, l := range x.Lhs {
			if _, isId := l.(*ast.Ident); !isId {
				c.expr(l, nn)
			}
		}
		if len(x.Lhs) == len(x.Rhs) {
			for i := range x.Lhs {
				c.bindAlias(x.Lhs[i], x.Rhs[i])
			}
		}
	case *ast.ExprStmt:
		c.expr(x.X, nn)
	case *ast.ReturnStmt:
		for _, r := range x.Results {
			c.expr(r, nn)
		}
	case *ast.IfStmt:
		if x.Init != nil {
			nn = c.stmt(x.Init, nn)
		}
		c.expr(x.Cond, nn)
		thenOut := c.block(x.Body.List, nn.clone().addAll(c.nnT(x.Cond)))
		elseIn := nn.clone().addAll(c.nnF(x.Cond))
		elseOut, elseTerm := elseIn, false
		if x.Else != nil {
			switch el := x.Else.(type) {
			case *ast.BlockStmt:
				elseOut = c.block(el.List, elseIn)
				elseTerm = terminates(el.List)
			case *ast.IfStmt:
				elseOut = c.stmt(el, elseIn)
			}
		}
		thenTerm := terminates(x.Body.List)
		switch {
		case thenTerm && !elseTerm:
			return elseOut
		case elseTerm && !thenTerm:
			return thenOut
		default:
			return inter(thenOut, elseOut).addAll(nn)
		}
	case *ast.BlockStmt:
		return c.block(x.List, nn)
	case *ast.RangeStmt:
		c.expr(x.X, nn)
		body := nn.clone()
		if id, ok := x.Value.(*ast.Ident); ok && id.Name != "_" {
			if o := c.info.Defs[id]; o != nil && isPBPointer(o.Type()) {
				// elements of a repeated message field are never nil; their own sub-messages may be
				if _, ok := c.canon(x.X); ok {
					c.reqRoot[o] = true
					body[id.Name] = true
				}
			}
		}
		c.block(x.Body.List, body)
	case *ast.ForStmt:
		if x.Init != nil {
			nn = c.stmt(x.Init, nn)
		}
		c.expr(x.Cond, nn)
		c.block(x.Body.List, nn.clone())
	case *ast.SwitchStmt:
		if x.Init != nil {
			nn = c.stmt(x.Init, nn)
		}
		if x.Tag == nil {
			// a tagless switch is an if / else-if chain: the expressions of a case are tried in order (a || b || …), a case is
			// reached only when every earlier one was false
			reach := nn.clone()
			for _, cl := range x.Body.List {
				cc := cl.(*ast.CaseClause)
				in := reach.clone()
				if len(cc.List) > 0 {
					var cond ast.Expr = cc.List[0]
					for _, e := range cc.List[1:] {
						cond = &ast.BinaryExpr{X: cond, Op: token.LOR, Y: e}
					}
					c.expr(cond, reach)
					in = reach.clone().addAll(c.nnT(cond))
					reach = reach.clone().addAll(c.nnF(cond))
				}
				c.block(cc.Body, in)
			}
			return nn
		}
		c.expr(x.Tag, nn)
		for _, cl := range x.Body.List {
			cc := cl.(*ast.CaseClause)
			for _, e := range cc.List {
				c.expr(e, nn)
			}
			c.block(cc.Body, nn.clone())
		}
	case *ast.TypeSwitchStmt:
		for _, cl := range x.Body.List {
			c.block(cl.(*ast.CaseClause).Body, nn.clone())
		}
	case *ast.SelectStmt:
		for _, cl := range x.Body.List {
			cc := cl.(*ast.CommClause)
			in := nn.clone()
			if cc.Comm != nil {
				in = c.stmt(cc.Comm, in)
			}
			c.block(cc.Body, in)
		}
	case *ast.GoStmt:
		c.expr(x.Call, nn)
	case *ast.DeferStmt:
		c.expr(x.Call, nn)
	case *ast.SendStmt:
		c.expr(x.Chan, nn)
		c.expr(x.Value, nn)
	case *ast.IncDecStmt:
		c.expr(x.X, nn)
	case *ast.LabeledStmt:
		return c.stmt(x.Stmt, nn)
	}
	return nn
}

// nnTrueOfFunc: for a function returning one bool, the paths (rooted at parameters) that are
// non nil whenever it returns true.  Shape understood: `if c { return false }`* ; `return e`.
func (c *fnCtx) nnTrueOfFunc() set {
	res := c.fi.decl.Type.Results
	if res == nil || len(res.List) != 1 {
		return set{}
	}
	if b, ok := c.info.TypeOf(res.List[0].Type).(*types.Basic); !ok || b.Kind() != types.Bool {
		return set{}
	}
	facts := set{}
	var out set
	for _, s := range c.fi.decl.Body.List {
		switch x := s.(type) {
		case *ast.IfStmt:
			if x.Else == nil && len(x.Body.List) == 1 {
				if r, ok := x.Body.List[0].(*ast.ReturnStmt); ok && len(r.Results) == 1 {
					if id, ok := r.Results[0].(*ast.Ident); ok && id.Name == "false" {
						facts.addAll(c.nnF(x.Cond))
						continue
					}
				}
			}
			return set{} // a shape not understood
		case *ast.SwitchStmt:
			// `switch { case c1, c2: return false … default: return true }` is `if c1 || c2 { return false }; …; return true`
			if x.Tag != nil || x.Init != nil {
				return set{}
			}
			var dflt *ast.CaseClause
			for _, cl := range x.Body.List {
				cc := cl.(*ast.CaseClause)
				if len(cc.Body) != 1 {
					return set{}
				}
				r, ok := cc.Body[0].(*ast.ReturnStmt)
				if !ok || len(r.Results) != 1 {
					return set{}
				}
				if len(cc.List) == 0 {
					dflt = cc
					continue
				}
				id, ok := r.Results[0].(*ast.Ident)
				if !ok || id.Name != "false" || dflt != nil {
					return set{} // a default before the last case, or a case that does not reject: not understood
				}
				var cond ast.Expr = cc.List[0]
				for _, e := range cc.List[1:] {
					cond = &ast.BinaryExpr{X: cond, Op: token.LOR, Y: e}
				}
				facts.addAll(c.nnF(cond))
			}
			if dflt != nil {
				out = facts.clone().addAll(c.nnT(dflt.Body[0].(*ast.ReturnStmt).Results[0]))
			}
		case *ast.ReturnStmt:
			if len(x.Results) != 1 {
				return set{}
			}
			out = facts.clone().addAll(c.nnT(x.Results[0]))
		case *ast.AssignStmt, *ast.DeclStmt:
			// aliases were recorded by the main pass
		default:
			return set{}
		}
	}
	if out == nil {
		return set{}
	}
	keep := set{}
	for p := range out {
		if strings.HasPrefix(p, "$") {
			keep[p] = true
		}
	}
	return keep
}

// ---------------------------------------------------------------- output

func optN(v int64) string {
	if v < 0 {
		return "None"
	}
	return fmt.Sprintf("(Some %d%%N)", v)
}

func coqBool(b bool) string {
	if b {
		return "true"
	}
	return "false"
}

func coqString(s string) string {
	return "\"" + strings.ReplaceAll(s, "\"", "\"\"") + "\""
}

func emit(f *facts) {
	fmt.Println("(* GENERATED by tools/connfacts from websocket/handler.go, websocket/realtime.go, modules/*, hagall-common — do not edit *)")
	fmt.Println("From Coq Require Import NArith List String.")
	fmt.Println("Import ListNotations.")
	fmt.Println("Open Scope string_scope.")
	fmt.Println()
	if f.loadFailed != "" {
		fmt.Printf("(* %s *)\n", strings.ReplaceAll(f.loadFailed, "*)", "* )"))
	}
	for _, n := range f.notes {
		fmt.Printf("(* note: %s *)\n", strings.ReplaceAll(n, "*)", "* )"))
	}
	fmt.Println("(* capacities of the bounded channels: make(chan hwebsocket.Msg, n), make(chan error, n) in the shell; schedulerQueueSize of hagall-common *)")
	fmt.Printf("Definition send_chan_cap : option N := %s.\n", optN(f.sendCap))
	fmt.Printf("Definition disconnect_chan_cap : option N := %s.\n", optN(f.discCap))
	fmt.Printf("Definition scheduler_queue_cap : option N := %s.\n", optN(f.queueCap))
	fmt.Println("(* a send on the `chan error` of the shell outside a select-with-default (true also when no send was found) *)")
	fmt.Printf("Definition disconnect_blocking : bool := %s.\n", coqBool(f.discBlocking))
	fmt.Printf("Definition disconnect_send_sites : N := %d%%N.\n", f.discSends)
	fmt.Println("(* calls of Handler.HandleDisconnect outside forwarding decorators; call sites of the function(s) containing them; all of them in the main function of the shell and not under `go` *)")
	fmt.Printf("Definition handle_disconnect_direct_sites : N := %d%%N.\n", f.hdDirect)
	fmt.Printf("Definition handle_disconnect_entry_sites : N := %d%%N.\n", f.hdEntry)
	fmt.Printf("Definition handle_disconnect_in_main_loop_only : bool := %s.\n", coqBool(f.hdEntryInMainLoop))
	fmt.Println("(* the select has a case on the idle timer that reports a failure; the message case re-arms that timer *)")
	fmt.Printf("Definition idle_case_present : bool := %s.\n", coqBool(f.idleCase))
	fmt.Printf("Definition idle_rearmed_on_message : bool := %s.\n", coqBool(f.idleRearmed))
	fmt.Println("(* after a failed send the sender keeps consuming (discarding) sendChan until the context is done *)")
	fmt.Printf("Definition sender_discards_after_failure : bool := %s.\n", coqBool(f.senderDiscards))
	fmt.Println("(* the main function discards what arrives in the scheduler queue once it has decided to disconnect *)")
	fmt.Printf("Definition queue_discarded_on_disconnect : bool := %s.\n", coqBool(f.queueDiscarded))
	fmt.Println("(* RealtimeHandler.Sender sets a write deadline before each send *)")
	fmt.Printf("Definition send_write_deadline : bool := %s.\n", coqBool(f.writeDeadline))
	fmt.Println("(* the shell calls recover() itself (the model assumes it does not: a handler panic unwinds to net/http) *)")
	fmt.Printf("Definition shell_recovers : bool := %s.\n", coqBool(f.shellRecovers))
	fmt.Println("(* selector chains through a pointer-typed protobuf sub-message of a decoded request that are not dominated by a nil check *)")
	fmt.Println("Definition nil_deref_sites : list string := [")
	for i, s := range f.nilSites {
		sep := ";"
		if i == len(f.nilSites)-1 {
			sep = ""
		}
		fmt.Printf("  %s%s\n", coqString(s), sep)
	}
	fmt.Println("].")
}

#!/bin/sh
# run.sh <repo> <coq dir>: regenerates <coq dir>/GenConn.v from the CURRENT sources under <repo>
# (websocket/handler.go, websocket/realtime.go, modules/*) and from the hagall-common version the
# repository requires (scheduler queue size).  Fails closed: a shape it does not recognise is
# emitted as the unsafe value (blocking = true, guard = false, None) so that the obligations of
# coq/Properties/C08.v fail.  Exits non-zero only on an internal failure.
set -e
REPO=${1:?repo}; COQ=${2:?coq dir}
HERE=$(cd "$(dirname "$0")" && pwd)
WORK=$(cd "$HERE/../.." && pwd)/work/c08tools
mkdir -p "$WORK" "$COQ"
export GOFLAGS=-mod=mod GOPROXY=off GOSUMDB=off GOTOOLCHAIN=local
BIN="$WORK/connfacts"
if [ ! -x "$BIN" ] || [ "$HERE/main.go" -nt "$BIN" ] || [ "$HERE/go.mod" -nt "$BIN" ]; then
  (cd "$HERE" && go build -o "$BIN" .)
fi
TMP="$COQ/GenConn.v.tmp.$$"
"$BIN" "$REPO" > "$TMP"
if cmp -s "$TMP" "$COQ/GenConn.v"; then rm -f "$TMP"; else mv "$TMP" "$COQ/GenConn.v"; fi

#!/usr/bin/env python3
"""tools/matrix.py [workers] — runs every registered L1 check against every seeded change (seeded/*/patch.diff) and
writes seeded/MATRIX.json: which checks raise an alarm on which change (V = violation with failing input,
N = no-failing-input-found, . = quiet)."""
import json, os, re, subprocess, sys, hashlib, shutil
from concurrent.futures import ThreadPoolExecutor
ENV = dict(os.environ, GOFLAGS="-mod=mod", GOPROXY="off", GOSUMDB="off", GOTOOLCHAIN="local")
CHECKS = ["C%02d" % i for i in range(1, 21)]
def run_one(name):
    wt = "/tmp/mx-%s" % name
    subprocess.run(["git","-C","/repo","worktree","remove","--force",wt], capture_output=True)
    subprocess.run(["git","-C","/repo","worktree","add","-q",wt,"HEAD"], capture_output=True)
    row = {}
    try:
        r = subprocess.run(["git","-C",wt,"apply","/verif/seeded/%s/patch.diff" % name], capture_output=True, text=True)
        if r.returncode != 0:
            return name, {"error": r.stderr[-200:]}
        for cid in CHECKS:
            p = subprocess.run(["python3","bin/check",cid], cwd="/verif", env=dict(ENV, VERIF_REPO=wt), capture_output=True, text=True, timeout=3000)
            v = [l for l in p.stdout.splitlines() if l.startswith("VIOLATION")]
            row[cid] = "." if p.returncode == 0 else ("N" if v and "no-failing-input-found" in v[0] else ("V" if v else "E%d" % p.returncode))
    finally:
        subprocess.run(["git","-C","/repo","worktree","remove","--force",wt], capture_output=True)
        tag = "-" + hashlib.sha1(os.path.realpath(wt).encode()).hexdigest()[:8]
        for f in os.listdir("/verif/work"):
            if f.endswith(tag) or tag + "." in f or tag + "_" in f:
                q = os.path.join("/verif/work", f)
                shutil.rmtree(q, ignore_errors=True) if os.path.isdir(q) else os.remove(q)
    return name, row
def main():
    workers = int(sys.argv[1]) if len(sys.argv) > 1 else 4
    names = sorted(d for d in os.listdir("/verif/seeded") if os.path.exists("/verif/seeded/%s/patch.diff" % d))
    only = sys.argv[2:] 
    if only: names = [n for n in names if n in only]
    out = {}
    mp = "/verif/seeded/MATRIX.json"
    if os.path.exists(mp): out = json.load(open(mp))
    with ThreadPoolExecutor(workers) as ex:
        for name, row in ex.map(run_one, names):
            out[name] = row
            json.dump(out, open(mp, "w"), indent=1, sort_keys=True)
            print(name, " ".join("%s=%s" % kv for kv in sorted(row.items())), flush=True)
main()

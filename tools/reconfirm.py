#!/usr/bin/env python3
"""tools/reconfirm.py <seeded name>... — re-confirms seeded changes on /repo's current HEAD from what is stored in
seeded/<name>/ (patch.diff, demo_test.go.txt, meta.json: demo_path): the demo passes on the clean tree, the suite passes
with the patch, the demo fails with the patch; then runs the property's own check against the patched tree and updates
meta.json (confirmed, checks) and replay.*"""
import json, os, re, subprocess, sys, shutil, time
ENV = dict(os.environ, GOFLAGS="-mod=mod", GOPROXY="off", GOSUMDB="off", GOTOOLCHAIN="local")
def sh(cmd, cwd=None, env=None, timeout=3000):
    p = subprocess.run(cmd, cwd=cwd, env=env or ENV, shell=isinstance(cmd, str), stdout=subprocess.PIPE, stderr=subprocess.STDOUT, text=True, timeout=timeout)
    return p.returncode, p.stdout
def suite(wt):
    rc, o = sh("go test -vet=off -count=1 ./...", cwd=wt)
    if rc != 0:
        fails = set(re.findall(r"^--- FAIL: (\S+)", o, flags=re.M))
        if fails <= {"TestHandlerHandleSignedLatency"}:   # wall-clock tolerance test, flaky under load
            return 0, o
        rc, o = sh("go test -vet=off -count=1 ./...", cwd=wt)
    return rc, o
def one(name):
    sd = "/verif/seeded/" + name
    meta = json.load(open(sd + "/meta.json"))
    pid = meta.get("breaks") or meta["property"]
    dest = meta["demo_path"]
    wt = "/tmp/rcwt-" + name
    sh(["git", "-C", "/repo", "worktree", "remove", "--force", wt])
    sh(["git", "-C", "/repo", "worktree", "add", "-q", wt, "HEAD"])
    res = {}
    try:
        pkg = "./" + os.path.dirname(dest) + "/"
        shutil.copy(sd + "/demo_test.go.txt", os.path.join(wt, dest))
        rc0, o0 = sh("go test -vet=off -count=1 -run 'Mutant' %s" % pkg, cwd=wt)
        os.remove(os.path.join(wt, dest))
        rc, o = sh(["git", "-C", wt, "apply", sd + "/patch.diff"])
        if rc != 0:
            print(name, "patch does not apply", o[-300:]); return 1
        rc1, o1 = suite(wt)
        shutil.copy(sd + "/demo_test.go.txt", os.path.join(wt, dest))
        rc2, o2 = sh("go test -vet=off -count=1 -run 'Mutant' %s" % pkg, cwd=wt)
        os.remove(os.path.join(wt, dest))
        meta["confirmed"] = {"suite_with_mutation": "pass" if rc1 == 0 else "FAIL", "demo_with_mutation": "fail" if rc2 != 0 else "PASSES",
                             "demo_without_mutation": "pass" if rc0 == 0 else "FAIL", "repo_head": sh(["git", "-C", "/repo", "rev-parse", "--short", "HEAD"])[1].strip()}
        ok = rc0 == 0 and rc1 == 0 and rc2 != 0
        t0 = time.time()
        rc, out = sh(["python3", "bin/check", pid], cwd="/verif", env=dict(ENV, VERIF_REPO=wt))
        v = [l for l in out.splitlines() if l.startswith("VIOLATION")]
        ck = {"rc": rc, "line": v[0] if v else None, "wall_s": round(time.time() - t0, 1)}
        if v:
            rp = re.search(r"replay=(\S+)", v[0]).group(1)
            if os.path.exists(rp):
                ck["replay_head"] = open(rp).read().splitlines()[:2]
                shutil.copy(rp, os.path.join(sd, "replay" + (os.path.splitext(rp)[1] or ".hist")))
        meta.setdefault("checks", {})[pid] = ck
        json.dump(meta, open(sd + "/meta.json", "w"), indent=1)
        print(name, "confirmed" if ok else "NOT CONFIRMED %s" % meta["confirmed"], "| check:", ck["rc"], ck["line"])
        return 0 if ok and rc == 1 else 1
    finally:
        sh(["git", "-C", "/repo", "worktree", "remove", "--force", wt])
        import hashlib
        tag = "-" + hashlib.sha1(os.path.realpath(wt).encode()).hexdigest()[:8]
        for f in os.listdir("/verif/work"):
            if f.endswith(tag) or tag + "." in f or tag + "_" in f:
                q = os.path.join("/verif/work", f)
                shutil.rmtree(q, ignore_errors=True) if os.path.isdir(q) else os.remove(q)
sys.exit(max([one(n) for n in sys.argv[1:]] or [0]))

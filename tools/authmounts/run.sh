#!/bin/sh
# tools/authmounts/run.sh <repo> <coq dir>: regenerates <coq dir>/GenAuth.v from <repo>/http/*.go and <repo>/cmd/*.go
set -e
here="$(cd "$(dirname "$0")" && pwd)"
repo="${1:-/repo}"
out="${2:-$here/../../coq}"
export GOFLAGS=-mod=mod GOPROXY=off GOSUMDB=off GOTOOLCHAIN=local
mkdir -p "$here/../../work/c15d"
bin="$here/../../work/c15d/authmounts"
if [ ! -x "$bin" ] || [ "$here/main.go" -nt "$bin" ]; then
  (cd "$here" && go build -o "$bin" .)
fi
tmp="$out/GenAuth.v.tmp.$$"
"$bin" "$repo" > "$tmp"
if cmp -s "$tmp" "$out/GenAuth.v"; then rm -f "$tmp"; else mv "$tmp" "$out/GenAuth.v"; fi

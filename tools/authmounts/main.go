// authmounts: regenerates coq/GenAuth.v from the current Go sources.
//
//   - the shape of the two wrappers VerifyAuthToken / VerifyAuthTokenHandler (package <repo>/http),
//     abstracted to the statement language `stmt` of coq/Auth.v; every statement that is not
//     recognised becomes `SOther "<source>"`, on which the Coq interpreter fails (closed);
//   - the routes mounted in <repo>/cmd (calls  <mux>.Handle / <mux>.HandleFunc  with a literal path),
//     with what wraps their handler and whether the handler expression reaches the relay
//     (hagall/websocket.Handle) or the smoke test (hagall/smoketest.HandleSmokeTest).
//
// Only the standard library (go/parser, go/ast, go/printer) is used.
package main

import (
	"bytes"
	"fmt"
	"go/ast"
	"go/parser"
	"go/printer"
	"go/token"
	"os"
	"path/filepath"
	"sort"
	"strconv"
	"strings"
)

const (
	pathHagallHTTP   = "github.com/aukilabs/hagall/http"
	pathHagallWS     = "github.com/aukilabs/hagall/websocket"
	pathHagallSmoke  = "github.com/aukilabs/hagall/smoketest"
	pathCommonHTTP   = "github.com/aukilabs/hagall-common/http"
	pathCommonHDS    = "github.com/aukilabs/hagall-common/hdsclient"
	pathLogs         = "github.com/aukilabs/go-tooling/pkg/logs"
	pathNetHTTP      = "net/http"
	pathXNetWS       = "golang.org/x/net/websocket"
	fnHandshake      = "VerifyAuthToken"
	fnMiddleware     = "VerifyAuthTokenHandler"
	fnGetToken       = "GetUserTokenFromHTTPRequest"
	fnVerifyUserAuth = "VerifyUserAuth"
)

var fset = token.NewFileSet()

type file struct {
	ast     *ast.File
	imports map[string]string // local name -> import path
}

func parseDir(dir string) []*file {
	ents, err := os.ReadDir(dir)
	if err != nil {
		return nil
	}
	var out []*file
	names := []string{}
	for _, e := range ents {
		n := e.Name()
		if e.IsDir() || !strings.HasSuffix(n, ".go") || strings.HasSuffix(n, "_test.go") || strings.HasPrefix(n, "zz_verif_") {
			continue
		}
		names = append(names, n)
	}
	sort.Strings(names)
	for _, n := range names {
		f, err := parser.ParseFile(fset, filepath.Join(dir, n), nil, parser.SkipObjectResolution)
		if err != nil {
			continue // a file that does not parse contributes nothing (fail closed: facts will be missing)
		}
		if hasBuildIgnore(f) {
			continue
		}
		fi := &file{ast: f, imports: map[string]string{}}
		for _, im := range f.Imports {
			p, _ := strconv.Unquote(im.Path.Value)
			name := filepath.Base(p)
			if im.Name != nil {
				name = im.Name.Name
			}
			fi.imports[name] = p
		}
		out = append(out, fi)
	}
	return out
}

func hasBuildIgnore(f *ast.File) bool {
	for _, cg := range f.Comments {
		if cg.Pos() > f.Package {
			break
		}
		for _, c := range cg.List {
			if strings.HasPrefix(c.Text, "//go:build ignore") {
				return true
			}
		}
	}
	return false
}

func src(n ast.Node) string {
	var b bytes.Buffer
	printer.Fprint(&b, fset, n)
	s := strings.Join(strings.Fields(b.String()), " ")
	if len(s) > 120 {
		s = s[:120] + "..."
	}
	return s
}

func coqString(s string) string {
	var b strings.Builder
	b.WriteByte('"')
	for _, r := range s {
		switch {
		case r == '"':
			b.WriteString(`""`)
		case r >= 32 && r < 127:
			b.WriteRune(r)
		default:
			b.WriteByte('?')
		}
	}
	b.WriteByte('"')
	return b.String()
}

// pkgSel: is e the selector  <pkg alias of importPath>.<name> ?
func (f *file) pkgSel(e ast.Expr, importPath, name string) bool {
	s, ok := e.(*ast.SelectorExpr)
	if !ok || s.Sel.Name != name {
		return false
	}
	id, ok := s.X.(*ast.Ident)
	return ok && f.imports[id.Name] == importPath
}

func (f *file) pkgSelAny(e ast.Expr, importPath string) (string, bool) {
	s, ok := e.(*ast.SelectorExpr)
	if !ok {
		return "", false
	}
	id, ok := s.X.(*ast.Ident)
	if ok && f.imports[id.Name] == importPath {
		return s.Sel.Name, true
	}
	return "", false
}

func isIdent(e ast.Expr, name string) bool {
	id, ok := e.(*ast.Ident)
	return ok && name != "" && id.Name == name
}

// ---------------------------------------------------------------- wrappers

type wrapperCtx struct {
	f        *file
	all      []*file // the files of the package (helpers are looked up there)
	client   string // parameter of type *hds.Client
	next     string // parameter of type http.HandlerFunc / http.Handler (middleware)
	req      string // *http.Request parameter of the returned closure
	w        string // http.ResponseWriter parameter of the returned closure
	tokenVar string
	errVar   string
}

func (c *wrapperCtx) paramOfType(fl *ast.FieldList, pred func(ast.Expr) bool) string {
	if fl == nil {
		return ""
	}
	for _, fld := range fl.List {
		if pred(fld.Type) && len(fld.Names) == 1 {
			return fld.Names[0].Name
		}
	}
	return ""
}

func (c *wrapperCtx) isStarSel(importPath, name string) func(ast.Expr) bool {
	return func(e ast.Expr) bool {
		st, ok := e.(*ast.StarExpr)
		return ok && c.f.pkgSel(st.X, importPath, name)
	}
}

var httpStatus = map[string]int{
	"StatusOK": 200, "StatusUnauthorized": 401, "StatusForbidden": 403, "StatusBadRequest": 400,
	"StatusInternalServerError": 500, "StatusNotFound": 404, "StatusNoContent": 204, "StatusAccepted": 202,
	"StatusCreated": 201, "StatusMethodNotAllowed": 405, "StatusTooManyRequests": 429, "StatusServiceUnavailable": 503,
	"StatusPaymentRequired": 402, "StatusSwitchingProtocols": 101,
}

// rootIdent of a chain a.b(c).d(e)…
func rootIdent(e ast.Expr) *ast.Ident {
	for {
		switch x := e.(type) {
		case *ast.Ident:
			return x
		case *ast.SelectorExpr:
			e = x.X
		case *ast.CallExpr:
			e = x.Fun
		case *ast.ParenExpr:
			e = x.X
		default:
			return nil
		}
	}
}

// mentions: does the subtree mention identifier name?
func mentions(n ast.Node, name string) bool {
	if name == "" {
		return false
	}
	found := false
	ast.Inspect(n, func(m ast.Node) bool {
		if id, ok := m.(*ast.Ident); ok && id.Name == name {
			found = true
		}
		return !found
	})
	return found
}

func (c *wrapperCtx) isPureRequestRead(e ast.Expr) bool {
	// r.Header.Get(<expr without calls>)
	call, ok := e.(*ast.CallExpr)
	if !ok || len(call.Args) != 1 {
		return false
	}
	sel, ok := call.Fun.(*ast.SelectorExpr)
	if !ok || sel.Sel.Name != "Get" {
		return false
	}
	hs, ok := sel.X.(*ast.SelectorExpr)
	if !ok || hs.Sel.Name != "Header" || !isIdent(hs.X, c.req) {
		return false
	}
	switch a := call.Args[0].(type) {
	case *ast.BasicLit:
		return true
	case *ast.SelectorExpr:
		_, isPkg := a.X.(*ast.Ident)
		return isPkg
	case *ast.Ident:
		return true
	}
	return false
}

// ---- verification helpers
// A package-level function H(client *hds.Client, r *http.Request) error (parameters in any order) that does nothing but
// read the token from the request, verify it with the client, optionally log the error, and return it:
//    token := GetUserTokenFromHTTPRequest(r)
//    (A) if err := client.VerifyUserAuth(token); err != nil { log…; return err }; return nil
//    (B) err := client.VerifyUserAuth(token); [if err != nil { log… }]; return err
//    (C) return client.VerifyUserAuth(token)
// A wrapper that calls it is translated as if the helper were written out in place. Anything else is not a helper
// (the call site becomes SOther: fail closed).
type verifyHelper struct {
	clientIdx, reqIdx int
	logs              bool
}

func (f *file) verifyHelperOf(files []*file, name string) *verifyHelper {
	for _, g := range files {
		for _, d := range g.ast.Decls {
			fd, ok := d.(*ast.FuncDecl)
			if !ok || fd.Recv != nil || fd.Name.Name != name || fd.Body == nil || fd.Type.Params == nil {
				continue
			}
			if fd.Type.Results == nil || len(fd.Type.Results.List) != 1 || !isIdent(fd.Type.Results.List[0].Type, "error") {
				return nil
			}
			c := &wrapperCtx{f: g}
			h := &verifyHelper{clientIdx: -1, reqIdx: -1}
			idx := 0
			for _, fld := range fd.Type.Params.List {
				for _, nm := range fld.Names {
					if c.isStarSel(pathCommonHDS, "Client")(fld.Type) {
						c.client, h.clientIdx = nm.Name, idx
					} else if c.isStarSel(pathNetHTTP, "Request")(fld.Type) {
						c.req, h.reqIdx = nm.Name, idx
					} else {
						return nil
					}
					idx++
				}
			}
			if idx != 2 || h.clientIdx < 0 || h.reqIdx < 0 {
				return nil
			}
			b := fd.Body.List
			if len(b) < 2 || c.stmt(b[0], 0) != "SAssignToken" {
				return nil
			}
			isVerify := func(e ast.Expr) bool {
				call, ok := e.(*ast.CallExpr)
				if !ok || len(call.Args) != 1 || !isIdent(call.Args[0], c.tokenVar) {
					return false
				}
				sel, ok := call.Fun.(*ast.SelectorExpr)
				return ok && sel.Sel.Name == fnVerifyUserAuth && isIdent(sel.X, c.client)
			}
			onlyLogs := func(list []ast.Stmt) bool {
				for _, st := range list {
					if t := c.stmt(st, 1); t != "SLog" && t != "SPure" {
						return false
					}
				}
				return true
			}
			rest := b[1:]
			// (C)
			if len(rest) == 1 {
				if r, ok := rest[0].(*ast.ReturnStmt); ok && len(r.Results) == 1 && isVerify(r.Results[0]) {
					return h
				}
			}
			// (A)
			if len(rest) == 2 && c.stmt(rest[1], 0) == "SReturnNil" {
				t := c.stmt(rest[0], 0)
				if strings.HasPrefix(t, "SIfVerifyErr [") && strings.HasSuffix(t, "SReturnErr]") {
					inner := strings.TrimSuffix(strings.TrimPrefix(t, "SIfVerifyErr ["), "SReturnErr]")
					inner = strings.TrimSuffix(strings.TrimSpace(inner), ";")
					ok := true
					for _, x := range strings.Split(inner, ";") {
						if x = strings.TrimSpace(x); x != "" && x != "SLog" {
							ok = false
						}
					}
					if ok {
						h.logs = strings.Contains(inner, "SLog")
						return h
					}
				}
				return nil
			}
			// (B)
			as, ok := rest[0].(*ast.AssignStmt)
			if !ok || as.Tok != token.DEFINE || len(as.Lhs) != 1 || len(as.Rhs) != 1 || !isVerify(as.Rhs[0]) {
				return nil
			}
			ev, ok := as.Lhs[0].(*ast.Ident)
			if !ok {
				return nil
			}
			rest = rest[1:]
			if len(rest) == 2 {
				is, ok := rest[0].(*ast.IfStmt)
				if !ok || is.Init != nil || is.Else != nil {
					return nil
				}
				cond, ok := is.Cond.(*ast.BinaryExpr)
				if !ok || cond.Op != token.NEQ || !isIdent(cond.X, ev.Name) || !isIdent(cond.Y, "nil") || !onlyLogs(is.Body.List) {
					return nil
				}
				h.logs = false
				for _, st := range is.Body.List {
					if c.stmt(st, 1) == "SLog" {
						h.logs = true
					}
				}
				rest = rest[1:]
			}
			if len(rest) == 1 {
				if r, ok := rest[0].(*ast.ReturnStmt); ok && len(r.Results) == 1 && isIdent(r.Results[0], ev.Name) {
					return h
				}
			}
			return nil
		}
	}
	return nil
}

// helperCall: is e a call H(client, r) of a verification helper with this wrapper's own client and request?
func (c *wrapperCtx) helperCall(e ast.Expr) *verifyHelper {
	call, ok := e.(*ast.CallExpr)
	if !ok || len(call.Args) != 2 || c.tokenVar != "" {
		return nil
	}
	id, ok := call.Fun.(*ast.Ident)
	if !ok {
		return nil
	}
	h := c.f.verifyHelperOf(c.all, id.Name)
	if h == nil || !isIdent(call.Args[h.clientIdx], c.client) || !isIdent(call.Args[h.reqIdx], c.req) {
		return nil
	}
	return h
}

func (c *wrapperCtx) stmts(list []ast.Stmt, depth int) []string {
	var out []string
	for i, s := range list {
		// `if err := V; err == nil { A…; return }; B…`  is  `if err := V; err != nil { B…; return }; A…` (the success branch
		// written first): translated in the second form, which is the one the statement language has
		if is, ok := s.(*ast.IfStmt); ok && depth == 0 && is.Else == nil && is.Init != nil && len(is.Body.List) > 0 {
			if cond, ok := is.Cond.(*ast.BinaryExpr); ok && cond.Op == token.EQL && isIdent(cond.Y, "nil") {
				if last, ok := is.Body.List[len(is.Body.List)-1].(*ast.ReturnStmt); ok && len(last.Results) == 0 {
					flipped := &ast.IfStmt{Init: is.Init, Cond: &ast.BinaryExpr{X: cond.X, Op: token.NEQ, Y: cond.Y},
						Body: &ast.BlockStmt{List: append(append([]ast.Stmt{}, list[i+1:]...), &ast.ReturnStmt{})}}
					t := c.stmt(flipped, depth)
					if !strings.HasPrefix(t, "SOther") {
						out = append(out, t)
						out = append(out, c.stmts(is.Body.List[:len(is.Body.List)-1], depth)...)
						return out
					}
				}
			}
		}
		out = append(out, c.stmt(s, depth))
	}
	return out
}

func (c *wrapperCtx) stmt(s ast.Stmt, depth int) string {
	other := func() string { return "SOther " + coqString(src(s)) }
	switch x := s.(type) {
	case *ast.AssignStmt:
		if len(x.Lhs) == 1 && len(x.Rhs) == 1 && x.Tok == token.DEFINE {
			lhs, ok := x.Lhs[0].(*ast.Ident)
			if !ok {
				return other()
			}
			if call, ok := x.Rhs[0].(*ast.CallExpr); ok && c.f.pkgSel(call.Fun, pathCommonHTTP, fnGetToken) &&
				len(call.Args) == 1 && isIdent(call.Args[0], c.req) && c.tokenVar == "" && depth == 0 {
				c.tokenVar = lhs.Name
				return "SAssignToken"
			}
			if c.isPureRequestRead(x.Rhs[0]) && lhs.Name != c.tokenVar && lhs.Name != c.req && lhs.Name != c.w &&
				lhs.Name != c.client && lhs.Name != c.next {
				return "SPure"
			}
		}
		return other()
	case *ast.IfStmt:
		if x.Else != nil || x.Init == nil || depth != 0 {
			return other()
		}
		as, ok := x.Init.(*ast.AssignStmt)
		if !ok || as.Tok != token.DEFINE || len(as.Lhs) != 1 || len(as.Rhs) != 1 {
			return other()
		}
		ev, ok := as.Lhs[0].(*ast.Ident)
		if !ok {
			return other()
		}
		if h := c.helperCall(as.Rhs[0]); h != nil {
			// if err := H(client, r); err != nil { … }  ==  token := …; if err := client.Verify(token); err != nil { [log;] … }
			cond, ok := x.Cond.(*ast.BinaryExpr)
			if !ok || cond.Op != token.NEQ || !isIdent(cond.X, ev.Name) || !isIdent(cond.Y, "nil") {
				return other()
			}
			c.tokenVar = "<helper>"
			c.errVar = ev.Name
			body := c.stmts(x.Body.List, depth+1)
			c.errVar = ""
			if h.logs {
				body = append([]string{"SLog"}, body...)
			}
			return "SAssignToken; SIfVerifyErr [" + strings.Join(body, "; ") + "]"
		}
		call, ok := as.Rhs[0].(*ast.CallExpr)
		if !ok || len(call.Args) != 1 || !isIdent(call.Args[0], c.tokenVar) {
			return other()
		}
		sel, ok := call.Fun.(*ast.SelectorExpr)
		if !ok || sel.Sel.Name != fnVerifyUserAuth || !isIdent(sel.X, c.client) {
			return other()
		}
		cond, ok := x.Cond.(*ast.BinaryExpr)
		if !ok || cond.Op != token.NEQ || !isIdent(cond.X, ev.Name) || !isIdent(cond.Y, "nil") {
			return other()
		}
		c.errVar = ev.Name
		body := c.stmts(x.Body.List, depth+1)
		c.errVar = ""
		return "SIfVerifyErr [" + strings.Join(body, "; ") + "]"
	case *ast.ExprStmt:
		call, ok := x.X.(*ast.CallExpr)
		if !ok {
			return other()
		}
		// next.ServeHTTP(w, r) / next(w, r)
		if c.next != "" {
			if sel, ok := call.Fun.(*ast.SelectorExpr); ok && sel.Sel.Name == "ServeHTTP" && isIdent(sel.X, c.next) &&
				len(call.Args) == 2 && isIdent(call.Args[0], c.w) && isIdent(call.Args[1], c.req) {
				return "SCallNext"
			}
			if isIdent(call.Fun, c.next) && len(call.Args) == 2 && isIdent(call.Args[0], c.w) && isIdent(call.Args[1], c.req) {
				return "SCallNext"
			}
		}
		// w.WriteHeader(code)
		if sel, ok := call.Fun.(*ast.SelectorExpr); ok && sel.Sel.Name == "WriteHeader" && isIdent(sel.X, c.w) && len(call.Args) == 1 {
			if name, ok := c.f.pkgSelAny(call.Args[0], pathNetHTTP); ok {
				if code, ok := httpStatus[name]; ok {
					return fmt.Sprintf("SWriteHeader %d", code)
				}
			}
			if lit, ok := call.Args[0].(*ast.BasicLit); ok && lit.Kind == token.INT {
				if code, err := strconv.Atoi(lit.Value); err == nil && code >= 100 && code < 1000 {
					return fmt.Sprintf("SWriteHeader %d", code)
				}
			}
			return other()
		}
		// logs.….X(…): a chain rooted at the logs package that neither calls next nor touches w
		if root := rootIdent(call); root != nil && c.f.imports[root.Name] == pathLogs &&
			!mentions(call, c.next) && !mentions(call, c.w) {
			return "SLog"
		}
		return other()
	case *ast.ReturnStmt:
		switch len(x.Results) {
		case 0:
			return "SReturn"
		case 1:
			if depth == 0 {
				if h := c.helperCall(x.Results[0]); h != nil {
					// return H(client, r)  ==  token := …; if err := client.Verify(token); err != nil { [log;] return err }; return nil
					c.tokenVar = "<helper>"
					if h.logs {
						return "SAssignToken; SIfVerifyErr [SLog; SReturnErr]; SReturnNil"
					}
					return "SAssignToken; SIfVerifyErr [SReturnErr]; SReturnNil"
				}
			}
			if c.errVar != "" && isIdent(x.Results[0], c.errVar) {
				return "SReturnErr"
			}
			if isIdent(x.Results[0], "nil") {
				return "SReturnNil"
			}
		}
		return other()
	}
	return other()
}

// wrapperBody: the body of the closure returned by the named function of package <repo>/http
func wrapperBody(files []*file, name string, middleware bool) string {
	for _, f := range files {
		for _, d := range f.ast.Decls {
			fd, ok := d.(*ast.FuncDecl)
			if !ok || fd.Recv != nil || fd.Name.Name != name || fd.Body == nil {
				continue
			}
			c := &wrapperCtx{f: f, all: files}
			c.client = c.paramOfType(fd.Type.Params, c.isStarSel(pathCommonHDS, "Client"))
			if middleware {
				c.next = c.paramOfType(fd.Type.Params, func(e ast.Expr) bool {
					return f.pkgSel(e, pathNetHTTP, "HandlerFunc") || f.pkgSel(e, pathNetHTTP, "Handler")
				})
			}
			if len(fd.Body.List) != 1 {
				return "[SOther " + coqString("outer function is not a single return of a closure") + "]"
			}
			ret, ok := fd.Body.List[0].(*ast.ReturnStmt)
			if !ok || len(ret.Results) != 1 {
				return "[SOther " + coqString("outer function is not a single return of a closure") + "]"
			}
			var lit *ast.FuncLit
			switch r := ret.Results[0].(type) {
			case *ast.FuncLit:
				lit = r
			case *ast.CallExpr: // http.HandlerFunc(func…)
				if len(r.Args) == 1 && f.pkgSel(r.Fun, pathNetHTTP, "HandlerFunc") {
					lit, _ = r.Args[0].(*ast.FuncLit)
				}
			}
			if lit == nil {
				return "[SOther " + coqString("outer function does not return a closure") + "]"
			}
			c.req = c.paramOfType(lit.Type.Params, c.isStarSel(pathNetHTTP, "Request"))
			c.w = c.paramOfType(lit.Type.Params, func(e ast.Expr) bool { return f.pkgSel(e, pathNetHTTP, "ResponseWriter") })
			if c.client == "" || c.req == "" || (middleware && (c.next == "" || c.w == "")) {
				return "[SOther " + coqString("parameters not recognised") + "]"
			}
			return "[" + strings.Join(c.stmts(lit.Body.List, 0), "; ") + "]"
		}
	}
	return "[SOther " + coqString("function "+name+" not found") + "]"
}

// ---------------------------------------------------------------- mounts

type mount struct {
	mux, path, kind, client string
	cors, relay, smoke      bool
	pos                     token.Pos
}

func identName(e ast.Expr) string {
	if id, ok := e.(*ast.Ident); ok {
		return id.Name
	}
	if u, ok := e.(*ast.UnaryExpr); ok && u.Op == token.AND {
		return identName(u.X)
	}
	return ""
}

func collectMounts(files []*file) (ms []mount, regClient string) {
	for _, f := range files {
		f := f
		ast.Inspect(f.ast, func(n ast.Node) bool {
			call, ok := n.(*ast.CallExpr)
			if !ok || len(call.Args) != 2 {
				return true
			}
			sel, ok := call.Fun.(*ast.SelectorExpr)
			if !ok || (sel.Sel.Name != "Handle" && sel.Sel.Name != "HandleFunc") {
				return true
			}
			muxID, ok := sel.X.(*ast.Ident) // (http.Handle("/x", …) on the default mux is recorded under mux "http")
			if !ok {
				return true
			}
			lit, ok := call.Args[0].(*ast.BasicLit)
			if !ok || lit.Kind != token.STRING {
				return true
			}
			p, err := strconv.Unquote(lit.Value)
			if err != nil {
				return true
			}
			m := mount{mux: muxID.Name, path: p, kind: "MountPlain", pos: call.Pos()}
			h := call.Args[1]
			ast.Inspect(h, func(k ast.Node) bool {
				if e, ok := k.(ast.Expr); ok {
					if f.pkgSel(e, pathHagallWS, "Handle") {
						m.relay = true
					}
					if f.pkgSel(e, pathHagallSmoke, "HandleSmokeTest") {
						m.smoke = true
					}
				}
				return true
			})
			// peel CORS and http.HandlerFunc conversions
			for {
				c, ok := h.(*ast.CallExpr)
				if !ok || len(c.Args) != 1 {
					break
				}
				if f.pkgSel(c.Fun, pathHagallHTTP, "HandleWithCORS") {
					m.cors = true
					h = c.Args[0]
					continue
				}
				if f.pkgSel(c.Fun, pathNetHTTP, "HandlerFunc") {
					h = c.Args[0]
					continue
				}
				break
			}
			switch x := h.(type) {
			case *ast.CallExpr:
				if f.pkgSel(x.Fun, pathHagallHTTP, fnMiddleware) && len(x.Args) == 2 {
					m.kind = "MountMwAuth"
					m.client = identName(x.Args[0])
				}
			case *ast.CompositeLit:
				if f.pkgSel(x.Type, pathXNetWS, "Server") {
					m.kind = "MountWsOpen"
					for _, el := range x.Elts {
						kv, ok := el.(*ast.KeyValueExpr)
						if !ok || !isIdent(kv.Key, "Handshake") {
							continue
						}
						if c, ok := kv.Value.(*ast.CallExpr); ok && f.pkgSel(c.Fun, pathHagallHTTP, fnHandshake) && len(c.Args) == 2 {
							m.kind = "MountWsAuth"
							m.client = identName(c.Args[1])
						}
					}
				}
			case *ast.SelectorExpr:
				if x.Sel.Name == "HandleServerRegistration" {
					if id, ok := x.X.(*ast.Ident); ok && regClient == "" {
						regClient = id.Name
					}
				}
			}
			ms = append(ms, m)
			return true
		})
	}
	return ms, regClient
}

func b(v bool) string {
	if v {
		return "true"
	}
	return "false"
}

func main() {
	repo := "/repo"
	if len(os.Args) > 1 {
		repo = os.Args[1]
	}
	httpFiles := parseDir(filepath.Join(repo, "http"))
	cmdFiles := parseDir(filepath.Join(repo, "cmd"))
	ms, reg := collectMounts(cmdFiles)

	var o strings.Builder
	o.WriteString("(* GenAuth.v — generated by tools/authmounts from http/*.go and cmd/*.go of the repository; do not edit *)\n")
	o.WriteString("From Coq Require Import String List NArith.\nImport ListNotations.\nOpen Scope string_scope.\nOpen Scope N_scope.\n")
	o.WriteString("From hagall Require Import Auth.\n\n")
	fmt.Fprintf(&o, "Definition handshake_body : list stmt :=\n  %s.\n\n", wrapperBody(httpFiles, fnHandshake, false))
	fmt.Fprintf(&o, "Definition middleware_body : list stmt :=\n  %s.\n\n", wrapperBody(httpFiles, fnMiddleware, true))
	fmt.Fprintf(&o, "Definition registration_client : string := %s.\n\n", coqString(reg))
	o.WriteString("Definition mounts : list mount :=\n  [")
	for i, m := range ms {
		if i > 0 {
			o.WriteString(";\n   ")
		}
		fmt.Fprintf(&o, "mkMount %s %s %s %s %s %s %s", coqString(m.mux), coqString(m.path), m.kind, b(m.cors), coqString(m.client), b(m.relay), b(m.smoke))
	}
	o.WriteString("].\n")
	fmt.Print(o.String())
}

module authmounts

go 1.23

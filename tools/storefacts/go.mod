module storefacts

go 1.21

// storefacts: the shape of the critical sections of models.EntityComponentStore that the concurrent clauses of C10
// (type ids under concurrent additions) and C13 (no update notification after the unsubscribe response) rest on,
// regenerated from the Go sources on every check run and written as coq/GenStore.v.  The theorems of
// coq/Properties/ConcStore.v hold for programs made of the ATOMIC instructions of coq/ConcStore.v; the facts below say
// that the code's critical sections are those instructions.  Fails closed: a shape that is not recognised is emitted as
// false, so the Coq obligation over it fails (and the check then searches the real code for a failing schedule).
//
//	addtype_atomic              AddType holds EntityComponentStore.mutex exclusively from its first statement to its
//	                            return (Lock + deferred Unlock, no other (un)lock of it, not inside a goroutine) and both
//	                            the lookup in idIndex and the allocation ids.New() are in that one region
//	notify_relays_under_lock    Notify holds subscriptionMutex (RLock or Lock + deferred unlock from its first statement)
//	                            and calls its handler in that region, synchronously
//	unsubscribe_exclusive       Unsubscribe and UnsubscribeByParticipant hold subscriptionMutex.Lock from their first
//	                            statement to their return
//	subscribe_exclusive         Subscribe likewise
//	notify_callers_relay_inside every call of Notify in package websocket passes a function literal that relays
//	                            (Broadcast / BroadcastTo / Send) itself and starts no goroutine
//	leave_cleanup_unconditional leaveSession removes the leaver's entities in a loop over participant.EntityIDs() that is a
//	                            top-level statement of the function (not guarded by anything but "not joined"), precedes
//	                            RemoveParticipant, skips an entity only when it is missing or persistent, and calls
//	                            RemoveEntity for every other one (coq/ConcLeave.v: the full departure)
//	broadcast_serves_under_lock, broadcast_to_serves_under_lock
//	                            Session.Broadcast / BroadcastTo take the participant lock (after statements that do not touch
//	                            the session) and hold it to every exit, and call Responder.SendMsg inside that region,
//	                            synchronously
//	unsub_response_after_unsub  HandleEntityComponentUnsubscribe sends the unsubscribe response in a top-level statement
//	                            that follows the top-level statement calling Unsubscribe
package main

import (
	"fmt"
	"go/ast"
	"go/parser"
	"go/token"
	"os"
	"path/filepath"
	"strings"
)

func parseDir(dir string) ([]*ast.File, error) {
	fset := token.NewFileSet()
	ents, err := os.ReadDir(dir)
	if err != nil {
		return nil, err
	}
	var files []*ast.File
	for _, e := range ents {
		n := e.Name()
		if e.IsDir() || !strings.HasSuffix(n, ".go") || strings.HasSuffix(n, "_test.go") || strings.HasPrefix(n, "zz_verif_") {
			continue
		}
		f, err := parser.ParseFile(fset, filepath.Join(dir, n), nil, 0)
		if err != nil {
			return nil, err
		}
		files = append(files, f)
	}
	return files, nil
}

func method(files []*ast.File, recv, name string) *ast.FuncDecl {
	for _, f := range files {
		for _, d := range f.Decls {
			fd, ok := d.(*ast.FuncDecl)
			if !ok || fd.Recv == nil || fd.Body == nil || fd.Name.Name != name || len(fd.Recv.List) != 1 {
				continue
			}
			t := fd.Recv.List[0].Type
			if st, ok := t.(*ast.StarExpr); ok {
				t = st.X
			}
			if id, ok := t.(*ast.Ident); ok && id.Name == recv {
				return fd
			}
		}
	}
	return nil
}

// x.<field>.<op>() on the receiver: returns op when the call is <recv>.<field>.<op>() (field "" : any field, returned too)
func lockCallF(e ast.Expr, recv, field string) (string, string) {
	ce, ok := e.(*ast.CallExpr)
	if !ok || len(ce.Args) != 0 {
		return "", ""
	}
	se, ok := ce.Fun.(*ast.SelectorExpr)
	if !ok {
		return "", ""
	}
	switch se.Sel.Name {
	case "Lock", "RLock", "Unlock", "RUnlock":
	default:
		return "", ""
	}
	fe, ok := se.X.(*ast.SelectorExpr)
	if !ok || (field != "" && fe.Sel.Name != field) {
		return "", ""
	}
	if id, ok := fe.X.(*ast.Ident); !ok || id.Name != recv {
		return "", ""
	}
	return se.Sel.Name, fe.Sel.Name
}

func lockCall(e ast.Expr, recv, field string) string {
	op, _ := lockCallF(e, recv, field)
	return op
}

// uniqueFuncBody: the body of the only function or method of these files called name (nil when none or several)
func uniqueFuncBody(files []*ast.File, name string) *ast.BlockStmt {
	var found *ast.BlockStmt
	n := 0
	for _, f := range files {
		for _, d := range f.Decls {
			if fd, ok := d.(*ast.FuncDecl); ok && fd.Body != nil && fd.Name.Name == name {
				found = fd.Body
				n++
			}
		}
	}
	if n != 1 {
		return nil
	}
	return found
}

func recvName(fd *ast.FuncDecl) string {
	if len(fd.Recv.List[0].Names) == 1 {
		return fd.Recv.List[0].Names[0].Name
	}
	return ""
}

// isUnlockStmt: st is the statement <recv>.<field>.<unlock>()
func isUnlockStmt(st ast.Stmt, recv, field, unlock string) bool {
	es, ok := st.(*ast.ExprStmt)
	if !ok {
		return false
	}
	op, f := lockCallF(es.X, recv, field)
	return op == unlock && f == field
}

// isAnyUnlockStmt: st releases some mutex field of the receiver
func isAnyUnlockStmt(st ast.Stmt, recv string) bool {
	es, ok := st.(*ast.ExprStmt)
	if !ok {
		return false
	}
	op, _ := lockCallF(es.X, recv, "")
	return op == "Unlock" || op == "RUnlock"
}

// exitsUnlocked: in the statement list l (and, recursively, in the blocks nested in it) every return statement is
// directly preceded by the unlock of the region's mutex (other unlocks may stand in between), and the unlock occurs
// nowhere else; n counts the unlocks seen.  top: l is the function body itself, whose end is an exit too.
func exitsUnlocked(l []ast.Stmt, recv, field, unlock string, top bool, n *int) bool {
	okAll := true
	precededByUnlock := func(i int) bool {
		for j := i - 1; j >= 0; j-- {
			if isUnlockStmt(l[j], recv, field, unlock) {
				return true
			}
			if !isAnyUnlockStmt(l[j], recv) {
				return false
			}
		}
		return false
	}
	followedByExit := func(i int) bool {
		for j := i + 1; j < len(l); j++ {
			if _, ok := l[j].(*ast.ReturnStmt); ok {
				return true
			}
			if !isAnyUnlockStmt(l[j], recv) {
				return false
			}
		}
		return top // the end of the function body
	}
	for i, st := range l {
		switch v := st.(type) {
		case *ast.ReturnStmt:
			if !precededByUnlock(i) {
				okAll = false
			}
			// the returned expressions must not be computed after the unlock from shared state: they are evaluated after
			// the unlock statement; only plain identifiers / literals / nil are accepted
			for _, r := range v.Results {
				switch r.(type) {
				case *ast.Ident, *ast.BasicLit:
				default:
					okAll = false
				}
			}
		case *ast.ExprStmt:
			if isUnlockStmt(st, recv, field, unlock) {
				*n++
				if !followedByExit(i) {
					okAll = false
				}
			}
		case *ast.IfStmt:
			if !exitsUnlocked(v.Body.List, recv, field, unlock, false, n) {
				okAll = false
			}
			if v.Else != nil {
				if eb, ok := v.Else.(*ast.BlockStmt); ok {
					if !exitsUnlocked(eb.List, recv, field, unlock, false, n) {
						okAll = false
					}
				} else {
					okAll = false
				}
			}
		case *ast.ForStmt:
			if !exitsUnlocked(v.Body.List, recv, field, unlock, false, n) {
				okAll = false
			}
		case *ast.RangeStmt:
			if !exitsUnlocked(v.Body.List, recv, field, unlock, false, n) {
				okAll = false
			}
		case *ast.BlockStmt:
			if !exitsUnlocked(v.List, recv, field, unlock, false, n) {
				okAll = false
			}
		case *ast.SwitchStmt, *ast.TypeSwitchStmt, *ast.SelectStmt:
			okAll = false // not needed so far: fail closed
		}
	}
	if top {
		// falling off the end of the body is an exit: the last statements must contain the unlock
		if len(l) == 0 {
			return false
		}
		if _, isRet := l[len(l)-1].(*ast.ReturnStmt); !isRet {
			if !precededByUnlock(len(l)) {
				okAll = false
			}
		}
	}
	return okAll
}

// the function holds <recv>.<field> from its first statement to every exit: its first statement is the lock, and either
// the next one is the deferred unlock and no other call on that mutex occurs, or every return (and the end of the body) is
// directly preceded by the unlock and the unlock occurs nowhere else.  field "" : whatever mutex the first statement locks.
// Returns the lock operation ("Lock" / "RLock") and the field, or "".
func wholeBodyRegionF(fd *ast.FuncDecl, field string) (string, string) {
	if fd == nil || len(fd.Body.List) < 2 {
		return "", ""
	}
	r := recvName(fd)
	es, ok := fd.Body.List[0].(*ast.ExprStmt)
	if !ok {
		return "", ""
	}
	op, f := lockCallF(es.X, r, field)
	if op != "Lock" && op != "RLock" {
		return "", ""
	}
	unlock := "Unlock"
	if op == "RLock" {
		unlock = "RUnlock"
	}
	calls := 0
	ast.Inspect(fd.Body, func(x ast.Node) bool {
		if ce, ok := x.(*ast.CallExpr); ok {
			if o, _ := lockCallF(ce, r, f); o != "" {
				calls++
			}
		}
		return true
	})
	if ds, ok := fd.Body.List[1].(*ast.DeferStmt); ok {
		if un, uf := lockCallF(ds.Call, r, f); un == unlock && uf == f && calls == 2 {
			return op, f
		}
		return "", ""
	}
	n := 0
	if exitsUnlocked(fd.Body.List[1:], r, f, unlock, true, &n) && n >= 1 && calls == n+1 {
		return op, f
	}
	return "", ""
}

func wholeBodyRegion(fd *ast.FuncDecl, field string) string {
	op, _ := wholeBodyRegionF(fd, field)
	return op
}

// does the body (outside go statements and function literals) contain a node satisfying p?
func syncContains(body ast.Node, p func(ast.Node) bool) bool {
	found := false
	ast.Inspect(body, func(x ast.Node) bool {
		switch x.(type) {
		case *ast.GoStmt, *ast.FuncLit:
			return false
		}
		if x != nil && p(x) {
			found = true
		}
		return !found
	})
	return found
}

func hasGo(body ast.Node) bool {
	found := false
	ast.Inspect(body, func(x ast.Node) bool {
		if _, ok := x.(*ast.GoStmt); ok {
			found = true
		}
		return !found
	})
	return found
}

func rangesOverEntityIDs(rs *ast.RangeStmt) bool {
	ce, ok := rs.X.(*ast.CallExpr)
	if !ok {
		return false
	}
	se, ok := ce.Fun.(*ast.SelectorExpr)
	return ok && se.Sel.Name == "EntityIDs"
}

// cleanupLoopOK: the only way the loop skips an entity is the guard `!ok || entity.Persist` (or the same two tests as two
// guards), and RemoveEntity is called at the top level of the loop body
func cleanupLoopOK(rs *ast.RangeStmt) bool {
	isNotOK := func(e ast.Expr) bool { ue, ok := e.(*ast.UnaryExpr); return ok && ue.Op == token.NOT }
	isPersist := func(e ast.Expr) bool { se, ok := e.(*ast.SelectorExpr); return ok && se.Sel.Name == "Persist" }
	skipsMissing, skipsPersistent, removes, other := false, false, false, false
	for _, bs := range rs.Body.List {
		switch v := bs.(type) {
		case *ast.IfStmt:
			isSkip := len(v.Body.List) == 1 && v.Else == nil
			if isSkip {
				if br, ok := v.Body.List[0].(*ast.BranchStmt); !ok || br.Tok != token.CONTINUE {
					isSkip = false
				}
			}
			if isSkip {
				if be, ok := v.Cond.(*ast.BinaryExpr); ok && be.Op == token.LOR && isNotOK(be.X) && isPersist(be.Y) {
					skipsMissing, skipsPersistent = true, true
				} else if isNotOK(v.Cond) {
					skipsMissing = true
				} else if isPersist(v.Cond) {
					skipsPersistent = true
				} else {
					other = true
				}
			} else if syncContains(v, func(x ast.Node) bool {
				b2, ok := x.(*ast.BranchStmt)
				return ok && (b2.Tok == token.CONTINUE || b2.Tok == token.BREAK)
			}) {
				other = true
			}
		case *ast.ExprStmt:
			if ce2, ok := v.X.(*ast.CallExpr); ok {
				if se2, ok := ce2.Fun.(*ast.SelectorExpr); ok && se2.Sel.Name == "RemoveEntity" {
					removes = true
				}
			}
		case *ast.BranchStmt, *ast.ReturnStmt:
			other = true
		}
	}
	return skipsMissing && skipsPersistent && removes && !other
}

func b(x bool) string {
	if x {
		return "true"
	}
	return "false"
}

func main() {
	if len(os.Args) != 3 {
		fmt.Fprintln(os.Stderr, "usage: storefacts <repo> <coq dir>")
		os.Exit(2)
	}
	repo, coq := os.Args[1], os.Args[2]
	var notes []string
	facts := map[string]bool{}
	models, err := parseDir(filepath.Join(repo, "models"))
	if err != nil {
		notes = append(notes, "models: "+err.Error())
	}
	ws, err2 := parseDir(filepath.Join(repo, "websocket"))
	if err2 != nil {
		notes = append(notes, "websocket: "+err2.Error())
	}
	const S = "EntityComponentStore"
	// AddType
	if fd := method(models, S, "AddType"); fd != nil {
		r := recvName(fd)
		param := ""
		if fd.Type.Params != nil && len(fd.Type.Params.List) == 1 && len(fd.Type.Params.List[0].Names) == 1 {
			param = fd.Type.Params.List[0].Names[0].Name
		}
		// the look-up: an index expression <recv>.<some field>[<the name parameter>]
		lookup := param != "" && syncContains(fd.Body, func(x ast.Node) bool {
			ie, ok := x.(*ast.IndexExpr)
			if !ok {
				return false
			}
			se, ok := ie.X.(*ast.SelectorExpr)
			if !ok {
				return false
			}
			id, ok := se.X.(*ast.Ident)
			k, ok2 := ie.Index.(*ast.Ident)
			return ok && ok2 && id.Name == r && k.Name == param
		})
		// the allocation: <recv>.<some field>.New()
		alloc := syncContains(fd.Body, func(x ast.Node) bool {
			ce, ok := x.(*ast.CallExpr)
			if !ok {
				return false
			}
			se, ok := ce.Fun.(*ast.SelectorExpr)
			if !ok || se.Sel.Name != "New" {
				return false
			}
			fe, ok := se.X.(*ast.SelectorExpr)
			if !ok {
				return false
			}
			id, ok := fe.X.(*ast.Ident)
			return ok && id.Name == r
		})
		op, _ := wholeBodyRegionF(fd, "")
		facts["addtype_atomic"] = op == "Lock" && lookup && alloc && !hasGo(fd.Body)
		if !facts["addtype_atomic"] {
			notes = append(notes, fmt.Sprintf("AddType: region=%q lookup=%v alloc=%v", op, lookup, alloc))
		}
	} else {
		notes = append(notes, "AddType not found")
	}
	// the subscription mutex: the one Subscribe holds from its first statement to its return
	subField := ""
	if fd := method(models, S, "Subscribe"); fd != nil {
		if op, f := wholeBodyRegionF(fd, ""); op == "Lock" && !hasGo(fd.Body) {
			subField = f
		}
	}
	facts["subscribe_exclusive"] = subField != ""
	if subField == "" {
		notes = append(notes, "Subscribe: not one exclusive region of a mutex of the store")
		subField = "subscriptionMutex"
	}
	// Notify
	if fd := method(models, S, "Notify"); fd != nil {
		h := ""
		if fd.Type.Params != nil {
			for _, p := range fd.Type.Params.List {
				if id, ok := p.Type.(*ast.Ident); ok && id.Name == "EntityComponentHandler" && len(p.Names) == 1 {
					h = p.Names[0].Name
				}
				if _, ok := p.Type.(*ast.FuncType); ok && len(p.Names) == 1 {
					h = p.Names[0].Name
				}
			}
		}
		calls := h != "" && syncContains(fd.Body, func(x ast.Node) bool {
			ce, ok := x.(*ast.CallExpr)
			if !ok {
				return false
			}
			id, ok := ce.Fun.(*ast.Ident)
			return ok && id.Name == h
		})
		// the handler must not be handed to anything else (a goroutine, a deferred call, another function)
		escapes := false
		ast.Inspect(fd.Body, func(x ast.Node) bool {
			switch v := x.(type) {
			case *ast.GoStmt, *ast.DeferStmt:
				ast.Inspect(v, func(y ast.Node) bool {
					if id, ok := y.(*ast.Ident); ok && id.Name == h {
						escapes = true
					}
					return true
				})
			case *ast.CallExpr:
				for _, a := range v.Args {
					if id, ok := a.(*ast.Ident); ok && id.Name == h {
						escapes = true
					}
				}
			}
			return true
		})
		reg := wholeBodyRegion(fd, subField)
		facts["notify_relays_under_lock"] = reg != "" && calls && !escapes
		if !facts["notify_relays_under_lock"] {
			notes = append(notes, fmt.Sprintf("Notify: region=%q handler=%q called=%v escapes=%v", reg, h, calls, escapes))
		}
	} else {
		notes = append(notes, "Notify not found")
	}
	ex := func(names ...string) bool {
		for _, n := range names {
			fd := method(models, S, n)
			if fd == nil || wholeBodyRegion(fd, subField) != "Lock" || hasGo(fd.Body) {
				notes = append(notes, n+": not one exclusive region of the subscription mutex ("+subField+")")
				return false
			}
		}
		return true
	}
	facts["unsubscribe_exclusive"] = ex("Unsubscribe", "UnsubscribeByParticipant")
	// callers of Notify in package websocket
	nNotify, okAll := 0, true
	for _, f := range ws {
		ast.Inspect(f, func(x ast.Node) bool {
			ce, ok := x.(*ast.CallExpr)
			if !ok {
				return true
			}
			se, ok := ce.Fun.(*ast.SelectorExpr)
			if !ok || se.Sel.Name != "Notify" || len(ce.Args) != 2 {
				return true
			}
			nNotify++
			// the handler: a function literal, or a method value / function of this package named by its last identifier
			var body *ast.BlockStmt
			switch a := ce.Args[1].(type) {
			case *ast.FuncLit:
				body = a.Body
			case *ast.SelectorExpr:
				body = uniqueFuncBody(ws, a.Sel.Name)
			case *ast.Ident:
				body = uniqueFuncBody(ws, a.Name)
			}
			if body == nil {
				okAll = false
				return true
			}
			fl := struct{ Body *ast.BlockStmt }{body}
			relays := false
			ast.Inspect(fl.Body, func(y ast.Node) bool {
				if c2, ok := y.(*ast.CallExpr); ok {
					if s2, ok := c2.Fun.(*ast.SelectorExpr); ok && (s2.Sel.Name == "BroadcastTo" || s2.Sel.Name == "Broadcast" || s2.Sel.Name == "Send" || s2.Sel.Name == "SendMsg") {
						relays = true
					}
				}
				return true
			})
			if !relays || hasGo(fl.Body) {
				okAll = false
			}
			return true
		})
	}
	facts["notify_callers_relay_inside"] = nNotify > 0 && okAll
	if !facts["notify_callers_relay_inside"] {
		notes = append(notes, fmt.Sprintf("Notify callers: %d found, all relay inside: %v", nNotify, okAll))
	}
	// HandleEntityComponentUnsubscribe: top-level order
	if fd := method(ws, "RealtimeHandler", "HandleEntityComponentUnsubscribe"); fd != nil {
		iu, ir := -1, -1
		for i, st := range fd.Body.List {
			switch st.(type) {
			case *ast.GoStmt, *ast.DeferStmt:
				continue
			}
			if _, isIf := st.(*ast.IfStmt); isIf {
				continue // the early error returns
			}
			has := func(name string) bool {
				return syncContains(st, func(x ast.Node) bool {
					ce, ok := x.(*ast.CallExpr)
					if !ok {
						return false
					}
					se, ok := ce.Fun.(*ast.SelectorExpr)
					return ok && se.Sel.Name == name
				})
			}
			if has("Unsubscribe") && iu < 0 {
				iu = i
			}
			isResp := syncContains(st, func(x ast.Node) bool {
				cl, ok := x.(*ast.CompositeLit)
				if !ok {
					return false
				}
				se, ok := cl.Type.(*ast.SelectorExpr)
				return ok && se.Sel.Name == "EntityComponentTypeUnsubscribeResponse"
			})
			if isResp && has("Send") && ir < 0 {
				ir = i
			}
		}
		facts["unsub_response_after_unsub"] = iu >= 0 && ir > iu
		if !facts["unsub_response_after_unsub"] {
			notes = append(notes, fmt.Sprintf("HandleEntityComponentUnsubscribe: Unsubscribe at %d, response at %d", iu, ir))
		}
	} else {
		notes = append(notes, "HandleEntityComponentUnsubscribe not found")
	}
	// Session.Broadcast / BroadcastTo: recipients looked up and served inside one critical section of the participant lock
	for _, bn := range []struct{ fn, fact string }{{"Broadcast", "broadcast_serves_under_lock"}, {"BroadcastTo", "broadcast_to_serves_under_lock"}} {
		fd := method(models, "Session", bn.fn)
		if fd == nil {
			notes = append(notes, bn.fn+" not found")
			continue
		}
		// the lock statement may be preceded by statements that touch no shared state of the session (building the message);
		// from the lock statement on, the region rule applies
		r := recvName(fd)
		li := -1
		for i, st := range fd.Body.List {
			if es, ok := st.(*ast.ExprStmt); ok {
				if op, _ := lockCallF(es.X, r, ""); op == "RLock" || op == "Lock" {
					li = i
					break
				}
			}
			if syncContains(st, func(x ast.Node) bool {
				se, ok := x.(*ast.SelectorExpr)
				if !ok {
					return false
				}
				id, ok := se.X.(*ast.Ident)
				return ok && id.Name == r
			}) {
				break // the receiver is used before any lock is taken
			}
		}
		okR := false
		if li >= 0 {
			sub := &ast.FuncDecl{Recv: fd.Recv, Name: fd.Name, Type: fd.Type, Body: &ast.BlockStmt{List: fd.Body.List[li:]}}
			op, _ := wholeBodyRegionF(sub, "")
			sends := syncContains(sub.Body, func(x ast.Node) bool {
				ce, ok := x.(*ast.CallExpr)
				if !ok {
					return false
				}
				se, ok := ce.Fun.(*ast.SelectorExpr)
				return ok && (se.Sel.Name == "SendMsg" || se.Sel.Name == "Send")
			})
			okR = op != "" && sends && !hasGo(fd.Body)
		}
		facts[bn.fact] = okR
		if !okR {
			notes = append(notes, fmt.Sprintf("%s: the recipients are not served inside one critical section that starts at statement %d", bn.fn, li))
		}
	}
	// leaveSession: the clean-up of the leaver's entities
	if fd := method(ws, "RealtimeHandler", "leaveSession"); fd != nil {
		iloop, irm := -1, -1
		loopOK := false
		for i, st := range fd.Body.List {
			if iloop < 0 {
				if rs, ok := st.(*ast.RangeStmt); ok && rangesOverEntityIDs(rs) {
					iloop, loopOK = i, cleanupLoopOK(rs)
				} else if es, ok := st.(*ast.ExprStmt); ok {
					// a helper method of the handler whose body is that loop (and nothing that could skip it)
					if ce, ok := es.X.(*ast.CallExpr); ok {
						if se, ok := ce.Fun.(*ast.SelectorExpr); ok {
							if hd := method(ws, "RealtimeHandler", se.Sel.Name); hd != nil && hd != fd {
								for j, hs := range hd.Body.List {
									if rs, ok := hs.(*ast.RangeStmt); ok && rangesOverEntityIDs(rs) {
										pre := true
										for _, b := range hd.Body.List[:j] {
											if syncContains(b, func(x ast.Node) bool { _, ok := x.(*ast.ReturnStmt); return ok }) {
												pre = false
											}
										}
										if pre {
											iloop, loopOK = i, cleanupLoopOK(rs)
										}
									}
								}
							}
						}
					}
				}
			}
			if irm < 0 {
				if _, isIf := st.(*ast.IfStmt); !isIf && syncContains(st, func(x ast.Node) bool {
					ce, ok := x.(*ast.CallExpr)
					if !ok {
						return false
					}
					se, ok := ce.Fun.(*ast.SelectorExpr)
					return ok && se.Sel.Name == "RemoveParticipant"
				}) {
					irm = i
				}
			}
		}
		// nothing before the loop may return early depending on anything but "not joined"
		early := false
		for i, st := range fd.Body.List {
			if i >= iloop {
				break
			}
			if is, ok := st.(*ast.IfStmt); ok {
				ret := syncContains(is.Body, func(x ast.Node) bool { _, ok := x.(*ast.ReturnStmt); return ok })
				nilCheck := syncContains(is.Cond, func(x ast.Node) bool { id, ok := x.(*ast.Ident); return ok && id.Name == "nil" })
				if ret && !nilCheck {
					early = true
				}
			}
		}
		facts["leave_cleanup_unconditional"] = iloop >= 0 && irm > iloop && loopOK && !early
		if !facts["leave_cleanup_unconditional"] {
			notes = append(notes, fmt.Sprintf("leaveSession: loop over EntityIDs at top-level statement %d, RemoveParticipant at %d, loop body as expected: %v, early return: %v", iloop, irm, loopOK, early))
		}
	} else {
		notes = append(notes, "leaveSession not found")
	}
	var sb strings.Builder
	sb.WriteString("(* GenStore.v — GENERATED by tools/storefacts from the current Go sources. Do not edit. *)\n")
	for _, k := range []string{"addtype_atomic", "notify_relays_under_lock", "unsubscribe_exclusive", "subscribe_exclusive", "notify_callers_relay_inside", "unsub_response_after_unsub", "leave_cleanup_unconditional", "broadcast_serves_under_lock", "broadcast_to_serves_under_lock"} {
		fmt.Fprintf(&sb, "Definition %s : bool := %s.\n", k, b(facts[k]))
	}
	for _, n := range notes {
		fmt.Fprintf(&sb, "(* note: %s *)\n", strings.ReplaceAll(strings.ReplaceAll(n, "(*", "( *"), "*)", "* )"))
	}
	out := filepath.Join(coq, "GenStore.v")
	if old, err := os.ReadFile(out); err == nil && string(old) == sb.String() {
		return
	}
	if err := os.WriteFile(out, []byte(sb.String()), 0644); err != nil {
		fmt.Fprintln(os.Stderr, err)
		os.Exit(1)
	}
}

// storefacts: the shape of the critical sections of models.EntityComponentStore that the concurrent clauses of C10
// (type ids under concurrent additions) and C13 (no update notification after the unsubscribe response) rest on,
// regenerated from the Go sources on every check run and written as coq/GenStore.v.  The theorems of
// coq/Properties/ConcStore.v hold for programs made of the ATOMIC instructions of coq/ConcStore.v; the facts below say
// that the code's critical sections are those instructions.  Fails closed: a shape that is not recognised is emitted as
// false, so the Coq obligation over it fails (and the check then searches the real code for a failing schedule).
//
//	addtype_atomic              AddType holds EntityComponentStore.mutex exclusively from its first statement to its
//	                            return (Lock + deferred Unlock, no other (un)lock of it, not inside a goroutine) and both
//	                            the lookup in idIndex and the allocation ids.New() are in that one region
//	notify_relays_under_lock    Notify holds subscriptionMutex (RLock or Lock + deferred unlock from its first statement)
//	                            and calls its handler in that region, synchronously
//	unsubscribe_exclusive       Unsubscribe and UnsubscribeByParticipant hold subscriptionMutex.Lock from their first
//	                            statement to their return
//	subscribe_exclusive         Subscribe likewise
//	notify_callers_relay_inside every call of Notify in package websocket passes a function literal that relays
//	                            (Broadcast / BroadcastTo / Send) itself and starts no goroutine
//	leave_cleanup_unconditional leaveSession removes the leaver's entities in a loop over participant.EntityIDs() that is a
//	                            top-level statement of the function (not guarded by anything but "not joined"), precedes
//	                            RemoveParticipant, skips an entity only when it is missing or persistent, and calls
//	                            RemoveEntity for every other one (coq/ConcLeave.v: the full departure)
//	unsub_response_after_unsub  HandleEntityComponentUnsubscribe sends the unsubscribe response in a top-level statement
//	                            that follows the top-level statement calling Unsubscribe
package main

import (
	"fmt"
	"go/ast"
	"go/parser"
	"go/token"
	"os"
	"path/filepath"
	"strings"
)

func parseDir(dir string) ([]*ast.File, error) {
	fset := token.NewFileSet()
	ents, err := os.ReadDir(dir)
	if err != nil {
		return nil, err
	}
	var files []*ast.File
	for _, e := range ents {
		n := e.Name()
		if e.IsDir() || !strings.HasSuffix(n, ".go") || strings.HasSuffix(n, "_test.go") || strings.HasPrefix(n, "zz_verif_") {
			continue
		}
		f, err := parser.ParseFile(fset, filepath.Join(dir, n), nil, 0)
		if err != nil {
			return nil, err
		}
		files = append(files, f)
	}
	return files, nil
}

func method(files []*ast.File, recv, name string) *ast.FuncDecl {
	for _, f := range files {
		for _, d := range f.Decls {
			fd, ok := d.(*ast.FuncDecl)
			if !ok || fd.Recv == nil || fd.Body == nil || fd.Name.Name != name || len(fd.Recv.List) != 1 {
				continue
			}
			t := fd.Recv.List[0].Type
			if st, ok := t.(*ast.StarExpr); ok {
				t = st.X
			}
			if id, ok := t.(*ast.Ident); ok && id.Name == recv {
				return fd
			}
		}
	}
	return nil
}

// x.<field>.<op>() on the receiver: returns op when the call is <recv>.<field>.<op>()
func lockCall(e ast.Expr, recv, field string) string {
	ce, ok := e.(*ast.CallExpr)
	if !ok || len(ce.Args) != 0 {
		return ""
	}
	se, ok := ce.Fun.(*ast.SelectorExpr)
	if !ok {
		return ""
	}
	fe, ok := se.X.(*ast.SelectorExpr)
	if !ok || fe.Sel.Name != field {
		return ""
	}
	if id, ok := fe.X.(*ast.Ident); !ok || id.Name != recv {
		return ""
	}
	return se.Sel.Name
}

func recvName(fd *ast.FuncDecl) string {
	if len(fd.Recv.List[0].Names) == 1 {
		return fd.Recv.List[0].Names[0].Name
	}
	return ""
}

// the function's first two statements are <recv>.<field>.<lock>() and defer <recv>.<field>.<unlock>(), and no other
// call on that mutex occurs anywhere in the body; returns the lock operation ("Lock" / "RLock") or ""
func wholeBodyRegion(fd *ast.FuncDecl, field string) string {
	if fd == nil || len(fd.Body.List) < 2 {
		return ""
	}
	r := recvName(fd)
	es, ok := fd.Body.List[0].(*ast.ExprStmt)
	if !ok {
		return ""
	}
	op := lockCall(es.X, r, field)
	if op != "Lock" && op != "RLock" {
		return ""
	}
	ds, ok := fd.Body.List[1].(*ast.DeferStmt)
	if !ok {
		return ""
	}
	un := lockCall(ds.Call, r, field)
	if (op == "Lock" && un != "Unlock") || (op == "RLock" && un != "RUnlock") {
		return ""
	}
	n := 0
	ast.Inspect(fd.Body, func(x ast.Node) bool {
		if ce, ok := x.(*ast.CallExpr); ok {
			if lockCall(ce, r, field) != "" {
				n++
			}
		}
		return true
	})
	if n != 2 {
		return ""
	}
	return op
}

// does the body (outside go statements and function literals) contain a node satisfying p?
func syncContains(body ast.Node, p func(ast.Node) bool) bool {
	found := false
	ast.Inspect(body, func(x ast.Node) bool {
		switch x.(type) {
		case *ast.GoStmt, *ast.FuncLit:
			return false
		}
		if x != nil && p(x) {
			found = true
		}
		return !found
	})
	return found
}

func hasGo(body ast.Node) bool {
	found := false
	ast.Inspect(body, func(x ast.Node) bool {
		if _, ok := x.(*ast.GoStmt); ok {
			found = true
		}
		return !found
	})
	return found
}

func b(x bool) string {
	if x {
		return "true"
	}
	return "false"
}

func main() {
	if len(os.Args) != 3 {
		fmt.Fprintln(os.Stderr, "usage: storefacts <repo> <coq dir>")
		os.Exit(2)
	}
	repo, coq := os.Args[1], os.Args[2]
	var notes []string
	facts := map[string]bool{}
	models, err := parseDir(filepath.Join(repo, "models"))
	if err != nil {
		notes = append(notes, "models: "+err.Error())
	}
	ws, err2 := parseDir(filepath.Join(repo, "websocket"))
	if err2 != nil {
		notes = append(notes, "websocket: "+err2.Error())
	}
	const S = "EntityComponentStore"
	// AddType
	if fd := method(models, S, "AddType"); fd != nil {
		r := recvName(fd)
		lookup := syncContains(fd.Body, func(x ast.Node) bool {
			ie, ok := x.(*ast.IndexExpr)
			if !ok {
				return false
			}
			se, ok := ie.X.(*ast.SelectorExpr)
			return ok && se.Sel.Name == "idIndex"
		})
		alloc := syncContains(fd.Body, func(x ast.Node) bool {
			ce, ok := x.(*ast.CallExpr)
			if !ok {
				return false
			}
			se, ok := ce.Fun.(*ast.SelectorExpr)
			if !ok || se.Sel.Name != "New" {
				return false
			}
			fe, ok := se.X.(*ast.SelectorExpr)
			if !ok || fe.Sel.Name != "ids" {
				return false
			}
			id, ok := fe.X.(*ast.Ident)
			return ok && id.Name == r
		})
		facts["addtype_atomic"] = wholeBodyRegion(fd, "mutex") == "Lock" && lookup && alloc && !hasGo(fd.Body)
		if !facts["addtype_atomic"] {
			notes = append(notes, fmt.Sprintf("AddType: region=%q lookup=%v alloc=%v", wholeBodyRegion(fd, "mutex"), lookup, alloc))
		}
	} else {
		notes = append(notes, "AddType not found")
	}
	// Notify
	if fd := method(models, S, "Notify"); fd != nil {
		h := ""
		if fd.Type.Params != nil {
			for _, p := range fd.Type.Params.List {
				if id, ok := p.Type.(*ast.Ident); ok && id.Name == "EntityComponentHandler" && len(p.Names) == 1 {
					h = p.Names[0].Name
				}
				if _, ok := p.Type.(*ast.FuncType); ok && len(p.Names) == 1 {
					h = p.Names[0].Name
				}
			}
		}
		calls := h != "" && syncContains(fd.Body, func(x ast.Node) bool {
			ce, ok := x.(*ast.CallExpr)
			if !ok {
				return false
			}
			id, ok := ce.Fun.(*ast.Ident)
			return ok && id.Name == h
		})
		// the handler must not be handed to anything else (a goroutine, a deferred call, another function)
		escapes := false
		ast.Inspect(fd.Body, func(x ast.Node) bool {
			switch v := x.(type) {
			case *ast.GoStmt, *ast.DeferStmt:
				ast.Inspect(v, func(y ast.Node) bool {
					if id, ok := y.(*ast.Ident); ok && id.Name == h {
						escapes = true
					}
					return true
				})
			case *ast.CallExpr:
				for _, a := range v.Args {
					if id, ok := a.(*ast.Ident); ok && id.Name == h {
						escapes = true
					}
				}
			}
			return true
		})
		reg := wholeBodyRegion(fd, "subscriptionMutex")
		facts["notify_relays_under_lock"] = reg != "" && calls && !escapes
		if !facts["notify_relays_under_lock"] {
			notes = append(notes, fmt.Sprintf("Notify: region=%q handler=%q called=%v escapes=%v", reg, h, calls, escapes))
		}
	} else {
		notes = append(notes, "Notify not found")
	}
	ex := func(names ...string) bool {
		for _, n := range names {
			fd := method(models, S, n)
			if fd == nil || wholeBodyRegion(fd, "subscriptionMutex") != "Lock" || hasGo(fd.Body) {
				notes = append(notes, n+": not one exclusive region of subscriptionMutex")
				return false
			}
		}
		return true
	}
	facts["unsubscribe_exclusive"] = ex("Unsubscribe", "UnsubscribeByParticipant")
	facts["subscribe_exclusive"] = ex("Subscribe")
	// callers of Notify in package websocket
	nNotify, okAll := 0, true
	for _, f := range ws {
		ast.Inspect(f, func(x ast.Node) bool {
			ce, ok := x.(*ast.CallExpr)
			if !ok {
				return true
			}
			se, ok := ce.Fun.(*ast.SelectorExpr)
			if !ok || se.Sel.Name != "Notify" || len(ce.Args) != 2 {
				return true
			}
			nNotify++
			fl, ok := ce.Args[1].(*ast.FuncLit)
			if !ok {
				okAll = false
				return true
			}
			relays := false
			ast.Inspect(fl.Body, func(y ast.Node) bool {
				if c2, ok := y.(*ast.CallExpr); ok {
					if s2, ok := c2.Fun.(*ast.SelectorExpr); ok && (s2.Sel.Name == "BroadcastTo" || s2.Sel.Name == "Broadcast" || s2.Sel.Name == "Send" || s2.Sel.Name == "SendMsg") {
						relays = true
					}
				}
				return true
			})
			if !relays || hasGo(fl.Body) {
				okAll = false
			}
			return true
		})
	}
	facts["notify_callers_relay_inside"] = nNotify > 0 && okAll
	if !facts["notify_callers_relay_inside"] {
		notes = append(notes, fmt.Sprintf("Notify callers: %d found, all relay inside: %v", nNotify, okAll))
	}
	// HandleEntityComponentUnsubscribe: top-level order
	if fd := method(ws, "RealtimeHandler", "HandleEntityComponentUnsubscribe"); fd != nil {
		iu, ir := -1, -1
		for i, st := range fd.Body.List {
			switch st.(type) {
			case *ast.GoStmt, *ast.DeferStmt:
				continue
			}
			if _, isIf := st.(*ast.IfStmt); isIf {
				continue // the early error returns
			}
			has := func(name string) bool {
				return syncContains(st, func(x ast.Node) bool {
					ce, ok := x.(*ast.CallExpr)
					if !ok {
						return false
					}
					se, ok := ce.Fun.(*ast.SelectorExpr)
					return ok && se.Sel.Name == name
				})
			}
			if has("Unsubscribe") && iu < 0 {
				iu = i
			}
			isResp := syncContains(st, func(x ast.Node) bool {
				cl, ok := x.(*ast.CompositeLit)
				if !ok {
					return false
				}
				se, ok := cl.Type.(*ast.SelectorExpr)
				return ok && se.Sel.Name == "EntityComponentTypeUnsubscribeResponse"
			})
			if isResp && has("Send") && ir < 0 {
				ir = i
			}
		}
		facts["unsub_response_after_unsub"] = iu >= 0 && ir > iu
		if !facts["unsub_response_after_unsub"] {
			notes = append(notes, fmt.Sprintf("HandleEntityComponentUnsubscribe: Unsubscribe at %d, response at %d", iu, ir))
		}
	} else {
		notes = append(notes, "HandleEntityComponentUnsubscribe not found")
	}
	// leaveSession: the clean-up of the leaver's entities
	if fd := method(ws, "RealtimeHandler", "leaveSession"); fd != nil {
		iloop, irm := -1, -1
		loopOK := false
		for i, st := range fd.Body.List {
			if rs, ok := st.(*ast.RangeStmt); ok && iloop < 0 {
				if ce, ok := rs.X.(*ast.CallExpr); ok {
					if se, ok := ce.Fun.(*ast.SelectorExpr); ok && se.Sel.Name == "EntityIDs" {
						iloop = i
						// body: the only way to skip an entity is the guard `!ok || entity.Persist`, and RemoveEntity is called
						// at the top level of the loop body
						skips, removes, other := 0, false, false
						for _, bs := range rs.Body.List {
							switch v := bs.(type) {
							case *ast.IfStmt:
								isSkip := len(v.Body.List) == 1 && v.Else == nil
								if isSkip {
									if br, ok := v.Body.List[0].(*ast.BranchStmt); !ok || br.Tok != token.CONTINUE {
										isSkip = false
									}
								}
								if isSkip {
									be, ok := v.Cond.(*ast.BinaryExpr)
									good := ok && be.Op == token.LOR
									if good {
										ue, ok1 := be.X.(*ast.UnaryExpr)
										se2, ok2 := be.Y.(*ast.SelectorExpr)
										good = ok1 && ue.Op == token.NOT && ok2 && se2.Sel.Name == "Persist"
									}
									if good {
										skips++
									} else {
										other = true
									}
								} else if syncContains(v, func(x ast.Node) bool {
									b2, ok := x.(*ast.BranchStmt)
									return ok && (b2.Tok == token.CONTINUE || b2.Tok == token.BREAK)
								}) {
									other = true
								}
							case *ast.ExprStmt:
								if ce2, ok := v.X.(*ast.CallExpr); ok {
									if se2, ok := ce2.Fun.(*ast.SelectorExpr); ok && se2.Sel.Name == "RemoveEntity" {
										removes = true
									}
								}
							case *ast.BranchStmt, *ast.ReturnStmt:
								other = true
							}
						}
						loopOK = skips == 1 && removes && !other
					}
				}
			}
			if irm < 0 {
				if _, isIf := st.(*ast.IfStmt); !isIf && syncContains(st, func(x ast.Node) bool {
					ce, ok := x.(*ast.CallExpr)
					if !ok {
						return false
					}
					se, ok := ce.Fun.(*ast.SelectorExpr)
					return ok && se.Sel.Name == "RemoveParticipant"
				}) {
					irm = i
				}
			}
		}
		// nothing before the loop may return early depending on anything but "not joined"
		early := false
		for i, st := range fd.Body.List {
			if i >= iloop {
				break
			}
			if is, ok := st.(*ast.IfStmt); ok {
				ret := syncContains(is.Body, func(x ast.Node) bool { _, ok := x.(*ast.ReturnStmt); return ok })
				nilCheck := syncContains(is.Cond, func(x ast.Node) bool { id, ok := x.(*ast.Ident); return ok && id.Name == "nil" })
				if ret && !nilCheck {
					early = true
				}
			}
		}
		facts["leave_cleanup_unconditional"] = iloop >= 0 && irm > iloop && loopOK && !early
		if !facts["leave_cleanup_unconditional"] {
			notes = append(notes, fmt.Sprintf("leaveSession: loop over EntityIDs at top-level statement %d, RemoveParticipant at %d, loop body as expected: %v, early return: %v", iloop, irm, loopOK, early))
		}
	} else {
		notes = append(notes, "leaveSession not found")
	}
	var sb strings.Builder
	sb.WriteString("(* GenStore.v — GENERATED by tools/storefacts from the current Go sources. Do not edit. *)\n")
	for _, k := range []string{"addtype_atomic", "notify_relays_under_lock", "unsubscribe_exclusive", "subscribe_exclusive", "notify_callers_relay_inside", "unsub_response_after_unsub", "leave_cleanup_unconditional"} {
		fmt.Fprintf(&sb, "Definition %s : bool := %s.\n", k, b(facts[k]))
	}
	for _, n := range notes {
		fmt.Fprintf(&sb, "(* note: %s *)\n", strings.ReplaceAll(strings.ReplaceAll(n, "(*", "( *"), "*)", "* )"))
	}
	out := filepath.Join(coq, "GenStore.v")
	if old, err := os.ReadFile(out); err == nil && string(old) == sb.String() {
		return
	}
	if err := os.WriteFile(out, []byte(sb.String()), 0644); err != nil {
		fmt.Fprintln(os.Stderr, err)
		os.Exit(1)
	}
}

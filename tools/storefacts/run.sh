#!/bin/sh
# usage: run.sh <repo> <coq dir>   — regenerates <coq dir>/GenStore.v from the current sources
set -e
cd "$(dirname "$0")"
export GOFLAGS=-mod=mod GOPROXY=off GOSUMDB=off GOTOOLCHAIN=local
exec go run . "$1" "$2"

// locktables: regenerates the lock tables of property C09 from the current Go sources.
//
//	locktables <repo> <confined.txt> <out GenLocks.v> <out locktables.json>
//
// It loads github.com/aukilabs/hagall/cmd (whole program, with type information, from <repo>), builds SSA
// and a VTA call graph, and computes by a forward data-flow analysis over every function of the hagall
// packages (and of hagall-common/websocket, whose scheduler is part of the behaviour) the set of mutexes
// *held* at every program point:
//
//   - must-held (intersection over paths; used for field accesses: "in doubt the lock is NOT held"),
//   - may-held  (union over paths; used for lock-order edges and blocking operations: "in doubt it IS held").
//
// Locks held by callers are propagated into callees (must: intersection over all call sites, greatest fixpoint;
// may: union, least fixpoint), a `go` statement starts from nothing, sync.Once.Do is a lock held while its
// argument runs.  Lock classes are (struct type, mutex field).
//
// It fails closed: anything it cannot classify is listed in `unresolved`, a load error gives tables on which the
// Coq obligations are false.
package main

import (
	"bufio"
	"encoding/json"
	"fmt"
	"go/token"
	"go/types"
	"os"
	"path/filepath"
	"sort"
	"strings"

	"golang.org/x/tools/go/callgraph"
	"golang.org/x/tools/go/callgraph/cha"
	"golang.org/x/tools/go/callgraph/vta"
	"golang.org/x/tools/go/packages"
	"golang.org/x/tools/go/ssa"
	"golang.org/x/tools/go/ssa/ssautil"
)

const (
	hagall = "github.com/aukilabs/hagall"
	common = "github.com/aukilabs/hagall-common/websocket"
	auki   = "github.com/aukilabs/"
)

// packages whose struct fields are tracked as accesses
func accessPkg(path string) bool {
	return path == hagall+"/models" || path == hagall+"/websocket" || strings.HasPrefix(path, hagall+"/modules")
}

// packages whose functions are analysed (locks, calls, sends)
func trackedPkg(path string) bool {
	return path == hagall || strings.HasPrefix(path, hagall+"/") || path == common
}

func short(path string) string { return strings.TrimPrefix(path, auki) }

// ---------------------------------------------------------------------------------------------- lock state

type lockInst struct {
	class string
	base  ssa.Value // the struct pointer the mutex field was selected from (nil: unknown)
}

type state struct {
	must map[lockInst]bool // -> exclusive?
	may  map[lockInst]bool // -> (value unused)
}

func (s *state) clone() *state {
	n := &state{must: map[lockInst]bool{}, may: map[lockInst]bool{}}
	for k, v := range s.must {
		n.must[k] = v
	}
	for k, v := range s.may {
		n.may[k] = v
	}
	return n
}

// join other into s (s may be nil = unvisited); returns the joined state and whether it differs from s
func join(s, o *state) (*state, bool) {
	if s == nil {
		return o.clone(), true
	}
	changed := false
	for k, ex := range s.must {
		oex, ok := o.must[k]
		if !ok {
			delete(s.must, k)
			changed = true
		} else if ex && !oex {
			s.must[k] = false
			changed = true
		}
	}
	for k := range o.may {
		if !s.may[k] {
			s.may[k] = true
			changed = true
		}
	}
	return s, changed
}

// ---------------------------------------------------------------------------------------------- events

type heldSet map[string]bool // class -> exclusive

type accessEv struct {
	fn      *ssa.Function
	pos     token.Pos
	strct   string // short pkg + "." + type
	field   string
	write   bool
	ctor    bool
	note    string
	base    ssa.Value
	local   map[lockInst]bool // local must-held
	baseTyp *types.Named
}

type callEv struct {
	caller *ssa.Function
	callee *ssa.Function
	pos    token.Pos
	kind   string // call | defer | go | callback
	must   heldSet
	may    map[string]bool
}

type lockEv struct {
	fn    *ssa.Function
	pos   token.Pos
	class string
	may   map[string]bool
}

type sendEv struct {
	fn   *ssa.Function
	pos  token.Pos
	ch   string
	may  map[string]bool
	what string
}

type analysis struct {
	prog       *ssa.Program
	cg         *callgraph.Graph
	fset       *token.FileSet
	repo       string
	accesses   []accessEv
	calls      []callEv
	locks      []lockEv
	sends      []sendEv
	unresolvedIn map[*ssa.Function][]string
	cur          *ssa.Function
	rootsIn      map[*ssa.Function][]rootEv
}

type rootEv struct {
	root  *ssa.Function
	label string
}

func (a *analysis) unres(msg string) {
	for _, m := range a.unresolvedIn[a.cur] {
		if m == msg {
			return
		}
	}
	a.unresolvedIn[a.cur] = append(a.unresolvedIn[a.cur], msg)
}

func (a *analysis) posStr(p token.Pos) string {
	if !p.IsValid() {
		return "?"
	}
	ps := a.fset.Position(p)
	fn := ps.Filename
	if rel, err := filepath.Rel(a.repo, fn); err == nil && !strings.HasPrefix(rel, "..") {
		fn = rel
	} else if i := strings.Index(fn, "/pkg/mod/"); i >= 0 {
		fn = fn[i+len("/pkg/mod/"):]
	}
	return fmt.Sprintf("%s:%d", fn, ps.Line)
}

func fnPkgPath(fn *ssa.Function) string {
	if fn == nil {
		return ""
	}
	if fn.Pkg != nil && fn.Pkg.Pkg != nil {
		return fn.Pkg.Pkg.Path()
	}
	if o := fn.Object(); o != nil && o.Pkg() != nil {
		return o.Pkg().Path()
	}
	if fn.Parent() != nil {
		return fnPkgPath(fn.Parent())
	}
	// wrappers of methods of named types: use the receiver type's package
	if fn.Signature != nil && fn.Signature.Recv() != nil {
		if n := namedOf(fn.Signature.Recv().Type()); n != nil && n.Obj().Pkg() != nil {
			return n.Obj().Pkg().Path()
		}
	}
	return ""
}

func tracked(fn *ssa.Function) bool { return fn != nil && len(fn.Blocks) > 0 && trackedPkg(fnPkgPath(fn)) }

func fname(fn *ssa.Function) string {
	s := fn.String()
	s = strings.ReplaceAll(s, auki, "")
	return s
}

func namedOf(t types.Type) *types.Named {
	for {
		switch u := t.(type) {
		case *types.Pointer:
			t = u.Elem()
			continue
		case *types.Named:
			return u
		case *types.Alias:
			t = types.Unalias(u)
			continue
		}
		return nil
	}
}

func structName(n *types.Named) string {
	if n == nil {
		return "?"
	}
	p := ""
	if n.Obj().Pkg() != nil {
		p = short(n.Obj().Pkg().Path()) + "."
	}
	return p + n.Obj().Name()
}

func isSyncType(t types.Type, names ...string) bool {
	n := namedOf(t)
	if n == nil || n.Obj().Pkg() == nil || n.Obj().Pkg().Path() != "sync" {
		return false
	}
	for _, x := range names {
		if n.Obj().Name() == x {
			return true
		}
	}
	return len(names) == 0
}

// canon gives the identity of the object a struct pointer value denotes: go/ssa captures variables by reference, so
// inside a closure every use of a captured `s` is a fresh load of the same cell; when that cell is assigned exactly
// once (receivers, parameters, `x := ...` never reassigned) the cell identifies the object.
func canon(v ssa.Value) ssa.Value {
	u, ok := v.(*ssa.UnOp)
	if !ok || u.Op != token.MUL {
		return v
	}
	switch c := u.X.(type) {
	case *ssa.FreeVar:
		if singleAssigned(c) {
			return c
		}
	case *ssa.Alloc:
		if singleAssigned(c) {
			return c
		}
	}
	return v
}

func storesTo(cell ssa.Value) int {
	n := 0
	if refs := cell.Referrers(); refs != nil {
		for _, r := range *refs {
			if st, ok := r.(*ssa.Store); ok && st.Addr == cell {
				n++
			}
			if mc, ok := r.(*ssa.MakeClosure); ok {
				// the cell is captured: count the stores made inside the closure too
				if f, ok := mc.Fn.(*ssa.Function); ok {
					for i, b := range mc.Bindings {
						if b == cell && i < len(f.FreeVars) {
							n += storesTo(f.FreeVars[i])
						}
					}
				}
			}
		}
	}
	return n
}

func singleAssigned(cell ssa.Value) bool {
	switch c := cell.(type) {
	case *ssa.Alloc:
		return storesTo(c) <= 1
	case *ssa.FreeVar:
		// find the binding in the parent
		fn := c.Parent()
		par := fn.Parent()
		if par == nil {
			return false
		}
		idx := -1
		for i, fv := range fn.FreeVars {
			if fv == c {
				idx = i
			}
		}
		for _, b := range par.Blocks {
			for _, ins := range b.Instrs {
				if mc, ok := ins.(*ssa.MakeClosure); ok && mc.Fn == ssa.Value(fn) && idx >= 0 && idx < len(mc.Bindings) {
					return singleAssigned(mc.Bindings[idx])
				}
			}
		}
		return false
	}
	return false
}

// the (class, base) a mutex receiver value denotes
func (a *analysis) lockOf(v ssa.Value, where token.Pos) lockInst {
	switch x := v.(type) {
	case *ssa.FieldAddr:
		n := namedOf(x.X.Type())
		st, _ := derefStruct(x.X.Type())
		if st != nil && n != nil {
			return lockInst{class: structName(n) + "." + st.Field(x.Field).Name(), base: canon(x.X)}
		}
	case *ssa.UnOp: // *p where p is a field holding a pointer to a mutex
		if x.Op == token.MUL {
			if fa, ok := x.X.(*ssa.FieldAddr); ok {
				n := namedOf(fa.X.Type())
				st, _ := derefStruct(fa.X.Type())
				if st != nil && n != nil {
					return lockInst{class: structName(n) + "." + st.Field(fa.Field).Name(), base: canon(fa.X)}
				}
			}
		}
	}
	a.unres("lock receiver not a struct field at "+a.posStr(where))
	return lockInst{class: "?unknown@" + a.posStr(where)}
}

func derefStruct(t types.Type) (*types.Struct, bool) {
	ptr := false
	if p, ok := t.Underlying().(*types.Pointer); ok {
		t = p.Elem()
		ptr = true
	}
	st, _ := t.Underlying().(*types.Struct)
	return st, ptr
}

// what kind of sync operation a call is: "", "lock", "rlock", "unlock", "runlock", "once"
func syncOp(c *ssa.CallCommon) string {
	f := c.StaticCallee()
	if f == nil || c.IsInvoke() {
		return ""
	}
	o := f.Object()
	if o == nil || o.Pkg() == nil || o.Pkg().Path() != "sync" {
		return ""
	}
	sig := f.Signature
	if sig.Recv() == nil {
		return ""
	}
	rn := namedOf(sig.Recv().Type())
	if rn == nil {
		return ""
	}
	switch rn.Obj().Name() + "." + o.Name() {
	case "Mutex.Lock", "RWMutex.Lock":
		return "lock"
	case "RWMutex.RLock":
		return "rlock"
	case "Mutex.Unlock", "RWMutex.Unlock":
		return "unlock"
	case "RWMutex.RUnlock":
		return "runlock"
	case "Once.Do":
		return "once"
	case "Mutex.TryLock", "RWMutex.TryLock", "RWMutex.TryRLock":
		return "trylock"
	}
	return ""
}

func classesOfMust(m map[lockInst]bool) heldSet {
	h := heldSet{}
	for k, ex := range m {
		if strings.HasPrefix(k.class, "?") {
			continue
		}
		if old, ok := h[k.class]; ok {
			h[k.class] = old || ex
		} else {
			h[k.class] = ex
		}
	}
	return h
}

func classesOfMay(m map[lockInst]bool) map[string]bool {
	h := map[string]bool{}
	for k := range m {
		h[k.class] = true
	}
	return h
}

// the functions a function-typed value denotes when it is syntactically evident
func funcTargets(v ssa.Value) []*ssa.Function {
	switch x := v.(type) {
	case *ssa.MakeClosure:
		if f, ok := x.Fn.(*ssa.Function); ok {
			return []*ssa.Function{f}
		}
	case *ssa.Function:
		return []*ssa.Function{x}
	case *ssa.ChangeType:
		return funcTargets(x.X)
	case *ssa.MakeInterface:
		return funcTargets(x.X)
	}
	return nil
}

func asyncAPI(callee *ssa.Function) bool {
	if callee == nil {
		return true
	}
	p := fnPkgPath(callee)
	n := callee.Name()
	return p == "net/http" || strings.Contains(n, "HandleFunc") || (p == "time" && n == "AfterFunc") ||
		strings.HasPrefix(p, "golang.org/x/net/websocket")
}

// ---------------------------------------------------------------------------------------------- per function

func (a *analysis) callees(site ssa.CallInstruction, fn *ssa.Function) []*ssa.Function {
	var out []*ssa.Function
	if n := a.cg.Nodes[fn]; n != nil {
		for _, e := range n.Out {
			if e.Site == site {
				out = append(out, e.Callee.Func)
			}
		}
	}
	if len(out) == 0 {
		if f := site.Common().StaticCallee(); f != nil {
			out = append(out, f)
		}
	}
	return out
}

func (a *analysis) analyseFunc(fn *ssa.Function) {
	if len(fn.Blocks) == 0 {
		return
	}
	a.cur = fn
	in := make([]*state, len(fn.Blocks))
	in[0] = &state{must: map[lockInst]bool{}, may: map[lockInst]bool{}}
	work := []*ssa.BasicBlock{fn.Blocks[0]}
	inWork := map[int]bool{0: true}
	for len(work) > 0 {
		b := work[0]
		work = work[1:]
		inWork[b.Index] = false
		st := in[b.Index].clone()
		for _, ins := range b.Instrs {
			a.transfer(fn, ins, st, false)
		}
		for _, s := range b.Succs {
			ns, ch := join(in[s.Index], st)
			in[s.Index] = ns
			if ch && !inWork[s.Index] {
				work = append(work, s)
				inWork[s.Index] = true
			}
		}
	}
	// recording pass
	for _, b := range fn.Blocks {
		if in[b.Index] == nil {
			continue // unreachable block
		}
		st := in[b.Index].clone()
		for _, ins := range b.Instrs {
			a.transfer(fn, ins, st, true)
		}
	}
}

func (a *analysis) transfer(fn *ssa.Function, ins ssa.Instruction, st *state, record bool) {
	switch x := ins.(type) {
	case *ssa.Call:
		a.doCall(fn, x, "call", st, record)
	case *ssa.Defer:
		op := syncOp(x.Common())
		if op == "unlock" || op == "runlock" {
			return // held until the function returns
		}
		a.doCall(fn, x, "defer", st, record)
	case *ssa.Go:
		a.doCall(fn, x, "go", st, record)
	case *ssa.Send:
		if record {
			a.sends = append(a.sends, sendEv{fn: fn, pos: x.Pos(), ch: a.chanOf(x.Chan), may: classesOfMay(st.may), what: "send"})
		}
	case *ssa.Select:
		if record && x.Blocking {
			for _, s := range x.States {
				if s.Dir == types.SendOnly {
					a.sends = append(a.sends, sendEv{fn: fn, pos: s.Pos, ch: a.chanOf(s.Chan), may: classesOfMay(st.may), what: "select-send"})
				}
			}
		}
	case *ssa.FieldAddr:
		if record {
			a.doFieldAddr(fn, x, st)
		}
	case *ssa.UnOp:
		// a whole-struct load through a pointer that is not a fresh local: reads every field
		if record && x.Op == token.MUL {
			if n := namedOf(x.X.Type()); n != nil && n.Obj().Pkg() != nil && accessPkg(n.Obj().Pkg().Path()) {
				if st2, ptr := derefStruct(x.X.Type()); st2 != nil && ptr {
					if _, isAlloc := x.X.(*ssa.Alloc); !isAlloc && accessPkg(fnPkgPath(fn)) {
						for i := 0; i < st2.NumFields(); i++ {
							if isSyncType(st2.Field(i).Type()) {
								continue
							}
							a.accesses = append(a.accesses, accessEv{fn: fn, pos: x.Pos(), strct: structName(n), field: st2.Field(i).Name(),
								note: "whole-struct load", base: canon(x.X), local: copyMust(st.must), baseTyp: n})
						}
					}
				}
			}
		}
	}
}

func copyMust(m map[lockInst]bool) map[lockInst]bool {
	n := map[lockInst]bool{}
	for k, v := range m {
		n[k] = v
	}
	return n
}

func (a *analysis) chanOf(v ssa.Value) string {
	switch x := v.(type) {
	case *ssa.UnOp:
		if fa, ok := x.X.(*ssa.FieldAddr); ok && x.Op == token.MUL {
			n := namedOf(fa.X.Type())
			st, _ := derefStruct(fa.X.Type())
			if st != nil {
				return structName(n) + "." + st.Field(fa.Field).Name()
			}
		}
	case *ssa.Field:
		n := namedOf(x.X.Type())
		if st, ok := x.X.Type().Underlying().(*types.Struct); ok {
			return structName(n) + "." + st.Field(x.Field).Name()
		}
	case *ssa.ChangeType:
		return a.chanOf(x.X)
	}
	return "?chan@" + a.posStr(v.Pos())
}

func (a *analysis) doCall(fn *ssa.Function, site ssa.CallInstruction, kind string, st *state, record bool) {
	c := site.Common()
	op := syncOp(c)
	switch op {
	case "lock", "rlock":
		if kind != "call" {
			if record {
				a.unres("lock acquired in a "+kind+" statement at "+a.posStr(site.Pos()))
			}
			return
		}
		li := a.lockOf(c.Args[0], site.Pos())
		if record {
			a.locks = append(a.locks, lockEv{fn: fn, pos: site.Pos(), class: li.class, may: classesOfMay(st.may)})
		}
		st.must[li] = op == "lock"
		st.may[li] = true
		return
	case "unlock", "runlock":
		li := a.lockOf(c.Args[0], site.Pos())
		for k := range st.must {
			if k.class == li.class {
				delete(st.must, k)
			}
		}
		delete(st.may, li)
		return
	case "trylock":
		if record {
			a.unres("TryLock at "+a.posStr(site.Pos()))
		}
		return
	case "once":
		li := a.lockOf(c.Args[0], site.Pos())
		if record {
			a.locks = append(a.locks, lockEv{fn: fn, pos: site.Pos(), class: li.class, may: classesOfMay(st.may)})
			tg := funcTargets(c.Args[1])
			if len(tg) == 0 {
				a.unres("sync.Once.Do argument not a function literal or method value at "+a.posStr(site.Pos()))
			}
			must := classesOfMust(st.must)
			may := classesOfMay(st.may)
			if kind == "go" {
				must, may = heldSet{}, map[string]bool{}
			}
			must[li.class] = true
			may[li.class] = true
			for _, g := range tg {
				a.calls = append(a.calls, callEv{caller: fn, callee: g, pos: site.Pos(), kind: "call", must: must, may: may})
			}
		}
		return
	}
	if !record {
		return
	}
	must := classesOfMust(st.must)
	may := classesOfMay(st.may)
	switch kind {
	case "go":
		must, may = heldSet{}, map[string]bool{}
	case "defer":
		must = heldSet{} // runs at function exit: locally acquired locks may have been released
	}
	cs := a.callees(site, fn)
	anyTracked := false
	for _, g := range cs {
		if tracked(g) {
			anyTracked = true
			a.calls = append(a.calls, callEv{caller: fn, callee: g, pos: site.Pos(), kind: kind, must: must, may: may})
		}
	}
	// function values handed to code outside the tracked packages
	if !anyTracked {
		var ext *ssa.Function
		if len(cs) > 0 {
			ext = cs[0]
		}
		for _, arg := range c.Args {
			for _, g := range funcTargets(arg) {
				if !tracked(g) {
					continue
				}
				if asyncAPI(ext) || kind == "go" {
					a.rootsIn[fn] = append(a.rootsIn[fn], rootEv{g, "entry:" + fname(g)})
				} else {
					a.calls = append(a.calls, callEv{caller: fn, callee: g, pos: site.Pos(), kind: "callback", must: heldSet{}, may: may})
				}
			}
		}
	}
}

// classify a field address by its uses
func (a *analysis) doFieldAddr(fn *ssa.Function, fa *ssa.FieldAddr, st *state) {
	if !accessPkg(fnPkgPath(fn)) {
		return
	}
	n := namedOf(fa.X.Type())
	if n == nil || n.Obj().Pkg() == nil || !accessPkg(n.Obj().Pkg().Path()) {
		return
	}
	sty, _ := derefStruct(fa.X.Type())
	if sty == nil {
		return
	}
	fld := sty.Field(fa.Field)
	if isSyncType(fld.Type()) {
		return // the mutex / once / waitgroup itself
	}
	rd, wr, notes := a.usesOf(fa, fld.Type(), 0)
	ctor := false
	if al, ok := fa.X.(*ssa.Alloc); ok {
		ctor = privateAlloc(al) || (wr && !rd && freshUntil(al, fa))
	}
	mk := func(write bool, note string) {
		a.accesses = append(a.accesses, accessEv{fn: fn, pos: fa.Pos(), strct: structName(n), field: fld.Name(), write: write,
			ctor: ctor, note: note, base: canon(fa.X), local: copyMust(st.must), baseTyp: n})
	}
	if rd {
		mk(false, "")
	}
	if wr {
		mk(true, strings.Join(notes, ","))
	}
}

// freshFromCtor: the object whose field is written is the result of a call, in the same function, of the constructor of
// its struct type (a function New<Struct> of the struct's package), and no call, go or defer that is given the object
// precedes the write in the source
func freshFromCtor(ev accessEv) bool {
	call, ok := ev.base.(*ssa.Call)
	if !ok || call.Parent() != ev.fn {
		return false
	}
	callee := call.Call.StaticCallee()
	if callee == nil || ev.baseTyp == nil || callee.Pkg == nil || ev.baseTyp.Obj().Pkg() == nil {
		return false
	}
	if callee.Name() != "New"+ev.baseTyp.Obj().Name() || callee.Pkg.Pkg.Path() != ev.baseTyp.Obj().Pkg().Path() {
		return false
	}
	refs := call.Referrers()
	if refs == nil {
		return false
	}
	for _, r := range *refs {
		var args []ssa.Value
		switch x := r.(type) {
		case *ssa.Call:
			args = x.Call.Args
		case *ssa.Go:
			args = x.Call.Args
		case *ssa.Defer:
			args = x.Call.Args
		case *ssa.Store:
			if x.Val == ssa.Value(call) && x.Pos() < ev.pos {
				return false // stored somewhere before the write
			}
			continue
		default:
			continue
		}
		for _, a := range args {
			if a == ssa.Value(call) && r.Pos() < ev.pos {
				return false
			}
		}
	}
	return true
}

// an allocation that never leaves the function except by being returned (or copied as a whole value): every access
// to it inside the function is to a private object
func privateAlloc(al *ssa.Alloc) bool {
	refs := al.Referrers()
	if refs == nil {
		return false
	}
	for _, r := range *refs {
		switch x := r.(type) {
		case *ssa.FieldAddr, *ssa.DebugRef, *ssa.Return:
		case *ssa.UnOp:
			if x.Op != token.MUL {
				return false
			}
		case *ssa.Store:
			if x.Addr != ssa.Value(al) {
				return false // the pointer itself is stored somewhere
			}
		default:
			return false
		}
	}
	return true
}

// is the allocation still private to the function when the field store through fa happens?
// (composite literals: Alloc, then FieldAddr/Store pairs, in one basic block, before any other use)
func freshUntil(al *ssa.Alloc, fa *ssa.FieldAddr) bool {
	if al.Block() != fa.Block() {
		return false
	}
	seen := false
	for _, ins := range al.Block().Instrs {
		if ins == ssa.Instruction(al) {
			seen = true
			continue
		}
		if !seen {
			continue
		}
		if ins == ssa.Instruction(fa) {
			return true
		}
		for _, op := range ins.Operands(nil) {
			if *op == ssa.Value(al) {
				if _, ok := ins.(*ssa.FieldAddr); !ok {
					return false
				}
			}
		}
	}
	return false
}

// how the address v (of a field, or of a part of it) is used: read / write
func (a *analysis) usesOf(v ssa.Value, ft types.Type, depth int) (rd, wr bool, notes []string) {
	refs := v.Referrers()
	if refs == nil || depth > 6 {
		return true, true, []string{"unknown-use"}
	}
	for _, r := range *refs {
		switch x := r.(type) {
		case *ssa.Store:
			if x.Addr == v {
				wr = true
				notes = append(notes, "store")
			} else {
				wr = true // the address itself is stored somewhere: escapes
				notes = append(notes, "address-escapes")
			}
		case *ssa.UnOp:
			if x.Op == token.MUL {
				rd = true
				w, ns := a.contentWrites(x, 0)
				if w {
					wr = true
					notes = append(notes, ns...)
				}
			}
		case *ssa.FieldAddr:
			r2, w2, n2 := a.usesOf(x, nil, depth+1)
			rd, wr = rd || r2, wr || w2
			notes = append(notes, n2...)
		case *ssa.IndexAddr:
			r2, w2, n2 := a.usesOf(x, nil, depth+1)
			rd, wr = rd || r2, wr || w2
			notes = append(notes, n2...)
		case ssa.CallInstruction:
			c := x.Common()
			if !c.IsInvoke() && len(c.Args) > 0 && c.Args[0] == v && c.Signature().Recv() != nil {
				// &x.f is the receiver of a method call: the sub-object is accessed through its own methods
				if _, isStruct := derefElem(v.Type()).Underlying().(*types.Struct); isStruct {
					continue
				}
				wr = true
				notes = append(notes, "pointer-method-on-non-struct")
				continue
			}
			wr = true
			notes = append(notes, "address-passed")
		case *ssa.DebugRef:
		default:
			wr = true
			notes = append(notes, fmt.Sprintf("address-used-by-%T", r))
		}
	}
	return
}

func derefElem(t types.Type) types.Type {
	if p, ok := t.Underlying().(*types.Pointer); ok {
		return p.Elem()
	}
	return t
}

// does a loaded map / slice value get its content modified?
func (a *analysis) contentWrites(ld ssa.Value, depth int) (bool, []string) {
	refs := ld.Referrers()
	if refs == nil || depth > 4 {
		return false, nil
	}
	var notes []string
	w := false
	for _, r := range *refs {
		switch x := r.(type) {
		case *ssa.MapUpdate:
			if x.Map == ld {
				w = true
				notes = append(notes, "map-update")
			}
		case *ssa.Call:
			if b, ok := x.Call.Value.(*ssa.Builtin); ok && (b.Name() == "delete" || b.Name() == "clear") && len(x.Call.Args) > 0 && x.Call.Args[0] == ld {
				w = true
				notes = append(notes, "map-"+b.Name())
			}
		case *ssa.IndexAddr:
			if x.X == ld {
				if rr := x.Referrers(); rr != nil {
					for _, r2 := range *rr {
						if s, ok := r2.(*ssa.Store); ok && s.Addr == ssa.Value(x) {
							w = true
							notes = append(notes, "slice-element-store")
						}
					}
				}
			}
		case *ssa.Slice:
			if x.X == ld {
				w2, n2 := a.contentWrites(x, depth+1)
				w = w || w2
				notes = append(notes, n2...)
			}
		}
	}
	return w, notes
}

// ---------------------------------------------------------------------------------------------- whitelist

type wlEntry struct {
	kind, field, spec, why string
	used                   bool
}

func readWhitelist(path string) ([]*wlEntry, error) {
	f, err := os.Open(path)
	if err != nil {
		return nil, err
	}
	defer f.Close()
	var out []*wlEntry
	sc := bufio.NewScanner(f)
	ln := 0
	for sc.Scan() {
		ln++
		line := strings.TrimSpace(sc.Text())
		if line == "" || strings.HasPrefix(line, "#") {
			continue
		}
		why := ""
		if i := strings.Index(line, " # "); i >= 0 {
			why = strings.TrimSpace(line[i+3:])
			line = strings.TrimSpace(line[:i])
		}
		fs := strings.Fields(line)
		if len(fs) < 2 || why == "" || len(why) < 10 {
			return nil, fmt.Errorf("%s:%d: want `<kind> <field> [<spec>] # justification`", path, ln)
		}
		e := &wlEntry{kind: fs[0], field: fs[1], why: why}
		if len(fs) > 2 {
			e.spec = strings.Join(fs[2:], " ")
		}
		switch e.kind {
		case "confined", "prepublish", "blockok", "valuetype":
		default:
			return nil, fmt.Errorf("%s:%d: unknown kind %q", path, ln, e.kind)
		}
		out = append(out, e)
	}
	return out, sc.Err()
}

// ---------------------------------------------------------------------------------------------- output model

type outAccess struct {
	Field   string          `json:"field"`
	Write   bool            `json:"write"`
	Exempt  string          `json:"exempt"` // "", ctor, confined, prepublish
	Held    map[string]bool `json:"held"`
	Func    string          `json:"func"`
	Pos     string          `json:"pos"`
	Threads []string        `json:"threads"`
	Note    string          `json:"note,omitempty"`
}

type outEdge struct {
	From string `json:"from"`
	To   string `json:"to"`
	Site string `json:"site"`
	Via  string `json:"via"`
}

type outBlock struct {
	Held string `json:"held"`
	Chan string `json:"chan"`
	Site string `json:"site"`
	Via  string `json:"via"`
}

type output struct {
	OK         bool        `json:"ok"`
	Error      string      `json:"error,omitempty"`
	Accesses   []outAccess `json:"accesses"`
	Edges      []outEdge   `json:"edges"`
	Blocking   []outBlock  `json:"blocking"`
	Unresolved []string    `json:"unresolved"`
	Whitelist  []string    `json:"whitelist_used"`
	Unused     []string    `json:"whitelist_unused"`
	Threads    []string    `json:"threads"`
	Funcs      int         `json:"functions_analysed"`
	LockSites  int         `json:"lock_sites"`
	BlockOK    []string    `json:"blockok"`
	Sites      []outSite   `json:"sites"`
}

// a lock acquisition site and the lock class the analysis gives it (for the cross-validation against the
// lock-order pairs observed on the instrumented real code)
type outSite struct {
	Pos   string `json:"pos"`
	Class string `json:"class"`
	Func  string `json:"func"`
}

func main() {
	if len(os.Args) != 5 {
		fmt.Fprintln(os.Stderr, "usage: locktables <repo> <confined.txt> <GenLocks.v> <locktables.json>")
		os.Exit(2)
	}
	repo, wlPath, outV, outJ := os.Args[1], os.Args[2], os.Args[3], os.Args[4]
	out := run(repo, wlPath)
	js, _ := json.MarshalIndent(out, "", " ")
	writeIfChanged(outJ, string(js))
	writeIfChanged(outV, coq(out))
	fmt.Printf("locktables: ok=%v accesses=%d edges=%d blocking=%d unresolved=%d functions=%d\n",
		out.OK, len(out.Accesses), len(out.Edges), len(out.Blocking), len(out.Unresolved), out.Funcs)
	if out.Error != "" {
		fmt.Println("locktables: " + out.Error)
	}
}

func writeIfChanged(path, s string) {
	if old, err := os.ReadFile(path); err == nil && string(old) == s {
		return
	}
	tmp := path + ".tmp"
	if err := os.WriteFile(tmp, []byte(s), 0o644); err != nil {
		fmt.Fprintln(os.Stderr, err)
		os.Exit(2)
	}
	if err := os.Rename(tmp, path); err != nil {
		fmt.Fprintln(os.Stderr, err)
		os.Exit(2)
	}
}

func failed(msg string) *output {
	return &output{OK: false, Error: msg, Unresolved: []string{msg}}
}

func run(repo, wlPath string) *output {
	wl, err := readWhitelist(wlPath)
	if err != nil {
		return failed("whitelist: " + err.Error())
	}
	abs, _ := filepath.Abs(repo)
	if r, err := filepath.EvalSymlinks(abs); err == nil {
		abs = r
	}
	cfg := &packages.Config{Mode: packages.LoadAllSyntax, Dir: abs, Tests: false}
	pkgs, err := packages.Load(cfg, hagall+"/cmd")
	if err != nil {
		return failed("load: " + err.Error())
	}
	var errs []string
	packages.Visit(pkgs, nil, func(p *packages.Package) {
		if trackedPkg(p.PkgPath) {
			for _, e := range p.Errors {
				errs = append(errs, e.Error())
			}
		}
	})
	if len(errs) > 0 {
		return failed("the repository does not compile: " + strings.Join(errs, "; "))
	}
	if len(pkgs) != 1 || pkgs[0].Types == nil {
		return failed("package cmd not loaded")
	}
	prog, _ := ssautil.AllPackages(pkgs, ssa.InstantiateGenerics)
	prog.Build()
	fns := ssautil.AllFunctions(prog)
	cg := vta.CallGraph(fns, cha.CallGraph(prog))
	a := &analysis{prog: prog, cg: cg, fset: prog.Fset, repo: abs, rootsIn: map[*ssa.Function][]rootEv{}, unresolvedIn: map[*ssa.Function][]string{}}

	var tfns []*ssa.Function
	for f := range fns {
		if tracked(f) {
			tfns = append(tfns, f)
		}
	}
	sort.Slice(tfns, func(i, j int) bool { return tfns[i].String() < tfns[j].String() })
	for _, f := range tfns {
		a.analyseFunc(f)
	}
	return a.tables(tfns, wl)
}

// ---------------------------------------------------------------------------------------------- interprocedural

func (a *analysis) tables(tfns []*ssa.Function, wl []*wlEntry) *output {
	out := &output{OK: true, Funcs: len(tfns), LockSites: len(a.locks)}
	isT := map[*ssa.Function]bool{}
	for _, f := range tfns {
		isT[f] = true
	}
	inSites := map[*ssa.Function][]int{}
	outSites := map[*ssa.Function][]int{}
	for i, c := range a.calls {
		if !isT[c.callee] {
			continue
		}
		inSites[c.callee] = append(inSites[c.callee], i)
		outSites[c.caller] = append(outSites[c.caller], i)
	}
	// ---- thread roots
	var mainFn *ssa.Function
	rootLabel := map[*ssa.Function]string{}
	for _, f := range tfns {
		if f.Name() == "main" && fnPkgPath(f) == hagall+"/cmd" && f.Parent() == nil {
			mainFn = f
			rootLabel[f] = "main"
		}
	}
	if mainFn == nil {
		return failed("cmd.main not found")
	}
	connLabel := func(g *ssa.Function, l string) string {
		// the connection handler: a function of package cmd taking the *websocket.Conn
		if fnPkgPath(g) == hagall+"/cmd" && g.Signature.Params().Len() == 1 &&
			strings.HasSuffix(g.Signature.Params().At(0).Type().String(), "golang.org/x/net/websocket.Conn") {
			return "conn"
		}
		return l
	}
	// roots found in a function: go statements, function values handed to asynchronous foreign APIs, function values
	// stored into structures of foreign packages (e.g. websocket.Server{Handler: f})
	foundIn := func(f *ssa.Function) []rootEv {
		var rs []rootEv
		for _, r := range a.rootsIn[f] {
			rs = append(rs, rootEv{r.root, connLabel(r.root, r.label)})
		}
		for _, i := range outSites[f] {
			if c := a.calls[i]; c.kind == "go" {
				rs = append(rs, rootEv{c.callee, "go:" + fname(c.callee)})
			}
		}
		for _, b := range f.Blocks {
			for _, ins := range b.Instrs {
				st, ok := ins.(*ssa.Store)
				if !ok {
					continue
				}
				for _, g := range funcTargets(st.Val) {
					if !isT[g] {
						continue
					}
					if fa, ok := st.Addr.(*ssa.FieldAddr); ok {
						if n := namedOf(fa.X.Type()); n != nil && n.Obj().Pkg() != nil && !trackedPkg(n.Obj().Pkg().Path()) {
							rs = append(rs, rootEv{g, connLabel(g, "entry:"+fname(g))})
						}
					}
				}
			}
		}
		return rs
	}
	// ---- threads(f): labels of the roots f is reachable from through synchronous calls; roots are discovered
	// while walking, starting from main, so that only the production program is covered
	threads := map[*ssa.Function]map[string]bool{}
	pending := []*ssa.Function{mainFn}
	for len(pending) > 0 {
		r := pending[0]
		pending = pending[1:]
		l := rootLabel[r]
		seen := map[*ssa.Function]bool{r: true}
		stack := []*ssa.Function{r}
		for len(stack) > 0 {
			f := stack[len(stack)-1]
			stack = stack[:len(stack)-1]
			if threads[f] == nil {
				threads[f] = map[string]bool{}
				for _, nr := range foundIn(f) {
					if _, ok := rootLabel[nr.root]; !ok {
						rootLabel[nr.root] = nr.label
						pending = append(pending, nr.root)
					}
				}
			}
			threads[f][l] = true
			for _, i := range outSites[f] {
				c := a.calls[i]
				if c.kind == "go" || seen[c.callee] {
					continue
				}
				seen[c.callee] = true
				stack = append(stack, c.callee)
			}
		}
	}
	labelSet := map[string]bool{}
	for _, l := range rootLabel {
		labelSet[l] = true
	}
	for l := range labelSet {
		out.Threads = append(out.Threads, l)
	}
	sort.Strings(out.Threads)

	// ---- entryMay: least fixpoint, with a witness
	entryMay := map[*ssa.Function]map[string]string{}
	changed := true
	for changed {
		changed = false
		for _, c := range a.calls {
			if !isT[c.callee] || c.kind == "go" {
				continue
			}
			if threads[c.caller] == nil {
				continue // dead code
			}
			m := entryMay[c.callee]
			if m == nil {
				m = map[string]string{}
				entryMay[c.callee] = m
			}
			for l := range c.may {
				if _, ok := m[l]; !ok {
					m[l] = "held in " + fname(c.caller) + " at " + a.posStr(c.pos)
					changed = true
				}
			}
			for l, w := range entryMay[c.caller] {
				if _, ok := m[l]; !ok {
					m[l] = w
					changed = true
				}
			}
		}
	}
	// ---- entryMust: greatest fixpoint over reachable functions
	type mustT struct {
		top bool
		h   heldSet
	}
	entryMust := map[*ssa.Function]*mustT{}
	for _, f := range tfns {
		if threads[f] == nil {
			continue
		}
		if _, isRoot := rootLabel[f]; isRoot {
			entryMust[f] = &mustT{h: heldSet{}}
		} else {
			entryMust[f] = &mustT{top: true}
		}
	}
	meet := func(x *mustT, h heldSet) bool {
		if x.top {
			x.top = false
			x.h = heldSet{}
			for k, v := range h {
				x.h[k] = v
			}
			return true
		}
		ch := false
		for k, ex := range x.h {
			oex, ok := h[k]
			if !ok {
				delete(x.h, k)
				ch = true
			} else if ex && !oex {
				x.h[k] = false
				ch = true
			}
		}
		return ch
	}
	for iter := 0; iter < 10000; iter++ {
		changed = false
		for _, f := range tfns {
			x := entryMust[f]
			if x == nil {
				continue
			}
			if _, isRoot := rootLabel[f]; isRoot {
				continue
			}
			nx := &mustT{top: true}
			for _, i := range inSites[f] {
				c := a.calls[i]
				cm := entryMust[c.caller]
				if cm == nil {
					continue // caller is dead code
				}
				if c.kind == "go" {
					meet(nx, heldSet{})
					continue
				}
				if cm.top {
					continue // not yet known: optimistic
				}
				h := heldSet{}
				for k, v := range cm.h {
					h[k] = v
				}
				for k, v := range c.must {
					h[k] = h[k] || v
				}
				meet(nx, h)
			}
			if nx.top != x.top || !sameHeld(nx.h, x.h) {
				// monotone descent only
				if x.top {
					entryMust[f] = nx
					changed = changed || !nx.top
				} else if !nx.top {
					if meet(x, nx.h) {
						changed = true
					}
				}
			}
		}
		if !changed {
			break
		}
	}

	// ---- whitelist lookup
	wlBy := map[string][]*wlEntry{}
	for _, e := range wl {
		wlBy[e.kind+" "+e.field] = append(wlBy[e.kind+" "+e.field], e)
	}

	// ---- accesses
	valuetypes := map[string]*wlEntry{}
	for _, e := range wl {
		if e.kind == "valuetype" {
			valuetypes[e.field] = e
		}
	}
	for _, ev := range a.accesses {
		if threads[ev.fn] == nil {
			continue // not reachable from main / a goroutine / an entry point of the production program
		}
		if e := valuetypes[ev.strct]; e != nil {
			e.used = true
			continue
		}
		held := map[string]bool{}
		if em := entryMust[ev.fn]; em != nil && !em.top {
			for k, v := range em.h {
				held[k] = v
			}
		}
		for li, ex := range ev.local {
			if strings.HasPrefix(li.class, "?") {
				continue
			}
			// a lock that is a field of the same struct type as the accessed object only counts when it was
			// taken on the same object
			if ln := namedOf(typeOrNil(li.base)); ln != nil && ev.baseTyp != nil && types.Identical(ln, ev.baseTyp) && li.base != ev.base {
				continue
			}
			held[li.class] = held[li.class] || ex
		}
		var th []string
		for l := range threads[ev.fn] {
			th = append(th, l)
		}
		sort.Strings(th)
		field := ev.strct + "." + ev.field
		ex := ""
		if ev.ctor {
			ex = "ctor"
		}
		if ex == "" {
			for _, e := range wlBy["confined "+field] {
				if len(th) == 1 && th[0] == e.spec {
					ex = "confined"
					e.used = true
				}
			}
		}
		if ex == "" && ev.write {
			for _, e := range wlBy["prepublish "+field] {
				for _, w := range strings.Fields(e.spec) {
					if w == fname(ev.fn) {
						ex = "prepublish"
						e.used = true
					}
				}
			}
			// the same exemption for a write that moved to another function (a helper was extracted), when it is
			// structurally what the entry justifies: the object written is the result of its constructor (New<Struct>)
			// called in this very function, and the write comes before the object is handed to anything
			if ex == "" && len(wlBy["prepublish "+field]) > 0 && freshFromCtor(ev) {
				ex = "prepublish"
				for _, e := range wlBy["prepublish "+field] {
					e.used = true
				}
			}
		}
		out.Accesses = append(out.Accesses, outAccess{Field: field, Write: ev.write, Exempt: ex, Held: held, Func: fname(ev.fn),
			Pos: a.posStr(ev.pos), Threads: th, Note: ev.note})
	}
	sort.SliceStable(out.Accesses, func(i, j int) bool {
		x, y := out.Accesses[i], out.Accesses[j]
		if x.Field != y.Field {
			return x.Field < y.Field
		}
		if x.Pos != y.Pos {
			return x.Pos < y.Pos
		}
		return !x.Write && y.Write
	})

	seenS := map[string]bool{}
	for _, l := range a.locks {
		k := a.posStr(l.pos) + "|" + l.class
		if !seenS[k] {
			seenS[k] = true
			out.Sites = append(out.Sites, outSite{Pos: a.posStr(l.pos), Class: l.class, Func: fname(l.fn)})
		}
	}
	sort.Slice(out.Sites, func(i, j int) bool {
		if out.Sites[i].Pos != out.Sites[j].Pos {
			return out.Sites[i].Pos < out.Sites[j].Pos
		}
		return out.Sites[i].Class < out.Sites[j].Class
	})
	// ---- edges
	seenE := map[string]bool{}
	for _, l := range a.locks {
		if threads[l.fn] == nil {
			continue
		}
		add := func(from, via string) {
			k := from + "->" + l.class
			if seenE[k] {
				return
			}
			seenE[k] = true
			out.Edges = append(out.Edges, outEdge{From: from, To: l.class, Site: fname(l.fn) + " " + a.posStr(l.pos), Via: via})
		}
		for h := range l.may {
			add(h, "held in the same function")
		}
		for h, w := range entryMay[l.fn] {
			add(h, w)
		}
	}
	sort.Slice(out.Edges, func(i, j int) bool {
		if out.Edges[i].From != out.Edges[j].From {
			return out.Edges[i].From < out.Edges[j].From
		}
		return out.Edges[i].To < out.Edges[j].To
	})
	// ---- blocking under lock
	seenB := map[string]bool{}
	for _, s := range a.sends {
		if threads[s.fn] == nil {
			continue
		}
		add := func(h, via string) {
			k := h + "|" + s.ch
			if seenB[k] {
				return
			}
			seenB[k] = true
			out.Blocking = append(out.Blocking, outBlock{Held: h, Chan: s.ch, Site: fname(s.fn) + " " + a.posStr(s.pos), Via: via})
		}
		for h := range s.may {
			add(h, "held in the same function")
		}
		for h, w := range entryMay[s.fn] {
			add(h, w)
		}
	}
	sort.Slice(out.Blocking, func(i, j int) bool {
		if out.Blocking[i].Held != out.Blocking[j].Held {
			return out.Blocking[i].Held < out.Blocking[j].Held
		}
		return out.Blocking[i].Chan < out.Blocking[j].Chan
	})
	for _, e := range wl {
		if e.kind == "blockok" {
			out.BlockOK = append(out.BlockOK, e.field)
			for _, b := range out.Blocking {
				if b.Chan == e.field {
					e.used = true
				}
			}
		}
		s := e.kind + " " + e.field + " " + e.spec
		if e.used {
			out.Whitelist = append(out.Whitelist, s)
		} else {
			out.Unused = append(out.Unused, s)
		}
	}
	var unres []string
	for f, ms := range a.unresolvedIn {
		if threads[f] != nil {
			unres = append(unres, ms...)
		}
	}
	sort.Strings(unres)
	out.Unresolved = dedupe(unres)
	if len(out.Accesses) == 0 || len(a.locks) == 0 {
		out.OK = false
		out.Error = "no accesses or no lock sites found: the expected source shape is gone"
		out.Unresolved = append(out.Unresolved, out.Error)
	}
	return out
}

func typeOrNil(v ssa.Value) types.Type {
	if v == nil {
		return types.Typ[types.Invalid]
	}
	return v.Type()
}

func sameHeld(a, b heldSet) bool {
	if len(a) != len(b) {
		return false
	}
	for k, v := range a {
		if w, ok := b[k]; !ok || v != w {
			return false
		}
	}
	return true
}

func dedupe(s []string) []string {
	var out []string
	for i, x := range s {
		if i == 0 || x != s[i-1] {
			out = append(out, x)
		}
	}
	return out
}

// ---------------------------------------------------------------------------------------------- Coq

func coq(o *output) string {
	var b strings.Builder
	b.WriteString("(* GenLocks.v — GENERATED by tools/locktables from the current Go sources. Do not edit. *)\n")
	b.WriteString("From Coq Require Import NArith List String.\nFrom hagall Require Import Locks.\nImport ListNotations.\nOpen Scope N_scope.\nOpen Scope string_scope.\n\n")
	if !o.OK {
		fmt.Fprintf(&b, "(* translator failure: %s *)\n", strings.ReplaceAll(o.Error, "*)", "* )"))
		b.WriteString("Definition translator_ok : bool := false.\n")
		b.WriteString("Definition unresolved : list string := [\"translator failure\"].\n")
		b.WriteString("Definition lock_names : list (N * string) := [].\nDefinition field_names : list (N * string) := [].\nDefinition site_names : list (N * string) := [].\n")
		b.WriteString("Definition accesses : list access := [mkAccess 0 true false [] 0].\n")
		b.WriteString("Definition lock_edges : list edge := [mkEdge 0 0 0].\n")
		b.WriteString("Definition blocking_under_lock : list blocking := [mkBlocking 0 0 0].\n")
		b.WriteString("Definition allowed_blocking_channels : list N := [].\n")
		return b.String()
	}
	locks := map[string]int{}
	fields := map[string]int{}
	sites := map[string]int{}
	intern := func(m map[string]int, order *[]string, s string) int {
		if i, ok := m[s]; ok {
			return i
		}
		m[s] = len(*order) + 1
		*order = append(*order, s)
		return m[s]
	}
	var lockO, fieldO, siteO []string
	// stable numbering: sorted names
	var ln, fnm []string
	lset, fset := map[string]bool{}, map[string]bool{}
	for _, a := range o.Accesses {
		fset[a.Field] = true
		for l := range a.Held {
			lset[l] = true
		}
	}
	for _, e := range o.Edges {
		lset[e.From], lset[e.To] = true, true
	}
	for _, bl := range o.Blocking {
		lset[bl.Held] = true
		fset[bl.Chan] = true
	}
	for _, c := range o.BlockOK {
		fset[c] = true
	}
	for l := range lset {
		ln = append(ln, l)
	}
	for f := range fset {
		fnm = append(fnm, f)
	}
	sort.Strings(ln)
	sort.Strings(fnm)
	for _, l := range ln {
		intern(locks, &lockO, l)
	}
	for _, f := range fnm {
		intern(fields, &fieldO, f)
	}
	q := func(s string) string { return "\"" + strings.ReplaceAll(s, "\"", "'") + "\"" }
	cm := func(s string) string { // text safe inside a Coq comment
		return strings.ReplaceAll(strings.ReplaceAll(strings.ReplaceAll(s, "(*", "(ptr "), "*)", "* )"), "\"", "'")
	}
	names := func(name string, order []string) {
		fmt.Fprintf(&b, "Definition %s : list (N * string) := [\n", name)
		for i, s := range order {
			sep := ";"
			if i == len(order)-1 {
				sep = ""
			}
			fmt.Fprintf(&b, "  (%d, %s)%s\n", i+1, q(s), sep)
		}
		b.WriteString("].\n\n")
	}
	// accesses, de-duplicated on what the checker looks at
	type row struct {
		s    string
		site string
	}
	var rows []string
	seen := map[string]bool{}
	for _, a := range o.Accesses {
		var hs []string
		var hk []string
		for l := range a.Held {
			hk = append(hk, l)
		}
		sort.Strings(hk)
		for _, l := range hk {
			hs = append(hs, fmt.Sprintf("(%d, %v)", locks[l], a.Held[l]))
		}
		key := fmt.Sprintf("%d %v %v [%s]", fields[a.Field], a.Write, a.Exempt != "", strings.Join(hs, "; "))
		if seen[key] {
			continue
		}
		seen[key] = true
		site := intern(sites, &siteO, a.Func+" "+a.Pos)
		rw := "read "
		if a.Write {
			rw = "write"
		}
		rows = append(rows, fmt.Sprintf("  mkAccess %d %v %v [%s] %d (* %s %s %s %s %s *)", fields[a.Field], a.Write, a.Exempt != "",
			strings.Join(hs, "; "), site, rw, a.Field, a.Exempt, cm(a.Func), a.Pos))
	}
	var erows []string
	for _, e := range o.Edges {
		site := intern(sites, &siteO, e.Site+" ["+e.Via+"]")
		erows = append(erows, fmt.Sprintf("  mkEdge %d %d %d (* %s -> %s at %s; %s *)", locks[e.From], locks[e.To], site, e.From, e.To, cm(e.Site), cm(e.Via)))
	}
	var brows []string
	for _, bl := range o.Blocking {
		site := intern(sites, &siteO, bl.Site+" ["+bl.Via+"]")
		brows = append(brows, fmt.Sprintf("  mkBlocking %d %d %d (* send on %s holding %s at %s; %s *)", locks[bl.Held], fields[bl.Chan], site, bl.Chan, bl.Held, cm(bl.Site), cm(bl.Via)))
	}
	b.WriteString("Definition translator_ok : bool := true.\n\n")
	fmt.Fprintf(&b, "Definition unresolved : list string := [")
	for i, u := range o.Unresolved {
		if i > 0 {
			b.WriteString("; ")
		}
		b.WriteString(q(u))
	}
	b.WriteString("].\n\n")
	names("lock_names", lockO)
	names("field_names", fieldO)
	list := func(name, typ string, rows []string) {
		fmt.Fprintf(&b, "Definition %s : list %s := [\n", name, typ)
		for i, r := range rows {
			// the separator must precede the comment
			if i < len(rows)-1 {
				j := strings.Index(r, " (*")
				r = r[:j] + ";" + r[j:]
			}
			b.WriteString(strings.ReplaceAll(r, "$", "_") + "\n")
		}
		b.WriteString("].\n\n")
	}
	list("accesses", "access", rows)
	list("lock_edges", "edge", erows)
	list("blocking_under_lock", "blocking", brows)
	fmt.Fprintf(&b, "Definition allowed_blocking_channels : list N := [")
	for i, c := range o.BlockOK {
		if i > 0 {
			b.WriteString("; ")
		}
		fmt.Fprintf(&b, "%d", fields[c])
	}
	b.WriteString("].\n\n")
	names("site_names", siteO)
	fmt.Fprintf(&b, "(* totals: %d access records (%d distinct for the checker), %d lock classes, %d fields, %d edges, %d blocking *)\n",
		len(o.Accesses), len(rows), len(lockO), len(fieldO), len(erows), len(brows))
	return b.String()
}

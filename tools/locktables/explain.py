#!/usr/bin/env python3
"""explain.py <locktables.json>: lists, per field, the pairs of accesses that the lockset check rejects
(the same predicate as Locks.lockset_consistent_b, evaluated in Python for diagnostics only)."""
import json, sys
from collections import defaultdict

def guards(a, l):
    return l in a["held"] and (a["held"][l] or not a["write"])

def failures(o):
    by = defaultdict(list)
    for a in o["accesses"]:
        by[a["field"]].append(a)
    out = {}
    for f, accs in sorted(by.items()):
        live = [a for a in accs if not a["exempt"]]
        bad = []
        for i, a in enumerate(live):
            for b in live[i:]:
                if not (a["write"] or b["write"]):
                    continue
                if any(guards(a, l) and guards(b, l) for l in a["held"]):
                    continue
                bad.append((a, b))
        if bad:
            out[f] = bad
    return out

def main():
    o = json.load(open(sys.argv[1]))
    fs = failures(o)
    for f, bad in fs.items():
        print("FIELD %s: %d conflicting pairs" % (f, len(bad)))
        seen = set()
        for a, b in bad:
            k = (a["func"], b["func"])
            if k in seen:
                continue
            seen.add(k)
            if len(seen) > 6 and "-v" not in sys.argv:
                print("   ..."); break
            print("   %s %s %s held=%s threads=%s  <->  %s %s %s held=%s threads=%s" % (
                "W" if a["write"] else "R", a["func"], a["pos"], sorted(a["held"].items()), a["threads"],
                "W" if b["write"] else "R", b["func"], b["pos"], sorted(b["held"].items()), b["threads"]))
    print("%d fields with conflicts" % len(fs))

if __name__ == "__main__":
    main()

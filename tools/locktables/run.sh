#!/bin/sh
# run.sh <repo> <coq dir>: regenerates <coq dir>/GenLocks.v (and work/c09/tables-<sha1(coq dir)[:8]>.json, the same
# tables with names and positions, for diagnostics) from the CURRENT Go sources under <repo>.  Exits non-zero only on an internal failure;
# a repository that does not compile or a shape it cannot classify gives tables on which the obligations fail.
set -e
REPO=${1:?repo}; COQ=${2:?coq dir}
HERE=$(cd "$(dirname "$0")" && pwd)
WORK=$(cd "$HERE/../.." && pwd)/work/c09
mkdir -p "$WORK" "$COQ"
export GOFLAGS=-mod=mod GOPROXY=off GOSUMDB=off GOTOOLCHAIN=local
BIN="$WORK/locktables"
# (re)build the tool when its sources changed
if [ ! -x "$BIN" ] || [ "$HERE/main.go" -nt "$BIN" ] || [ "$HERE/go.mod" -nt "$BIN" ]; then
  (cd "$HERE" && go build -o "$BIN" .)
fi
# cache key: every non-test Go source of the repository, its module files, the whitelist, the tool
KEY=$( (cd "$REPO" && find . -name '*.go' ! -name '*_test.go' -not -path './.git/*' -print0 | sort -z | xargs -0 sha1sum; sha1sum go.mod go.sum; sha1sum "$HERE/confined.txt" "$HERE/main.go") | sha1sum | cut -d' ' -f1)
TAG=$(printf '%s' "$COQ" | sha1sum | cut -c1-8)
JSON="$WORK/tables-$TAG.json"
if [ -f "$WORK/key-$TAG" ] && [ "$(cat "$WORK/key-$TAG")" = "$KEY" ] && [ -f "$COQ/GenLocks.v" ] && [ -f "$JSON" ] \
   && [ "$(sha1sum < "$COQ/GenLocks.v")" = "$(cat "$WORK/vsum-$TAG" 2>/dev/null)" ]; then
  echo "locktables: sources unchanged, tables up to date"
  exit 0
fi
rm -f "$WORK/key-$TAG"
"$BIN" "$REPO" "$HERE/confined.txt" "$COQ/GenLocks.v" "$JSON"
sha1sum < "$COQ/GenLocks.v" > "$WORK/vsum-$TAG"
printf '%s' "$KEY" > "$WORK/key-$TAG"

// translate: reads the current Go sources of the repository and prints coq/Gen.v — the
// syntactic facts the property files state obligations about.  Standard library only.
// Fails closed: a pattern that is not found is emitted as None / an empty list.
package main

import (
	"fmt"
	"go/ast"
	"go/parser"
	"go/token"
	"os"
	"path/filepath"
	"sort"
	"strconv"
	"strings"
)

var fset = token.NewFileSet()

func parseFile(path string) *ast.File {
	f, err := parser.ParseFile(fset, path, nil, parser.SkipObjectResolution)
	if err != nil {
		return nil
	}
	return f
}

func parseDir(dir string) []*ast.File {
	var out []*ast.File
	ents, _ := os.ReadDir(dir)
	for _, e := range ents {
		n := e.Name()
		if e.IsDir() || !strings.HasSuffix(n, ".go") || strings.HasSuffix(n, "_test.go") {
			continue
		}
		if f := parseFile(filepath.Join(dir, n)); f != nil {
			out = append(out, f)
		}
	}
	return out
}

func exprStr(e ast.Expr) string {
	switch x := e.(type) {
	case *ast.Ident:
		return x.Name
	case *ast.SelectorExpr:
		return exprStr(x.X) + "." + x.Sel.Name
	case *ast.BasicLit:
		return x.Value
	case *ast.CallExpr:
		return exprStr(x.Fun) + "()"
	case *ast.StarExpr:
		return "*" + exprStr(x.X)
	case *ast.ParenExpr:
		return exprStr(x.X)
	}
	return "?"
}

// message-type enum values from the generated protobuf code of hagall-common
func enumValues(pbdir string) map[string]int {
	out := map[string]int{}
	for _, sub := range []string{"hagallpb", "vikjapb", "odalpb", "dagazpb"} {
		for _, f := range parseDir(filepath.Join(pbdir, "messages", sub)) {
			for _, d := range f.Decls {
				gd, ok := d.(*ast.GenDecl)
				if !ok || gd.Tok != token.CONST {
					continue
				}
				for _, s := range gd.Specs {
					vs := s.(*ast.ValueSpec)
					for i, n := range vs.Names {
						if i < len(vs.Values) && strings.HasPrefix(n.Name, "MsgType_") {
							if bl, ok := vs.Values[i].(*ast.BasicLit); ok {
								if v, err := strconv.Atoi(bl.Value); err == nil {
									out[sub+"."+n.Name] = v
								}
							}
						}
					}
				}
			}
		}
	}
	return out
}

func coqStr(s string) string { return "\"" + strings.ReplaceAll(s, "\"", "\"\"") + "\"%string" }
func optN(v int, ok bool) string {
	if !ok {
		return "None"
	}
	return fmt.Sprintf("(Some %d%%N)", v)
}

func intConst(files []*ast.File, name string) (int, bool) {
	for _, f := range files {
		for _, d := range f.Decls {
			gd, ok := d.(*ast.GenDecl)
			if !ok || gd.Tok != token.CONST {
				continue
			}
			for _, s := range gd.Specs {
				vs := s.(*ast.ValueSpec)
				for i, n := range vs.Names {
					if n.Name == name && i < len(vs.Values) {
						return evalInt(vs.Values[i])
					}
				}
			}
		}
	}
	return 0, false
}

// integer constants declared as `const name = <expression evalInt understands>` in the files handed to collectIntConsts
var intConsts = map[string]ast.Expr{}

func collectIntConsts(files []*ast.File) {
	for _, f := range files {
		for _, d := range f.Decls {
			gd, ok := d.(*ast.GenDecl)
			if !ok || gd.Tok != token.CONST {
				continue
			}
			for _, sp := range gd.Specs {
				vs := sp.(*ast.ValueSpec)
				for i, nm := range vs.Names {
					if i < len(vs.Values) {
						intConsts[nm.Name] = vs.Values[i]
					}
				}
			}
		}
	}
}

func evalInt(e ast.Expr) (int, bool) {
	switch x := e.(type) {
	case *ast.Ident:
		if v, ok := intConsts[x.Name]; ok {
			delete(intConsts, x.Name) // no cycles
			r, ok2 := evalInt(v)
			intConsts[x.Name] = v
			return r, ok2
		}
		return 0, false
	case *ast.BasicLit:
		v, err := strconv.ParseInt(x.Value, 0, 64)
		return int(v), err == nil
	case *ast.ParenExpr:
		return evalInt(x.X)
	case *ast.BinaryExpr:
		a, ok1 := evalInt(x.X)
		b, ok2 := evalInt(x.Y)
		if !ok1 || !ok2 {
			return 0, false
		}
		switch x.Op {
		case token.MUL:
			return a * b, true
		case token.ADD:
			return a + b, true
		case token.SUB:
			return a - b, true
		case token.SHL:
			return a << uint(b), true
		}
	}
	return 0, false
}

func funcDecl(files []*ast.File, recv, name string) *ast.FuncDecl {
	for _, f := range files {
		for _, d := range f.Decls {
			fd, ok := d.(*ast.FuncDecl)
			if !ok || fd.Name.Name != name {
				continue
			}
			if recv == "" && fd.Recv == nil {
				return fd
			}
			if fd.Recv != nil && len(fd.Recv.List) == 1 && strings.TrimPrefix(exprStr(fd.Recv.List[0].Type), "*") == recv {
				return fd
			}
		}
	}
	return nil
}

// message type constants mentioned in composite literals `Type: pkg.MsgType_X` below n
func typesIn(n ast.Node) []string {
	var out []string
	ast.Inspect(n, func(x ast.Node) bool {
		kv, ok := x.(*ast.KeyValueExpr)
		if !ok {
			return true
		}
		if k, ok := kv.Key.(*ast.Ident); ok && k.Name == "Type" {
			s := exprStr(kv.Value)
			if strings.Contains(s, "MsgType_") {
				out = append(out, s)
			}
		}
		return true
	})
	return out
}

func main() {
	repo := os.Args[1]
	pbdir := ""
	if len(os.Args) > 2 {
		pbdir = os.Args[2]
	}
	enums := map[string]int{}
	if pbdir != "" {
		enums = enumValues(pbdir)
	}
	ws := parseDir(filepath.Join(repo, "websocket"))
	md := parseDir(filepath.Join(repo, "models"))
	ff := parseDir(filepath.Join(repo, "featureflag"))
	var all []*ast.File
	all = append(all, ws...)
	all = append(all, md...)
	for _, m := range []string{"vikja", "odal", "dagaz"} {
		all = append(all, parseDir(filepath.Join(repo, "modules", m))...)
	}

	fmt.Println("(* Gen.v — GENERATED by tools/translate from the Go sources on every run; do not edit. *)")
	fmt.Println("From Coq Require Import NArith List String.\nImport ListNotations.\nOpen Scope N_scope.\n")

	// ---- C14: the custom message limit and the comparison that enforces it
	lim, ok := intConst(ws, "customMessageMaxSize")
	fmt.Printf("Definition custom_message_max_size : option N := %s.\n", optN(lim, ok))
	strict := "None"
	if fd := funcDecl(ws, "RealtimeHandler", "HandleCustomMessage"); fd != nil {
		ast.Inspect(fd, func(x ast.Node) bool {
			be, ok := x.(*ast.BinaryExpr)
			if !ok {
				return true
			}
			l, r := exprStr(be.X), exprStr(be.Y)
			if strings.HasPrefix(l, "len()") && r == "customMessageMaxSize" {
				switch be.Op {
				case token.GTR:
					strict = "(Some true)"
				case token.GEQ:
					strict = "(Some false)"
				}
			}
			return true
		})
	}
	fmt.Printf("(* Some true: refused iff len(body) > limit; Some false: iff len(body) >= limit *)\nDefinition custom_limit_strict : option bool := %s.\n\n", strict)

	// ---- C18: iteration bounds of HandleSignedLatency: `x < lo || x > hi` (literals or named constants of the package)
	collectIntConsts(ws)
	lo, hi, okLo, okHi := 0, 0, false, false
	if fd := funcDecl(ws, "RealtimeHandler", "HandleSignedLatency"); fd != nil {
		ast.Inspect(fd, func(x ast.Node) bool {
			be, ok := x.(*ast.BinaryExpr)
			if !ok || !strings.HasSuffix(exprStr(be.X), "IterationCount") {
				return true
			}
			if v, ok := evalInt(be.Y); ok {
				switch be.Op {
				case token.LSS:
					lo, okLo = v, true
				case token.LEQ:
					lo, okLo = v+1, true
				case token.GTR:
					hi, okHi = v, true
				case token.GEQ:
					hi, okHi = v-1, true
				}
			}
			return true
		})
	}
	fmt.Printf("(* a measurement is refused iff iterations < lat_min_iter or > lat_max_iter *)\nDefinition lat_min_iter : option N := %s.\nDefinition lat_max_iter : option N := %s.\n\n", optN(lo, okLo), optN(hi, okHi))

	// ---- C17: flag names, and every IfNotSet site with the message types built inside it
	type flagc struct{ ident, val string }
	var flags []flagc
	for _, f := range ff {
		for _, d := range f.Decls {
			gd, ok := d.(*ast.GenDecl)
			if !ok || gd.Tok != token.CONST {
				continue
			}
			for _, s := range gd.Specs {
				vs := s.(*ast.ValueSpec)
				for i, n := range vs.Names {
					if i < len(vs.Values) {
						if bl, ok := vs.Values[i].(*ast.BasicLit); ok && bl.Kind == token.STRING {
							v, _ := strconv.Unquote(bl.Value)
							flags = append(flags, flagc{n.Name, v})
						}
					}
				}
			}
		}
	}
	fmt.Println("Definition flag_names : list (string * string) := [")
	for i, f := range flags {
		sep := ";"
		if i == len(flags)-1 {
			sep = ""
		}
		fmt.Printf("  (%s, %s)%s\n", coqStr(f.ident), coqStr(f.val), sep)
	}
	fmt.Println("].\n")

	// relay sites: (function, flag identifier or "" when unguarded, message type number)
	type site struct {
		fn, flag string
		ty       int
		known    bool
	}
	var sites []site
	// guard helpers: a function whose whole body is ONE call X.IfNotSet(<its own parameter>, func() { … }): calling it is
	// guarding all its other arguments by the flag passed for that parameter (name -> index of the flag parameter)
	guardHelpers := map[string]int{}
	for _, f := range all {
		for _, d := range f.Decls {
			fd, ok := d.(*ast.FuncDecl)
			if !ok || fd.Body == nil || len(fd.Body.List) != 1 || fd.Type.Params == nil {
				continue
			}
			es, ok := fd.Body.List[0].(*ast.ExprStmt)
			if !ok {
				continue
			}
			ce, ok := es.X.(*ast.CallExpr)
			if !ok || len(ce.Args) != 2 {
				continue
			}
			sel, ok := ce.Fun.(*ast.SelectorExpr)
			if !ok || sel.Sel.Name != "IfNotSet" {
				continue
			}
			id, ok := ce.Args[0].(*ast.Ident)
			if !ok {
				continue
			}
			if _, ok := ce.Args[1].(*ast.FuncLit); !ok {
				// … or the helper hands its own function parameter through: X.IfNotSet(flag, do)
				pid, isId := ce.Args[1].(*ast.Ident)
				isParam := false
				if isId {
					for _, fld := range fd.Type.Params.List {
						if _, isFn := fld.Type.(*ast.FuncType); isFn {
							for _, nm := range fld.Names {
								if nm.Name == pid.Name {
									isParam = true
								}
							}
						}
					}
				}
				if !isParam {
					continue
				}
			}
			idx := 0
			for _, fld := range fd.Type.Params.List {
				for _, nm := range fld.Names {
					if nm.Name == id.Name {
						guardHelpers[fd.Name.Name] = idx
					}
					idx++
				}
			}
		}
	}
	type fref struct{ callee, flag string }
	refs := map[string][]fref{}
	declared := map[string]int{} // function / method name -> number of declarations with that name
	for _, f := range all {
		for _, d := range f.Decls {
			if fd, ok := d.(*ast.FuncDecl); ok && fd.Body != nil {
				declared[fd.Name.Name]++
			}
		}
	}
	for _, f := range all {
		for _, d := range f.Decls {
			fd, ok := d.(*ast.FuncDecl)
			if !ok || fd.Body == nil {
				continue
			}
			if _, isHelper := guardHelpers[fd.Name.Name]; isHelper {
				continue // its body builds no message itself; what it guards is counted at its call sites
			}
			guarded := map[ast.Node]bool{}
			guardFlag := map[ast.Node]string{}
			ast.Inspect(fd.Body, func(x ast.Node) bool {
				ce, ok := x.(*ast.CallExpr)
				if !ok {
					return true
				}
				hn := ""
				switch fn := ce.Fun.(type) {
				case *ast.SelectorExpr:
					hn = fn.Sel.Name
				case *ast.Ident:
					hn = fn.Name
				}
				fi, isHelper := guardHelpers[hn]
				if !isHelper || fi >= len(ce.Args) {
					return true
				}
				flag := exprStr(ce.Args[fi])
				flag = flag[strings.LastIndex(flag, ".")+1:]
				for i, a := range ce.Args {
					if i == fi {
						continue
					}
					for _, t := range typesIn(a) {
						v, known := enums[t]
						sites = append(sites, site{fd.Name.Name, flag, v, known})
					}
					ast.Inspect(a, func(y ast.Node) bool {
						if y != nil {
							guarded[y] = true
							guardFlag[y] = flag
						}
						return true
					})
				}
				return true
			})
			ast.Inspect(fd.Body, func(x ast.Node) bool {
				ce, ok := x.(*ast.CallExpr)
				if !ok {
					return true
				}
				if sel, ok := ce.Fun.(*ast.SelectorExpr); ok && (sel.Sel.Name == "IfNotSet" || sel.Sel.Name == "IfSet") && len(ce.Args) == 2 {
					flag := exprStr(ce.Args[0])
					flag = flag[strings.LastIndex(flag, ".")+1:]
					if sel.Sel.Name == "IfSet" {
						flag = "IfSet:" + flag
					}
					for _, t := range typesIn(ce.Args[1]) {
						v, known := enums[t]
						sites = append(sites, site{fd.Name.Name, flag, v, known})
					}
					ast.Inspect(ce.Args[1], func(y ast.Node) bool {
						if y != nil {
							guarded[y] = true
							guardFlag[y] = flag
						}
						return true
					})
				}
				return true
			})
			// references to other functions of these packages (calls, method values, function values), with the flag
			// that guards the reference: what such a function builds is built on behalf of this one
			ast.Inspect(fd.Body, func(x ast.Node) bool {
				name := ""
				switch v := x.(type) {
				case *ast.SelectorExpr:
					name = v.Sel.Name
				case *ast.Ident:
					name = v.Name
				}
				if name != "" && name != fd.Name.Name && declared[name] == 1 {
					refs[fd.Name.Name] = append(refs[fd.Name.Name], fref{name, guardFlag[x]})
				}
				return true
			})
			// unguarded constructions of broadcast-class messages
			ast.Inspect(fd.Body, func(x ast.Node) bool {
				kv, ok := x.(*ast.KeyValueExpr)
				if !ok || guarded[x] {
					return true
				}
				if k, ok := kv.Key.(*ast.Ident); ok && k.Name == "Type" {
					s := exprStr(kv.Value)
					if strings.Contains(s, "MsgType_") && (strings.HasSuffix(s, "_BROADCAST") || strings.HasSuffix(s, "SESSION_STATE")) {
						v, known := enums[s]
						sites = append(sites, site{fd.Name.Name, "", v, known})
					}
				}
				return true
			})
		}
	}
	// A site in a helper is attributed to the entry points (Handle* / handle* / leaveSession) that reach the helper, under
	// the helper's own flag or else the flag that guards the reference: extracting a helper, or naming a closure, does not
	// change the table.  A helper no entry point reaches keeps its own name (the table changes: fail closed).
	isEntry := func(n string) bool {
		return n == "leaveSession" || (len(n) > 6 && (strings.HasPrefix(n, "Handle") || strings.HasPrefix(n, "handle")) && n[6] >= 'A' && n[6] <= 'Z')
	}
	own := map[string][]site{}
	for _, st := range sites {
		own[st.fn] = append(own[st.fn], st)
	}
	var attributed []site
	seenSite := map[string]bool{}
	reached := map[string]bool{}
	var walk func(entry, fn, guard string, depth int, path map[string]bool)
	walk = func(entry, fn, guard string, depth int, path map[string]bool) {
		if depth > 4 || path[fn] {
			return
		}
		path[fn] = true
		defer delete(path, fn)
		for _, st := range own[fn] {
			fl := st.flag
			if fl == "" {
				fl = guard
			}
			k := fmt.Sprintf("%s|%s|%d|%v", entry, fl, st.ty, st.known)
			if !seenSite[k] || fn == entry {
				if fn != entry && seenSite[k] {
					continue
				}
				seenSite[k] = true
				attributed = append(attributed, site{entry, fl, st.ty, st.known})
			}
		}
		for _, r := range refs[fn] {
			if isEntry(r.callee) {
				continue // an entry point's sites are its own (leaveSession called by HandleParticipantJoin)
			}
			g := guard
			if g == "" {
				g = r.flag
			}
			reached[r.callee] = true
			walk(entry, r.callee, g, depth+1, path)
		}
	}
	var names []string
	for n := range declared {
		names = append(names, n)
	}
	sort.Strings(names)
	for _, n := range names {
		if isEntry(n) {
			walk(n, n, "", 0, map[string]bool{})
		}
	}
	for _, n := range names {
		if !isEntry(n) && !reached[n] {
			attributed = append(attributed, own[n]...)
		}
	}
	sites = attributed
	sort.SliceStable(sites, func(i, j int) bool {
		if sites[i].ty != sites[j].ty {
			return sites[i].ty < sites[j].ty
		}
		if sites[i].fn != sites[j].fn {
			return sites[i].fn < sites[j].fn
		}
		return sites[i].flag < sites[j].flag
	})
	fmt.Println("(* every place a state or broadcast message is built: (function, guarding flag constant or \"\" if none, message type);\n   a message type the translator could not resolve is reported as 999999 *)")
	fmt.Println("Definition relay_sites : list (string * string * N) := [")
	for i, s := range sites {
		sep := ";"
		if i == len(sites)-1 {
			sep = ""
		}
		ty := s.ty
		if !s.known {
			ty = 999999
		}
		fmt.Printf("  (%s, %s, %d)%s\n", coqStr(s.fn), coqStr(s.flag), ty, sep)
	}
	fmt.Println("].\n")

	// ---- C04: the dispatch switch of handleMessage
	type disp struct {
		ty      int
		known   bool
		handler string
	}
	var table []disp
	// a switch over distinct message-type constants: its order is irrelevant, so the table is emitted sorted by type
	// number; a `default:` branch that only delegates to another method of handler (which itself switches on the
	// message type) is followed (depth <= 3), its cases are part of the same dispatch
	var collect func(name string, depth int)
	collect = func(name string, depth int) {
		fd := funcDecl(ws, "handler", name)
		if fd == nil || depth > 3 {
			table = append(table, disp{0, false, "?" + name})
			return
		}
		ast.Inspect(fd, func(x ast.Node) bool {
			sw, ok := x.(*ast.SwitchStmt)
			if !ok {
				return true
			}
			for _, st := range sw.Body.List {
				cc := st.(*ast.CaseClause)
				handler := ""
				delegate := ""
				ast.Inspect(cc, func(y ast.Node) bool {
					if ce, ok := y.(*ast.CallExpr); ok {
						if sel, ok := ce.Fun.(*ast.SelectorExpr); ok {
							if strings.HasPrefix(sel.Sel.Name, "Handle") && handler == "" {
								handler = sel.Sel.Name
							} else if id, ok := sel.X.(*ast.Ident); ok && fd.Recv != nil && len(fd.Recv.List) == 1 && len(fd.Recv.List[0].Names) == 1 &&
								id.Name == fd.Recv.List[0].Names[0].Name && funcDecl(ws, "handler", sel.Sel.Name) != nil && delegate == "" {
								delegate = sel.Sel.Name
							}
						}
					}
					return true
				})
				if cc.List == nil { // default:
					if delegate != "" && handler == "" {
						collect(delegate, depth+1)
					} else if handler != "" || delegate != "" {
						table = append(table, disp{0, false, "default:" + handler + delegate})
					}
					continue
				}
				for _, e := range cc.List {
					v, known := enums[exprStr(e)]
					table = append(table, disp{v, known, handler})
				}
			}
			return false
		})
	}
	collect("handleMessage", 0)
	sort.SliceStable(table, func(i, j int) bool {
		a, b := table[i], table[j]
		if a.known != b.known {
			return a.known
		}
		return a.ty < b.ty
	})
	fmt.Println("Definition dispatch_table : list (N * string) := [")
	for i, d := range table {
		sep := ";"
		if i == len(table)-1 {
			sep = ""
		}
		ty := d.ty
		if !d.known {
			ty = 999999
		}
		fmt.Printf("  (%d, %s)%s\n", ty, coqStr(d.handler), sep)
	}
	fmt.Println("].\n")

	// ---- C05 / C10: who recycles ids
	var reuse []string
	for _, f := range all {
		for _, d := range f.Decls {
			fd, ok := d.(*ast.FuncDecl)
			if !ok || fd.Body == nil {
				continue
			}
			ast.Inspect(fd.Body, func(x ast.Node) bool {
				if ce, ok := x.(*ast.CallExpr); ok {
					if sel, ok := ce.Fun.(*ast.SelectorExpr); ok && sel.Sel.Name == "Reuse" {
						r := exprStr(sel.X)
						reuse = append(reuse, r[strings.LastIndex(r, ".")+1:])
					}
				}
				return true
			})
		}
	}
	sort.Strings(reuse)
	fmt.Println("(* the id generators on which Reuse is ever called (field names) *)")
	fmt.Print("Definition id_reuse_sites : list string := [")
	for i, r := range reuse {
		if i > 0 {
			fmt.Print("; ")
		}
		fmt.Print(coqStr(r))
	}
	fmt.Println("].\n")

	// ---- C05: handlers with an owner comparison `X.ParticipantID != Y.ID`
	var owner []string
	for _, f := range all {
		for _, d := range f.Decls {
			fd, ok := d.(*ast.FuncDecl)
			if !ok || fd.Body == nil {
				continue
			}
			found := false
			// local names bound to X.ParticipantID / Y.ID by a plain `name := <selector>` (an `if owner := e.ParticipantID; owner != p.ID`
			// is the same comparison)
			alias := map[string]string{}
			ast.Inspect(fd.Body, func(x ast.Node) bool {
				if as, ok := x.(*ast.AssignStmt); ok && as.Tok == token.DEFINE && len(as.Lhs) == 1 && len(as.Rhs) == 1 {
					if id, ok := as.Lhs[0].(*ast.Ident); ok {
						if _, ok := as.Rhs[0].(*ast.SelectorExpr); ok {
							alias[id.Name] = exprStr(as.Rhs[0])
						}
					}
				}
				return true
			})
			resolve := func(e ast.Expr) string {
				if id, ok := e.(*ast.Ident); ok {
					if a, ok := alias[id.Name]; ok {
						return a
					}
				}
				return exprStr(e)
			}
			ast.Inspect(fd.Body, func(x ast.Node) bool {
				if be, ok := x.(*ast.BinaryExpr); ok && be.Op == token.NEQ {
					l, r := resolve(be.X), resolve(be.Y)
					if (strings.HasSuffix(l, ".ParticipantID") && strings.HasSuffix(r, ".ID")) || (strings.HasSuffix(r, ".ParticipantID") && strings.HasSuffix(l, ".ID")) {
						found = true
					}
				}
				return true
			})
			if found {
				owner = append(owner, fd.Name.Name)
			}
		}
	}
	sort.Strings(owner)
	fmt.Println("(* functions containing the owner comparison entity.ParticipantID != participant.ID *)")
	fmt.Print("Definition owner_checks : list string := [")
	for i, r := range owner {
		if i > 0 {
			fmt.Print("; ")
		}
		fmt.Print(coqStr(r))
	}
	fmt.Println("].")
}

#!/bin/sh
# regenerates <coq dir>/Gen.v from the Go sources under <repo>; rewritten only when the content changes
set -e
REPO=${1:-/repo}
OUT=${2:-/verif/coq}
cd "$(dirname "$0")"
BIN=/verif/work/translate.bin
if [ ! -x "$BIN" ] || [ main.go -nt "$BIN" ]; then
  GOFLAGS=-mod=mod GOPROXY=off GOSUMDB=off GOTOOLCHAIN=local go build -o "$BIN" . 
fi
PB=$(cd "$REPO" && GOFLAGS=-mod=mod GOPROXY=off GOSUMDB=off GOTOOLCHAIN=local go list -m -f '{{.Dir}}' github.com/aukilabs/hagall-common 2>/dev/null || true)
TMP=$(mktemp "$OUT/Gen.v.XXXXXX.tmp")
"$BIN" "$REPO" "$PB" > "$TMP"
if cmp -s "$TMP" "$OUT/Gen.v"; then rm -f "$TMP"; else mv "$TMP" "$OUT/Gen.v"; fi

package main

// Encoders of server messages and of hook snapshots into the integer-line codec of coq/Codec.v (pMsg, pDump).
// Copied from harness/l1/env.go (encMsg, Snap) and reduced to what a controlled-schedule execution can produce:
// no pings, no signed latency.

import (
	"sort"

	"github.com/aukilabs/hagall-common/messages/dagazpb"
	"github.com/aukilabs/hagall-common/messages/hagallpb"
	"github.com/aukilabs/hagall-common/messages/odalpb"
	"github.com/aukilabs/hagall-common/messages/vikjapb"
	hwebsocket "github.com/aukilabs/hagall-common/websocket"
	"github.com/aukilabs/hagall/models"
	"github.com/aukilabs/hagall/modules/odal"
	"github.com/aukilabs/hagall/modules/vikja"
)

func tok(s string) int64 {
	n, ok := strTok(s)
	if !ok {
		return -1
	}
	return int64(n)
}

func encEnt(e *hagallpb.Entity) []int64 {
	out := []int64{int64(e.GetId()), int64(e.GetParticipantId())}
	out = append(out, encPose(pbPose(e.GetPose()))...)
	return append(out, int64(e.GetFlag()))
}

func encComp(c *hagallpb.EntityComponent) []int64 {
	return []int64{int64(c.GetEntityComponentTypeId()), int64(c.GetEntityId()), tok(string(c.GetData()))}
}

func encActionPb(a *vikjapb.EntityAction) []int64 {
	out := []int64{int64(a.GetEntityId()), tok(a.GetName())}
	if a.GetTimestamp() != nil {
		out = append(out, 1, nanosFromTs(a.GetTimestamp()))
	} else {
		out = append(out, 0)
	}
	return append(out, tok(string(a.GetData())))
}

func encAssetPb(a *odalpb.AssetInstance) []int64 {
	return []int64{int64(a.GetId()), tok(a.GetAssetId()), int64(a.GetParticipantId()), int64(a.GetEntityId())}
}

// uuids renames session UUIDs to small integers in order of first occurrence (per execution).
type uuids map[string]uint32

func (u uuids) idx(s string) uint32 {
	if i, ok := u[s]; ok {
		return i
	}
	i := uint32(len(u) + 1)
	u[s] = i
	return i
}

// encMsg decodes a server message and encodes it as coq/Codec.v pMsg expects.
func (uu uuids) encMsg(msg hwebsocket.Msg) []int64 {
	ty := int(msg.Type.Number())
	u := func(x uint32) int64 { return int64(x) }
	bad := func(err error) []int64 { return []int64{-1, int64(ty)} }
	switch ty {
	case 39:
		var m hagallpb.Response
		if err := msg.DataTo(&m); err != nil {
			return bad(err)
		}
		return []int64{39, u(m.RequestId)}
	case 0:
		var m hagallpb.ErrorResponse
		if err := msg.DataTo(&m); err != nil {
			return bad(err)
		}
		return []int64{0, u(m.RequestId), int64(m.Code)}
	case 4:
		var m hagallpb.ParticipantJoinResponse
		if err := msg.DataTo(&m); err != nil {
			return bad(err)
		}
		sid, ok := parseSid(m.SessionId)
		if !ok {
			return []int64{-3, 0}
		}
		return []int64{4, u(m.RequestId), u(sid), u(uu.idx(m.SessionUuid)), u(m.ParticipantId)}
	case 2:
		var m hagallpb.SessionState
		if err := msg.DataTo(&m); err != nil {
			return bad(err)
		}
		out := []int64{2, int64(len(m.Participants))}
		for _, p := range m.Participants {
			out = append(out, u(p.GetId()))
		}
		out = append(out, int64(len(m.Entities)))
		for _, en := range m.Entities {
			out = append(out, encEnt(en)...)
		}
		out = append(out, int64(len(m.EntityComponents)))
		for _, c := range m.EntityComponents {
			out = append(out, encComp(c)...)
		}
		return out
	case 5:
		var m hagallpb.ParticipantJoinBroadcast
		if err := msg.DataTo(&m); err != nil {
			return bad(err)
		}
		return []int64{5, u(tsOts(m.OriginTimestamp)), u(m.ParticipantId)}
	case 7:
		var m hagallpb.ParticipantLeaveBroadcast
		if err := msg.DataTo(&m); err != nil {
			return bad(err)
		}
		return []int64{7, u(m.ParticipantId)}
	case 9:
		var m hagallpb.EntityAddResponse
		if err := msg.DataTo(&m); err != nil {
			return bad(err)
		}
		return []int64{9, u(m.RequestId), u(m.EntityId)}
	case 10:
		var m hagallpb.EntityAddBroadcast
		if err := msg.DataTo(&m); err != nil {
			return bad(err)
		}
		return append([]int64{10, u(tsOts(m.OriginTimestamp))}, encEnt(m.Entity)...)
	case 12:
		var m hagallpb.EntityDeleteResponse
		if err := msg.DataTo(&m); err != nil {
			return bad(err)
		}
		return []int64{12, u(m.RequestId)}
	case 13:
		var m hagallpb.EntityDeleteBroadcast
		if err := msg.DataTo(&m); err != nil {
			return bad(err)
		}
		return []int64{13, u(tsOts(m.OriginTimestamp)), u(m.EntityId)}
	case 15:
		var m hagallpb.EntityUpdatePoseBroadcast
		if err := msg.DataTo(&m); err != nil {
			return bad(err)
		}
		return append([]int64{15, u(tsOts(m.OriginTimestamp)), u(m.EntityId)}, encPose(pbPose(m.Pose))...)
	case 17:
		var m hagallpb.CustomMessageBroadcast
		if err := msg.DataTo(&m); err != nil {
			return bad(err)
		}
		out := []int64{17, u(tsOts(m.OriginTimestamp)), u(m.ParticipantId), int64(len(m.Body))}
		for _, b := range m.Body {
			out = append(out, int64(b))
		}
		return out
	case 19:
		var m hagallpb.EntityComponentTypeAddResponse
		if err := msg.DataTo(&m); err != nil {
			return bad(err)
		}
		return []int64{19, u(m.RequestId), u(m.EntityComponentTypeId)}
	case 21:
		var m hagallpb.EntityComponentTypeGetNameResponse
		if err := msg.DataTo(&m); err != nil {
			return bad(err)
		}
		return []int64{21, u(m.RequestId), tok(m.EntityComponentTypeName)}
	case 23:
		var m hagallpb.EntityComponentTypeGetIdResponse
		if err := msg.DataTo(&m); err != nil {
			return bad(err)
		}
		return []int64{23, u(m.RequestId), u(m.EntityComponentTypeId)}
	case 25, 28, 35, 37, 41:
		var m hagallpb.Response
		if err := msg.DataTo(&m); err != nil {
			return bad(err)
		}
		return []int64{int64(ty), u(m.RequestId)}
	case 26:
		var m hagallpb.EntityComponentAddBroadcast
		if err := msg.DataTo(&m); err != nil {
			return bad(err)
		}
		return append([]int64{26, u(tsOts(m.OriginTimestamp))}, encComp(m.EntityComponent)...)
	case 29:
		var m hagallpb.EntityComponentDeleteBroadcast
		if err := msg.DataTo(&m); err != nil {
			return bad(err)
		}
		return []int64{29, u(tsOts(m.OriginTimestamp)), u(m.EntityComponent.GetEntityComponentTypeId()), u(m.EntityComponent.GetEntityId())}
	case 31:
		var m hagallpb.EntityComponentUpdateBroadcast
		if err := msg.DataTo(&m); err != nil {
			return bad(err)
		}
		return append([]int64{31, u(tsOts(m.OriginTimestamp))}, encComp(m.EntityComponent)...)
	case 33:
		var m hagallpb.EntityComponentListResponse
		if err := msg.DataTo(&m); err != nil {
			return bad(err)
		}
		out := []int64{33, u(m.RequestId), int64(len(m.EntityComponents))}
		for _, c := range m.EntityComponents {
			out = append(out, encComp(c)...)
		}
		return out
	case 100:
		var m vikjapb.State
		if err := msg.DataTo(&m); err != nil {
			return bad(err)
		}
		out := []int64{100, int64(len(m.EntityActions))}
		for _, a := range m.EntityActions {
			out = append(out, encActionPb(a)...)
		}
		return out
	case 102:
		var m vikjapb.EntityActionResponse
		if err := msg.DataTo(&m); err != nil {
			return bad(err)
		}
		return []int64{102, u(m.RequestId)}
	case 103:
		var m vikjapb.EntityActionBroadcast
		if err := msg.DataTo(&m); err != nil {
			return bad(err)
		}
		return append([]int64{103, u(tsOts(m.OriginTimestamp))}, encActionPb(m.EntityAction)...)
	case 200:
		var m odalpb.State
		if err := msg.DataTo(&m); err != nil {
			return bad(err)
		}
		out := []int64{200, int64(len(m.AssetInstances))}
		for _, a := range m.AssetInstances {
			out = append(out, encAssetPb(a)...)
		}
		return out
	case 202:
		var m odalpb.AssetInstanceAddResponse
		if err := msg.DataTo(&m); err != nil {
			return bad(err)
		}
		return []int64{202, u(m.RequestId), u(m.AssetInstanceId)}
	case 203:
		var m odalpb.AssetInstanceAddBroadcast
		if err := msg.DataTo(&m); err != nil {
			return bad(err)
		}
		return append([]int64{203, u(tsOts(m.OriginTimestamp))}, encAssetPb(m.AssetInstance)...)
	case 302, 304, 306:
		var m dagazpb.DagazGetDebugInfoResponse
		if err := msg.DataTo(&m); err != nil {
			return bad(err)
		}
		return []int64{int64(ty), u(m.RequestId)}
	}
	return []int64{-1, int64(ty)}
}

// encDump is one session of harness/l1's Snap (coq/Codec.v pDump), in a deterministic order.
func (uu uuids) encDump(key string, s *models.Session) []int64 {
	d := s.VerifDump()
	sid, ok := parseSid(key)
	if !ok || sid != d.ID {
		return []int64{-5}
	}
	out := []int64{int64(sid), int64(uu.idx(d.UUID)), int64(len(d.Participants))}
	sort.Slice(d.Participants, func(i, j int) bool { return d.Participants[i] < d.Participants[j] })
	for _, p := range d.Participants {
		out = append(out, int64(p))
	}
	sort.Slice(d.Entities, func(i, j int) bool { return d.Entities[i].ID < d.Entities[j].ID })
	out = append(out, int64(len(d.Entities)))
	for _, en := range d.Entities {
		out = append(out, encEnt(en.ToProtobuf())...)
		out = append(out, b2i(en.Persist))
	}
	var tids []uint32
	for id := range d.Types {
		tids = append(tids, id)
	}
	sort.Slice(tids, func(i, j int) bool { return tids[i] < tids[j] })
	out = append(out, int64(len(tids)))
	for _, id := range tids {
		out = append(out, int64(id), tok(d.Types[id]))
	}
	sort.Slice(d.Components, func(i, j int) bool {
		a, b := d.Components[i], d.Components[j]
		if a.GetEntityComponentTypeId() != b.GetEntityComponentTypeId() {
			return a.GetEntityComponentTypeId() < b.GetEntityComponentTypeId()
		}
		return a.GetEntityId() < b.GetEntityId()
	})
	out = append(out, int64(len(d.Components)))
	for _, c := range d.Components {
		out = append(out, encComp(c)...)
	}
	var subs [][2]uint32
	for t, ps := range d.Subs {
		for _, p := range ps {
			subs = append(subs, [2]uint32{t, p})
		}
	}
	sort.Slice(subs, func(i, j int) bool {
		if subs[i][0] != subs[j][0] {
			return subs[i][0] < subs[j][0]
		}
		return subs[i][1] < subs[j][1]
	})
	out = append(out, int64(len(subs)))
	for _, tp := range subs {
		out = append(out, int64(tp[0]), int64(tp[1]))
	}
	var acts []*vikjapb.EntityAction
	if st, ok := s.ModuleState("vikja"); ok {
		acts = st.(*vikja.State).EntityActions()
	}
	sort.Slice(acts, func(i, j int) bool {
		if acts[i].GetEntityId() != acts[j].GetEntityId() {
			return acts[i].GetEntityId() < acts[j].GetEntityId()
		}
		return acts[i].GetName() < acts[j].GetName()
	})
	out = append(out, int64(len(acts)))
	for _, a := range acts {
		out = append(out, encActionPb(a)...)
	}
	var assets []*odalpb.AssetInstance
	if st, ok := s.ModuleState("odal"); ok {
		assets = st.(*odal.State).AssetInstances()
	}
	sort.Slice(assets, func(i, j int) bool { return assets[i].GetEntityId() < assets[j].GetEntityId() })
	out = append(out, int64(len(assets)))
	for _, a := range assets {
		out = append(out, encAssetPb(a)...)
	}
	return append(out, int64(d.Frames))
}

// l3v: controlled schedules at lock granularity against the REAL handlers, for the concurrent clause of C01
// (replicated views) and C02 (every accepted change relayed exactly once).
//
// Extension of harness/l3 (same build: checks/c01conc.py overlays the sources instrumented by tools/instrument, in
// which every x.Lock()/x.RLock() statement of models, websocket and modules/* is a yield to the cooperative
// scheduler verifsched). Every connection is one scheduler thread that runs its requests through the real
// websocket handler (vikja and odal loaded). A scenario is
//     a sequential SET-UP   (-setup 1,3,1: the listed threads in turn run one whole request each), followed by
//     a RACE                (every connection that has one more request issues it concurrently),
// and EVERY lock acquisition of the racing requests is a scheduling point.
//
// Programs (-progs, one per connection, '|' between connections, ',' between requests):
//   C            create a session              J<n>   join session n               L     disconnect
//   E / Ep       add an entity (persistent)    X<e>   delete entity e              P<e>  pose update of entity e
//   T<n>         add component type named n    A<t>.<e> add component (t, e)       U<t>.<e> update it    D<t>.<e> delete it
//   S<t>         subscribe to type t           N<t>   unsubscribe                  G<t>  list the components of type t
//   V<e>.<n>.<ts> set vikja action n of entity e, timestamp ts (ns)               O<e>  add an odal asset instance to e
//   M<p>         custom message addressed to participant p
//
// Modes:
//   l3v -progs 'C,E,X1|J1' -setup 1,1 -run 2,2,2,1,1,...   one schedule of the race (unfinished threads then run to their end)
//   l3v -progs 'C,E,X1|J1' -setup 1,1 -explore -bound 2    every schedule of the race within the preemption bound
//
// Output per execution (integer-line codec of coq/Codec.v; read by oracle/concview and checks/c01conc.py):
//   B
//   X <deadlock> <blocked attempts> <panics> <handler errors>
//   C n thread*                 the race schedule (every choice that executed something)
//   P thread:function ...       the acquisition each choice entered (innermost function of the repository)
//   Q0 <sdump>                  hook snapshot of one session when the race starts (one line per session)
//   I <conn> 0 <msg>            connection was sent this message            (in order, per connection)
//   I <conn> 1 <req>            connection's own request: for a request with an answer where it is issued, for a
//                               fire-and-forget update (pose, component update) where the server applies it
//   I <conn> 2                  connection left (disconnect)
//   I <conn> 3                  the race starts here
//   Q1 <sdump>                  hook snapshot of one session at quiescence
//   E
// and a final line  Z <executions> <truncated>.
package main

import (
	"bufio"
	"context"
	"flag"
	"fmt"
	"math"
	"os"
	"sort"
	"strconv"
	"strings"
	"time"

	"github.com/aukilabs/hagall-common/ncsclient"
	hwebsocket "github.com/aukilabs/hagall-common/websocket"
	"github.com/aukilabs/hagall/featureflag"
	"github.com/aukilabs/hagall/models"
	"github.com/aukilabs/hagall/modules"
	"github.com/aukilabs/hagall/modules/odal"
	"github.com/aukilabs/hagall/modules/vikja"
	"github.com/aukilabs/hagall/verifsched"
	hagallws "github.com/aukilabs/hagall/websocket"
	"github.com/ethereum/go-ethereum/crypto"
)

// ---------------------------------------------------------------- scenario
type Op struct {
	K       byte
	A, B    uint32
	Ts      int64
	Persist bool
}

func parseOp(o string) (Op, error) {
	bad := fmt.Errorf("bad op %q", o)
	if o == "" {
		return Op{}, bad
	}
	op := Op{K: o[0]}
	rest := o[1:]
	if op.K == 'E' && rest == "p" {
		op.Persist = true
		return op, nil
	}
	var nums []int64
	if rest != "" {
		for _, x := range strings.Split(rest, ".") {
			n, err := strconv.ParseInt(x, 10, 64)
			if err != nil {
				return op, bad
			}
			nums = append(nums, n)
		}
	}
	want := map[byte]int{'C': 0, 'L': 0, 'E': 0, 'J': 1, 'X': 1, 'P': 1, 'T': 1, 'S': 1, 'N': 1, 'G': 1, 'O': 1, 'M': 1, 'A': 2, 'U': 2, 'D': 2, 'V': 3}
	n, ok := want[op.K]
	if !ok || len(nums) != n {
		return op, bad
	}
	if n >= 1 {
		op.A = uint32(nums[0])
	}
	if n >= 2 {
		op.B = uint32(nums[1])
	}
	if n >= 3 {
		op.Ts = nums[2]
	}
	return op, nil
}

func parseProgs(s string) ([][]Op, error) {
	var out [][]Op
	for _, p := range strings.Split(s, "|") {
		var prog []Op
		for _, o := range strings.Split(p, ",") {
			o = strings.TrimSpace(o)
			if o == "" {
				continue
			}
			op, err := parseOp(o)
			if err != nil {
				return nil, err
			}
			prog = append(prog, op)
		}
		out = append(out, prog)
	}
	return out, nil
}

func parseInts(s string) ([]int, error) {
	var out []int
	for _, x := range strings.Split(s, ",") {
		x = strings.TrimSpace(x)
		if x == "" {
			continue
		}
		n, err := strconv.Atoi(x)
		if err != nil {
			return nil, err
		}
		out = append(out, n)
	}
	return out, nil
}

// buildReq: the request connection conn issues as its idx-th operation. Request ids, origin timestamps and data
// tokens are distinct per (connection, operation), so that every relay can be attributed to its request.
func buildReq(conn, idx int, o Op) *Req {
	tag := uint32(100*conn + idx)
	r := &Req{Rid: tag, Ots: 1000 + tag}
	f := func(x float32) uint32 { return math.Float32bits(x) }
	pose := Pose{f(float32(conn)), f(float32(idx)), f(0.5), 0, 0, 0, f(1)}
	switch o.K {
	case 'C':
		r.Kind, r.SidKind = 3, 0
	case 'J':
		r.Kind, r.SidKind, r.A = 3, 1, o.A
	case 'E':
		r.Kind, r.Persist, r.HasPose, r.Pose = 8, o.Persist, true, pose
	case 'X':
		r.Kind, r.A = 11, o.A
	case 'P':
		r.Kind, r.A, r.HasPose, r.Pose = 14, o.A, true, pose
	case 'T':
		r.Kind, r.A = 18, o.A
	case 'A':
		r.Kind, r.A, r.B, r.C = 24, o.A, o.B, tag
	case 'U':
		r.Kind, r.A, r.B, r.C = 30, o.A, o.B, tag
	case 'D':
		r.Kind, r.A, r.B = 27, o.A, o.B
	case 'S':
		r.Kind, r.A = 34, o.A
	case 'N':
		r.Kind, r.A = 36, o.A
	case 'G':
		r.Kind, r.A = 32, o.A
	case 'V':
		r.Kind, r.HasAct = 101, true
		r.Act = Action{Eid: o.A, Name: o.B, HasTs: true, Ts: o.Ts, Data: tag}
	case 'O':
		r.Kind, r.A, r.B = 201, o.A, tag
	case 'M':
		r.Kind, r.Rcpts, r.Body = 16, []uint32{o.A}, []byte{byte(conn), byte(idx)}
	default:
		return nil
	}
	return r
}

// ---------------------------------------------------------------- one execution
type item struct {
	kind int
	ints []int64
}

type sink struct {
	ex   *execution
	conn int
}

func (s sink) Send(pm hwebsocket.ProtoMsg) {
	msg, err := hwebsocket.MsgFromProto(pm)
	if err != nil {
		return
	}
	s.SendMsg(msg)
}

func (s sink) SendMsg(msg hwebsocket.Msg) {
	c := s.ex.conns[s.conn]
	c.items = append(c.items, item{0, s.ex.uu.encMsg(msg)})
}

type connState struct {
	rh       *hagallws.RealtimeHandler
	vc       *hagallws.VerifConn
	prog     []Op
	raceIdx  int // index of the racing operation (== number of set-up operations)
	cur      int // index of the operation in progress
	items    []item
	pendFF   *Req // fire-and-forget update issued and not yet applied by the server
	done     bool
	panicked string
	errs     int
}

type execution struct {
	choices  []int // race choices that executed something, in order
	sites    []string
	store    *models.SessionStore
	conns    []*connState // index 1..n
	blocked  int
	uu       uuids
	inRace   bool
	q0       [][]int64
}

var theKey, _ = crypto.GenerateKey()

const raceSite = "l3v:race"

func newExecution(progs [][]Op, setupCount []int) *execution {
	verifsched.Reset()
	ex := &execution{store: &models.SessionStore{}, uu: uuids{}}
	ex.conns = make([]*connState, len(progs)+1)
	rchan := make(chan ncsclient.ReceiptPayload, 128)
	for i, p := range progs {
		id := i + 1
		rh := &hagallws.RealtimeHandler{
			ClientSyncClockInterval: time.Hour, ClientIdleTimeout: time.Hour, FrameDuration: time.Hour,
			Sessions: ex.store, FeatureFlags: featureflag.New(nil), ReceiptChan: rchan, PrivateKey: theKey,
			Modules: []modules.Module{&vikja.Module{}, &odal.Module{}},
		}
		ex.conns[id] = &connState{rh: rh, vc: hagallws.NewVerifConn(rh, fmt.Sprintf("client-%d", id)), prog: p, raceIdx: setupCount[id]}
	}
	for id := 1; id < len(ex.conns); id++ {
		c := ex.conns[id]
		snk := sink{ex: ex, conn: id}
		cid := id
		ev := verifsched.Spawn(id, func() {
			ctx := context.Background()
			for i, o := range c.prog {
				c.cur = i
				if i == c.raceIdx {
					// park until the driver starts the race
					verifsched.Acquire(func() bool { return true }, raceSite, nil)
				}
				if o.K == 'L' {
					c.items = append(c.items, item{2, nil})
					if p := c.vc.Disconnect(nil); p != nil {
						panic(p)
					}
					continue
				}
				r := buildReq(cid, i, o)
				msg, err := r.Build(nil)
				if err != nil {
					panic(err)
				}
				if r.Kind == 14 || r.Kind == 30 {
					c.pendFF = r
				} else {
					c.items = append(c.items, item{1, r.Enc()})
				}
				herr, pan := c.vc.Handle(ctx, msg, snk)
				if c.pendFF != nil {
					// never applied by the server: the client's own copy of the update, at the end of the handler
					c.items = append(c.items, item{1, c.pendFF.Enc()})
					c.pendFF = nil
				}
				if pan != nil {
					panic(pan)
				}
				if herr != nil {
					// the main loop ends a connection whose handler fails
					c.errs++
					c.items = append(c.items, item{2, nil})
					if p := c.vc.Disconnect(herr); p != nil {
						panic(p)
					}
				}
			}
			c.cur = len(c.prog)
		})
		ex.after(id, ev)
	}
	return ex
}

func (ex *execution) after(id int, ev verifsched.Event) {
	if ev.Kind == verifsched.Done || ev.Kind == verifsched.Panic {
		ex.conns[id].done = true
		if ev.Kind == verifsched.Panic {
			ex.conns[id].panicked = ev.Info
		}
	}
}

func innermost(ch []string) string {
	if len(ch) == 0 {
		return "-"
	}
	f := ch[len(ch)-1]
	f = strings.ReplaceAll(f, " ", "")
	return f
}

// choose runs one step of thread id: the critical section it is parked at and the lock-free code after it.
// Returns false when nothing happened (finished thread, or blocked).
func (ex *execution) choose(id int) bool {
	if id < 1 || id >= len(ex.conns) || ex.conns[id].done {
		return false
	}
	c := ex.conns[id]
	site, ch, _ := verifsched.Pending(id)
	if site == raceSite && !ex.inRace {
		return false // parked until the race starts
	}
	fn := innermost(ch)
	if site == raceSite {
		fn = "start"
	}
	ev := verifsched.Resume(id)
	if ev.Kind == verifsched.Blocked || ev.Kind == verifsched.NoSuch {
		ex.blocked++
		return false
	}
	// the server has applied a fire-and-forget update: this is where its sender's own copy takes effect
	if c.pendFF != nil && (fn == "models.(*EntityComponentStore).Update" || fn == "models.(*Entity).SetPose") {
		c.items = append(c.items, item{1, c.pendFF.Enc()})
		c.pendFF = nil
	}
	ex.after(id, ev)
	if ex.inRace {
		ex.choices = append(ex.choices, id)
		ex.sites = append(ex.sites, fmt.Sprintf("%d:%s", id, fn))
	}
	return true
}

func (ex *execution) snapshot() [][]int64 {
	reg := ex.store.VerifSessions()
	var keys []string
	for k := range reg {
		keys = append(keys, k)
	}
	sort.Strings(keys)
	var out [][]int64
	for _, k := range keys {
		out = append(out, ex.uu.encDump(k, reg[k]))
	}
	return out
}

// runSetup: each listed thread in turn runs one whole request; then the race starts.
func (ex *execution) runSetup(units []int) error {
	for _, t := range units {
		if t < 1 || t >= len(ex.conns) {
			return fmt.Errorf("set-up names thread %d", t)
		}
		c := ex.conns[t]
		at := c.cur
		for !c.done && c.cur == at {
			if !ex.choose(t) {
				return fmt.Errorf("set-up: thread %d cannot finish its operation %d", t, at)
			}
		}
	}
	for id := 1; id < len(ex.conns); id++ {
		c := ex.conns[id]
		if !c.done && c.cur != c.raceIdx {
			return fmt.Errorf("set-up ends with thread %d at operation %d, its race operation is %d", id, c.cur, c.raceIdx)
		}
		c.items = append(c.items, item{3, nil})
	}
	ex.q0 = ex.snapshot()
	ex.inRace = true
	return nil
}

func (ex *execution) allDone() bool {
	for id := 1; id < len(ex.conns); id++ {
		if !ex.conns[id].done {
			return false
		}
	}
	return true
}

// finish runs the unfinished threads to their end, lowest id first, without preemption. Returns false on a
// state in which every unfinished thread is blocked.
func (ex *execution) finish() bool {
	for !ex.allDone() {
		progress := false
		for id := 1; id < len(ex.conns); id++ {
			for !ex.conns[id].done {
				if !ex.choose(id) {
					break
				}
				progress = true
			}
		}
		if !progress {
			return false
		}
	}
	return true
}

func ints(v []int64) string {
	var sb strings.Builder
	for i, x := range v {
		if i > 0 {
			sb.WriteByte(' ')
		}
		sb.WriteString(strconv.FormatInt(x, 10))
	}
	return sb.String()
}

func bi(b bool) int {
	if b {
		return 1
	}
	return 0
}

func (ex *execution) emit(w *bufio.Writer, deadlock bool) {
	np, ne := 0, 0
	for id := 1; id < len(ex.conns); id++ {
		if ex.conns[id].panicked != "" {
			np++
			fmt.Fprintf(w, "# panic in thread %d: %s\n", id, strings.ReplaceAll(ex.conns[id].panicked, "\n", " "))
		}
		ne += ex.conns[id].errs
	}
	fmt.Fprintf(w, "B\nX %d %d %d %d\n", bi(deadlock), ex.blocked, np, ne)
	fmt.Fprintf(w, "C %d", len(ex.choices))
	for _, c := range ex.choices {
		fmt.Fprintf(w, " %d", c)
	}
	fmt.Fprintf(w, "\nP %s\n", strings.Join(ex.sites, " "))
	for _, d := range ex.q0 {
		fmt.Fprintf(w, "Q0 %s\n", ints(d))
	}
	for id := 1; id < len(ex.conns); id++ {
		for _, it := range ex.conns[id].items {
			if len(it.ints) > 0 {
				fmt.Fprintf(w, "I %d %d %s\n", id, it.kind, ints(it.ints))
			} else {
				fmt.Fprintf(w, "I %d %d\n", id, it.kind)
			}
		}
	}
	if !deadlock {
		for _, d := range ex.snapshot() {
			fmt.Fprintf(w, "Q1 %s\n", ints(d))
		}
	}
	fmt.Fprintf(w, "E\n")
}

// cleanup ends what the execution left behind (sessions, so that frame workers stop), outside the record.
func (ex *execution) cleanup() {
	for id := 1; id < len(ex.conns); id++ {
		if s, _ := ex.conns[id].rh.VerifCurrent(); s != nil {
			s.Close()
		}
	}
	for _, s := range ex.store.VerifSessions() {
		s.Close()
	}
}

// ---------------------------------------------------------------- exploration
type node struct {
	prefix []int
	used   int
}

func explore(progs [][]Op, setupCount []int, units []int, bound int, maxExec int, w *bufio.Writer) (int, bool, error) {
	stack := []node{{}}
	count := 0
	truncated := false
	for len(stack) > 0 {
		nd := stack[len(stack)-1]
		stack = stack[:len(stack)-1]
		if maxExec > 0 && count >= maxExec {
			truncated = true
			break
		}
		ex := newExecution(progs, setupCount)
		if err := ex.runSetup(units); err != nil {
			return count, false, err
		}
		ok := true
		for _, t := range nd.prefix {
			if !ex.choose(t) {
				// the alternative is blocked: nothing to explore here
				ok = false
				break
			}
		}
		if !ok {
			ex.finish()
			ex.cleanup()
			continue
		}
		prefix := append([]int{}, nd.prefix...)
		used := nd.used
		cur := 0
		if len(prefix) > 0 {
			cur = prefix[len(prefix)-1] // the first choice of the race is free
		}
		deadlock := false
		for !ex.allDone() {
			tried := map[int]bool{}
			var notDone []int
			for id := 1; id < len(ex.conns); id++ {
				if !ex.conns[id].done {
					notDone = append(notDone, id)
				}
			}
			executed := 0
			for {
				d := 0
				if cur != 0 && !ex.conns[cur].done && !tried[cur] {
					d = cur
				} else {
					for _, id := range notDone {
						if !tried[id] {
							d = id
							break
						}
					}
				}
				if d == 0 {
					break
				}
				if ex.choose(d) {
					executed = d
					break
				}
				tried[d] = true
			}
			if executed == 0 {
				deadlock = true
				break
			}
			for _, c := range notDone {
				if c == executed || tried[c] {
					continue
				}
				cost := used
				// switching away from a thread that could have continued is a preemption
				if cur != 0 && executed == cur {
					cost++
				}
				if cost <= bound {
					stack = append(stack, node{append(append([]int{}, prefix...), c), cost})
				}
			}
			prefix = append(prefix, executed)
			cur = executed
		}
		ex.emit(w, deadlock)
		ex.cleanup()
		count++
	}
	return count, truncated, nil
}

func main() {
	progsF := flag.String("progs", "", "programs, one per connection (see the head of this file)")
	runF := flag.String("run", "", "race schedule: thread choices separated by ','")
	exploreF := flag.Bool("explore", false, "explore every race schedule within the preemption bound")
	bound := flag.Int("bound", 2, "preemption bound")
	setupF := flag.String("setup", "", "sequential set-up: each listed thread in turn runs one whole request")
	maxExec := flag.Int("max", 0, "stop after this many executions (0: no limit)")
	verbose := flag.Bool("v", false, "print the call chain of every step to stderr")
	pointsF := flag.Bool("points", false, "deliveries to other connections (Session.Broadcast / BroadcastTo) are scheduling points too")
	edgesF := flag.String("edges", "", "write the lock-order pairs observed (site held, site acquired, count) to this file")
	flag.Parse()
	verifsched.EnablePoints(*pointsF)
	defer func() {
		if *edgesF != "" {
			os.WriteFile(*edgesF, []byte(strings.Join(verifsched.Edges(), "\n")+"\n"), 0644)
		}
	}()
	fail := func(a ...any) {
		fmt.Fprintln(os.Stderr, append([]any{"INTERNAL:"}, a...)...)
		os.Exit(2)
	}
	progs, err := parseProgs(*progsF)
	if err != nil || len(progs) == 0 {
		fail("bad -progs:", err)
	}
	units, err := parseInts(*setupF)
	if err != nil {
		fail("bad -setup:", err)
	}
	setupCount := make([]int, len(progs)+1)
	for _, t := range units {
		if t < 1 || t > len(progs) {
			fail("bad -setup: thread", t)
		}
		setupCount[t]++
	}
	for i, p := range progs {
		if len(p) > setupCount[i+1]+1 {
			fail(fmt.Sprintf("connection %d has %d operations after its set-up (at most one races)", i+1, len(p)-setupCount[i+1]))
		}
		if len(p) < setupCount[i+1] {
			fail(fmt.Sprintf("connection %d has fewer operations than set-up steps", i+1))
		}
	}
	w := bufio.NewWriter(os.Stdout)
	defer w.Flush()
	if *exploreF {
		n, trunc, err := explore(progs, setupCount, units, *bound, *maxExec, w)
		if err != nil {
			w.Flush()
			fail(err)
		}
		fmt.Fprintf(w, "Z %d %d\n", n, bi(trunc))
		return
	}
	sched, err := parseInts(*runF)
	if err != nil {
		fail("bad -run:", err)
	}
	ex := newExecution(progs, setupCount)
	if err := ex.runSetup(units); err != nil {
		fail(err)
	}
	for _, t := range sched {
		if *verbose {
			site, ch, ok := verifsched.Pending(t)
			fmt.Fprintf(os.Stderr, "choose %d: pending %v %s %s\n", t, ok, site, strings.Join(ch, " > "))
		}
		ex.choose(t)
	}
	dead := !ex.finish()
	ex.emit(w, dead)
	ex.cleanup()
	fmt.Fprintf(w, "Z 1 0\n")
}

//go:build verif

// hookcheck: do the add-only hooks still fit the code they are injected into?  (They find unexported fields by type;
// this runs their self-test.)  Exit 0: fit.  Exit 3 + a line HOOKS-UNFIT: the structs changed shape.
package main

import (
	"fmt"
	"os"

	"github.com/aukilabs/hagall/models"
)

func main() {
	if err := models.VerifSelfTest(); err != nil {
		fmt.Println("HOOKS-UNFIT:", err)
		os.Exit(3)
	}
	fmt.Println("hooks fit")
}

// drives the REAL /repo/modules/dagaz primitives (Vector3f.Dot, Cross) and prints oracle lines
//   D ax ay az bx by bz r  /  X ax ay az bx by bz rx ry rz   (float32 bit patterns, decimal)
// usage: c20f [seed] [count]   (built by checks/common.build_harness("c20f") against the tree under test)
package main

import (
	"fmt"
	"math"
	"math/rand"
	"os"
	"strconv"

	"github.com/aukilabs/hagall/modules/dagaz"
)

func bits(f float32) uint32 { return math.Float32bits(f) }
func fb(u uint32) float32  { return math.Float32frombits(u) }

func emit(v [6]float32) {
	a := dagaz.NewVector3f(v[0], v[1], v[2])
	b := dagaz.NewVector3f(v[3], v[4], v[5])
	fmt.Printf("D %d %d %d %d %d %d %d\n", bits(v[0]), bits(v[1]), bits(v[2]), bits(v[3]), bits(v[4]), bits(v[5]), bits(a.Dot(b)))
	c := dagaz.Cross(a, b)
	p := c.ToProtobuf()
	fmt.Printf("X %d %d %d %d %d %d %d %d %d\n", bits(v[0]), bits(v[1]), bits(v[2]), bits(v[3]), bits(v[4]), bits(v[5]), bits(p.X), bits(p.Y), bits(p.Z))
}

func main() {
	seed, count := int64(20), 20000
	if len(os.Args) > 1 {
		s, _ := strconv.ParseInt(os.Args[1], 10, 64)
		seed = s
	}
	if len(os.Args) > 2 {
		c, _ := strconv.Atoi(os.Args[2])
		count = c
	}
	inf := float32(math.Inf(1))
	hand := [][6]float32{
		{1.5, 2, -3.25, 4, 0.1, 7},
		{0.1, 0.2, 0.3, 0.4, 0.5, 0.6},
		{1e-30, 1e-25, -1e-30, 1e-15, 1e-20, 1e-15},        // products underflow to subnormals
		{fb(1), fb(2), fb(3), 0.5, 0.5, 0.5},                 // smallest subnormals, ties to even
		{3e38, 1, 1, 1, 3e38, 1},                             // the sum overflows
		{1e30, 1, 1, 1e30, 1, 1},                             // a product overflows
		{1e30, -1e30, 0, 1e30, 1e30, 0},                      // inf - inf = NaN
		{inf, 0, 1, 0, 1, 1},                                 // inf * 0 = NaN
		{float32(math.Copysign(0, -1)), 0, 0, 1, 0, 0},       // signed zeros
		{1, 1, 1, 16777216, 1, -16777216},                    // absorption / cancellation
		{fb(0x7f7fffff), 0, 0, 1, 0, 0},                      // largest finite float32
		{fb(0x7fc00001), 1, 2, 3, 4, 5},                      // NaN input
	}
	for _, h := range hand {
		emit(h)
	}
	r := rand.New(rand.NewSource(seed))
	for i := 0; i < count; i++ {
		var v [6]float32
		for k := range v {
			switch r.Intn(4) {
			case 0:
				v[k] = fb(r.Uint32()) // any pattern: huge, tiny, subnormal, inf, NaN
			case 1:
				v[k] = float32(r.NormFloat64() * 10)
			case 2:
				v[k] = fb(r.Uint32() & 0x807fffff) // subnormal
			default:
				v[k] = float32(r.NormFloat64()) * fb(uint32(r.Intn(255))<<23) // random binade
			}
		}
		emit(v)
	}
}

// drives the REAL /repo/modules/dagaz primitives (Vector3f.Dot, Cross, calculateNormal, doHorizontalPlanesOverlap, IntersectQuad) and prints oracle lines
//   D ax ay az bx by bz r  /  X ax ay az bx by bz rx ry rz   (float32 bit patterns, decimal)
// usage: c20f [seed] [count]   (built by checks/common.build_harness("c20f") against the tree under test)
package main

import (
	"fmt"
	"math"
	"math/rand"
	"os"
	"strconv"

	"github.com/aukilabs/hagall/modules/dagaz"
)

func bits(f float32) uint32 { return math.Float32bits(f) }
func fb(u uint32) float32  { return math.Float32frombits(u) }

func emit(v [6]float32) {
	a := dagaz.NewVector3f(v[0], v[1], v[2])
	b := dagaz.NewVector3f(v[3], v[4], v[5])
	fmt.Printf("D %d %d %d %d %d %d %d\n", bits(v[0]), bits(v[1]), bits(v[2]), bits(v[3]), bits(v[4]), bits(v[5]), bits(a.Dot(b)))
	c := dagaz.Cross(a, b)
	p := c.ToProtobuf()
	fmt.Printf("X %d %d %d %d %d %d %d %d %d\n", bits(v[0]), bits(v[1]), bits(v[2]), bits(v[3]), bits(v[4]), bits(v[5]), bits(p.X), bits(p.Y), bits(p.Z))
}

func v3(x [3]float32) dagaz.Vector3f { return dagaz.NewVector3f(x[0], x[1], x[2]) }
func b3(v dagaz.Vector3f) [3]uint32 {
	p := v.ToProtobuf()
	return [3]uint32{bits(p.X), bits(p.Y), bits(p.Z)}
}
func u3(x [3]float32) string { return fmt.Sprintf("%d %d %d", bits(x[0]), bits(x[1]), bits(x[2])) }

// calculateNormal, doHorizontalPlanesOverlap (through the add-only hook) and IntersectQuad of the real code
func emitGeom(c, e, c2, e2, from, to [3]float32) {
	n := dagaz.VerifNormal(v3(c), v3(e))
	nb := b3(n)
	fmt.Printf("N %s %s %d %d %d\n", u3(c), u3(e), nb[0], nb[1], nb[2])
	qa := dagaz.Quad{Center: v3(c), Extents: v3(e), Normal: n}
	qb := dagaz.Quad{Center: v3(c2), Extents: v3(e2)}
	ov := 0
	if dagaz.VerifOverlap(qa, qb) {
		ov = 1
	}
	fmt.Printf("O %s %s %s %s %d\n", u3(c), u3(e), u3(c2), u3(e2), ov)
	hit, t := dagaz.IntersectQuad(dagaz.Ray{From: v3(from), To: v3(to)}, qa)
	h := 0
	if hit {
		h = 1
	}
	fmt.Printf("I %s %s %s %s %d %d %d %d %d\n", u3(from), u3(to), u3(c), u3(e), nb[0], nb[1], nb[2], h, bits(t))
}

func main() {
	seed, count := int64(20), 20000
	if len(os.Args) > 1 {
		s, _ := strconv.ParseInt(os.Args[1], 10, 64)
		seed = s
	}
	if len(os.Args) > 2 {
		c, _ := strconv.Atoi(os.Args[2])
		count = c
	}
	inf := float32(math.Inf(1))
	hand := [][6]float32{
		{1.5, 2, -3.25, 4, 0.1, 7},
		{0.1, 0.2, 0.3, 0.4, 0.5, 0.6},
		{1e-30, 1e-25, -1e-30, 1e-15, 1e-20, 1e-15},        // products underflow to subnormals
		{fb(1), fb(2), fb(3), 0.5, 0.5, 0.5},                 // smallest subnormals, ties to even
		{3e38, 1, 1, 1, 3e38, 1},                             // the sum overflows
		{1e30, 1, 1, 1e30, 1, 1},                             // a product overflows
		{1e30, -1e30, 0, 1e30, 1e30, 0},                      // inf - inf = NaN
		{inf, 0, 1, 0, 1, 1},                                 // inf * 0 = NaN
		{float32(math.Copysign(0, -1)), 0, 0, 1, 0, 0},       // signed zeros
		{1, 1, 1, 16777216, 1, -16777216},                    // absorption / cancellation
		{fb(0x7f7fffff), 0, 0, 1, 0, 0},                      // largest finite float32
		{fb(0x7fc00001), 1, 2, 3, 4, 5},                      // NaN input
	}
	for _, h := range hand {
		emit(h)
	}
	r := rand.New(rand.NewSource(seed))
	for i := 0; i < count; i++ {
		var v [6]float32
		for k := range v {
			switch r.Intn(4) {
			case 0:
				v[k] = fb(r.Uint32()) // any pattern: huge, tiny, subnormal, inf, NaN
			case 1:
				v[k] = float32(r.NormFloat64() * 10)
			case 2:
				v[k] = fb(r.Uint32() & 0x807fffff) // subnormal
			default:
				v[k] = float32(r.NormFloat64()) * fb(uint32(r.Intn(255))<<23) // random binade
			}
		}
		emit(v)
	}
	// geometry: quads of the property's domain (horizontal, positive extents of every scale, |coordinates| <= 64), quads next
	// to each other on the float32 lattice, vertical rays through the centre, and arbitrary bit patterns
	scales := []float64{10, 1, 1e-2, 1e-4, 3e-6, 1e-6, 1e-8, 1e-12, 1e-19, 1e-23, 1e-30, 1e-38, 1e-42, 1.4e-45}
	coord := func() float32 {
		switch r.Intn(4) {
		case 0:
			return float32(r.Intn(129) - 64)
		case 1:
			return float32((r.Float64()*2 - 1) * 0.5)
		default:
			return float32((r.Float64()*2 - 1) * 60)
		}
	}
	anyF := func() float32 {
		switch r.Intn(3) {
		case 0:
			return fb(r.Uint32())
		case 1:
			return fb(r.Uint32() & 0x807fffff)
		default:
			return float32(r.NormFloat64()) * fb(uint32(r.Intn(255))<<23)
		}
	}
	emitGeom([3]float32{60, 0, 60}, [3]float32{1e-6, 0, 1e-6}, [3]float32{59, 0, 59}, [3]float32{1, 0, 1}, [3]float32{60, 1, 60}, [3]float32{60, -1, 60})
	for i := 0; i < count/4; i++ {
		var c, e, c2, e2, from, to [3]float32
		if r.Intn(4) != 0 {
			ext := func() float32 {
				v := float32(scales[r.Intn(len(scales))] * (0.5 + r.Float64()))
				if v <= 0 {
					v = math.SmallestNonzeroFloat32
				}
				return v
			}
			c = [3]float32{coord(), float32(r.Intn(5)-2) * 2, coord()}
			e = [3]float32{ext(), 0, ext()}
			if r.Intn(5) == 0 {
				e[1] = float32(math.Copysign(0, -1))
			}
			if r.Intn(6) == 0 {
				e[1] = ext() // slanted
			}
			// a neighbour whose edge is at, one ulp below or above, or far from an edge of the first
			c2, e2 = c, [3]float32{ext(), 0, ext()}
			edge := c[0] + e[0]
			c2[0] = math.Nextafter32(edge+e2[0], float32(r.Intn(3)-1)*1000)
			if r.Intn(3) == 0 {
				c2[2] = math.Nextafter32(c[2]-e[2]-e2[2], float32(r.Intn(3)-1)*1000)
			}
			from = [3]float32{c[0], c[1] + 1, c[2]}
			to = [3]float32{c[0], c[1] - 1, c[2]}
			if r.Intn(4) == 0 {
				from[0] += float32(r.NormFloat64()) * e[0]
				to[2] += float32(r.NormFloat64()) * e[2]
			}
		} else {
			for k := 0; k < 3; k++ {
				c[k], e[k], c2[k], e2[k], from[k], to[k] = anyF(), anyF(), anyF(), anyF(), anyF(), anyF()
			}
		}
		emitGeom(c, e, c2, e2, from, to)
	}
}

// c19: drives the real receipt path (HandleReceipt + HandleReceipts/ForwardToNCS) and writes a
// line-oriented trace of what the submitting connections and the credit-service endpoint saw.
package main

import (
	"bufio"
	"encoding/json"
	"flag"
	"fmt"
	"os"
	"time"

	"github.com/aukilabs/go-tooling/pkg/logs"
)

func main() {
	logs.SetLogger(func(e logs.Entry) {})
	if len(os.Args) < 2 {
		fmt.Fprintln(os.Stderr, "usage: c19 gen|replay ...")
		os.Exit(2)
	}
	fs := flag.NewFlagSet(os.Args[1], flag.ExitOnError)
	seed := fs.Uint64("seed", 1, "seed")
	n := fs.Int("n", 40, "number of histories")
	cap := fs.Int("cap", 128, "channel capacity (as found in cmd/main.go)")
	in := fs.String("in", "", "history file to replay")
	histOut := fs.String("hist", "", "where to write the generated histories")
	out := fs.String("out", "trace.txt", "trace file")
	statsOut := fs.String("stats", "", "json statistics")
	deadline := fs.Duration("deadline", 3*time.Second, "how long a handler call / a drain may take")
	quiet := fs.Duration("quiet", 40*time.Millisecond, "quiet period that ends a forwarder run")
	fs.Parse(os.Args[2:])

	serverKey = keyFrom(*seed, 0)
	installTap()
	var hs []*Hist
	switch os.Args[1] {
	case "gen":
		hs = generate(*seed, *n, *cap)
		if *histOut != "" {
			f, err := os.Create(*histOut)
			if err != nil {
				fmt.Fprintln(os.Stderr, err)
				os.Exit(2)
			}
			w := bufio.NewWriter(f)
			for _, h := range hs {
				h.Write(w)
			}
			w.Flush()
			f.Close()
		}
	case "replay":
		f, err := os.Open(*in)
		if err != nil {
			fmt.Fprintln(os.Stderr, err)
			os.Exit(2)
		}
		sc := bufio.NewScanner(f)
		sc.Buffer(make([]byte, 1<<20), 1<<28)
		hs, err = readHists(sc)
		f.Close()
		if err != nil {
			fmt.Fprintln(os.Stderr, err)
			os.Exit(2)
		}
	default:
		fmt.Fprintln(os.Stderr, "usage: c19 gen|replay ...")
		os.Exit(2)
	}
	f, err := os.Create(*out)
	if err != nil {
		fmt.Fprintln(os.Stderr, err)
		os.Exit(2)
	}
	w := bufio.NewWriterSize(f, 1<<20)
	svc := newService()
	stats := map[string]int{}
	for _, h := range hs {
		runHist(h, w, svc, *deadline, *quiet, stats)
		for _, it := range h.Items {
			if it.Kind == "S" {
				stats["submissions"]++
				stats["kind_"+it.Sub.Label]++
				if a, b := validIndep(it.Sub); a && b && len(it.Sub.R) > 0 {
					stats["wellformed_"+it.Sub.Label]++
				}
			}
		}
		stats["histories"]++
	}
	w.Flush()
	f.Close()
	svc.srv.Close()
	if *statsOut != "" {
		b, _ := json.MarshalIndent(stats, "", " ")
		os.WriteFile(*statsOut, b, 0o644)
	}
}

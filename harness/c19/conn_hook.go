//go:build !c19nohook

package main

// Normal build: the request goes through the real handler.handleMessage dispatch (verif hook
// hooks/websocket_verif.go, injected with go build -overlay).

import (
	"context"

	hwebsocket "github.com/aukilabs/hagall-common/websocket"
	hagallws "github.com/aukilabs/hagall/websocket"
)

const driveVia = "hook:VerifConn.Handle(handleMessage)"

type handlerConn struct{ vc *hagallws.VerifConn }

func newConn(rh *hagallws.RealtimeHandler, clientID string) handlerConn {
	return handlerConn{vc: hagallws.NewVerifConn(rh, clientID)}
}

func (c handlerConn) Handle(ctx context.Context, msg hwebsocket.Msg, respond hwebsocket.ResponseSender) (error, interface{}) {
	return c.vc.Handle(ctx, msg, respond)
}

func (c handlerConn) Disconnect(err error) { c.vc.Disconnect(err) }

package main

// Generator of histories: valid triples (fresh secp256k1 key, Keccak256, Sign) and every
// single-field corruption of a valid triple, submitted from several connections, with the
// forwarder not started / running, the queue empty or full, the credit service in every mode.

import (
	"crypto/ecdsa"
	"encoding/binary"
	"encoding/json"
	"fmt"
	"math/rand"
	"time"

	"github.com/aukilabs/hagall-common/ncsclient"
	"github.com/ethereum/go-ethereum/crypto"
)

var serverKey *ecdsa.PrivateKey

func keyFrom(seed uint64, i int) *ecdsa.PrivateKey {
	var b [16]byte
	binary.BigEndian.PutUint64(b[:8], seed)
	binary.BigEndian.PutUint64(b[8:], uint64(i))
	for n := 0; ; n++ {
		k, err := crypto.ToECDSA(crypto.Keccak256(b[:], []byte{byte(n)}))
		if err == nil {
			return k
		}
	}
}

type gen struct {
	r      *rand.Rand
	seed   uint64
	nkeys  int
	rid    uint32
	valids []*Sub
	kinds  map[string]int
}

var kinds = []string{
	"valid", "valid", "valid", "valid", "valid_dup",
	"text_byte", "hash_byte", "sig_byte_r", "sig_byte_s", "sig_v_flip",
	"sig_len64", "sig_len66", "sig_v_2_255", "sig_v_2_3", "sig_v_27",
	"hash_other_text", "sig_other_text", "hash_len31", "hash_len33", "sig_zero", "junk",
	"empty_receipt", "empty_hash", "empty_sig", "empty_two", "empty_all",
}

var nonEmptyKinds []string

func init() {
	for _, k := range kinds {
		if len(k) < 5 || k[:5] != "empty" {
			nonEmptyKinds = append(nonEmptyKinds, k)
		}
	}
}

var texts = []string{
	"x", "{}", "receipt <b>&amp;</b>   line", "café 世界 \U0001F600", "tab\tnl\nctl\x01\x7f \"quoted\" back\\slash",
}

func (g *gen) text() []byte {
	switch g.r.Intn(6) {
	case 0:
		return []byte(texts[g.r.Intn(len(texts))] + fmt.Sprint(g.r.Intn(1000)))
	case 1:
		n := 1 + g.r.Intn(3000)
		b := make([]byte, n)
		for i := range b {
			b[i] = byte(32 + g.r.Intn(95))
		}
		return b
	default:
		rc := ncsclient.Receipt{
			AppID: fmt.Sprintf("app-%d", g.r.Intn(50)), ClientID: fmt.Sprintf("client-%d", g.r.Intn(1000)),
			SessionID: fmt.Sprintf("%dx%x", g.r.Intn(9), g.r.Intn(4096)), HagallWalletAddr: fmt.Sprintf("0x%040x", g.r.Int63()),
			ParticipantID: g.r.Intn(64), CreatedAt: time.Unix(1700000000+g.r.Int63n(1e7), 0).UTC(),
			SessionJoinedAt: time.Unix(1700000000+g.r.Int63n(1e7), 0).UTC(), BytesSent: g.r.Int63n(1e9), BytesReceived: g.r.Int63n(1e9),
		}
		b, _ := json.Marshal(rc)
		return b
	}
}

func (g *gen) validTriple() (r, h, s []byte) {
	g.nkeys++
	key := keyFrom(g.seed, g.nkeys)
	r = g.text()
	h = crypto.Keccak256(r)
	s, err := crypto.Sign(h, key)
	if err != nil {
		panic(err)
	}
	return r, h, s
}

func cp(b []byte) []byte { return append([]byte(nil), b...) }

// flips one byte keeping 7-bit text 7-bit (a protobuf string must stay valid UTF-8)
func (g *gen) corruptText(r []byte) []byte {
	r = cp(r)
	for tries := 0; tries < 100; tries++ {
		i := g.r.Intn(len(r))
		if r[i] < 0x80 {
			n := byte(32 + g.r.Intn(95))
			if n != r[i] {
				r[i] = n
				return r
			}
		}
	}
	return append(r, '!')
}

func (g *gen) triple(kind string) *Sub {
	r, h, s := g.validTriple()
	// half of the corruptions start from a valid triple that was submitted (and possibly verified and forwarded)
	// earlier in the history, the other half from a triple the server has never seen
	seen := false
	if kind != "valid" && kind != "valid_dup" && len(g.valids) > 0 && g.r.Intn(2) == 0 {
		v := g.valids[g.r.Intn(len(g.valids))]
		r, h, s = cp(v.R), cp(v.H), cp(v.S)
		seen = true
	}
	switch kind {
	case "valid":
	case "valid_dup":
		if len(g.valids) > 0 {
			v := g.valids[g.r.Intn(len(g.valids))]
			r, h, s = cp(v.R), cp(v.H), cp(v.S)
		}
	case "text_byte":
		r = g.corruptText(r)
	case "hash_byte":
		h[g.r.Intn(32)] ^= byte(1 << uint(g.r.Intn(8)))
	case "sig_byte_r":
		s[g.r.Intn(32)] ^= byte(1 + g.r.Intn(255))
	case "sig_byte_s":
		s[32+g.r.Intn(32)] ^= byte(1 + g.r.Intn(255))
	case "sig_v_flip":
		s[64] ^= 1
	case "sig_len64":
		s = s[:64]
	case "sig_len66":
		s = append(s, byte(g.r.Intn(256)))
	case "sig_v_2_255":
		s[64] = byte(2 + g.r.Intn(254))
	case "sig_v_2_3":
		s[64] = byte(2 + g.r.Intn(2))
	case "sig_v_27":
		s[64] += 27
	case "hash_other_text":
		_, h2, s2 := g.validTriple()
		h, s = h2, s2
	case "sig_other_text":
		_, _, s2 := g.validTriple()
		s = s2
	case "hash_len31":
		h = h[:31]
	case "hash_len33":
		h = append(h, 0)
	case "sig_zero":
		s = make([]byte, 65)
	case "junk":
		h = make([]byte, 32)
		g.r.Read(h)
		s = make([]byte, 65)
		g.r.Read(s)
		s[64] &= 1
	case "empty_receipt":
		r = nil
	case "empty_hash":
		h = nil
	case "empty_sig":
		s = nil
	case "empty_two":
		switch g.r.Intn(3) {
		case 0:
			r, h = nil, nil
		case 1:
			r, s = nil, nil
		default:
			h, s = nil, nil
		}
	case "empty_all":
		r, h, s = nil, nil, nil
	default:
		panic("unknown kind " + kind)
	}
	g.rid++
	rid := g.rid
	if g.r.Intn(20) == 0 {
		rid = 0 // request ids are the client's business; 0 and repeats are legal
	}
	sub := &Sub{Rid: rid, R: r, H: h, S: s, Label: kind}
	if seen && !isEmptyKindName(kind) {
		sub.Label = kind + "@seen"
	}
	if kind == "valid" {
		g.valids = append(g.valids, sub)
	}
	g.kinds[kind]++
	return sub
}

func (g *gen) pick(from []string) string { return from[g.r.Intn(len(from))] }

func (g *gen) mode() string { return modes[g.r.Intn(len(modes))] }

// a connection that was refused is ended by the server; clients come back under a new number
type connPool struct {
	g    *gen
	live []int
	next int
}

func (p *connPool) get() int {
	if len(p.live) == 0 || (len(p.live) < 5 && p.g.r.Intn(4) == 0) {
		p.next++
		p.live = append(p.live, p.next)
	}
	return p.live[p.g.r.Intn(len(p.live))]
}

func (p *connPool) drop(c int) {
	for i, x := range p.live {
		if x == c {
			p.live = append(p.live[:i], p.live[i+1:]...)
			return
		}
	}
}

func isEmptyKindName(k string) bool { return len(k) >= 5 && k[:5] == "empty" }

func isEmptyKind(s *Sub) bool { return len(s.R) == 0 || len(s.H) == 0 || len(s.S) == 0 }

// scenario "mix": submissions of every kind, forwarder runs in every mode in between
func (g *gen) mix(id, cap int) *Hist {
	h := &Hist{ID: id, Cap: cap}
	p := &connPool{g: g}
	n := 4 + g.r.Intn(40)
	q := 0
	for i := 0; i < n; i++ {
		s := g.triple(g.pick(kinds))
		s.Conn = p.get()
		h.Items = append(h.Items, Item{Kind: "S", Sub: s})
		if isEmptyKind(s) || q >= cap {
			p.drop(s.Conn)
		} else {
			q++
		}
		if g.r.Intn(8) == 0 {
			h.Items = append(h.Items, Item{Kind: "F", Mode: g.mode()})
			q = 0
		}
	}
	h.Items = append(h.Items, Item{Kind: "F", Mode: g.mode()})
	if g.r.Intn(2) == 0 {
		// an empty queue: nothing may be posted, whatever failed before is not sent again
		h.Items = append(h.Items, Item{Kind: "F", Mode: "up"})
	}
	return h
}

// scenario "full": forwarder not started, the queue is filled to capacity, further submissions
// must be answered TOO_BUSY at once; then the forwarder drains everything
func (g *gen) full(id, cap int) *Hist {
	h := &Hist{ID: id, Cap: cap}
	p := &connPool{g: g}
	q := 0
	for q < cap {
		var s *Sub
		if g.r.Intn(12) == 0 {
			s = g.triple(g.pick(kinds))
		} else {
			s = g.triple(g.pick(nonEmptyKinds))
		}
		s.Conn = p.get()
		h.Items = append(h.Items, Item{Kind: "S", Sub: s})
		if isEmptyKind(s) {
			p.drop(s.Conn)
		} else {
			q++
		}
	}
	for i, n := 0, 1+g.r.Intn(4); i < n; i++ {
		s := g.triple(g.pick(kinds))
		s.Conn = p.get()
		h.Items = append(h.Items, Item{Kind: "S", Sub: s})
		p.drop(s.Conn)
	}
	h.Items = append(h.Items, Item{Kind: "F", Mode: g.mode()})
	for i, n := 0, g.r.Intn(6); i < n; i++ {
		s := g.triple(g.pick(kinds))
		s.Conn = p.get()
		h.Items = append(h.Items, Item{Kind: "S", Sub: s})
		if isEmptyKind(s) {
			p.drop(s.Conn)
		}
	}
	h.Items = append(h.Items, Item{Kind: "F", Mode: "up"})
	return h
}

// scenario "concurrent": submissions arrive while the forwarder runs; never more than the
// room that is guaranteed (queue length at start + submissions <= cap), so the answers do not
// depend on the interleaving
func (g *gen) concurrent(id, cap int) *Hist {
	h := &Hist{ID: id, Cap: cap}
	p := &connPool{g: g}
	pre := g.r.Intn(cap/2 + 1)
	if pre > 20 {
		pre = g.r.Intn(20)
	}
	for i := 0; i < pre; i++ {
		s := g.triple(g.pick(nonEmptyKinds))
		s.Conn = p.get()
		h.Items = append(h.Items, Item{Kind: "S", Sub: s})
	}
	h.Items = append(h.Items, Item{Kind: "B", Mode: g.mode()})
	room := cap - pre
	n := 1 + g.r.Intn(60)
	if n > room {
		n = room
	}
	for i := 0; i < n; i++ {
		s := g.triple(g.pick(kinds))
		s.Conn = p.get()
		h.Items = append(h.Items, Item{Kind: "S", Sub: s})
		if isEmptyKind(s) {
			p.drop(s.Conn)
		}
	}
	h.Items = append(h.Items, Item{Kind: "D"})
	return h
}

// the fixed boundary history: exactly cap accepted, the next one refused, drained, accepted again
func (g *gen) boundary(id, cap int) *Hist {
	h := &Hist{ID: id, Cap: cap}
	for i := 0; i < cap; i++ {
		s := g.triple("valid")
		s.Conn = 1 + i%3
		h.Items = append(h.Items, Item{Kind: "S", Sub: s})
	}
	s := g.triple("valid")
	s.Conn = 1
	h.Items = append(h.Items, Item{Kind: "S", Sub: s})
	h.Items = append(h.Items, Item{Kind: "F", Mode: "up"})
	s = g.triple("valid")
	s.Conn = 2
	h.Items = append(h.Items, Item{Kind: "S", Sub: s}, Item{Kind: "F", Mode: "up"})
	return h
}

// one submission of every kind, each followed by a forwarder run, in every service mode
func (g *gen) sweep(id, cap int, mode string) *Hist {
	h := &Hist{ID: id, Cap: cap}
	seen := map[string]bool{}
	c := 0
	for _, k := range kinds {
		if seen[k] {
			continue
		}
		seen[k] = true
		if k == "valid_dup" {
			continue
		}
		c++
		s := g.triple(k)
		s.Conn = c
		h.Items = append(h.Items, Item{Kind: "S", Sub: s})
	}
	for v := 2; v < 256; v += 11 {
		c++
		s := g.triple("sig_v_2_255")
		s.S[64] = byte(v)
		s.Conn = c
		h.Items = append(h.Items, Item{Kind: "S", Sub: s})
	}
	h.Items = append(h.Items, Item{Kind: "F", Mode: mode}, Item{Kind: "F", Mode: "up"})
	return h
}

func generate(seed uint64, n, cap int) []*Hist {
	g := &gen{r: rand.New(rand.NewSource(int64(seed))), seed: seed, kinds: map[string]int{}}
	var out []*Hist
	id := 0
	add := func(h *Hist) { out = append(out, h) }
	id++
	add(g.boundary(id, cap))
	for _, m := range modes {
		id++
		add(g.sweep(id, cap, m))
	}
	for len(out) < n {
		id++
		switch x := g.r.Intn(10); {
		case x == 0:
			add(g.full(id, cap))
		case x <= 3:
			add(g.concurrent(id, cap))
		default:
			add(g.mix(id, cap))
		}
	}
	return out
}

//go:build c19nohook

package main

// Fallback build (no overlay, exported API only), used by the check when the hooks no longer
// fit the code: RealtimeHandler.HandleReceipt is called directly.

import (
	"context"

	hwebsocket "github.com/aukilabs/hagall-common/websocket"
	hagallws "github.com/aukilabs/hagall/websocket"
)

const driveVia = "direct:RealtimeHandler.HandleReceipt"

type handlerConn struct{ rh *hagallws.RealtimeHandler }

func newConn(rh *hagallws.RealtimeHandler, clientID string) handlerConn { return handlerConn{rh: rh} }

func (c handlerConn) Handle(ctx context.Context, msg hwebsocket.Msg, respond hwebsocket.ResponseSender) (err error, panicked interface{}) {
	defer func() {
		if r := recover(); r != nil {
			panicked = r
		}
	}()
	return c.rh.HandleReceipt(ctx, respond, msg), nil
}

func (c handlerConn) Disconnect(err error) {
	defer func() { recover() }()
	c.rh.HandleDisconnect(err)
}

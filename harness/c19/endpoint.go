package main

// The harness-owned credit service: an httptest endpoint with several behaviours, and a tap on
// http.DefaultTransport (ncsclient.NewNCSClient(endpoint, nil) uses it) that records every POST
// attempt, also those that never reach a socket.

import (
	"bytes"
	"encoding/hex"
	"encoding/json"
	"io"
	"net"
	"net/http"
	"net/http/httptest"
	"sort"
	"sync"
	"sync/atomic"
	"time"
)

func hx(b []byte) string {
	if len(b) == 0 {
		return "-"
	}
	return hex.EncodeToString(b)
}

func unhx(s string) ([]byte, error) {
	if s == "-" {
		return nil, nil
	}
	return hex.DecodeString(s)
}

func token(r, h, s []byte) string { return hx(r) + ":" + hx(h) + ":" + hx(s) }

// bodyToken decodes a POST body exactly as a credit service would (json, base64 byte fields)
// and renders it canonically; anything unexpected is kept visible in the token.
func bodyToken(method, path string, body []byte) string {
	var p struct {
		Receipt   *string `json:"receipt"`
		Hash      *[]byte `json:"hash"`
		Signature *[]byte `json:"signature"`
	}
	dec := json.NewDecoder(bytes.NewReader(body))
	dec.DisallowUnknownFields()
	if err := dec.Decode(&p); err != nil || p.Receipt == nil || p.Hash == nil || p.Signature == nil {
		return "!undecodable:" + hx(body)
	}
	t := token([]byte(*p.Receipt), *p.Hash, *p.Signature)
	if method != http.MethodPost || path != "/receipt" {
		t = "!" + method + path + "|" + t
	}
	return t
}

type recorder struct {
	mu       sync.Mutex
	attempts []string
	received []string
	inflight int64
}

func (r *recorder) reset() {
	r.mu.Lock()
	r.attempts, r.received = nil, nil
	r.mu.Unlock()
}

func (r *recorder) snapshot() (a, b []string, n int64) {
	r.mu.Lock()
	a = append([]string(nil), r.attempts...)
	b = append([]string(nil), r.received...)
	r.mu.Unlock()
	sort.Strings(a)
	sort.Strings(b)
	return a, b, atomic.LoadInt64(&r.inflight)
}

func (r *recorder) counts() (int, int, int64) {
	r.mu.Lock()
	defer r.mu.Unlock()
	return len(r.attempts), len(r.received), atomic.LoadInt64(&r.inflight)
}

var rec = &recorder{}

type tapTransport struct{ base http.RoundTripper }

func (t tapTransport) RoundTrip(req *http.Request) (*http.Response, error) {
	var body []byte
	if req.Body != nil {
		body, _ = io.ReadAll(req.Body)
		req.Body.Close()
		req.Body = io.NopCloser(bytes.NewReader(body))
		req.GetBody = func() (io.ReadCloser, error) { return io.NopCloser(bytes.NewReader(body)), nil }
	}
	atomic.AddInt64(&rec.inflight, 1)
	rec.mu.Lock()
	rec.attempts = append(rec.attempts, bodyToken(req.Method, req.URL.Path, body))
	rec.mu.Unlock()
	resp, err := t.base.RoundTrip(req)
	atomic.AddInt64(&rec.inflight, -1)
	return resp, err
}

func installTap() {
	http.DefaultTransport = tapTransport{base: http.DefaultTransport}
}

// modes: up, created (201 + body), slow, err500, reset (reads the request, then hangs up), refuse (nothing listens)
var modes = []string{"up", "created", "slow", "err500", "reset", "refuse"}

func modeKnown(m string) bool {
	for _, x := range modes {
		if x == m {
			return true
		}
	}
	return false
}

type service struct {
	srv     *httptest.Server
	mode    atomic.Value
	deadURL string
}

func newService() *service {
	s := &service{}
	s.mode.Store("up")
	s.srv = httptest.NewServer(http.HandlerFunc(func(w http.ResponseWriter, r *http.Request) {
		body, _ := io.ReadAll(r.Body)
		rec.mu.Lock()
		rec.received = append(rec.received, bodyToken(r.Method, r.URL.Path, body))
		rec.mu.Unlock()
		switch s.mode.Load().(string) {
		case "slow":
			time.Sleep(25 * time.Millisecond)
			w.WriteHeader(http.StatusOK)
		case "created":
			w.Header().Set("Content-Type", "application/json")
			w.WriteHeader(http.StatusCreated)
			w.Write([]byte(`{"status":"stored"}`))
		case "err500":
			w.WriteHeader(http.StatusInternalServerError)
			w.Write([]byte("credit service: internal error"))
		case "reset":
			if hj, ok := w.(http.Hijacker); ok {
				if c, _, err := hj.Hijack(); err == nil {
					c.Close()
					return
				}
			}
			panic(http.ErrAbortHandler)
		default:
			w.WriteHeader(http.StatusOK)
		}
	}))
	// an address nothing listens on
	l, err := net.Listen("tcp", "127.0.0.1:0")
	if err != nil {
		panic(err)
	}
	s.deadURL = "http://" + l.Addr().String()
	l.Close()
	return s
}

func (s *service) endpoint(mode string) string {
	s.mode.Store(mode)
	if mode == "refuse" {
		return s.deadURL
	}
	return s.srv.URL
}

// the client never closes response bodies; release what it left behind
func (s *service) tidy() {
	s.srv.CloseClientConnections()
	if t, ok := http.DefaultTransport.(tapTransport); ok {
		if bt, ok := t.base.(*http.Transport); ok {
			bt.CloseIdleConnections()
		}
	}
}

package main

// Executes a history against the REAL code: RealtimeHandler.HandleReceipt through the verif
// hook (the real handler.handleMessage dispatch) and receipt.ReceiptHandler.HandleReceipts
// posting to the harness-owned endpoint.

import (
	"bufio"
	"context"
	"fmt"
	"net"
	"sort"
	"strings"
	"time"

	"github.com/aukilabs/hagall-common/messages/hagallpb"
	"github.com/aukilabs/hagall-common/ncsclient"
	hwebsocket "github.com/aukilabs/hagall-common/websocket"
	"github.com/aukilabs/hagall/featureflag"
	"github.com/aukilabs/hagall/models"
	"github.com/aukilabs/hagall/receipt"
	hagallws "github.com/aukilabs/hagall/websocket"
	"github.com/ethereum/go-ethereum/crypto"
	"google.golang.org/protobuf/types/known/timestamppb"
)

type Sub struct {
	Conn    int
	Rid     uint32
	R, H, S []byte
	Label   string
}

type Item struct {
	Kind string // S, F (forwarder run: start, drain, stop), B (start forwarder), D (drain and stop)
	Sub  *Sub
	Mode string
}

type Hist struct {
	ID    int
	Cap   int
	Items []Item
}

func (h *Hist) Write(w *bufio.Writer) {
	fmt.Fprintf(w, "H %d cap=%d\n", h.ID, h.Cap)
	for _, it := range h.Items {
		switch it.Kind {
		case "S":
			s := it.Sub
			fmt.Fprintf(w, "S %d %d %s %s %s %s\n", s.Conn, s.Rid, hx(s.R), hx(s.H), hx(s.S), s.Label)
		case "F", "B":
			fmt.Fprintf(w, "%s %s\n", it.Kind, it.Mode)
		case "D":
			fmt.Fprintf(w, "D\n")
		}
	}
	fmt.Fprintf(w, "E\n")
}

func readHists(sc *bufio.Scanner) ([]*Hist, error) {
	var out []*Hist
	var cur *Hist
	ln := 0
	for sc.Scan() {
		ln++
		line := strings.TrimSpace(sc.Text())
		if line == "" || strings.HasPrefix(line, "#") {
			continue
		}
		f := strings.Fields(line)
		bad := func(msg string) error { return fmt.Errorf("line %d: %s: %q", ln, msg, line) }
		switch f[0] {
		case "H":
			cur = &Hist{Cap: 128}
			if len(f) < 2 {
				return nil, bad("H needs an id")
			}
			fmt.Sscanf(f[1], "%d", &cur.ID)
			for _, x := range f[2:] {
				if strings.HasPrefix(x, "cap=") {
					fmt.Sscanf(x, "cap=%d", &cur.Cap)
				}
			}
			out = append(out, cur)
		case "S":
			if cur == nil || len(f) < 6 {
				return nil, bad("malformed S")
			}
			s := &Sub{Label: "-"}
			if _, err := fmt.Sscanf(f[1]+" "+f[2], "%d %d", &s.Conn, &s.Rid); err != nil {
				return nil, bad("conn/rid")
			}
			var err error
			if s.R, err = unhx(f[3]); err != nil {
				return nil, bad("receipt hex")
			}
			if s.H, err = unhx(f[4]); err != nil {
				return nil, bad("hash hex")
			}
			if s.S, err = unhx(f[5]); err != nil {
				return nil, bad("signature hex")
			}
			if len(f) > 6 {
				s.Label = f[6]
			}
			cur.Items = append(cur.Items, Item{Kind: "S", Sub: s})
		case "F", "B":
			if cur == nil || len(f) < 2 || !modeKnown(f[1]) {
				return nil, bad("malformed forwarder line")
			}
			cur.Items = append(cur.Items, Item{Kind: f[0], Mode: f[1]})
		case "D":
			if cur == nil {
				return nil, bad("D outside a history")
			}
			cur.Items = append(cur.Items, Item{Kind: "D"})
		case "E":
			cur = nil
		default:
			// trace-only lines (K, V, A, X) are ignored so that a trace can be replayed as well
		}
	}
	return out, sc.Err()
}

// ---- answers seen by the submitting connection
type sink struct{ got *[]string }

func (s sink) Send(pm hwebsocket.ProtoMsg) {
	msg, err := hwebsocket.MsgFromProto(pm) // what handler.send does
	if err != nil {
		*s.got = append(*s.got, "? -1")
		return
	}
	s.SendMsg(msg)
}

func (s sink) SendMsg(msg hwebsocket.Msg) {
	switch int(msg.Type.Number()) {
	case 41:
		var m hagallpb.ReceiptResponse
		if err := msg.DataTo(&m); err != nil {
			*s.got = append(*s.got, "? 41")
			return
		}
		*s.got = append(*s.got, fmt.Sprintf("R %d", m.RequestId))
	case 0:
		var m hagallpb.ErrorResponse
		if err := msg.DataTo(&m); err != nil {
			*s.got = append(*s.got, "? 0")
			return
		}
		*s.got = append(*s.got, fmt.Sprintf("E %d %d", m.RequestId, int(m.Code)))
	default:
		*s.got = append(*s.got, fmt.Sprintf("? %d", int(msg.Type.Number())))
	}
}

type conn struct {
	vc   handlerConn
	open bool
}

type runner struct {
	h        *Hist
	out      *bufio.Writer
	rchan    chan ncsclient.ReceiptPayload
	store    *models.SessionStore
	conns    map[int]*conn
	svc      *service
	cancel   context.CancelFunc
	mode     string
	shadow   []*Sub // accepted and not yet forwarded, as the harness understands the answers
	tablesK  map[string]bool
	tablesV  map[string]bool
	deadline time.Duration
	quiet    time.Duration
	Stats    map[string]int
}

var drainTimeouts int

func validIndep(s *Sub) (hashOK, sigOK bool) {
	k := crypto.Keccak256(s.R)
	hashOK = string(k) == string(s.H)
	_, err := crypto.Ecrecover(s.H, s.S)
	return hashOK, err == nil
}

func (r *runner) tables(s *Sub) {
	if kk := hx(s.R); !r.tablesK[kk] {
		r.tablesK[kk] = true
		fmt.Fprintf(r.out, "K %s %s\n", kk, hx(crypto.Keccak256(s.R)))
	}
	if vk := hx(s.H) + " " + hx(s.S); !r.tablesV[vk] {
		r.tablesV[vk] = true
		_, ok := validIndep(s)
		fmt.Fprintf(r.out, "V %s %d\n", vk, b2i(ok))
	}
}

func b2i(b bool) int {
	if b {
		return 1
	}
	return 0
}

func (r *runner) conn(id int) *conn {
	if c, ok := r.conns[id]; ok && c.open {
		return c
	}
	rh := &hagallws.RealtimeHandler{
		ClientSyncClockInterval: time.Hour,
		ClientIdleTimeout:       time.Hour,
		FrameDuration:           time.Hour,
		Sessions:                r.store,
		FeatureFlags:            featureflag.New(nil),
		ReceiptChan:             r.rchan,
		PrivateKey:              serverKey,
	}
	c := &conn{vc: newConn(rh, fmt.Sprintf("client-%d", id)), open: true}
	r.conns[id] = c
	return c
}

// submit returns false when the handler did not come back within the deadline
func (r *runner) submit(s *Sub) bool {
	r.tables(s)
	fmt.Fprintf(r.out, "S %d %d %s %s %s %s\n", s.Conn, s.Rid, hx(s.R), hx(s.H), hx(s.S), s.Label)
	c := r.conn(s.Conn)
	msg, err := hwebsocket.MsgFromProto(&hagallpb.ReceiptRequest{
		Type:      hagallpb.MsgType_MSG_TYPE_RECEIPT_REQUEST,
		Timestamp: timestamppb.Now(),
		RequestId: s.Rid,
		Receipt:   string(s.R),
		Hash:      s.H,
		Signature: s.S,
	})
	if err != nil {
		// not encodable as a protobuf request (e.g. text that is not UTF-8): never reaches the handler
		fmt.Fprintf(r.out, "A 0 0 0 unencodable\n")
		r.Stats["unencodable"]++
		return true
	}
	type res struct {
		err error
		pan interface{}
		got []string
	}
	ch := make(chan res, 1)
	go func() {
		var got []string
		e, p := c.vc.Handle(context.Background(), msg, sink{&got})
		ch <- res{e, p, got}
	}()
	select {
	case x := <-ch:
		if x.pan != nil {
			fmt.Fprintf(r.out, "# panic: %v\n", strings.ReplaceAll(fmt.Sprint(x.pan), "\n", " "))
			x.got = append(x.got, "? -2")
		}
		fmt.Fprintf(r.out, "A %d 0 %d", b2i(x.err != nil || x.pan != nil), len(x.got))
		for _, g := range x.got {
			fmt.Fprintf(r.out, " %s", g)
		}
		fmt.Fprintf(r.out, "\n")
		if len(x.got) == 1 && strings.HasPrefix(x.got[0], "R ") && x.err == nil {
			r.shadow = append(r.shadow, s)
		}
		if x.err != nil || x.pan != nil {
			// the main loop ends the connection
			c.vc.Disconnect(x.err)
			c.open = false
		}
		return true
	case <-time.After(r.deadline):
		fmt.Fprintf(r.out, "A 0 1 0\n")
		return false
	}
}

func (r *runner) start(mode string) {
	if r.cancel != nil {
		return
	}
	if mode == "refuse" {
		for i := 0; i < 20; i++ {
			c, err := net.DialTimeout("tcp", strings.TrimPrefix(r.svc.deadURL, "http://"), 200*time.Millisecond)
			if err != nil {
				break
			}
			c.Close() // somebody took the port: find another dead one
			l, err := net.Listen("tcp", "127.0.0.1:0")
			if err != nil {
				break
			}
			r.svc.deadURL = "http://" + l.Addr().String()
			l.Close()
		}
	}
	rec.reset()
	r.mode = mode
	ctx, cancel := context.WithCancel(context.Background())
	r.cancel = cancel
	rh := receipt.ReceiptHandler{NCSEndpoint: r.svc.endpoint(mode), ReceiptChan: r.rchan}
	rh.HandleReceipts(ctx)
	fmt.Fprintf(r.out, "B %s\n", mode)
}

// drain waits until the forwarder has emptied the queue and every POST it started has ended,
// then stops it and writes what the transport tap and the endpoint saw.
func (r *runner) drain() {
	if r.cancel == nil {
		return
	}
	expect := 0
	for _, s := range r.shadow {
		if a, b := validIndep(s); a && b {
			expect++
		}
	}
	t0 := time.Now()
	timeout := 0
	var last [4]int64
	stableSince := time.Now()
	for {
		a, rc, inf := rec.counts()
		cur := [4]int64{int64(a), int64(rc), inf, int64(len(r.rchan))}
		if cur != last {
			last, stableSince = cur, time.Now()
		}
		done := len(r.rchan) == 0 && inf == 0 && a >= expect
		if done && time.Since(stableSince) >= r.quiet {
			break
		}
		// a run that does not settle is given 5 deadlines once (a loaded machine), then one
		limit := 5 * r.deadline
		if drainTimeouts > 0 {
			limit = r.deadline
		}
		if time.Since(t0) > limit {
			timeout = 1
			drainTimeouts++
			break
		}
		time.Sleep(time.Millisecond)
	}
	r.cancel()
	r.cancel = nil
	att, got, _ := rec.snapshot()
	sort.Strings(att)
	sort.Strings(got)
	fmt.Fprintf(r.out, "D %s %d attempts %d", r.mode, timeout, len(att))
	for _, t := range att {
		fmt.Fprintf(r.out, " %s", t)
	}
	fmt.Fprintf(r.out, " received %d", len(got))
	for _, t := range got {
		fmt.Fprintf(r.out, " %s", t)
	}
	fmt.Fprintf(r.out, "\n")
	r.Stats["posts_attempted"] += len(att)
	r.Stats["posts_received"] += len(got)
	r.Stats["dequeued"] += len(r.shadow) - len(r.rchan)
	r.Stats["forwarder_runs_"+r.mode]++
	// whatever is still in the channel stays in the shadow queue (only after a timeout)
	if n := len(r.rchan); n < len(r.shadow) {
		r.shadow = r.shadow[len(r.shadow)-n:]
	}
	r.svc.tidy()
	time.Sleep(2 * time.Millisecond) // let the forwarder goroutine see ctx.Done
}

func runHist(h *Hist, out *bufio.Writer, svc *service, deadline, quiet time.Duration, stats map[string]int) {
	r := &runner{h: h, out: out, rchan: make(chan ncsclient.ReceiptPayload, h.Cap), store: &models.SessionStore{},
		conns: map[int]*conn{}, svc: svc, tablesK: map[string]bool{}, tablesV: map[string]bool{},
		deadline: deadline, quiet: quiet, Stats: stats}
	fmt.Fprintf(out, "H %d cap=%d via=%s\n", h.ID, h.Cap, driveVia)
	ok := true
	for _, it := range h.Items {
		if !ok {
			break
		}
		switch it.Kind {
		case "S":
			if len(r.shadow) >= h.Cap && r.cancel == nil {
				stats["submissions_on_full_queue"]++
			}
			ok = r.submit(it.Sub)
			if !ok {
				fmt.Fprintf(out, "X blocked\n")
				stats["blocked"]++
			}
		case "F":
			r.start(it.Mode)
			r.drain()
		case "B":
			r.start(it.Mode)
		case "D":
			r.drain()
		}
	}
	if r.cancel != nil {
		if ok {
			r.drain()
		} else {
			r.cancel()
		}
	}
	for _, c := range r.conns {
		if c.open {
			c.vc.Disconnect(nil)
		}
	}
	fmt.Fprintf(out, "E\n")
}

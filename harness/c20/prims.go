package main

// Geometric primitives of math.go on random and boundary finite vectors; the oracle compares the
// float32 results with the exact-rational reference of coq/Grid.v within a stated tolerance.

import (
	"bufio"
	"fmt"
	"math/rand"

	"github.com/aukilabs/hagall/modules/dagaz"
)

func horizQuad(r *rand.Rand, class int) (c, e V3) {
	if class == 0 {
		ex, ez := 1+r.Intn(8*L), 1+r.Intn(8*L)
		return V3{lat(r.Intn(40*L) - 20*L), lat(r.Intn(4*L) - 2*L), lat(r.Intn(40*L) - 20*L)}, V3{lat(ex), 0, lat(ez)}
	}
	f := func(s float64) uint32 { return bf(float32((r.Float64()*2 - 1) * s)) }
	p := func(s float64) uint32 { return bf(float32(0.001 + r.Float64()*s)) }
	return V3{f(20), f(2), f(20)}, V3{p(8), 0, p(8)}
}

func runPrims(r *rand.Rand, hid, n int, out *bufio.Writer) {
	fmt.Fprintf(out, "H %d 2 0 0\n", hid)
	hk := 0
	if haveHook {
		hk = 1
	}
	fmt.Fprintf(out, "K %d %d\n", hk, bf(dagaz.MERGE_EPSILON+1.0))
	for i := 0; i < n; i++ {
		class := i % 4
		a, b := finiteVec(r, class), finiteVec(r, class)
		va, vb_ := mkV(a), mkV(b)
		fmt.Fprintf(out, "PD %s %s %d\n", v3s(a), v3s(b), bf(va.Dot(vb_)))
		fmt.Fprintf(out, "PC %s %s %s\n", v3s(a), v3s(b), v3s(vb(dagaz.Cross(va, vb_))))
		// normal: horizontal quads (the domain) and arbitrary centre / extents
		c, e := horizQuad(r, class%2)
		if class >= 2 {
			c, e = finiteVec(r, 0), finiteVec(r, 0)
		}
		fmt.Fprintf(out, "PN %s %s %s\n", v3s(c), v3s(e), v3s(vb(primNormal(mkV(c), mkV(e)))))
		// overlap of two horizontal quads, the second one aimed at the first (boundary cases: touching edges)
		ca, ea := horizQuad(r, class%2)
		cb, eb := horizQuad(r, class%2)
		if r.Intn(2) == 0 && class%2 == 0 {
			// touching or nearly touching along x or z
			d := []int{-1, 0, 0, 1}[r.Intn(4)]
			if r.Intn(2) == 0 {
				cb[0] = bf(fb(ca[0]) + fb(ea[0]) + fb(eb[0]) + float32(d)/L)
				cb[2] = bf(fb(ca[2]) + float32(r.Intn(3)-1)/L)
			} else {
				cb[2] = bf(fb(ca[2]) - fb(ea[2]) - fb(eb[2]) + float32(d)/L)
				cb[0] = bf(fb(ca[0]) + float32(r.Intn(3)-1)/L)
			}
		}
		if haveHook {
			ov := 0
			if primOverlap(dagaz.Quad{Center: mkV(ca), Extents: mkV(ea)}, dagaz.Quad{Center: mkV(cb), Extents: mkV(eb)}) {
				ov = 1
			}
			fmt.Fprintf(out, "PO %s %s %s %s %d\n", v3s(ca), v3s(ea), v3s(cb), v3s(eb), ov)
		}
		// ray-quad: a quad with an axis-aligned or arbitrary (lattice) normal, a ray aimed near it
		qc, qe := horizQuad(r, class%2)
		var qn V3
		switch r.Intn(4) {
		case 0, 1:
			qn = V3{0, bf(1), 0}
		case 2:
			qn = V3{0, bf(-1), 0}
		default:
			qn = V3{lat(r.Intn(5) - 2), lat(r.Intn(2*L) + 1), lat(r.Intn(5) - 2)}
		}
		fx := fb(qc[0]) + (r.Float32()*2.4-1.2)*fb(qe[0])
		fz := fb(qc[2]) + (r.Float32()*2.4-1.2)*fb(qe[2])
		if class%2 == 0 {
			fx = float32(int(fx*L)) / L
			fz = float32(int(fz*L)) / L
			if r.Intn(3) == 0 { // exactly on an edge
				fx = fb(qc[0]) + fb(qe[0])
			}
		}
		up := float32(r.Intn(3*L)-L) / L
		dn := float32(r.Intn(3*L)-L) / L
		from := V3{bf(fx), bf(fb(qc[1]) + up), bf(fz)}
		to := V3{bf(fx), bf(fb(qc[1]) - dn), bf(fz)}
		if r.Intn(3) == 0 {
			to[0] = bf(fx + float32(r.Intn(2*L)-L)/L)
			to[2] = bf(fz + float32(r.Intn(2*L)-L)/L)
		}
		hit, t := dagaz.IntersectQuad(dagaz.Ray{From: mkV(from), To: mkV(to)}, dagaz.Quad{Center: mkV(qc), Extents: mkV(qe), Normal: mkV(qn)})
		hi := 0
		if hit {
			hi = 1
		}
		fmt.Fprintf(out, "PQ %s %s %s %s %s %d %d\n", v3s(from), v3s(to), v3s(qc), v3s(qe), v3s(qn), hi, bf(t))
	}
	fmt.Fprintf(out, "E\n")
}

//go:build !c20nohook

package main

import "github.com/aukilabs/hagall/modules/dagaz"

const haveHook = true

func primOverlap(a, b dagaz.Quad) bool              { return dagaz.VerifOverlap(a, b) }
func primNormal(c, e dagaz.Vector3f) dagaz.Vector3f { return dagaz.VerifNormal(c, e) }

package main

// Generators of insertion histories for C20.  Inputs live on the 2^-4 lattice (so that the float32
// sums c±e of the Go code are exact) except in the "nonlattice" family, which measures how often a
// float32 decision of the implementation is too close to a boundary to be compared.

import (
	"math"
	"math/rand"
)

const L = 16 // lattice units per metre

func lat(k int) uint32 { return bf(float32(k) / L) }

func clampI(v, lo, hi int) int {
	if v < lo {
		return lo
	}
	if v > hi {
		return hi
	}
	return v
}

type gen struct {
	r *rand.Rand
	h *Hist
	// what was inserted so far (lattice units): to aim new samples at existing planes
	cx, cy, cz, ex, ez []int
}

// adds an insertion, keeping the footprint inside the 64 m box and the extents positive
func (g *gen) ins(p, cx, cy, cz, ex, ez int) {
	ex = clampI(ex, 1, 60*L)
	ez = clampI(ez, 1, 60*L)
	cx = clampI(cx, -64*L+ex, 64*L-ex)
	cz = clampI(cz, -64*L+ez, 64*L-ez)
	cy = clampI(cy, -64*L, 64*L)
	g.h.Ops = append(g.h.Ops, Op{Kind: 'I', P: p, A: V3{lat(cx), lat(cy), lat(cz)}, B: V3{lat(ex), bf(0), lat(ez)}})
	g.cx, g.cy, g.cz, g.ex, g.ez = append(g.cx, cx), append(g.cy, cy), append(g.cz, cz), append(g.ex, ex), append(g.ez, ez)
}

func (g *gen) ext(max int) int {
	// mostly small (normal exactly (0,1,0) in float32), sometimes large
	switch g.r.Intn(10) {
	case 0:
		return 1 + g.r.Intn(3)
	case 1, 2:
		return 1 + g.r.Intn(max)
	default:
		return 1 + g.r.Intn(minI(max, 3*L))
	}
}

func minI(a, b int) int {
	if a < b {
		return a
	}
	return b
}

var ylevels = []int{0, 0, 0, 0, 4, 8, -8, 9, 10, 16, 26, -26, 32, 5 * L}

func (g *gen) y() int { return ylevels[g.r.Intn(len(ylevels))] }

// a sample whose centre lies inside (or just outside) a previously inserted quad
func (g *gen) near(p int, spread int) {
	if len(g.cx) == 0 {
		g.ins(p, g.r.Intn(8*L)-4*L, 0, g.r.Intn(8*L)-4*L, g.ext(2*L), g.ext(2*L))
		return
	}
	i := g.r.Intn(len(g.cx))
	dx := g.r.Intn(2*g.ex[i]+1+2*spread) - g.ex[i] - spread
	dz := g.r.Intn(2*g.ez[i]+1+2*spread) - g.ez[i] - spread
	dy := 0
	switch g.r.Intn(8) {
	case 0:
		dy = 8
	case 1:
		dy = -9 // 0.5625 < 0.6
	case 2:
		dy = 10 // 0.625 > 0.6: no merge, but within reach of the ray
	case 3:
		dy = -26 // 1.625 > 1.6: out of reach
	}
	g.ins(p, g.cx[i]+dx, g.cy[i]+dy, g.cz[i]+dz, g.ext(4*L), g.ext(4*L))
}

func genHist(r *rand.Rand, id int, kind int, length int) *Hist {
	h := &Hist{ID: id, Mode: 0, Res: 1, Kind: kind}
	g := &gen{r: r, h: h}
	switch r.Intn(4) {
	case 0:
		h.Res = 2
	case 1:
		h.Res = 3
	}
	switch kind {
	case 0: // random
		w := (2 + r.Intn(20)) * L
		for i := 0; i < length; i++ {
			g.ins(0, r.Intn(2*w+1)-w, g.y(), r.Intn(2*w+1)-w, g.ext(6*L), g.ext(6*L))
		}
	case 1: // clusters: few seeds, many samples aimed at them
		for i := 0; i < length; i++ {
			if i < 2 || r.Intn(6) == 0 {
				w := (4 + r.Intn(12)) * L
				g.ins(0, r.Intn(2*w+1)-w, g.y(), r.Intn(2*w+1)-w, g.ext(4*L), g.ext(4*L))
			} else {
				g.near(0, 0)
			}
		}
	case 2: // cascade template: C, then B overlapping C with its centre outside, grow C over B's centre, then hit B
		y := g.y()
		ox, oz := (r.Intn(40)-20)*L, (r.Intn(40)-20)*L
		g.ins(0, ox+L, y, oz+L, L, L)         // C = [0,2]^2
		g.ins(0, ox+2*L+L/2, y, oz+L, L, L)   // B centre at 2.5: appended
		for i := 0; i < 4+r.Intn(6); i++ {     // grow C to the right: samples centred in C, much wider
			g.ins(0, ox+L+r.Intn(L/2), y, oz+L, 4*L+r.Intn(4*L), L)
		}
		for i := 0; i < length/2; i++ { // samples centred in B only (right part), or anywhere near
			if r.Intn(3) == 0 {
				g.near(0, L)
			} else {
				g.ins(0, ox+3*L+r.Intn(L), y, oz+L+r.Intn(L/2), L/2+r.Intn(L), L/2+r.Intn(L))
			}
		}
	case 3: // growth in the four directions in turn, with merges on the way
		step := (1 + r.Intn(6)) * L
		x, z := 0, 0
		for i := 0; i < length; i++ {
			switch i % 4 {
			case 0:
				x = -(i/4 + 1) * step
			case 1:
				z = -(i/4 + 1) * step
			case 2:
				x = (i/4 + 1) * step
			case 3:
				z = (i/4 + 1) * step
			}
			if r.Intn(3) == 0 {
				g.near(0, L)
			} else {
				g.ins(0, x+r.Intn(L), g.y(), z+r.Intn(L), g.ext(3*L), g.ext(3*L))
			}
		}
	case 4: // stacked levels over the same spot
		ox, oz := (r.Intn(20)-10)*L, (r.Intn(20)-10)*L
		for i := 0; i < length; i++ {
			g.ins(0, ox+r.Intn(2*L)-L, (r.Intn(9)-4)*[]int{4, 5, 8, 9, 10, 13}[r.Intn(6)], oz+r.Intn(2*L)-L, g.ext(3*L), g.ext(3*L))
		}
	case 5: // non-lattice float32 inputs
		for i := 0; i < length; i++ {
			f := func(s float64) uint32 { return bf(float32((r.Float64()*2 - 1) * s)) }
			e := func(s float64) uint32 { return bf(float32(0.01 + r.Float64()*s)) }
			var c V3
			if len(h.Ops) > 0 && r.Intn(3) != 0 {
				o := h.Ops[r.Intn(len(h.Ops))]
				c = V3{bf(fb(o.A[0]) + float32(r.NormFloat64()*0.3)), bf(fb(o.A[1]) + float32(float64(r.Intn(3)-1)*r.Float64()*0.7)), bf(fb(o.A[2]) + float32(r.NormFloat64()*0.3))}
			} else {
				c = V3{f(12), bf(float32(r.Intn(3)) * 0.37), f(12)}
			}
			h.Ops = append(h.Ops, Op{Kind: 'I', A: c, B: V3{e(3), bf(0), e(3)}})
		}
	case 6: // big planes
		for i := 0; i < length; i++ {
			if r.Intn(2) == 0 {
				g.ins(0, (r.Intn(60)-30)*L, g.y(), (r.Intn(60)-30)*L, (1+r.Intn(30))*L+r.Intn(L), (1+r.Intn(30))*L+r.Intn(L))
			} else {
				g.near(0, 2*L)
			}
		}
	case 8: // planes of every scale: half-extents from 10 m down to the smallest positive float32, far from the origin too
		scales := []float64{10, 1, 1e-2, 1e-4, 3e-6, 1e-6, 3e-7, 1e-8, 1e-12, 1e-19, 1e-23, 1e-30, 1e-38, 1e-42, 1.4e-45}
		if length > 10 {
			length = 10 // the exact model's rationals get large with these magnitudes: short histories, many of them
		}
		for i := 0; i < length; i++ {
			e := func() uint32 {
				v := float32(scales[r.Intn(len(scales))] * (0.5 + r.Float64()))
				if v <= 0 {
					v = math.SmallestNonzeroFloat32
				}
				return bf(v)
			}
			c := func() uint32 {
				switch r.Intn(4) {
				case 0:
					return bf(float32((r.Float64()*2 - 1) * 0.5))
				case 1:
					return bf(float32(r.Intn(121) - 60))
				default:
					return bf(float32((r.Float64()*2 - 1) * 50))
				}
			}
			h.Ops = append(h.Ops, Op{Kind: 'I', A: V3{c(), bf(float32(r.Intn(5)-2) * 2), c()}, B: V3{e(), bf(0), e()}})
		}
	case 7: // module mode: two to four participants joining and leaving between insertions
		h.Mode, h.Res = 1, 2
		h.Ops = append(h.Ops, Op{Kind: 'J', P: 0})
		next := 1
		for i := 0; i < length; i++ {
			switch r.Intn(10) {
			case 0:
				if r.Intn(3) == 0 {
					h.Ops = append(h.Ops, Op{Kind: 'J', P: r.Intn(next)}) // a return (after A) or a rejoin (after L)
				} else {
					h.Ops = append(h.Ops, Op{Kind: 'J', P: next})
					next++
				}
			case 1:
				h.Ops = append(h.Ops, Op{Kind: 'L', P: r.Intn(next)})
			case 2:
				h.Ops = append(h.Ops, Op{Kind: 'A', P: r.Intn(next)})
			case 3:
				h.Ops = append(h.Ops, Op{Kind: 'B', P: next})
				next++
			default:
				p := r.Intn(next)
				if r.Intn(3) == 0 {
					w := (2 + r.Intn(10)) * L
					g.ins(p, r.Intn(2*w+1)-w, g.y(), r.Intn(2*w+1)-w, g.ext(3*L), g.ext(3*L))
				} else {
					g.near(p, L/2)
				}
			}
		}
		// the retention clause in its plainest form at the end: a newcomer, then the oldest member leaves
		h.Ops = append(h.Ops, Op{Kind: 'J', P: next}, Op{Kind: 'L', P: 0})
		return h
	}
	// extra queries on the final grid: partial regions and rays of any direction
	for i := 0; i < 3; i++ {
		a, b := (r.Intn(40)-20)*L, (r.Intn(40)-20)*L
		c, d := a+r.Intn(20*L), b+r.Intn(20*L)
		h.Ops = append(h.Ops, Op{Kind: 'G', A: V3{lat(a), bf(0), lat(b)}, B: V3{lat(c), bf(0), lat(d)}})
	}
	for i := 0; i < 4; i++ {
		w := 10 * L
		fx, fz := r.Intn(2*w)-w, r.Intn(2*w)-w
		tx, tz := fx, fz
		switch r.Intn(4) {
		case 0: // vertical
		case 1:
			tx = r.Intn(2*w) - w
		case 2:
			tz = r.Intn(2*w) - w
		default:
			tx, tz = r.Intn(2*w)-w, r.Intn(2*w)-w
		}
		h.Ops = append(h.Ops, Op{Kind: 'Y', A: V3{lat(fx), lat(3*L + r.Intn(L)), lat(fz)}, B: V3{lat(tx), lat(-3*L - r.Intn(L)), lat(tz)}})
	}
	return h
}

// ---------------------------------------------------------------- primitives
// PD a b res | PC a b rx ry rz | PN c e nx ny nz | PO ca ea cb eb res | PQ from to c e n hit t
func finiteVec(r *rand.Rand, class int) V3 {
	var v V3
	for i := range v {
		switch class {
		case 0: // lattice, small
			v[i] = lat(r.Intn(2*64*L+1) - 64*L)
		case 1: // any magnitude up to 1e18
			v[i] = bf(float32((r.Float64()*2 - 1) * math.Pow(10, float64(r.Intn(37)-18))))
		case 2: // boundary values
			v[i] = []uint32{0, 0x80000000, 1, 0x80000001, 0x007fffff, 0x00800000, 0x3f800000, 0xbf800000, 0x3f7fffff, 0x3f800001,
				0x5d5e0b6b /* 1e18 */, 0xdd5e0b6b, 0x42800000 /* 64 */, 0xc2800000, 0x7f7fffff, 0xff7fffff}[r.Intn(16)]
		default: // random finite bit pattern
			for {
				b := r.Uint32()
				if (b>>23)&0xff != 0xff {
					v[i] = b
					break
				}
			}
		}
	}
	return v
}

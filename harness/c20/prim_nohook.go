//go:build c20nohook

package main

import (
	"github.com/aukilabs/hagall-common/messages/dagazpb"
	"github.com/aukilabs/hagall/modules/dagaz"
)

// Fallback when hooks/modules__dagaz__grid_verif.go no longer fits the code: only the exported API.
const haveHook = false

func primOverlap(a, b dagaz.Quad) bool { return false }
func primNormal(c, e dagaz.Vector3f) dagaz.Vector3f {
	return dagaz.NewQuadFromProtobuf(&dagazpb.Quad{Center: c.ToProtobuf(), Extents: e.ToProtobuf()}).Normal
}

package main

// Runner of the C20 harness: executes a history against the REAL dagaz code and writes, after
// every operation, the grid state and the results of the property's queries in a line-oriented
// integer format (float32 values as their IEEE bit patterns, so that the oracle reads them exactly).
//
//   H <hid> <mode 0=grid 1=module> <res> <kind>
//   I <p> <cx cy cz ex ey ez>            insert by participant p (grid mode: p = 0)
//   J <p> / L <p>                         join / leave (module mode)
//   A <p>                                 participant p switches to a session of its own and samples a plane there
//                                         (for the observed session: a departure); a later J <p> switches it back
//   B <p>                                 a new participant that first creates another session, samples a plane there,
//                                         then switches to the observed session (for the observed session: a join)
//   N                                     the session's grid object was replaced (new instance)
//   X <what>                              the operation panicked (recovered); what: 1 insert 2 query
//   S <planecount> <mergecount> <minx miny minz maxx maxy maxz> <rows> <cols> <res> <nplanes>
//   W <len(row 0)> <len(row 1)> …        row widths
//   P <id> <cx cy cz ex ey ez nx ny nz> <mergecount>
//   C <y> <x0> <x1> <n> <ids…>           cells (y, x0..x1) all hold exactly this list (non-empty only)
//   R <status> <n> <ids… sorted>          GetRegion(Min-1, Max+1); status 0 ok, 2 panic; -1 = unknown pointer
//   V <id> <fx fy fz tx ty tz> <hit> <t>  IntersectQuad(vertical ray through the centre of plane id); hit -1 nil, -2 panic
//   D <res rows cols pc mc minx miny minz maxx maxy maxz> <n> <occupancy…>     GetDebugInfo
//   MR <p> <status> <n> <ids…>           module: region response seen by participant p (quads matched to planes by value)
//   MD <p> <status> <res rows cols pc mc> module: debug-info response seen by participant p
//   MV <p> <id> <hit>                     module: ground-plane response of p for the centre ray of plane id
//   Y <fx fy fz tx ty tz> <hit> <t>       extra ray query (any direction)
//   G <lox loy loz hix hiy hiz> <status> <n> <ids…>   extra region query
//   E

import (
	"bufio"
	"context"
	"fmt"
	"math"
	"sort"
	"strings"
	"time"

	"github.com/aukilabs/hagall-common/messages/dagazpb"
	"github.com/aukilabs/hagall-common/messages/hagallpb"
	hwebsocket "github.com/aukilabs/hagall-common/websocket"
	"github.com/aukilabs/hagall/featureflag"
	"github.com/aukilabs/hagall/models"
	"github.com/aukilabs/hagall/modules"
	"github.com/aukilabs/hagall/modules/dagaz"
	hagallws "github.com/aukilabs/hagall/websocket"
	"github.com/ethereum/go-ethereum/crypto"
)

type V3 [3]uint32

func fb(b uint32) float32 { return math.Float32frombits(b) }
func bf(x float32) uint32 { return math.Float32bits(x) }
func mkV(v V3) dagaz.Vector3f {
	return dagaz.NewVector3f(fb(v[0]), fb(v[1]), fb(v[2]))
}
func vb(v dagaz.Vector3f) V3 {
	p := v.ToProtobuf()
	return V3{bf(p.X), bf(p.Y), bf(p.Z)}
}
func pt(v V3) *dagazpb.Point { return &dagazpb.Point{X: fb(v[0]), Y: fb(v[1]), Z: fb(v[2])} }
func ptb(p *dagazpb.Point) V3 {
	if p == nil {
		return V3{}
	}
	return V3{bf(p.X), bf(p.Y), bf(p.Z)}
}
func v3s(v V3) string { return fmt.Sprintf("%d %d %d", v[0], v[1], v[2]) }

type Op struct {
	Kind byte // I J L Y G
	P    int
	A, B V3
}

type Hist struct {
	ID   int
	Mode int // 0 grid, 1 module
	Res  int
	Kind int // generator family (information only)
	Ops  []Op
}

func (h *Hist) Text() string {
	var sb strings.Builder
	fmt.Fprintf(&sb, "H %d %d %d %d\n", h.ID, h.Mode, h.Res, h.Kind)
	for _, o := range h.Ops {
		switch o.Kind {
		case 'I':
			fmt.Fprintf(&sb, "I %d %s %s\n", o.P, v3s(o.A), v3s(o.B))
		case 'J', 'L', 'A', 'B':
			fmt.Fprintf(&sb, "%c %d\n", o.Kind, o.P)
		case 'Y', 'G':
			fmt.Fprintf(&sb, "%c %s %s\n", o.Kind, v3s(o.A), v3s(o.B))
		}
	}
	sb.WriteString("E\n")
	return sb.String()
}

// ---------------------------------------------------------------- dumping a grid
type dumper struct {
	out  *bufio.Writer
	grid *dagaz.RegularGrid
	ids  map[*dagaz.Quad]int
	ptrs []*dagaz.Quad
}

func (d *dumper) attach(g *dagaz.RegularGrid) {
	if d.grid != g {
		if d.grid != nil {
			fmt.Fprintf(d.out, "N\n")
		}
		d.grid = g
		d.ids = map[*dagaz.Quad]int{}
		d.ptrs = nil
	}
}

func (d *dumper) id(q *dagaz.Quad) int {
	if q == nil {
		return -1
	}
	if i, ok := d.ids[q]; ok {
		return i
	}
	return -1
}

func ints(v []int) string {
	var sb strings.Builder
	for i, x := range v {
		if i > 0 {
			sb.WriteByte(' ')
		}
		fmt.Fprintf(&sb, "%d", x)
	}
	return sb.String()
}

func (d *dumper) state() {
	g := d.grid
	// new pointers get the next index, in row-major order of first appearance
	for y := range g.Grid {
		for x := range g.Grid[y] {
			for _, q := range g.Grid[y][x] {
				if q == nil {
					continue
				}
				if _, ok := d.ids[q]; !ok {
					d.ids[q] = len(d.ptrs)
					d.ptrs = append(d.ptrs, q)
				}
			}
		}
	}
	cols := 0
	if len(g.Grid) > 0 {
		cols = len(g.Grid[0])
	}
	fmt.Fprintf(d.out, "S %d %d %s %s %d %d %d %d\n", g.PlaneCount, g.MergeCount, v3s(vb(g.Min)), v3s(vb(g.Max)),
		len(g.Grid), cols, g.Resolution, len(d.ptrs))
	w := make([]int, len(g.Grid))
	for y := range g.Grid {
		w[y] = len(g.Grid[y])
	}
	fmt.Fprintf(d.out, "W %s\n", ints(w))
	for i, q := range d.ptrs {
		fmt.Fprintf(d.out, "P %d %s %s %s %d\n", i, v3s(vb(q.Center)), v3s(vb(q.Extents)), v3s(vb(q.Normal)), q.MergeCount)
	}
	for y := range g.Grid {
		row := g.Grid[y]
		x := 0
		for x < len(row) {
			if len(row[x]) == 0 {
				x++
				continue
			}
			x1 := x
			for x1+1 < len(row) && sameCell(row[x1+1], row[x]) {
				x1++
			}
			l := make([]int, len(row[x]))
			for k, q := range row[x] {
				l[k] = d.id(q)
			}
			fmt.Fprintf(d.out, "C %d %d %d %d %s\n", y, x, x1, len(l), ints(l))
			x = x1 + 1
		}
	}
}

func sameCell(a, b []*dagaz.Quad) bool {
	if len(a) != len(b) {
		return false
	}
	for i := range a {
		if a[i] != b[i] {
			return false
		}
	}
	return true
}

func (d *dumper) region(lo, hi dagaz.Vector3f) (status int, ids []int) {
	defer func() {
		if r := recover(); r != nil {
			status, ids = 2, nil
		}
	}()
	qs := d.grid.GetRegion(lo, hi)
	for _, q := range qs {
		ids = append(ids, d.id(q))
	}
	sort.Ints(ids)
	return 0, ids
}

func (d *dumper) rayq(r dagaz.Ray) (hit int, t uint32) {
	defer func() {
		if r := recover(); r != nil {
			hit, t = -2, 0
		}
	}()
	q, tt := d.grid.IntersectQuad(r)
	return d.id(q), bf(tt)
}

func (d *dumper) debug() {
	defer func() {
		if r := recover(); r != nil {
			fmt.Fprintf(d.out, "X 2\n")
		}
	}()
	di := d.grid.GetDebugInfo()
	occ := make([]int, len(di.Occupancy))
	for i, o := range di.Occupancy {
		occ[i] = int(o)
	}
	// run-length: occupancy is compared in full by the oracle; keep it compact: value count pairs
	var rl []int
	for i := 0; i < len(occ); {
		j := i
		for j < len(occ) && occ[j] == occ[i] {
			j++
		}
		rl = append(rl, occ[i], j-i)
		i = j
	}
	fmt.Fprintf(d.out, "D %d %d %d %d %d %s %s %d %s\n", di.Resolution, di.Row_count, di.Col_count, di.Plane_count, di.Merge_count,
		v3s(vb(di.Min_point)), v3s(vb(di.Max_point)), len(rl)/2, ints(rl))
}

// the queries of the property, on the current state
func (d *dumper) propertyQueries() {
	g := d.grid
	mn, mx := g.Min.ToProtobuf(), g.Max.ToProtobuf()
	st, ids := d.region(dagaz.NewVector3f(mn.X-1, 0, mn.Z-1), dagaz.NewVector3f(mx.X+1, 0, mx.Z+1))
	fmt.Fprintf(d.out, "R %d %d %s\n", st, len(ids), ints(ids))
	for i, q := range d.ptrs {
		c := q.Center.ToProtobuf()
		from := dagaz.NewVector3f(c.X, c.Y+1, c.Z)
		to := dagaz.NewVector3f(c.X, c.Y-1, c.Z)
		hit, t := d.rayq(dagaz.Ray{From: from, To: to})
		fmt.Fprintf(d.out, "V %d %s %s %d %d\n", i, v3s(vb(from)), v3s(vb(to)), hit, t)
	}
	d.debug()
}

func insertQuad(g *dagaz.RegularGrid, c, e V3) (panicked bool) {
	defer func() {
		if r := recover(); r != nil {
			panicked = true
		}
	}()
	// exactly what HandleDagazQuadSample does with a sample
	q := dagaz.NewQuadFromProtobuf(&dagazpb.Quad{Center: pt(c), Extents: pt(e)})
	g.InsertQuad(q)
	return false
}

// ---------------------------------------------------------------- grid mode
func runGrid(h *Hist, out *bufio.Writer) {
	fmt.Fprintf(out, "H %d %d %d %d\n", h.ID, h.Mode, h.Res, h.Kind)
	g := dagaz.NewRegularGrid(1, 1, uint(h.Res))
	d := &dumper{out: out}
	d.attach(g)
	d.state()
	d.propertyQueries()
	for _, o := range h.Ops {
		switch o.Kind {
		case 'I':
			fmt.Fprintf(out, "I %d %s %s\n", o.P, v3s(o.A), v3s(o.B))
			if insertQuad(g, o.A, o.B) {
				fmt.Fprintf(out, "X 1\n")
			}
			d.state()
			d.propertyQueries()
		case 'Y':
			hit, t := d.rayq(dagaz.Ray{From: mkV(o.A), To: mkV(o.B)})
			fmt.Fprintf(out, "Y %s %s %d %d\n", v3s(o.A), v3s(o.B), hit, t)
		case 'G':
			st, ids := d.region(mkV(o.A), mkV(o.B))
			fmt.Fprintf(out, "G %s %s %d %d %s\n", v3s(o.A), v3s(o.B), st, len(ids), ints(ids))
		}
	}
	fmt.Fprintf(out, "E\n")
}

// ---------------------------------------------------------------- module mode
type sink struct{ msgs *[]hwebsocket.Msg }

func (s sink) Send(pm hwebsocket.ProtoMsg) {
	m, err := hwebsocket.MsgFromProto(pm)
	if err == nil {
		*s.msgs = append(*s.msgs, m)
	}
}
func (s sink) SendMsg(m hwebsocket.Msg) { *s.msgs = append(*s.msgs, m) }

type part struct {
	rh     *hagallws.RealtimeHandler
	msgs   []hwebsocket.Msg
	joined bool // member of the observed session
	away   bool // connected, member of a session of its own
}

// noSwitch runs A / B as a plain departure / join of a fresh connection (no other session is involved): the
// control run that tells a cross-session effect from a defect of joins and departures themselves
var noSwitch bool

// elsewhere: the participant creates a session of its own and samples one plane there
func (p *part) elsewhere(k int) bool {
	if _, ok := p.join(""); !ok {
		return false
	}
	p.joined = false
	p.away = true
	p.mod(&dagazpb.DagazQuadSample{Type: dagazpb.MsgType_MSG_TYPE_DAGAZ_QUAD_SAMPLE,
		Samples: []*dagazpb.Quad{{Center: &dagazpb.Point{X: float32(40 + k%8), Y: 0, Z: 40}, Extents: &dagazpb.Point{X: 1, Y: 0, Z: 1}}}})
	return true
}

var theKey, _ = crypto.GenerateKey()

func newPart(store *models.SessionStore) *part {
	return &part{rh: &hagallws.RealtimeHandler{
		ClientSyncClockInterval: time.Hour, ClientIdleTimeout: time.Hour, FrameDuration: time.Hour,
		Sessions: store, Modules: []modules.Module{&dagaz.Module{}}, FeatureFlags: featureflag.New(nil),
		PrivateKey: theKey}}
}

func (p *part) join(sid string) (string, bool) {
	m, _ := hwebsocket.MsgFromProto(&hagallpb.ParticipantJoinRequest{Type: hagallpb.MsgType_MSG_TYPE_PARTICIPANT_JOIN_REQUEST, RequestId: 1, SessionId: sid})
	p.msgs = nil
	if err := p.rh.HandleParticipantJoin(context.Background(), func() {}, sink{&p.msgs}, m); err != nil {
		return "", false
	}
	for _, r := range p.msgs {
		if r.Type.Number() == 4 {
			var jr hagallpb.ParticipantJoinResponse
			r.DataTo(&jr)
			p.joined = true
			return jr.SessionId, true
		}
	}
	return "", false
}

// the production dispatch of a module message: handler.handleMessage's loop over GetModules()
func (p *part) mod(pm hwebsocket.ProtoMsg) (res []hwebsocket.Msg, panicked bool) {
	defer func() {
		if r := recover(); r != nil {
			panicked = true
		}
	}()
	m, _ := hwebsocket.MsgFromProto(pm)
	p.msgs = nil
	for _, mo := range p.rh.GetModules() {
		_ = p.rh.HandleWithModule(context.Background(), mo, sink{&p.msgs}, m)
	}
	return p.msgs, false
}

func sessionGrid(s *models.Session) *dagaz.RegularGrid {
	if s == nil {
		return nil
	}
	st, ok := s.ModuleState("dagaz")
	if !ok {
		return nil
	}
	ds, ok := st.(*dagaz.State)
	if !ok || ds == nil {
		return nil
	}
	g, _ := ds.SpatialPartition.(*dagaz.RegularGrid)
	return g
}

// matches a protobuf quad with a dumped plane by value (centre, extents, merge count)
func (d *dumper) match(q *dagazpb.Quad, used map[int]bool) int {
	if q == nil {
		return -1
	}
	for i, p := range d.ptrs {
		if used != nil && used[i] {
			continue
		}
		if vb(p.Center) == ptb(q.Center) && vb(p.Extents) == ptb(q.Extents) && p.MergeCount == q.MergeCount {
			if used != nil {
				used[i] = true
			}
			return i
		}
	}
	return -1
}

func runModule(h *Hist, out *bufio.Writer) {
	fmt.Fprintf(out, "H %d %d %d %d\n", h.ID, h.Mode, h.Res, h.Kind)
	store := &models.SessionStore{}
	parts := map[int]*part{}
	var sess *models.Session
	sid := ""
	d := &dumper{out: out}
	inserted := false
	observe := func() {
		g := sessionGrid(sess)
		if g == nil {
			// a session in which no plane was sampled yet may not have its grid yet (a module is free to create it with
			// the first message); a session that lost its grid after a plane was stored is a violation
			if inserted {
				fmt.Fprintf(out, "X 3\n")
			}
			return
		}
		d.attach(g)
		d.state()
		d.propertyQueries()
		var ps []int
		for k, p := range parts {
			if p.joined {
				ps = append(ps, k)
			}
		}
		sort.Ints(ps)
		mn, mx := g.Min.ToProtobuf(), g.Max.ToProtobuf()
		for _, k := range ps {
			p := parts[k]
			res, pan := p.mod(&dagazpb.DagazGetRegionRequest{Type: dagazpb.MsgType_MSG_TYPE_DAGAZ_GET_REGION_REQUEST, RequestId: 7,
				Min: &dagazpb.Point{X: mn.X - 1, Z: mn.Z - 1}, Max: &dagazpb.Point{X: mx.X + 1, Z: mx.Z + 1}})
			if pan || len(res) != 1 {
				fmt.Fprintf(out, "MR %d 2 0\n", k)
			} else {
				var rr dagazpb.DagazGetRegionResponse
				res[0].DataTo(&rr)
				used := map[int]bool{}
				var ids []int
				for _, q := range rr.Quads {
					ids = append(ids, d.match(q, used))
				}
				sort.Ints(ids)
				fmt.Fprintf(out, "MR %d 0 %d %s\n", k, len(ids), ints(ids))
			}
			res, pan = p.mod(&dagazpb.DagazGetDebugInfoRequest{Type: dagazpb.MsgType_MSG_TYPE_DAGAZ_GET_DEBUG_INFO_REQUEST, RequestId: 8})
			if pan || len(res) != 1 {
				fmt.Fprintf(out, "MD %d 2 0 0 0 0 0\n", k)
			} else {
				var dr dagazpb.DagazGetDebugInfoResponse
				res[0].DataTo(&dr)
				fmt.Fprintf(out, "MD %d 0 %d %d %d %d %d\n", k, dr.GridResolution, dr.GridRowCount, dr.GridColCount, dr.GridPlaneCount, dr.GridMergeCount)
			}
			for i, q := range d.ptrs {
				c := q.Center.ToProtobuf()
				res, pan = p.mod(&dagazpb.DagazGetGroundPlaneRequest{Type: dagazpb.MsgType_MSG_TYPE_DAGAZ_GET_GROUND_PLANE_REQUEST, RequestId: 9,
					Ray: &dagazpb.Ray{From: &dagazpb.Point{X: c.X, Y: c.Y + 1, Z: c.Z}, To: &dagazpb.Point{X: c.X, Y: c.Y - 1, Z: c.Z}}})
				if pan || len(res) != 1 {
					fmt.Fprintf(out, "MV %d %d -2\n", k, i)
				} else {
					var gr dagazpb.DagazGetGroundPlaneResponse
					res[0].DataTo(&gr)
					fmt.Fprintf(out, "MV %d %d %d\n", k, i, d.match(gr.Ground, nil))
				}
			}
		}
	}
	first := true
	for _, o := range h.Ops {
		switch o.Kind {
		case 'J', 'B':
			p := parts[o.P]
			if p == nil {
				p = newPart(store)
				parts[o.P] = p
				if o.Kind == 'B' && sid != "" && !noSwitch {
					if !p.elsewhere(o.P) {
						fmt.Fprintf(out, "B %d\nX 4\n", o.P)
						continue
					}
				}
			}
			if p.joined {
				continue
			}
			fmt.Fprintf(out, "%c %d\n", o.Kind, o.P)
			s, ok := p.join(sid)
			if !ok {
				fmt.Fprintf(out, "X 4\n")
				continue
			}
			p.away = false
			if sid == "" {
				sid = s
			}
			sess = p.rh.CurrentSession()
			if first {
				first = false
			}
			observe()
		case 'A':
			p := parts[o.P]
			if p == nil || !p.joined {
				continue
			}
			n := 0
			for _, q := range parts {
				if q.joined {
					n++
				}
			}
			if n <= 1 {
				continue
			}
			fmt.Fprintf(out, "A %d\n", o.P)
			if noSwitch {
				p.rh.HandleDisconnect(nil)
				p.joined = false
				delete(parts, o.P)
			} else if !p.elsewhere(o.P) {
				fmt.Fprintf(out, "X 4\n")
				continue
			}
			observe()
		case 'L':
			p := parts[o.P]
			if p == nil || !p.joined {
				continue
			}
			// never let the session die inside a history: the last member stays
			n := 0
			for _, q := range parts {
				if q.joined {
					n++
				}
			}
			if n <= 1 {
				continue
			}
			fmt.Fprintf(out, "L %d\n", o.P)
			p.rh.HandleDisconnect(nil)
			p.joined = false
			delete(parts, o.P)
			observe()
		case 'I':
			p := parts[o.P]
			if p == nil || !p.joined {
				continue
			}
			fmt.Fprintf(out, "I %d %s %s\n", o.P, v3s(o.A), v3s(o.B))
			_, pan := p.mod(&dagazpb.DagazQuadSample{Type: dagazpb.MsgType_MSG_TYPE_DAGAZ_QUAD_SAMPLE,
				Samples: []*dagazpb.Quad{{Center: pt(o.A), Extents: pt(o.B)}}})
			inserted = true
			if pan {
				fmt.Fprintf(out, "X 1\n")
			}
			observe()
		}
	}
	// release the session (outside the trace)
	for _, p := range parts {
		if p.joined || p.away {
			p.rh.HandleDisconnect(nil)
		}
	}
	fmt.Fprintf(out, "E\n")
}

func runHist(h *Hist, out *bufio.Writer) {
	if h.Mode == 1 {
		runModule(h, out)
	} else {
		runGrid(h, out)
	}
}

// Command c20 drives the real dagaz.RegularGrid / dagaz.Module for property C20.
//
//	c20 gen    -seed S -n N [-len L] [-kinds 0,1,2,…] -out trace [-hist file]
//	c20 replay -in history -out trace
//	c20 prims  -seed S -n N -out trace
package main

import (
	"bufio"
	"flag"
	"fmt"
	"math/rand"
	"os"
	"strconv"
	"strings"
)

func fail(err error) {
	fmt.Fprintln(os.Stderr, "c20:", err)
	os.Exit(2)
}

func parseHist(lines []string) ([]*Hist, error) {
	var hs []*Hist
	var cur *Hist
	for _, line := range lines {
		f := strings.Fields(line)
		if len(f) == 0 || strings.HasPrefix(f[0], "#") {
			continue
		}
		n := func(i int) int {
			if i >= len(f) {
				return 0
			}
			v, _ := strconv.ParseInt(f[i], 10, 64)
			return int(v)
		}
		v3 := func(i int) V3 { return V3{uint32(n(i)), uint32(n(i + 1)), uint32(n(i + 2))} }
		switch f[0] {
		case "H":
			cur = &Hist{ID: n(1), Mode: n(2), Res: n(3), Kind: n(4)}
			hs = append(hs, cur)
		case "I":
			if cur != nil && len(f) >= 8 {
				cur.Ops = append(cur.Ops, Op{Kind: 'I', P: n(1), A: v3(2), B: v3(5)})
			}
		case "J", "L", "A", "B":
			if cur != nil {
				cur.Ops = append(cur.Ops, Op{Kind: f[0][0], P: n(1)})
			}
		case "Y", "G":
			if cur != nil && len(f) >= 7 {
				cur.Ops = append(cur.Ops, Op{Kind: f[0][0], A: v3(1), B: v3(4)})
			}
		case "E":
			cur = nil
		}
		// every other line (S, P, C, R, V, D, …) is an observation of an earlier run: ignored
	}
	return hs, nil
}

func main() {
	if len(os.Args) < 2 {
		fail(fmt.Errorf("usage: c20 gen|replay|prims …"))
	}
	fs := flag.NewFlagSet(os.Args[1], flag.ExitOnError)
	seed := fs.Int64("seed", 1, "")
	n := fs.Int("n", 10, "")
	length := fs.Int("len", 0, "")
	kinds := fs.String("kinds", "0,1,2,3,4,5,6,7,8", "")
	outp := fs.String("out", "", "")
	inp := fs.String("in", "", "")
	histp := fs.String("hist", "", "")
	fs.BoolVar(&noSwitch, "noswitch", false, "run A / B as a plain departure / join (control run)")
	fs.Parse(os.Args[2:])
	of, err := os.Create(*outp)
	if err != nil {
		fail(err)
	}
	out := bufio.NewWriterSize(of, 1<<20)
	defer func() { out.Flush(); of.Close() }()
	switch os.Args[1] {
	case "gen":
		r := rand.New(rand.NewSource(*seed))
		var ks []int
		for _, s := range strings.Split(*kinds, ",") {
			k, _ := strconv.Atoi(s)
			ks = append(ks, k)
		}
		var hf *bufio.Writer
		if *histp != "" {
			f, err := os.Create(*histp)
			if err != nil {
				fail(err)
			}
			hf = bufio.NewWriter(f)
			defer func() { hf.Flush(); f.Close() }()
		}
		for i := 0; i < *n; i++ {
			k := ks[i%len(ks)]
			l := *length
			if l == 0 {
				l = 6 + r.Intn(20)
			}
			h := genHist(r, i, k, l)
			if hf != nil {
				hf.WriteString(h.Text())
			}
			runHist(h, out)
		}
	case "replay":
		b, err := os.ReadFile(*inp)
		if err != nil {
			fail(err)
		}
		hs, err := parseHist(strings.Split(string(b), "\n"))
		if err != nil {
			fail(err)
		}
		for _, h := range hs {
			runHist(h, out)
		}
	case "prims":
		runPrims(rand.New(rand.NewSource(*seed)), 0, *n, out)
	default:
		fail(fmt.Errorf("unknown command %s", os.Args[1]))
	}
}

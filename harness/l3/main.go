// l3: controlled schedules at lock granularity against the REAL handlers (property C07/C10, concurrent clause).
//
// Built by checks/c07conc.py with an overlay in which every x.Lock()/x.RLock() statement of the repository's
// models, websocket and modules/* packages has been rewritten by tools/instrument into a yield to the cooperative
// scheduler verifsched (tools/instrument/verifsched/sched.go, added by the same overlay). Every connection of a
// scenario is one scheduler thread that runs its operations (create a session, join a session by id,
// disconnect) through the real websocket handler; a schedule is a list of thread choices; one choice runs one
// critical section of that thread plus the lock-free code after it. Steps whose call chain does not touch the
// session registry or the membership of a session ("tau": snapshots, broadcasts, frame handler registration,
// unsubscription) are, in the default -points=visible mode, run together with the preceding visible step.
//
// Modes:
//   l3 -progs 'C,L|J1' -run 1,1,1,1,1,2,1,1,1,1,2,2      one schedule (unfinished threads are then run to their end)
//   l3 -progs 'C,L|J1' -explore -bound 2 [-prefix 1,1,1,1,1]  every schedule within the preemption bound that starts
//                                                          with the given choices (sequential set-up)
// Output: one line per execution, integers only (see emit), read by checks/c07conc.py and oracle/conc.
package main

import (
	"bufio"
	"context"
	"flag"
	"fmt"
	"math"
	"os"
	"sort"
	"strconv"
	"strings"
	"time"

	"github.com/aukilabs/hagall-common/messages/hagallpb"
	"github.com/aukilabs/hagall-common/ncsclient"
	hwebsocket "github.com/aukilabs/hagall-common/websocket"
	"github.com/aukilabs/hagall/featureflag"
	"github.com/aukilabs/hagall/models"
	hagallws "github.com/aukilabs/hagall/websocket"
	"github.com/aukilabs/hagall/verifsched"
	"github.com/ethereum/go-ethereum/crypto"
	"github.com/prometheus/client_golang/prometheus"
	"google.golang.org/protobuf/types/known/timestamppb"
)

// ---------------------------------------------------------------- scenario
type Op struct {
	K   byte // 'C' create, 'J' join by numeric id, 'L' disconnect
	Sid uint32
}

func parseProgs(s string) ([][]Op, error) {
	var out [][]Op
	for _, p := range strings.Split(s, "|") {
		var prog []Op
		for _, o := range strings.Split(p, ",") {
			o = strings.TrimSpace(o)
			if o == "" {
				continue
			}
			switch o[0] {
			case 'C', 'L':
				prog = append(prog, Op{K: o[0]})
			case 'J':
				n, err := strconv.ParseUint(o[1:], 10, 32)
				if err != nil {
					return nil, fmt.Errorf("bad op %q", o)
				}
				prog = append(prog, Op{K: 'J', Sid: uint32(n)})
			default:
				return nil, fmt.Errorf("bad op %q", o)
			}
		}
		out = append(out, prog)
	}
	return out, nil
}

func parseInts(s string) ([]int, error) {
	var out []int
	for _, x := range strings.Split(s, ",") {
		x = strings.TrimSpace(x)
		if x == "" {
			continue
		}
		n, err := strconv.Atoi(x)
		if err != nil {
			return nil, err
		}
		out = append(out, n)
	}
	return out, nil
}

// ---------------------------------------------------------------- classification of a yield by its call chain
const (
	opTau     = 0
	opGet     = 1
	opNewID   = 2
	opAdd     = 3
	opNewPID  = 4
	opAddP    = 5
	opRmP     = 6
	opCount   = 7
	opRemA    = 8
	opRemB    = 9
	opUnknown = 99
)

func classify(chain []string) int {
	// keep the frames of package models
	var m []string
	for _, f := range chain {
		if strings.HasPrefix(f, "models.") {
			m = append(m, strings.TrimPrefix(f, "models."))
		}
	}
	if len(m) == 0 {
		return opTau
	}
	has := func(s string) int {
		for i, f := range m {
			if f == s {
				return i
			}
		}
		return -1
	}
	last := m[len(m)-1]
	// an instruction of Conc.v is the acquisition made BY the method itself (or, for the id generators, by the
	// generator it delegates to); a further acquisition nested inside its critical section (another lock taken
	// while the method's own is held) belongs to the same critical section and is no scheduling point of its own
	inGen := strings.HasPrefix(last, "(*SequentialIDGenerator).")
	switch {
	case last == "(*SessionStore).GetByGlobalID":
		return opGet
	case has("(*SessionStore).NewID") >= 0 && inGen:
		return opNewID
	case last == "(*SessionStore).Add":
		return opAdd
	case has("(*Session).NewParticipantID") >= 0 && inGen:
		return opNewPID
	case last == "(*Session).AddParticipant":
		return opAddP
	case last == "(*Session).RemoveParticipant":
		return opRmP
	case last == "(*Session).ParticipantCount":
		return opCount
	case last == "(*SessionStore).Remove":
		return opRemA
	case has("(*SessionStore).Remove") >= 0:
		return opRemB
	case has("(*Session).AddParticipant") >= 0 || has("(*Session).RemoveParticipant") >= 0 || has("(*Session).ParticipantCount") >= 0:
		return opTau
	}
	for _, f := range m {
		if strings.HasPrefix(f, "(*SessionStore).") {
			return opUnknown
		}
	}
	return opTau
}

// ---------------------------------------------------------------- one execution
type answer struct {
	kind          int // 1 success, 2 NOT_FOUND, 3 another error
	sid, pid      uint32
	uuid          string
	nJoinAnswers  int
}

type sink struct {
	ex   *execution
	conn int
}

func (s sink) Send(pm hwebsocket.ProtoMsg) {
	msg, err := hwebsocket.MsgFromProto(pm)
	if err != nil {
		return
	}
	s.SendMsg(msg)
}

func (s sink) SendMsg(msg hwebsocket.Msg) {
	c := s.ex.conns[s.conn]
	switch int(msg.Type.Number()) {
	case int(hagallpb.MsgType_MSG_TYPE_PARTICIPANT_JOIN_RESPONSE):
		var m hagallpb.ParticipantJoinResponse
		if msg.DataTo(&m) != nil {
			return
		}
		a := &c.answers[c.cur]
		a.nJoinAnswers++
		a.kind, a.pid, a.uuid = 1, m.ParticipantId, m.SessionUuid
		a.sid = math.MaxUint32
		if i := strings.LastIndexByte(m.SessionId, 'x'); i >= 0 {
			if n, err := strconv.ParseUint(m.SessionId[i+1:], 16, 32); err == nil {
				a.sid = uint32(n)
			}
		}
	case int(hagallpb.MsgType_MSG_TYPE_ERROR_RESPONSE):
		var m hagallpb.ErrorResponse
		if msg.DataTo(&m) != nil {
			return
		}
		a := &c.answers[c.cur]
		a.nJoinAnswers++
		if m.Code == hagallpb.ErrorCode_ERROR_CODE_NOT_FOUND {
			a.kind = 2
		} else {
			a.kind = 3
		}
	}
}

type connState struct {
	rh      *hagallws.RealtimeHandler
	vc      *hagallws.VerifConn
	prog    []Op
	cur     int // index of the operation in progress
	answers []answer
	done    bool
	panicked string
}

type step struct{ t, op, hint int }

type execution struct {
	choices []int // every choice that executed something, in order
	store   *models.SessionStore
	conns   []*connState // index 1..n
	gauge0  float64
	steps   []step
	blocked int
	unknown map[string]bool
	uuids   map[string]int
	allPoints bool
}

var theKey, _ = crypto.GenerateKey()

func sessionGauge() float64 {
	mfs, err := prometheus.DefaultGatherer.Gather()
	if err != nil {
		return math.NaN()
	}
	var sum float64
	for _, mf := range mfs {
		if mf.GetName() == "session_count" {
			for _, m := range mf.GetMetric() {
				sum += m.GetGauge().GetValue()
			}
		}
	}
	return sum
}

func joinMsg(rid uint32, sid string) hwebsocket.Msg {
	m, err := hwebsocket.MsgFromProto(&hagallpb.ParticipantJoinRequest{
		Type: hagallpb.MsgType_MSG_TYPE_PARTICIPANT_JOIN_REQUEST, Timestamp: timestamppb.Now(), RequestId: rid, SessionId: sid})
	if err != nil {
		panic(err)
	}
	return m
}

func newExecution(progs [][]Op, allPoints bool) *execution {
	verifsched.Reset()
	ex := &execution{store: &models.SessionStore{}, unknown: map[string]bool{}, uuids: map[string]int{}, allPoints: allPoints}
	ex.gauge0 = sessionGauge()
	ex.conns = make([]*connState, len(progs)+1)
	rchan := make(chan ncsclient.ReceiptPayload, 128)
	for i, p := range progs {
		id := i + 1
		rh := &hagallws.RealtimeHandler{
			ClientSyncClockInterval: time.Hour, ClientIdleTimeout: time.Hour, FrameDuration: time.Hour,
			Sessions: ex.store, FeatureFlags: featureflag.New(nil), ReceiptChan: rchan, PrivateKey: theKey,
		}
		ex.conns[id] = &connState{rh: rh, vc: hagallws.NewVerifConn(rh, fmt.Sprintf("client-%d", id)), prog: p,
			answers: make([]answer, len(p))}
	}
	for id := 1; id < len(ex.conns); id++ {
		c := ex.conns[id]
		snk := sink{ex: ex, conn: id}
		cid := id
		ev := verifsched.Spawn(id, func() {
			ctx := context.Background()
			for i, o := range c.prog {
				c.cur = i
				switch o.K {
				case 'C':
					c.vc.Handle(ctx, joinMsg(uint32(100*cid+i), ""), snk)
				case 'J':
					c.vc.Handle(ctx, joinMsg(uint32(100*cid+i), fmt.Sprintf("tedx%x", o.Sid)), snk)
				case 'L':
					c.vc.Disconnect(nil)
				}
			}
		})
		ex.after(id, ev)
		if !ex.allPoints {
			ex.skipTaus(id)
		}
	}
	return ex
}

func (ex *execution) after(id int, ev verifsched.Event) {
	if ev.Kind == verifsched.Done || ev.Kind == verifsched.Panic {
		ex.conns[id].done = true
		if ev.Kind == verifsched.Panic {
			ex.conns[id].panicked = ev.Info
		}
	}
}

// pendingOp is the class of the critical section thread id is parked at (-1: finished).
func (ex *execution) pendingOp(id int) int {
	_, ch, ok := verifsched.Pending(id)
	if !ok {
		return -1
	}
	op := classify(ch)
	if op == opUnknown {
		ex.unknown[strings.Join(ch, ">")] = true
	}
	return op
}

func (ex *execution) skipTaus(id int) {
	for !ex.conns[id].done && ex.pendingOp(id) == opTau {
		ev := verifsched.Resume(id)
		if ev.Kind == verifsched.Blocked {
			return
		}
		ex.after(id, ev)
	}
}

// choose runs one step of thread id. Returns false when nothing happened (finished thread, or blocked).
func (ex *execution) choose(id int) bool {
	if id < 1 || id >= len(ex.conns) || ex.conns[id].done {
		return false
	}
	op := ex.pendingOp(id)
	var cur0 uint32
	var re0 []uint32
	if op == opNewID {
		cur0, re0 = ex.store.VerifIDs()
	}
	ev := verifsched.Resume(id)
	if ev.Kind == verifsched.Blocked || ev.Kind == verifsched.NoSuch {
		ex.blocked++
		return false
	}
	ex.after(id, ev)
	ex.choices = append(ex.choices, id)
	if op != opTau {
		hint := 0
		if op == opNewID {
			cur1, re1 := ex.store.VerifIDs()
			if cur1 != cur0 {
				hint = int(cur1)
			} else {
				in := map[uint32]bool{}
				for _, x := range re1 {
					in[x] = true
				}
				for _, x := range re0 {
					if !in[x] {
						hint = int(x)
					}
				}
			}
		}
		ex.steps = append(ex.steps, step{id, op, hint})
	}
	if !ex.allPoints {
		ex.skipTaus(id)
	}
	return true
}

func (ex *execution) allDone() bool {
	for id := 1; id < len(ex.conns); id++ {
		if !ex.conns[id].done {
			return false
		}
	}
	return true
}

// finish runs the unfinished threads to their end, lowest id first, without preemption. Returns false on a
// state in which every unfinished thread is blocked.
func (ex *execution) finish() bool {
	for !ex.allDone() {
		progress := false
		for id := 1; id < len(ex.conns); id++ {
			for !ex.conns[id].done {
				if !ex.choose(id) {
					break
				}
				progress = true
			}
		}
		if !progress {
			return false
		}
	}
	return true
}

func (ex *execution) uuidIdx(u string) int {
	if i, ok := ex.uuids[u]; ok {
		return i
	}
	i := len(ex.uuids) + 1
	ex.uuids[u] = i
	return i
}

// emit prints the observables of a finished execution on one line:
//   X <deadlock> <blocked attempts> <panics>
//   C n thread*                    every choice that executed something (the schedule, for -run with the same -points)
//   S n (thread op hint)*          the visible steps, in order
//   A n (conn opidx kind sid uuid pid)*   the answer to every create/join (kind 0: none, 1 success, 2 NOT_FOUND, 3 other)
//   G n (id uuid np pid*)*         the registry: numeric id -> session object (uuid index), its participant ids
//   U gauge                        session_count gauge, relative to the start of the execution
//   I cur n id*                    the session-id generator: counter, reusable ids
//   M n (conn sid uuid pid inrecord registered)*   handlers that believe they are in a session
// uuid indices are arbitrary (renamed to first occurrence by the reader).
func (ex *execution) emit(w *bufio.Writer, deadlock bool) {
	var sb strings.Builder
	np := 0
	for id := 1; id < len(ex.conns); id++ {
		if ex.conns[id].panicked != "" {
			np++
		}
	}
	fmt.Fprintf(&sb, "X %d %d %d C %d", b2i(deadlock), ex.blocked, np, len(ex.choices))
	for _, c := range ex.choices {
		fmt.Fprintf(&sb, " %d", c)
	}
	fmt.Fprintf(&sb, " S %d", len(ex.steps))
	for _, s := range ex.steps {
		fmt.Fprintf(&sb, " %d %d %d", s.t, s.op, s.hint)
	}
	type arec struct{ conn, idx int; a answer }
	var as []arec
	for id := 1; id < len(ex.conns); id++ {
		for i, o := range ex.conns[id].prog {
			if o.K != 'L' {
				as = append(as, arec{id, i, ex.conns[id].answers[i]})
			}
		}
	}
	fmt.Fprintf(&sb, " A %d", len(as))
	for _, r := range as {
		u := 0
		if r.a.kind == 1 {
			u = ex.uuidIdx(r.a.uuid)
		}
		k := r.a.kind
		if r.a.nJoinAnswers > 1 {
			k = 3
		}
		fmt.Fprintf(&sb, " %d %d %d %d %d %d", r.conn, r.idx, k, r.a.sid, u, r.a.pid)
	}
	reg := ex.store.VerifSessions()
	type grec struct {
		key uint32
		s   *models.Session
	}
	var gs []grec
	for k, s := range reg {
		n := uint64(math.MaxUint32)
		if i := strings.LastIndexByte(k, 'x'); i >= 0 {
			if v, err := strconv.ParseUint(k[i+1:], 16, 32); err == nil {
				n = v
			}
		}
		gs = append(gs, grec{uint32(n), s})
	}
	sort.Slice(gs, func(i, j int) bool { return gs[i].key < gs[j].key })
	fmt.Fprintf(&sb, " G %d", len(gs))
	for _, g := range gs {
		ps := g.s.VerifParticipantIDs()
		fmt.Fprintf(&sb, " %d %d %d", g.key, ex.uuidIdx(g.s.SessionUUID), len(ps))
		for _, p := range ps {
			fmt.Fprintf(&sb, " %d", p)
		}
	}
	fmt.Fprintf(&sb, " U %d", int64(math.Round(sessionGauge()-ex.gauge0)))
	cur, re := ex.store.VerifIDs()
	fmt.Fprintf(&sb, " I %d %d", cur, len(re))
	for _, r := range re {
		fmt.Fprintf(&sb, " %d", r)
	}
	var ms []string
	for id := 1; id < len(ex.conns); id++ {
		s, p := ex.conns[id].rh.VerifCurrent()
		if s == nil || p == nil {
			continue
		}
		in := false
		for _, x := range s.VerifParticipantIDs() {
			if x == p.ID {
				in = true
			}
		}
		ms = append(ms, fmt.Sprintf("%d %d %d %d %d %d", id, s.ID, ex.uuidIdx(s.SessionUUID), p.ID, b2i(in), b2i(ex.store.VerifRegistered(s))))
	}
	fmt.Fprintf(&sb, " M %d", len(ms))
	for _, m := range ms {
		sb.WriteString(" " + m)
	}
	fmt.Fprintln(w, sb.String())
}

func b2i(b bool) int {
	if b {
		return 1
	}
	return 0
}

// cleanup ends what the execution left behind (members, so that frame workers stop), outside the record.
func (ex *execution) cleanup() {
	for id := 1; id < len(ex.conns); id++ {
		if s, _ := ex.conns[id].rh.VerifCurrent(); s != nil {
			s.Close()
		}
	}
	for _, s := range ex.store.VerifSessions() {
		s.Close()
	}
}

// ---------------------------------------------------------------- exploration
type node struct {
	prefix []int
	used   int
}

func explore(progs [][]Op, bound int, setup []int, allPoints bool, maxExec int, w *bufio.Writer) (int, bool) {
	// the sequential set-up: the first choices are fixed and made without branching
	after := len(setup)
	stack := []node{{prefix: setup}}
	count := 0
	truncated := false
	for len(stack) > 0 {
		nd := stack[len(stack)-1]
		stack = stack[:len(stack)-1]
		if maxExec > 0 && count >= maxExec {
			truncated = true
			break
		}
		ex := newExecution(progs, allPoints)
		ok := true
		for _, t := range nd.prefix {
			if !ex.choose(t) {
				// the alternative is blocked (or the replay diverged): nothing to explore here
				ok = false
				break
			}
		}
		if !ok {
			ex.finish()
			ex.cleanup()
			continue
		}
		prefix := append([]int{}, nd.prefix...)
		used := nd.used
		cur := 0
		if len(prefix) > after {
			cur = prefix[len(prefix)-1] // the first choice after the set-up is free
		}
		deadlock := false
		for !ex.allDone() {
			tried := map[int]bool{}
			var notDone []int
			for id := 1; id < len(ex.conns); id++ {
				if !ex.conns[id].done {
					notDone = append(notDone, id)
				}
			}
			executed := 0
			inSeq := len(prefix) < after
			for {
				d := 0
				if cur != 0 && !ex.conns[cur].done && !tried[cur] {
					d = cur
				} else {
					for _, id := range notDone {
						if !tried[id] {
							d = id
							break
						}
					}
				}
				if d == 0 {
					break
				}
				if ex.choose(d) {
					executed = d
					break
				}
				tried[d] = true
			}
			if executed == 0 {
				deadlock = true
				break
			}
			if !inSeq {
				for _, c := range notDone {
					if c == executed || tried[c] {
						continue
					}
					cost := used
					// switching away from a thread that could have continued is a preemption
					if cur != 0 && executed == cur {
						cost++
					}
					if cost <= bound {
						stack = append(stack, node{append(append([]int{}, prefix...), c), cost})
					}
				}
			}
			prefix = append(prefix, executed)
			cur = executed
		}
		ex.emit(w, deadlock)
		ex.cleanup()
		count++
	}
	return count, truncated
}

func main() {
	progsF := flag.String("progs", "", "programs, one per connection: ops C | J<id> | L separated by ',', connections by '|'")
	runF := flag.String("run", "", "schedule: thread choices separated by ','")
	exploreF := flag.Bool("explore", false, "explore every schedule within the preemption bound")
	bound := flag.Int("bound", 2, "preemption bound")
	prefixF := flag.String("prefix", "", "leading choices made without branching (sequential set-up)")
	setupF := flag.String("setup", "", "sequential set-up by requests: each listed thread in turn runs one whole request (adds to -prefix)")
	points := flag.String("points", "visible", "scheduling points: visible | all")
	maxExec := flag.Int("max", 0, "stop after this many executions (0: no limit)")
	verbose := flag.Bool("v", false, "print the call chain of every step to stderr")
	flag.Parse()
	progs, err := parseProgs(*progsF)
	if err != nil || len(progs) == 0 {
		fmt.Fprintln(os.Stderr, "INTERNAL: bad -progs:", err)
		os.Exit(2)
	}
	w := bufio.NewWriter(os.Stdout)
	defer w.Flush()
	all := *points == "all"
	if *exploreF {
		setup, err := parseInts(*prefixF)
		if err != nil {
			fmt.Fprintln(os.Stderr, "INTERNAL: bad -prefix:", err)
			os.Exit(2)
		}
		units, err := parseInts(*setupF)
		if err != nil {
			fmt.Fprintln(os.Stderr, "INTERNAL: bad -setup:", err)
			os.Exit(2)
		}
		if len(units) > 0 {
			// a dry execution finds the choices that make up the set-up
			ex := newExecution(progs, all)
			for _, t := range setup {
				ex.choose(t)
			}
			for _, t := range units {
				if t < 1 || t >= len(ex.conns) {
					continue
				}
				c := ex.conns[t]
				at := c.cur
				for !c.done && c.cur == at {
					if !ex.choose(t) {
						break
					}
				}
			}
			setup = append([]int{}, ex.choices...)
			ex.finish()
			ex.cleanup()
		}
		n, trunc := explore(progs, *bound, setup, all, *maxExec, w)
		fmt.Fprintf(w, "E %d %d\n", n, b2i(trunc))
		return
	}
	sched, err := parseInts(*runF)
	if err != nil {
		fmt.Fprintln(os.Stderr, "INTERNAL: bad -run:", err)
		os.Exit(2)
	}
	ex := newExecution(progs, all)
	for _, t := range sched {
		if *verbose {
			site, ch, ok := verifsched.Pending(t)
			fmt.Fprintf(os.Stderr, "choose %d: pending %v %s %s\n", t, ok, site, strings.Join(ch, " > "))
		}
		ex.choose(t)
	}
	dead := !ex.finish()
	ex.emit(w, dead)
	for u := range ex.unknown {
		fmt.Fprintf(w, "N %s\n", u)
	}
	ex.cleanup()
	fmt.Fprintf(w, "E 1 0\n")
}

package main

// The runner: executes ops against the real code (through the verif hooks) and
// writes the trace in the integer-line format.

import (
	"bufio"
	"context"
	"crypto/ecdsa"
	"fmt"
	"math"
	"sort"
	"strings"
	"time"

	"github.com/aukilabs/hagall-common/messages/dagazpb"
	"github.com/aukilabs/hagall-common/messages/hagallpb"
	"github.com/aukilabs/hagall-common/messages/odalpb"
	"github.com/aukilabs/hagall-common/messages/vikjapb"
	"github.com/aukilabs/hagall-common/ncsclient"
	hwebsocket "github.com/aukilabs/hagall-common/websocket"
	"github.com/aukilabs/hagall/featureflag"
	"github.com/aukilabs/hagall/models"
	"github.com/aukilabs/hagall/modules"
	"github.com/aukilabs/hagall/modules/dagaz"
	"github.com/aukilabs/hagall/modules/odal"
	"github.com/aukilabs/hagall/modules/vikja"
	hagallws "github.com/aukilabs/hagall/websocket"
	"github.com/ethereum/go-ethereum/common/hexutil"
	"github.com/ethereum/go-ethereum/crypto"
	"github.com/prometheus/client_golang/prometheus"
	"google.golang.org/protobuf/proto"
)

var flagNames = []featureflag.Flag{
	featureflag.FlagDisableSessionState,
	featureflag.FlagDisableParticipantJoinBroadcast,
	featureflag.FlagDisableParticipantLeaveBroadcast,
	featureflag.FlagDisableEntityAddBroadcast,
	featureflag.FlagDisableEntityDeleteBroadcast,
	featureflag.FlagDisableEntityUpdatePoseBroadcast,
	featureflag.FlagDisableCustomMessageBroadcast,
	featureflag.FlagDisableEntityComponentAddBroadcast,
	featureflag.FlagDisableEntityComponentUpdateBroadcast,
	featureflag.FlagDisableEntityComponentDeleteBroadcast,
}

type Config struct {
	Flags               []uint32
	Vikja, Odal, Dagaz bool
}

func (c Config) Enc() []int64 {
	out := []int64{int64(len(c.Flags))}
	for _, f := range c.Flags {
		out = append(out, int64(f))
	}
	return append(out, b2i(c.Vikja), b2i(c.Odal), b2i(c.Dagaz))
}

type queued struct {
	msg hwebsocket.Msg
	req *Req
}

type Conn struct {
	id    int
	vc    *hagallws.VerifConn
	rh    *hagallws.RealtimeHandler
	fifo  []queued
	open  bool
	// what the last Send handed to the scheduler, to pair drained messages with requests
	pendingPose map[uint32]*Req
	pendingComp map[[2]uint32]*Req
	env   *Env
	// signed-latency bookkeeping: rounds asked for, pings issued since the request, last ping index issued
	latN, latIssued, latLast uint32
	stepBegan               time.Time // when the current Step started handling
	finalPingIssuedAfter    time.Time // start of the step that issued the last ping seen
	finalSlept              bool
}

type Delivery struct {
	Conn int
	Msg  []int64
	Dig  int64 // purge experiment: digest of the payload the encoding leaves out (0 = nothing left out)
}

type Env struct {
	cfg      Config
	store    *models.SessionStore
	rchan    chan ncsclient.ReceiptPayload
	key      *ecdsa.PrivateKey
	conns    map[int]*Conn
	out      *bufio.Writer
	outs     []Delivery // deliveries of the op in progress
	uuids    map[string]uint32
	pingIdx  map[uint32]uint32 // real ping id -> index
	pingReal map[uint32]uint32 // index -> real ping id
	gauge0   float64
	nPings   uint32
	curReq   *Req
	curConn  *Conn
	// observations for the generator
	lastOuts []Delivery
	lastVerdict int
	nOps     int
	lastReq  *Req // the request the last Step consumed
	digests  bool // purge experiment: write an X line with the payload digest after a D line
}

var theKey *ecdsa.PrivateKey

func init() {
	k, err := crypto.GenerateKey()
	if err != nil {
		panic(err)
	}
	theKey = k
}

func sessionGauge() float64 {
	mfs, err := prometheus.DefaultGatherer.Gather()
	if err != nil {
		return math.NaN()
	}
	var sum float64
	for _, mf := range mfs {
		if mf.GetName() == "session_count" {
			for _, m := range mf.GetMetric() {
				sum += m.GetGauge().GetValue()
			}
		}
	}
	return sum
}

func NewEnv(cfg Config, out *bufio.Writer, hid int) *Env {
	e := &Env{cfg: cfg, store: &models.SessionStore{}, rchan: make(chan ncsclient.ReceiptPayload, 128),
		key: theKey, conns: map[int]*Conn{}, out: out, uuids: map[string]uint32{},
		pingIdx: map[uint32]uint32{}, pingReal: map[uint32]uint32{}}
	e.gauge0 = sessionGauge()
	fmt.Fprintf(out, "H %d %s\n", hid, ints(cfg.Enc()))
	return e
}

func ints(v []int64) string {
	var sb strings.Builder
	for i, x := range v {
		if i > 0 {
			sb.WriteByte(' ')
		}
		fmt.Fprintf(&sb, "%d", x)
	}
	return sb.String()
}

// Close ends every connection (outside the trace) so that sessions and their workers are released.
func (e *Env) Close() {
	ids := make([]int, 0, len(e.conns))
	for id := range e.conns {
		ids = append(ids, id)
	}
	sort.Ints(ids)
	for _, id := range ids {
		c := e.conns[id]
		if c.open {
			c.vc.Disconnect(nil)
			c.open = false
		}
	}
	fmt.Fprintf(e.out, "E\n")
}

// ---------- the harness-owned ResponseSender ----------
type sink struct {
	env  *Env
	conn int
}

func (s sink) Send(pm hwebsocket.ProtoMsg) {
	// production path: handler.send -> MsgFromProto -> sendChan
	msg, err := hwebsocket.MsgFromProto(pm)
	if err != nil {
		return
	}
	s.SendMsg(msg)
}

func (s sink) SendMsg(msg hwebsocket.Msg) {
	d := Delivery{Conn: s.conn, Msg: s.env.encMsg(msg)}
	if s.env.digests {
		d.Dig = payloadDigest(msg)
	}
	s.env.outs = append(s.env.outs, d)
}

func (e *Env) uuidIdx(u string) uint32 {
	if i, ok := e.uuids[u]; ok {
		return i
	}
	i := uint32(len(e.uuids) + 1)
	e.uuids[u] = i
	return i
}

func (e *Env) realPing(idx uint32) uint32 {
	if r, ok := e.pingReal[idx]; ok {
		return r
	}
	// an id the server never issued
	r := 0xF0000000 + idx
	for {
		if _, used := e.pingIdx[r]; !used {
			break
		}
		r++
	}
	e.pingReal[idx] = r
	e.pingIdx[r] = idx
	return r
}

func tok(s string) int64 {
	n, ok := strTok(s)
	if !ok {
		return -1
	}
	return int64(n)
}

func encEnt(e *hagallpb.Entity) []int64 {
	out := []int64{int64(e.GetId()), int64(e.GetParticipantId())}
	out = append(out, encPose(pbPose(e.GetPose()))...)
	return append(out, int64(e.GetFlag()))
}

func encComp(c *hagallpb.EntityComponent) []int64 {
	return []int64{int64(c.GetEntityComponentTypeId()), int64(c.GetEntityId()), tok(string(c.GetData()))}
}

func encActionPb(a *vikjapb.EntityAction) []int64 {
	out := []int64{int64(a.GetEntityId()), tok(a.GetName())}
	if a.GetTimestamp() != nil {
		out = append(out, 1, nanosFromTs(a.GetTimestamp()))
	} else {
		out = append(out, 0)
	}
	return append(out, tok(string(a.GetData())))
}

func encAssetPb(a *odalpb.AssetInstance) []int64 {
	return []int64{int64(a.GetId()), tok(a.GetAssetId()), int64(a.GetParticipantId()), int64(a.GetEntityId())}
}

// encMsg decodes a server message and encodes it as coq/Codec.v pMsg expects.
func (e *Env) encMsg(msg hwebsocket.Msg) []int64 {
	ty := int(msg.Type.Number())
	u := func(x uint32) int64 { return int64(x) }
	bad := func(err error) []int64 { return []int64{-1, int64(ty)} }
	switch ty {
	case 39:
		var m hagallpb.Response
		if err := msg.DataTo(&m); err != nil {
			return bad(err)
		}
		return []int64{39, u(m.RequestId)}
	case 38:
		var m hagallpb.Response
		if err := msg.DataTo(&m); err != nil {
			return bad(err)
		}
		idx, ok := e.pingIdx[m.RequestId]
		if !ok {
			e.nPings++
			idx = e.nPings
			e.pingIdx[m.RequestId] = idx
			e.pingReal[idx] = m.RequestId
		} else {
			// the server reissued a ping id: freshness is a checked claim
			return []int64{-2, int64(idx)}
		}
		return []int64{38, u(idx)}
	case 0:
		var m hagallpb.ErrorResponse
		if err := msg.DataTo(&m); err != nil {
			return bad(err)
		}
		rid := m.RequestId
		if e.curReq != nil && e.curReq.Kind == 39 {
			if idx, ok := e.pingIdx[rid]; ok {
				rid = idx
			}
		}
		return []int64{0, u(rid), int64(m.Code)}
	case 4:
		var m hagallpb.ParticipantJoinResponse
		if err := msg.DataTo(&m); err != nil {
			return bad(err)
		}
		sid, ok := parseSid(m.SessionId)
		if !ok {
			return []int64{-3, 0}
		}
		return []int64{4, u(m.RequestId), u(sid), u(e.uuidIdx(m.SessionUuid)), u(m.ParticipantId)}
	case 2:
		var m hagallpb.SessionState
		if err := msg.DataTo(&m); err != nil {
			return bad(err)
		}
		out := []int64{2, int64(len(m.Participants))}
		for _, p := range m.Participants {
			out = append(out, u(p.GetId()))
		}
		out = append(out, int64(len(m.Entities)))
		for _, en := range m.Entities {
			out = append(out, encEnt(en)...)
		}
		out = append(out, int64(len(m.EntityComponents)))
		for _, c := range m.EntityComponents {
			out = append(out, encComp(c)...)
		}
		return out
	case 5:
		var m hagallpb.ParticipantJoinBroadcast
		if err := msg.DataTo(&m); err != nil {
			return bad(err)
		}
		return []int64{5, u(tsOts(m.OriginTimestamp)), u(m.ParticipantId)}
	case 7:
		var m hagallpb.ParticipantLeaveBroadcast
		if err := msg.DataTo(&m); err != nil {
			return bad(err)
		}
		return []int64{7, u(m.ParticipantId)}
	case 9:
		var m hagallpb.EntityAddResponse
		if err := msg.DataTo(&m); err != nil {
			return bad(err)
		}
		return []int64{9, u(m.RequestId), u(m.EntityId)}
	case 10:
		var m hagallpb.EntityAddBroadcast
		if err := msg.DataTo(&m); err != nil {
			return bad(err)
		}
		return append([]int64{10, u(tsOts(m.OriginTimestamp))}, encEnt(m.Entity)...)
	case 12:
		var m hagallpb.EntityDeleteResponse
		if err := msg.DataTo(&m); err != nil {
			return bad(err)
		}
		return []int64{12, u(m.RequestId)}
	case 13:
		var m hagallpb.EntityDeleteBroadcast
		if err := msg.DataTo(&m); err != nil {
			return bad(err)
		}
		return []int64{13, u(tsOts(m.OriginTimestamp)), u(m.EntityId)}
	case 15:
		var m hagallpb.EntityUpdatePoseBroadcast
		if err := msg.DataTo(&m); err != nil {
			return bad(err)
		}
		return append([]int64{15, u(tsOts(m.OriginTimestamp)), u(m.EntityId)}, encPose(pbPose(m.Pose))...)
	case 17:
		var m hagallpb.CustomMessageBroadcast
		if err := msg.DataTo(&m); err != nil {
			return bad(err)
		}
		out := []int64{17, u(tsOts(m.OriginTimestamp)), u(m.ParticipantId), int64(len(m.Body))}
		for _, b := range m.Body {
			out = append(out, int64(b))
		}
		return out
	case 19:
		var m hagallpb.EntityComponentTypeAddResponse
		if err := msg.DataTo(&m); err != nil {
			return bad(err)
		}
		return []int64{19, u(m.RequestId), u(m.EntityComponentTypeId)}
	case 21:
		var m hagallpb.EntityComponentTypeGetNameResponse
		if err := msg.DataTo(&m); err != nil {
			return bad(err)
		}
		return []int64{21, u(m.RequestId), tok(m.EntityComponentTypeName)}
	case 23:
		var m hagallpb.EntityComponentTypeGetIdResponse
		if err := msg.DataTo(&m); err != nil {
			return bad(err)
		}
		return []int64{23, u(m.RequestId), u(m.EntityComponentTypeId)}
	case 25, 28, 35, 37, 41:
		var m hagallpb.Response
		if err := msg.DataTo(&m); err != nil {
			return bad(err)
		}
		return []int64{int64(ty), u(m.RequestId)}
	case 26:
		var m hagallpb.EntityComponentAddBroadcast
		if err := msg.DataTo(&m); err != nil {
			return bad(err)
		}
		return append([]int64{26, u(tsOts(m.OriginTimestamp))}, encComp(m.EntityComponent)...)
	case 29:
		var m hagallpb.EntityComponentDeleteBroadcast
		if err := msg.DataTo(&m); err != nil {
			return bad(err)
		}
		return []int64{29, u(tsOts(m.OriginTimestamp)), u(m.EntityComponent.GetEntityComponentTypeId()), u(m.EntityComponent.GetEntityId())}
	case 31:
		var m hagallpb.EntityComponentUpdateBroadcast
		if err := msg.DataTo(&m); err != nil {
			return bad(err)
		}
		return append([]int64{31, u(tsOts(m.OriginTimestamp))}, encComp(m.EntityComponent)...)
	case 33:
		var m hagallpb.EntityComponentListResponse
		if err := msg.DataTo(&m); err != nil {
			return bad(err)
		}
		out := []int64{33, u(m.RequestId), int64(len(m.EntityComponents))}
		for _, c := range m.EntityComponents {
			out = append(out, encComp(c)...)
		}
		return out
	case 100:
		var m vikjapb.State
		if err := msg.DataTo(&m); err != nil {
			return bad(err)
		}
		out := []int64{100, int64(len(m.EntityActions))}
		for _, a := range m.EntityActions {
			out = append(out, encActionPb(a)...)
		}
		return out
	case 102:
		var m vikjapb.EntityActionResponse
		if err := msg.DataTo(&m); err != nil {
			return bad(err)
		}
		return []int64{102, u(m.RequestId)}
	case 103:
		var m vikjapb.EntityActionBroadcast
		if err := msg.DataTo(&m); err != nil {
			return bad(err)
		}
		return append([]int64{103, u(tsOts(m.OriginTimestamp))}, encActionPb(m.EntityAction)...)
	case 200:
		var m odalpb.State
		if err := msg.DataTo(&m); err != nil {
			return bad(err)
		}
		out := []int64{200, int64(len(m.AssetInstances))}
		for _, a := range m.AssetInstances {
			out = append(out, encAssetPb(a)...)
		}
		return out
	case 202:
		var m odalpb.AssetInstanceAddResponse
		if err := msg.DataTo(&m); err != nil {
			return bad(err)
		}
		return []int64{202, u(m.RequestId), u(m.AssetInstanceId)}
	case 203:
		var m odalpb.AssetInstanceAddBroadcast
		if err := msg.DataTo(&m); err != nil {
			return bad(err)
		}
		return append([]int64{203, u(tsOts(m.OriginTimestamp))}, encAssetPb(m.AssetInstance)...)
	case 43:
		var m hagallpb.SignedLatencyResponse
		if err := msg.DataTo(&m); err != nil {
			return bad(err)
		}
		return e.encLatency(&m)
	case 302, 304, 306:
		var m dagazpb.DagazGetDebugInfoResponse // request_id has the same field number in all three
		if err := msg.DataTo(&m); err != nil {
			return bad(err)
		}
		return []int64{int64(ty), u(m.RequestId)}
	}
	return []int64{-1, int64(ty)}
}

func (e *Env) encLatency(m *hagallpb.SignedLatencyResponse) []int64 {
	var d hagallpb.LatencyData
	if err := proto.Unmarshal(m.Data, &d); err != nil {
		return []int64{-1, 43}
	}
	out := []int64{43, int64(m.RequestId), int64(d.IterationCount), int64(len(d.PingRequestIds))}
	for _, id := range d.PingRequestIds {
		idx, ok := e.pingIdx[id]
		if !ok {
			return []int64{-4, int64(id)}
		}
		out = append(out, int64(idx))
	}
	uuid := int64(-1)
	if i, ok := e.uuids[d.SessionId]; ok {
		uuid = int64(i)
	}
	client := int64(-1)
	var cid int
	if _, err := fmt.Sscanf(d.ClientId, "client-%d", &cid); err == nil {
		client = int64(cid)
	}
	out = append(out, uuid, client, tok(d.WalletAddress))
	finalSlept := false
	if e.curConn != nil {
		finalSlept = e.curConn.finalSlept
	}
	// the final round was slept before by the harness (>= 2 ms) and cannot have taken longer than the time between the
	// start of the step that issued its ping and now
	lastUpper := float32(math.MaxFloat32)
	if finalSlept && e.curConn != nil && !e.curConn.finalPingIssuedAfter.IsZero() {
		lastUpper = float32(time.Since(e.curConn.finalPingIssuedAfter).Microseconds() + 100)
	}
	statsOK := (!finalSlept || (d.Last >= 2000 && d.Last <= lastUpper)) && d.Min >= 0 && d.Min <= d.Mean && d.Mean <= d.Max &&
		(d.P95 == 0 || (d.P95 >= d.Min && d.P95 <= d.Max)) && d.Last >= d.Min && d.Last <= d.Max
	sigOK := false
	if sig, err := hexutil.Decode(m.Signature); err == nil {
		if pub, err := crypto.SigToPub(crypto.Keccak256Hash(m.Data).Bytes(), sig); err == nil {
			sigOK = crypto.PubkeyToAddress(*pub) == crypto.PubkeyToAddress(e.key.PublicKey)
		}
	}
	return append(out, b2i(statsOK), b2i(sigOK))
}

// ---------- ops ----------
func (e *Env) begin(op []int64) {
	e.outs = e.outs[:0]
	e.curReq = nil
	e.lastReq = nil
	fmt.Fprintf(e.out, "O %s\n", ints(op))
	e.nOps++
}

func (e *Env) end(verdict int) {
	for _, d := range e.outs {
		fmt.Fprintf(e.out, "D %d %s\n", d.Conn, ints(d.Msg))
		if e.digests && d.Dig != 0 {
			fmt.Fprintf(e.out, "X %d\n", d.Dig)
		}
	}
	fmt.Fprintf(e.out, "V %d\n", verdict)
	e.lastOuts = append(e.lastOuts[:0], e.outs...)
	e.lastVerdict = verdict
}

func (e *Env) newModules() []modules.Module {
	var ms []modules.Module
	if e.cfg.Vikja {
		ms = append(ms, &vikja.Module{})
	}
	if e.cfg.Odal {
		ms = append(ms, &odal.Module{})
	}
	if e.cfg.Dagaz {
		ms = append(ms, &dagaz.Module{})
	}
	return ms
}

func (e *Env) flagList() []string {
	var fl []string
	for _, f := range e.cfg.Flags {
		if int(f) < len(flagNames) {
			fl = append(fl, string(flagNames[f]))
		} else {
			fl = append(fl, fmt.Sprintf("UNKNOWN_FLAG_%d", f))
		}
	}
	return fl
}

func (e *Env) Connect(c int) {
	e.begin([]int64{1, int64(c)})
	if _, ok := e.conns[c]; ok {
		e.end(2)
		return
	}
	rh := &hagallws.RealtimeHandler{
		ClientSyncClockInterval: time.Hour,
		ClientIdleTimeout:       time.Hour,
		FrameDuration:           time.Hour,
		Sessions:                e.store,
		Modules:                 e.newModules(),
		FeatureFlags:            featureflag.New(e.flagList()),
		ReceiptChan:             e.rchan,
		PrivateKey:              e.key,
	}
	// connections carry one of three app keys (the session gauge is labelled by the creator's app key)
	cn := &Conn{id: c, rh: rh, vc: hagallws.NewVerifConnApp(rh, fmt.Sprintf("client-%d", c), fmt.Sprintf("app-%d", c%3)), open: true,
		pendingPose: map[uint32]*Req{}, pendingComp: map[[2]uint32]*Req{}, env: e}
	e.conns[c] = cn
	e.end(0)
}

// drain moves what the scheduler queued into the harness-side FIFO. A flush group
// (the messages one HandleFrame produced, in Go map order) is put into the canonical
// order: poses by entity id, then component updates by (type, entity).
func (cn *Conn) drain(flush bool) {
	msgs := cn.vc.Drain()
	if !flush {
		for _, m := range msgs {
			cn.fifo = append(cn.fifo, queued{msg: m})
		}
		return
	}
	type item struct {
		q   queued
		key [3]uint32
	}
	var items []item
	for _, m := range msgs {
		switch int(m.Type.Number()) {
		case 14:
			var u hagallpb.EntityUpdatePose
			m.DataTo(&u)
			items = append(items, item{queued{m, cn.pendingPose[u.EntityId]}, [3]uint32{0, u.EntityId, 0}})
			delete(cn.pendingPose, u.EntityId)
		case 30:
			var u hagallpb.EntityComponentUpdate
			m.DataTo(&u)
			k := [2]uint32{u.EntityComponentTypeId, u.EntityId}
			items = append(items, item{queued{m, cn.pendingComp[k]}, [3]uint32{1, k[0], k[1]}})
			delete(cn.pendingComp, k)
		default:
			items = append(items, item{queued{msg: m}, [3]uint32{2, 0, 0}})
		}
	}
	sort.SliceStable(items, func(i, j int) bool {
		a, b := items[i].key, items[j].key
		for k := 0; k < 3; k++ {
			if a[k] != b[k] {
				return a[k] < b[k]
			}
		}
		return false
	})
	for _, it := range items {
		cn.fifo = append(cn.fifo, it.q)
	}
}

func (e *Env) Send(c int, r *Req) {
	e.begin(append([]int64{2, int64(c)}, r.Enc()...))
	cn, ok := e.conns[c]
	if !ok || !cn.open {
		e.end(2)
		return
	}
	msg, err := r.Build(e.realPing)
	if err != nil {
		panic(err)
	}
	if err := cn.vc.Dispatch(context.Background(), msg); err != nil {
		// the receiver goroutine ends the connection
		e.curReq = r
		pan := cn.vc.Disconnect(err)
		cn.open = false
		cn.fifo = nil
		if pan != nil {
			e.end(3)
		} else {
			e.end(1)
		}
		return
	}
	switch r.Kind {
	case 14:
		cn.pendingPose[r.A] = r
	case 30:
		cn.pendingComp[[2]uint32{r.A, r.B}] = r
	default:
		msgs := cn.vc.Drain()
		for i, m := range msgs {
			q := queued{msg: m}
			if i == len(msgs)-1 {
				q.req = r
			}
			cn.fifo = append(cn.fifo, q)
		}
	}
	e.end(0)
}

func (e *Env) Step(c int) {
	cn, ok := e.conns[c]
	if !ok || !cn.open || len(cn.fifo) == 0 {
		e.begin([]int64{3, int64(c), 0})
		e.end(2)
		return
	}
	q := cn.fifo[0]
	cn.fifo = cn.fifo[1:]
	// run first, then write the op line (the hint is an observation)
	e.outs = e.outs[:0]
	e.curReq = q.req
	e.curConn = cn
	// a signed-latency request restarts the harness's bookkeeping of the measurement only if the server accepts it
	// (it then issues the first ping while handling the request: see below); a refused one leaves the running
	// measurement, and the bookkeeping, as they are
	if q.req != nil && q.req.Kind == 39 {
		if cn.latN >= 3 && cn.latIssued == cn.latN && q.req.Rid == cn.latLast {
			// the final round of a measurement: make it recognisably the longest
			time.Sleep(2 * time.Millisecond)
			cn.finalSlept = true
		} else {
			time.Sleep(20 * time.Microsecond) // a measured round trip is never 0 µs
		}
	}
	cn.stepBegan = time.Now()
	err, pan := cn.vc.Handle(context.Background(), q.msg, sink{e, c})
	verdict := 0
	if pan != nil {
		verdict = 3
		fmt.Fprintf(e.out, "# panic: %v\n", strings.ReplaceAll(fmt.Sprint(pan), "\n", " "))
	} else if err != nil {
		verdict = 1
		if p := cn.vc.Disconnect(err); p != nil {
			verdict = 3
		}
		cn.open = false
		cn.fifo = nil
	}
	for _, d := range e.outs {
		if d.Conn == c && len(d.Msg) == 2 && d.Msg[0] == 38 {
			if q.req != nil && q.req.Kind == 42 {
				cn.latN, cn.latIssued, cn.finalSlept = q.req.A, 0, false
			}
			cn.latIssued++
			cn.latLast = uint32(d.Msg[1])
			cn.finalPingIssuedAfter = cn.stepBegan
		}
	}
	hint := int64(0)
	for _, d := range e.outs {
		if d.Conn == c && len(d.Msg) == 5 && d.Msg[0] == 4 {
			hint = d.Msg[2]
		}
	}
	saved := append([]Delivery(nil), e.outs...)
	e.begin([]int64{3, int64(c), hint})
	e.outs = saved
	e.lastReq = q.req
	if q.req != nil {
		fmt.Fprintf(e.out, "R %s\n", ints(q.req.Enc()))
	}
	e.end(verdict)
}

func (e *Env) Tick(sid uint32) {
	e.begin([]int64{4, int64(sid)})
	s, ok := e.store.GetByGlobalID(fmt.Sprintf("tedx%x", sid))
	if ok {
		s.VerifDispatchFrame()
		for _, cn := range e.conns {
			if cn.open {
				cn.drain(true)
			}
		}
	}
	e.end(0)
}

func (e *Env) Disconnect(c int) {
	e.begin([]int64{5, int64(c)})
	cn, ok := e.conns[c]
	if !ok || !cn.open {
		e.end(2)
		return
	}
	pan := cn.vc.Disconnect(nil)
	cn.open = false
	cn.fifo = nil
	if pan != nil {
		e.end(3)
		return
	}
	e.end(0)
}

func (e *Env) Snap() {
	e.begin([]int64{6})
	sess := e.store.VerifSessions()
	out := []int64{9100, int64(len(sess))}
	for key, s := range sess {
		d := s.VerifDump()
		sid, ok := parseSid(key)
		if !ok || sid != d.ID {
			out = append(out, -5)
			continue
		}
		out = append(out, int64(sid), int64(e.uuidIdx(d.UUID)), int64(len(d.Participants)))
		for _, p := range d.Participants {
			out = append(out, int64(p))
		}
		out = append(out, int64(len(d.Entities)))
		for _, en := range d.Entities {
			out = append(out, encEnt(en.ToProtobuf())...)
			out = append(out, b2i(en.Persist))
		}
		out = append(out, int64(len(d.Types)))
		for id, n := range d.Types {
			out = append(out, int64(id), tok(n))
		}
		out = append(out, int64(len(d.Components)))
		for _, c := range d.Components {
			out = append(out, encComp(c)...)
		}
		nsubs := 0
		for _, ps := range d.Subs {
			nsubs += len(ps)
		}
		out = append(out, int64(nsubs))
		for t, ps := range d.Subs {
			for _, p := range ps {
				out = append(out, int64(t), int64(p))
			}
		}
		var acts []*vikjapb.EntityAction
		if st, ok := s.ModuleState("vikja"); ok {
			acts = st.(*vikja.State).EntityActions()
		}
		out = append(out, int64(len(acts)))
		for _, a := range acts {
			out = append(out, encActionPb(a)...)
		}
		var assets []*odalpb.AssetInstance
		if st, ok := s.ModuleState("odal"); ok {
			assets = st.(*odal.State).AssetInstances()
		}
		out = append(out, int64(len(assets)))
		for _, a := range assets {
			out = append(out, encAssetPb(a)...)
		}
		out = append(out, int64(d.Frames))
	}
	out = append(out, int64(math.Round(sessionGauge()-e.gauge0)))
	nopen := 0
	for _, cn := range e.conns {
		if cn.open {
			nopen++
		}
	}
	out = append(out, int64(nopen))
	for id, cn := range e.conns {
		if cn.open {
			out = append(out, int64(id), int64(len(cn.fifo)))
		}
	}
	e.outs = append(e.outs, Delivery{Conn: 0, Msg: out})
	e.end(0)
}

package main

// Online generator of structured, mostly-valid histories. It learns ids from
// the responses of the implementation (join responses, add responses, type
// ids), so that most requests name things that exist, and deliberately mixes in
// ids of the wrong owner, of another session, dead ids, zero and huge ids.

import (
	"sort"
)

type rng struct{ s uint64 }

func (r *rng) next() uint64 {
	r.s += 0x9e3779b97f4a7c15
	z := r.s
	z = (z ^ (z >> 30)) * 0xbf58476d1ce4e5b9
	z = (z ^ (z >> 27)) * 0x94d049bb133111eb
	return z ^ (z >> 31)
}
func (r *rng) intn(n int) int {
	if n <= 0 {
		return 0
	}
	return int(r.next() % uint64(n))
}
func (r *rng) chance(pct int) bool { return r.intn(100) < pct }
func (r *rng) pick(xs []uint32) uint32 {
	if len(xs) == 0 {
		return 0
	}
	return xs[r.intn(len(xs))]
}

type shadowConn struct {
	id      int
	open    bool
	sid     uint32 // 0 = not joined
	pid     uint32
	own     []uint32 // entity ids this connection was told it created (current participant)
	prevOwn []uint32 // what it owned under its previous participant id (another session, or an earlier stay)
	queued  int
	pending bool // has a pose / component update waiting for a tick
	pings   []uint32
	latOn   bool
}

type shadowSession struct {
	eids    []uint32 // ever seen
	tids    []uint32
	names   []uint32
	members map[int]bool
	comps   [][2]uint32
}

type Profile struct {
	Name     string
	MaxConns int
	MaxSess  int
	Len      int
	W        map[string]int // weights by action kind
	StepPct  int            // chance to process a request right after sending it
	SnapPct  int            // chance of a snapshot after an op (when quiescent)
	Groups   int            // > 1: connections belong to a group (id mod Groups) and mostly join sessions of their own group
}

type Gen struct {
	r     *rng
	e     *Env
	p     *Profile
	conns []*shadowConn
	sess  map[uint32]*shadowSession
	dead  []uint32 // session ids that ended
	rid   uint32
	ots   uint32
	tok   uint32
	stats map[string]int
	lastPose map[[2]uint32]Pose
}

func NewGen(seed uint64, e *Env, p *Profile, stats map[string]int) *Gen {
	return &Gen{r: &rng{seed}, e: e, p: p, sess: map[uint32]*shadowSession{}, rid: 0, ots: 0, tok: 0, stats: stats, lastPose: map[[2]uint32]Pose{}}
}

func (g *Gen) nextRid() uint32 { g.rid++; return g.rid }
func (g *Gen) nextOts() uint32 { g.ots++; return g.ots }
func (g *Gen) nextTok() uint32 { g.tok++; return g.tok }

func (g *Gen) session(sid uint32) *shadowSession {
	s, ok := g.sess[sid]
	if !ok {
		s = &shadowSession{members: map[int]bool{}}
		g.sess[sid] = s
	}
	return s
}

func addUniq(xs []uint32, x uint32) []uint32 {
	for _, y := range xs {
		if y == x {
			return xs
		}
	}
	return append(xs, x)
}

// learn updates the shadow from what the implementation just answered.
func (g *Gen) learn(c *shadowConn, r *Req) {
	if g.e.lastVerdict == 1 || g.e.lastVerdict == 3 {
		g.left(c)
		c.open = false
		return
	}
	for _, d := range g.e.lastOuts {
		m := d.Msg
		if len(m) == 0 {
			continue
		}
		switch m[0] {
		case 4: // join response
			if d.Conn == c.id {
				g.left(c)
				c.sid, c.pid = uint32(m[2]), uint32(m[4])
				c.pings = nil
				c.latOn = false
				g.session(c.sid).members[c.id] = true
			}
		case 0:
			if d.Conn == c.id && r != nil && r.Kind == 3 && m[2] == 404 {
				g.left(c)
			}
		case 9:
			if d.Conn == c.id && c.sid != 0 {
				c.own = append(c.own, uint32(m[2]))
				s := g.session(c.sid)
				s.eids = addUniq(s.eids, uint32(m[2]))
			}
		case 19, 23:
			if d.Conn == c.id && c.sid != 0 {
				s := g.session(c.sid)
				s.tids = addUniq(s.tids, uint32(m[2]))
			}
		case 25:
			if d.Conn == c.id && c.sid != 0 && r != nil {
				s := g.session(c.sid)
				s.comps = append(s.comps, [2]uint32{r.A, r.B})
			}
		case 38:
			if d.Conn == c.id {
				c.pings = append(c.pings, uint32(m[1]))
			}
		case 43:
			if d.Conn == c.id {
				c.latOn = false
			}
		}
	}
}

func (g *Gen) left(c *shadowConn) {
	if c.sid != 0 {
		s := g.session(c.sid)
		delete(s.members, c.id)
		if len(s.members) == 0 {
			g.dead = append(g.dead, c.sid)
			delete(g.sess, c.sid)
		}
	}
	c.sid, c.pid = 0, 0
	if len(c.own) > 0 {
		c.prevOwn = c.own
	}
	c.own = nil
}

func (g *Gen) liveSids() []uint32 {
	var out []uint32
	for sid := range g.sess {
		out = append(out, sid)
	}
	sort.Slice(out, func(i, j int) bool { return out[i] < out[j] })
	return out
}

func (g *Gen) openConns() []*shadowConn {
	var out []*shadowConn
	for _, c := range g.conns {
		if c.open {
			out = append(out, c)
		}
	}
	return out
}

func (g *Gen) count(k string) { g.stats[k]++ }

// an entity id for connection c: mostly a live own one, sometimes foreign / dead / zero / huge
func (g *Gen) entityFor(c *shadowConn, ownPct int) uint32 {
	s := g.session(c.sid)
	x := g.r.intn(100)
	// ids the connection owned before it switched sessions (or left and came back): what a client that has not
	// noticed the switch, or a stale per-connection cache in the server, would still use
	if len(c.prevOwn) > 0 && g.r.chance(12) {
		g.count("entity:previously-owned")
		return g.r.pick(c.prevOwn)
	}
	switch {
	case x < ownPct && len(c.own) > 0:
		return g.r.pick(c.own)
	case x < ownPct+15 && len(s.eids) > 0:
		return g.r.pick(s.eids) // any entity ever created here (foreign, or already deleted)
	case x < ownPct+20:
		return 0
	case x < ownPct+24:
		return 4294967295
	case x < ownPct+30:
		return uint32(1 + g.r.intn(8)) // small ids: coincide across sessions
	default:
		if len(s.eids) > 0 {
			return g.r.pick(s.eids)
		}
		return uint32(1 + g.r.intn(4))
	}
}

func (g *Gen) typeFor(c *shadowConn) uint32 {
	s := g.session(c.sid)
	x := g.r.intn(100)
	switch {
	case x < 75 && len(s.tids) > 0:
		return g.r.pick(s.tids)
	case x < 82:
		return 0
	case x < 90:
		return uint32(1 + g.r.intn(4))
	default:
		return uint32(50 + g.r.intn(3))
	}
}

func (g *Gen) pose(seq uint32) Pose {
	clean := []uint32{0, 0x3f800000, 0xbf800000, 0x42280000, 0x40000000, 0x3f000000}
	exotic := []uint32{0x7fc00000, 0x7f800000, 0xff800000, 0x80000000, 0x00000001}
	var p Pose
	p[0] = seq // px carries a sequence number (a denormal / small float bit pattern)
	wild := g.r.chance(25) // a quarter of the poses carry NaN / Inf / -0 / denormals
	for i := 1; i < 7; i++ {
		if wild && g.r.chance(50) {
			p[i] = exotic[g.r.intn(len(exotic))]
		} else {
			p[i] = clean[g.r.intn(len(clean))]
		}
	}
	return p
}

func (g *Gen) body() []byte {
	var n int
	switch x := g.r.intn(200); {
	case x < 110:
		n = g.r.intn(24)
	case x < 130:
		n = 0
	case x < 192:
		n = 1 + g.r.intn(300)
	case x < 194:
		n = 10239
	case x < 196:
		n = 10240
	case x < 198:
		n = 10241
	default:
		n = 10240 + g.r.intn(64)
	}
	switch {
	case n == 0:
		g.count("body:empty")
	case n < 10239:
		g.count("body:small")
	case n <= 10240:
		g.count("body:at-limit(" + itoa(n) + ")")
	default:
		g.count("body:over-limit")
	}
	b := make([]byte, n)
	for i := range b {
		b[i] = byte(g.r.next())
	}
	return b
}

// sendAndMaybeStep dispatches r on c and usually processes it immediately.
func (g *Gen) send(c *shadowConn, r *Req, kind string) {
	g.count("req:" + kind)
	g.e.Send(c.id, r)
	if g.e.lastVerdict == 1 || g.e.lastVerdict == 3 {
		g.left(c)
		c.open = false
		return
	}
	if r.Kind == 14 || r.Kind == 30 {
		c.pending = true
		return
	}
	c.queued++
	if g.r.chance(g.p.StepPct) {
		g.stepAll(c)
	}
}

var needsSession = map[string]bool{"entity_add": true, "entity_delete": true, "pose": true, "custom": true,
	"type_add": true, "get_name": true, "get_id": true, "comp_add": true, "comp_delete": true, "comp_update": true,
	"comp_list": true, "subscribe": true, "unsubscribe": true, "action": true, "asset": true, "latency": true,
	"ping_resp": true, "dagaz": true}

func (g *Gen) stepAll(c *shadowConn) {
	for c.open && c.queued > 0 {
		g.stepOne(c)
	}
}

func (g *Gen) stepOne(c *shadowConn) {
	cn := g.e.conns[c.id]
	var r *Req
	if cn != nil && len(cn.fifo) > 0 {
		r = cn.fifo[0].req
	}
	g.e.Step(c.id)
	g.count("op:step")
	if c.queued > 0 {
		c.queued--
	}
	if g.e.lastVerdict == 1 {
		g.count("verdict:error")
	}
	for _, d := range g.e.lastOuts {
		if d.Conn == c.id && len(d.Msg) > 0 && d.Msg[0] == 0 {
			g.count("answer:error")
			g.stats["code:"+itoa(int(d.Msg[2]))]++
		}
	}
	g.learn(c, r)
	if !c.open {
		c.queued = 0
	}
}

func itoa(n int) string {
	if n == 0 {
		return "0"
	}
	s := ""
	neg := n < 0
	if neg {
		n = -n
	}
	for n > 0 {
		s = string(rune('0'+n%10)) + s
		n /= 10
	}
	if neg {
		s = "-" + s
	}
	return s
}

func (g *Gen) tick(sid uint32) {
	g.e.Tick(sid)
	g.count("op:tick")
	for _, c := range g.conns {
		if c.open && c.sid == sid {
			cn := g.e.conns[c.id]
			c.queued = len(cn.fifo)
			c.pending = false
		}
	}
}

func (g *Gen) quiescent() bool {
	for _, c := range g.conns {
		if c.open && (c.queued > 0 || c.pending) {
			return false
		}
	}
	return true
}

// settle: flush every session, process every queue (twice: a flush can only be consumed after it).
func (g *Gen) settle() {
	for round := 0; round < 3; round++ {
		for _, sid := range g.liveSids() {
			g.tick(sid)
		}
		for _, c := range g.conns {
			if c.open {
				cn := g.e.conns[c.id]
				c.queued = len(cn.fifo)
				g.stepAll(c)
			}
		}
	}
}

func (g *Gen) weighted() string {
	total := 0
	keys := make([]string, 0, len(g.p.W))
	for k := range g.p.W {
		keys = append(keys, k)
	}
	sort.Strings(keys)
	for _, k := range keys {
		total += g.p.W[k]
	}
	x := g.r.intn(total)
	for _, k := range keys {
		if x < g.p.W[k] {
			return k
		}
		x -= g.p.W[k]
	}
	return keys[0]
}

func (g *Gen) joinedConns() []*shadowConn {
	var out []*shadowConn
	for _, c := range g.conns {
		if c.open && c.sid != 0 {
			out = append(out, c)
		}
	}
	return out
}

// Run generates and executes one history.
func (g *Gen) Run() {
	// warm-up: a couple of connections, one session
	n0 := 2 + g.r.intn(2)
	for i := 0; i < n0; i++ {
		g.connect()
	}
	for g.e.nOps < g.p.Len {
		g.one()
		if g.p.SnapPct > 0 && g.quiescent() && g.r.chance(g.p.SnapPct) {
			g.e.Snap()
			g.count("op:snap")
		}
	}
	g.settle()
	g.e.Snap()
	g.count("op:snap")
}

func (g *Gen) connect() *shadowConn {
	if len(g.openConns()) >= g.p.MaxConns {
		return nil
	}
	c := &shadowConn{id: len(g.conns) + 1, open: true}
	g.conns = append(g.conns, c)
	g.e.Connect(c.id)
	g.count("op:connect")
	return c
}

func (g *Gen) one() {
	k := g.weighted()
	open := g.openConns()
	if len(open) == 0 {
		g.connect()
		return
	}
	c := open[g.r.intn(len(open))]
	// most requests need a joined connection: bias towards one, but keep some unjoined traffic
	if k != "connect" && k != "join" && k != "disconnect" && k != "tick" && k != "ping" && k != "receipt" {
		if j := g.joinedConns(); len(j) > 0 && g.r.chance(88) {
			c = j[g.r.intn(len(j))]
		}
	}
	if c.sid == 0 && needsSession[k] && g.r.chance(90) {
		k = "join"
	}
	switch k {
	case "connect":
		g.connect()
	case "disconnect":
		g.count("op:disconnect")
		g.e.Disconnect(c.id)
		g.left(c)
		c.open = false
		c.queued = 0
	case "tick":
		sids := g.liveSids()
		if len(sids) > 0 {
			sid := g.r.pick(sids)
			if g.r.chance(5) {
				sid = uint32(1 + g.r.intn(6))
			}
			g.tick(sid)
		}
	case "step":
		var cands []*shadowConn
		for _, x := range open {
			if x.queued > 0 {
				cands = append(cands, x)
			}
		}
		if len(cands) > 0 {
			g.stepOne(cands[g.r.intn(len(cands))])
		}
	case "join":
		r := &Req{Kind: 3, Rid: g.nextRid(), Ots: g.nextOts()}
		live := g.liveSids()
		x := g.r.intn(100)
		newPct := 30
		if g.p.Groups > 1 {
			newPct = 12 // fewer, larger sessions: the groups of the purge experiment should have several members
		}
		switch {
		case x < newPct && len(live) < g.p.MaxSess:
			r.SidKind = 0
			g.count("join:new")
		case x < 80 && len(live) > 0:
			pickFrom := live
			if g.p.Groups > 1 && g.r.chance(96) {
				// sessions whose members are all of this connection's group
				var own []uint32
				for _, sid := range live {
					ok := true
					for m := range g.sess[sid].members {
						if m%g.p.Groups != c.id%g.p.Groups {
							ok = false
						}
					}
					if ok {
						own = append(own, sid)
					}
				}
				pickFrom = own
			}
			if len(pickFrom) == 0 {
				r.SidKind = 0
				g.count("join:new")
			} else {
				r.SidKind, r.A = 1, g.r.pick(pickFrom)
				g.count("join:existing")
			}
		case x < 86 && len(g.dead) > 0:
			r.SidKind, r.A = 1, g.r.pick(g.dead)
			g.count("join:dead")
		case x < 90:
			r.SidKind, r.A = 1, uint32(1+g.r.intn(6))
			g.count("join:guess")
		case x < 95:
			r.SidKind, r.A = 2, uint32(g.r.intn(len(junkSids)))
			g.count("join:junk")
		default:
			if c.sid != 0 {
				r.SidKind, r.A = 1, c.sid
				g.count("join:same")
			} else if len(live) < g.p.MaxSess {
				r.SidKind = 0
				g.count("join:new")
			} else {
				r.SidKind, r.A = 1, g.r.pick(live)
				g.count("join:existing")
			}
		}
		g.send(c, r, "join")
	case "entity_add":
		r := &Req{Kind: 8, Rid: g.nextRid(), Ots: g.nextOts(), Persist: g.r.chance(30), A: uint32(g.r.intn(2))}
		if g.r.chance(80) {
			r.HasPose = true
			r.Pose = g.pose(g.nextOts())
		}
		g.send(c, r, "entity_add")
	case "entity_delete":
		g.send(c, &Req{Kind: 11, Rid: g.nextRid(), Ots: g.nextOts(), A: g.entityFor(c, 60)}, "entity_delete")
	case "pose":
		r := &Req{Kind: 14, Ots: g.nextOts(), A: g.entityFor(c, 70), HasPose: !g.r.chance(4)}
		if r.HasPose {
			r.Pose = g.pose(r.Ots)
			// sometimes the entity does not move: the same pose as last time, or the all-zero pose
			if last, ok := g.lastPose[[2]uint32{c.sid, r.A}]; ok && g.r.chance(25) {
				r.Pose = last
				g.count("pose:repeated")
			} else if g.r.chance(3) {
				r.Pose = Pose{}
			}
			g.lastPose[[2]uint32{c.sid, r.A}] = r.Pose
		}
		g.send(c, r, "pose")
	case "custom":
		r := &Req{Kind: 16, Ots: g.nextOts(), Body: g.body()}
		if g.r.chance(60) {
			n := 1 + g.r.intn(5)
			for i := 0; i < n; i++ {
				switch x := g.r.intn(100); {
				case x < 60:
					r.Rcpts = append(r.Rcpts, uint32(1+g.r.intn(6)))
				case x < 70:
					r.Rcpts = append(r.Rcpts, c.pid)
				case x < 80 && len(r.Rcpts) > 0:
					r.Rcpts = append(r.Rcpts, r.Rcpts[g.r.intn(len(r.Rcpts))])
				case x < 90:
					r.Rcpts = append(r.Rcpts, uint32(20+g.r.intn(5)))
				default:
					r.Rcpts = append(r.Rcpts, 0)
				}
			}
		}
		g.send(c, r, "custom")
	case "type_add":
		name := uint32(1 + g.r.intn(5))
		if g.r.chance(8) {
			name = 0
		}
		if g.r.chance(3) {
			name = 1<<20 + 1
		}
		g.send(c, &Req{Kind: 18, Rid: g.nextRid(), A: name}, "type_add")
	case "get_name":
		g.send(c, &Req{Kind: 20, Rid: g.nextRid(), A: g.typeFor(c)}, "get_name")
	case "get_id":
		name := uint32(1 + g.r.intn(6))
		if g.r.chance(8) {
			name = 0
		}
		g.send(c, &Req{Kind: 22, Rid: g.nextRid(), A: name}, "get_id")
	case "comp_add":
		g.send(c, &Req{Kind: 24, Rid: g.nextRid(), Ots: g.nextOts(), A: g.typeFor(c), B: g.entityFor(c, 55), C: g.dataTok()}, "comp_add")
	case "comp_delete":
		r := &Req{Kind: 27, Rid: g.nextRid(), Ots: g.nextOts(), A: g.typeFor(c), B: g.entityFor(c, 55)}
		if s := g.session(c.sid); len(s.comps) > 0 && g.r.chance(60) {
			k := s.comps[g.r.intn(len(s.comps))]
			r.A, r.B = k[0], k[1]
		}
		g.send(c, r, "comp_delete")
	case "comp_update":
		r := &Req{Kind: 30, Ots: g.nextOts(), A: g.typeFor(c), B: g.entityFor(c, 55), C: g.dataTok()}
		if s := g.session(c.sid); len(s.comps) > 0 && g.r.chance(70) {
			k := s.comps[g.r.intn(len(s.comps))]
			r.A, r.B = k[0], k[1]
		}
		g.send(c, r, "comp_update")
	case "comp_list":
		g.send(c, &Req{Kind: 32, Rid: g.nextRid(), A: g.typeFor(c)}, "comp_list")
	case "subscribe":
		g.send(c, &Req{Kind: 34, Rid: g.nextRid(), A: g.typeFor(c)}, "subscribe")
	case "unsubscribe":
		g.send(c, &Req{Kind: 36, Rid: g.nextRid(), A: g.typeFor(c)}, "unsubscribe")
	case "ping":
		g.send(c, &Req{Kind: 38, Rid: g.nextRid()}, "ping")
	case "receipt":
		r := &Req{Kind: 40, Rid: g.nextRid(), A: g.nextTok(), B: g.nextTok(), C: g.nextTok()}
		if g.r.chance(10) {
			switch g.r.intn(3) {
			case 0:
				r.A = 0
			case 1:
				r.B = 0
			default:
				r.C = 0
			}
		}
		g.send(c, r, "receipt")
	case "action":
		r := &Req{Kind: 101, Rid: g.nextRid(), Ots: g.nextOts(), HasAct: !g.r.chance(4)}
		if r.HasAct {
			r.Act = Action{Eid: g.entityFor(c, 50), Name: uint32(1 + g.r.intn(3)), HasTs: !g.r.chance(5), Data: g.dataTok()}
			if g.r.chance(5) {
				r.Act.Name = 0
			}
			tss := []int64{0, 1, 1000, 1000, 2000, 5000000000, 1 << 55, -1, -999999999, 1500, 999}
			r.Act.Ts = tss[g.r.intn(len(tss))]
			if g.r.chance(40) {
				r.Act.Ts = int64(g.nextOts()) * 1000
			}
		}
		g.send(c, r, "action")
	case "asset":
		r := &Req{Kind: 201, Rid: g.nextRid(), Ots: g.nextOts(), A: g.entityFor(c, 65), B: g.nextTok()}
		if g.r.chance(6) {
			r.B = 0
		}
		g.send(c, r, "asset")
	case "latency":
		n := uint32(3 + g.r.intn(4))
		switch x := g.r.intn(100); {
		case x < 6:
			n = uint32(g.r.intn(3))
		case x < 10:
			n = 51 + uint32(g.r.intn(10))
		case x < 12:
			n = 4294967295
		}
		w := g.nextTok()
		if g.r.chance(6) {
			w = 0
		}
		c.latOn = true
		g.send(c, &Req{Kind: 42, Rid: g.nextRid(), A: n, B: w}, "latency")
	case "ping_resp":
		id := uint32(900 + g.r.intn(5))
		if len(c.pings) > 0 {
			switch x := g.r.intn(100); {
			case x < 80:
				id = c.pings[len(c.pings)-1]
			case x < 92:
				id = g.r.pick(c.pings)
			}
		}
		g.send(c, &Req{Kind: 39, Rid: id}, "ping_resp")
	case "dagaz":
		switch g.r.intn(4) {
		case 0:
			g.send(c, &Req{Kind: 300, A: uint32(1 + g.r.intn(3))}, "dagaz_sample")
		case 1:
			g.send(c, &Req{Kind: 301, Rid: g.nextRid()}, "dagaz_ground")
		case 2:
			g.send(c, &Req{Kind: 303, Rid: g.nextRid()}, "dagaz_region")
		default:
			g.send(c, &Req{Kind: 305, Rid: g.nextRid()}, "dagaz_debug")
		}
	case "undecodable":
		tys := []uint32{3, 8, 14, 16, 18, 22, 40, 42, 101, 201, 300, 301, 303}
		g.send(c, &Req{Kind: 9000, A: g.r.pick(tys)}, "undecodable")
	case "unknown":
		tys := []uint32{6, 1, 2, 44, 99, 104, 204, 307, 9999, 4, 5}
		g.send(c, &Req{Kind: 9001, A: g.r.pick(tys)}, "unknown")
	}
}

func (g *Gen) dataTok() uint32 {
	if g.r.chance(10) {
		return 0
	}
	if g.r.chance(2) {
		return 1<<20 + 2
	}
	return g.nextTok()
}

package main

import (
	"bufio"
	"encoding/json"
	"flag"
	"fmt"
	"os"
	"strconv"
	"strings"

	"github.com/aukilabs/go-tooling/pkg/logs"
)

var baseW = map[string]int{
	"connect": 3, "disconnect": 3, "tick": 8, "step": 6, "join": 12,
	"entity_add": 10, "entity_delete": 5, "pose": 10, "custom": 5,
	"type_add": 4, "get_name": 2, "get_id": 2, "comp_add": 6, "comp_delete": 3, "comp_update": 6,
	"comp_list": 3, "subscribe": 4, "unsubscribe": 2, "ping": 1, "receipt": 1,
	"action": 5, "asset": 4, "latency": 1, "ping_resp": 3, "dagaz": 1, "undecodable": 1, "unknown": 1,
}

func withW(over map[string]int) map[string]int {
	w := map[string]int{}
	for k, v := range baseW {
		w[k] = v
	}
	for k, v := range over {
		w[k] = v
	}
	return w
}

var profiles = map[string]*Profile{
	"full": {Name: "full", MaxConns: 6, MaxSess: 3, Len: 80, W: baseW, StepPct: 80, SnapPct: 10},
	"C14": {Name: "C14", MaxConns: 8, MaxSess: 2, Len: 90, StepPct: 85, SnapPct: 2,
		W: map[string]int{"connect": 4, "disconnect": 2, "join": 12, "custom": 60, "entity_add": 2, "tick": 1, "step": 4, "unknown": 1}},
	"C18": {Name: "C18", MaxConns: 4, MaxSess: 2, Len: 120, StepPct: 90, SnapPct: 2,
		W: map[string]int{"connect": 2, "disconnect": 1, "join": 6, "latency": 12, "ping_resp": 60, "ping": 3, "entity_add": 2, "tick": 1, "step": 3}},
}

func cfgFor(profile string, i int, r *rng) Config {
	c := Config{Vikja: i&1 == 0, Odal: i&2 == 0, Dagaz: i&4 == 0}
	return c
}

func main() {
	logs.SetLogger(func(e logs.Entry) {})
	if len(os.Args) < 2 {
		fmt.Fprintln(os.Stderr, "usage: l1 gen|replay ...")
		os.Exit(2)
	}
	switch os.Args[1] {
	case "gen":
		fs := flag.NewFlagSet("gen", flag.ExitOnError)
		prof := fs.String("profile", "full", "generator profile")
		seed := fs.Uint64("seed", 1, "seed")
		n := fs.Int("n", 100, "number of histories")
		length := fs.Int("len", 0, "ops per history (0 = profile default)")
		out := fs.String("out", "trace.txt", "trace file")
		statsF := fs.String("stats", "", "write generator statistics (json)")
		fs.Parse(os.Args[2:])
		p, ok := profiles[*prof]
		if !ok {
			fmt.Fprintln(os.Stderr, "unknown profile", *prof)
			os.Exit(2)
		}
		pp := *p
		if *length > 0 {
			pp.Len = *length
		}
		f, err := os.Create(*out)
		if err != nil {
			panic(err)
		}
		w := bufio.NewWriterSize(f, 1<<20)
		stats := map[string]int{}
		for i := 0; i < *n; i++ {
			r := &rng{*seed*1000003 + uint64(i)}
			cfg := cfgFor(*prof, i, r)
			e := NewEnv(cfg, w, i)
			g := NewGen(r.next(), e, &pp, stats)
			g.Run()
			e.Close()
			stats["histories"]++
			stats["ops"] += e.nOps
		}
		w.Flush()
		f.Close()
		if *statsF != "" {
			b, _ := json.MarshalIndent(stats, "", " ")
			os.WriteFile(*statsF, b, 0644)
		}
	case "replay":
		fs := flag.NewFlagSet("replay", flag.ExitOnError)
		in := fs.String("in", "", "history (or trace) file: H / O / E lines are used")
		out := fs.String("out", "trace.txt", "trace file")
		fs.Parse(os.Args[2:])
		replay(*in, *out)
	default:
		fmt.Fprintln(os.Stderr, "unknown command", os.Args[1])
		os.Exit(2)
	}
}

func parseInts(s string) []int64 {
	var out []int64
	for _, t := range strings.Fields(s) {
		v, err := strconv.ParseInt(t, 10, 64)
		if err != nil {
			panic(err)
		}
		out = append(out, v)
	}
	return out
}

func replay(in, out string) {
	fi, err := os.Open(in)
	if err != nil {
		panic(err)
	}
	defer fi.Close()
	fo, err := os.Create(out)
	if err != nil {
		panic(err)
	}
	w := bufio.NewWriterSize(fo, 1<<20)
	sc := bufio.NewScanner(fi)
	sc.Buffer(make([]byte, 1<<20), 1<<26)
	var e *Env
	for sc.Scan() {
		line := sc.Text()
		if len(line) == 0 {
			continue
		}
		switch line[0] {
		case 'H':
			v := parseInts(line[1:])
			hid := int(v[0])
			nf := int(v[1])
			cfg := Config{}
			for i := 0; i < nf; i++ {
				cfg.Flags = append(cfg.Flags, uint32(v[2+i]))
			}
			cfg.Vikja, cfg.Odal, cfg.Dagaz = v[2+nf] != 0, v[3+nf] != 0, v[4+nf] != 0
			e = NewEnv(cfg, w, hid)
		case 'O':
			v := parseInts(line[1:])
			switch v[0] {
			case 1:
				e.Connect(int(v[1]))
			case 2:
				rd := &intReader{v: v[2:]}
				r := DecReq(rd)
				if rd.err {
					panic("bad request in history: " + line)
				}
				e.Send(int(v[1]), r)
			case 3:
				e.Step(int(v[1]))
			case 4:
				e.Tick(uint32(v[1]))
			case 5:
				e.Disconnect(int(v[1]))
			case 6:
				e.Snap()
			}
		case 'E':
			e.Close()
			e = nil
		}
	}
	if e != nil {
		e.Close()
	}
	w.Flush()
	fo.Close()
}

package main

import (
	"time"
	"bufio"
	"encoding/json"
	"flag"
	"fmt"
	"os"
	"strconv"
	"strings"

	"github.com/aukilabs/go-tooling/pkg/logs"
)

var baseW = map[string]int{
	"connect": 3, "disconnect": 3, "tick": 8, "step": 6, "join": 12,
	"entity_add": 10, "entity_delete": 5, "pose": 10, "custom": 5,
	"type_add": 4, "get_name": 2, "get_id": 2, "comp_add": 6, "comp_delete": 3, "comp_update": 6,
	"comp_list": 3, "subscribe": 4, "unsubscribe": 2, "ping": 1, "receipt": 1,
	"action": 5, "asset": 4, "latency": 1, "ping_resp": 3, "dagaz": 1, "undecodable": 1, "unknown": 1,
}

func withW(over map[string]int) map[string]int {
	w := map[string]int{}
	for k, v := range baseW {
		w[k] = v
	}
	for k, v := range over {
		w[k] = v
	}
	return w
}

var profiles = map[string]*Profile{
	"full": {Name: "full", MaxConns: 6, MaxSess: 3, Len: 80, W: baseW, StepPct: 80, SnapPct: 10},
	"C01": {Name: "C01", MaxConns: 6, MaxSess: 3, Len: 90, W: withW(map[string]int{"subscribe": 8, "comp_list": 5, "comp_update": 8, "unknown": 0, "undecodable": 0, "receipt": 0, "latency": 0, "ping_resp": 0}), StepPct: 80, SnapPct: 30},
	"C02": {Name: "C02", MaxConns: 6, MaxSess: 2, Len: 90, StepPct: 85, SnapPct: 3,
		W: map[string]int{"connect": 5, "disconnect": 5, "join": 16, "entity_add": 12, "entity_delete": 7, "pose": 26, "tick": 14, "step": 4, "custom": 8, "action": 8, "asset": 6, "comp_add": 2, "type_add": 1}},
	"C03": {Name: "C03", MaxConns: 6, MaxSess: 3, Len: 120, W: withW(map[string]int{"join": 20, "disconnect": 5, "latency": 0, "ping_resp": 0, "receipt": 0, "action": 10, "asset": 8, "entity_add": 12, "pose": 7, "comp_update": 3, "tick": 4}), StepPct: 92, SnapPct: 100},
	// the purge experiment: two groups of connections that mostly keep to sessions of their own group, more sessions, module traffic
	"C03p": {Name: "C03p", MaxConns: 7, MaxSess: 5, Len: 130, Groups: 2, W: withW(map[string]int{"join": 16, "disconnect": 4, "latency": 0, "ping_resp": 0, "receipt": 0, "action": 8, "asset": 8, "entity_add": 12, "pose": 6, "comp_update": 4, "tick": 6, "dagaz": 14, "custom": 7}), StepPct: 90, SnapPct: 0},
	"C04": {Name: "C04", MaxConns: 5, MaxSess: 3, Len: 100, W: withW(map[string]int{"latency": 6, "ping_resp": 18, "tick": 3, "pose": 3, "comp_update": 3, "custom": 2, "receipt": 3, "dagaz": 3, "ping": 2}), StepPct: 90, SnapPct: 45},
	"C05": {Name: "C05", MaxConns: 6, MaxSess: 2, Len: 90, StepPct: 85, SnapPct: 15,
		W: map[string]int{"connect": 4, "disconnect": 6, "join": 14, "entity_add": 14, "entity_delete": 14, "pose": 14, "tick": 8, "step": 3, "asset": 12, "action": 2}},
	"C06": {Name: "C06", MaxConns: 6, MaxSess: 2, Len: 100, StepPct: 88, SnapPct: 25,
		W: map[string]int{"connect": 6, "disconnect": 10, "join": 16, "entity_add": 14, "entity_delete": 3, "type_add": 5, "comp_add": 9, "subscribe": 6, "action": 8, "asset": 8, "pose": 3, "tick": 3, "step": 3, "undecodable": 2, "receipt": 1, "comp_delete": 1}},
	"C07": {Name: "C07", MaxConns: 6, MaxSess: 4, Len: 110, StepPct: 85, SnapPct: 40,
		W: map[string]int{"connect": 10, "disconnect": 14, "join": 40, "entity_add": 3, "step": 4, "tick": 2, "undecodable": 2, "ping": 1}},
	"C10": {Name: "C10", MaxConns: 6, MaxSess: 4, Len: 140, StepPct: 88, SnapPct: 12,
		W: map[string]int{"connect": 6, "disconnect": 8, "join": 20, "entity_add": 16, "entity_delete": 8, "type_add": 10, "get_name": 5, "get_id": 5, "asset": 10, "step": 3, "tick": 1}},
	"C11": {Name: "C11", MaxConns: 5, MaxSess: 2, Len: 120, StepPct: 55, SnapPct: 15,
		W: map[string]int{"connect": 3, "disconnect": 3, "join": 10, "entity_add": 10, "entity_delete": 6, "pose": 45, "tick": 16, "step": 14, "custom": 1, "comp_update": 3}},
	"C12": {Name: "C12", MaxConns: 5, MaxSess: 2, Len: 110, StepPct: 85, SnapPct: 20,
		W: map[string]int{"connect": 3, "disconnect": 4, "join": 10, "entity_add": 10, "entity_delete": 7, "type_add": 8, "get_name": 4, "get_id": 4, "comp_add": 16, "comp_delete": 9, "comp_update": 12, "comp_list": 9, "subscribe": 4, "tick": 8, "step": 4}},
	"C13": {Name: "C13", MaxConns: 6, MaxSess: 2, Len: 110, StepPct: 85, SnapPct: 15,
		W: map[string]int{"connect": 3, "disconnect": 5, "join": 12, "entity_add": 8, "entity_delete": 3, "type_add": 6, "comp_add": 12, "comp_delete": 7, "comp_update": 14, "subscribe": 14, "unsubscribe": 8, "tick": 9, "step": 4}},
	"C14": {Name: "C14", MaxConns: 8, MaxSess: 2, Len: 90, StepPct: 85, SnapPct: 2,
		W: map[string]int{"connect": 4, "disconnect": 2, "join": 12, "custom": 60, "entity_add": 2, "tick": 1, "step": 4, "unknown": 1}},
	"C16": {Name: "C16", MaxConns: 5, MaxSess: 2, Len: 100, StepPct: 88, SnapPct: 20,
		W: map[string]int{"connect": 3, "disconnect": 5, "join": 12, "entity_add": 12, "entity_delete": 7, "action": 30, "asset": 18, "step": 3, "tick": 1}},
	"C17": {Name: "C17", MaxConns: 5, MaxSess: 2, Len: 70, W: withW(map[string]int{"latency": 0, "ping_resp": 0, "receipt": 0, "dagaz": 0, "custom": 12, "type_add": 6, "comp_add": 10, "comp_delete": 8, "subscribe": 6}), StepPct: 85, SnapPct: 20},
	"C18": {Name: "C18", MaxConns: 4, MaxSess: 2, Len: 120, StepPct: 90, SnapPct: 2,
		W: map[string]int{"connect": 2, "disconnect": 1, "join": 6, "latency": 12, "ping_resp": 60, "ping": 3, "entity_add": 2, "tick": 1, "step": 3}},
}

func cfgFor(profile string, i int, r *rng) Config {
	c := Config{Vikja: i&1 == 0, Odal: i&2 == 0, Dagaz: i&4 == 0}
	return c
}

func main() {
	logs.SetLogger(func(e logs.Entry) {})
	if len(os.Args) < 2 {
		fmt.Fprintln(os.Stderr, "usage: l1 gen|replay ...")
		os.Exit(2)
	}
	switch os.Args[1] {
	case "gen":
		fs := flag.NewFlagSet("gen", flag.ExitOnError)
		prof := fs.String("profile", "full", "generator profile")
		seed := fs.Uint64("seed", 1, "seed")
		n := fs.Int("n", 100, "number of histories")
		length := fs.Int("len", 0, "ops per history (0 = profile default)")
		out := fs.String("out", "trace.txt", "trace file")
		statsF := fs.String("stats", "", "write generator statistics (json)")
		fs.Parse(os.Args[2:])
		p, ok := profiles[*prof]
		if !ok {
			fmt.Fprintln(os.Stderr, "unknown profile", *prof)
			os.Exit(2)
		}
		pp := *p
		if *length > 0 {
			pp.Len = *length
		}
		f, err := os.Create(*out)
		if err != nil {
			panic(err)
		}
		w := bufio.NewWriterSize(f, 1<<20)
		stats := map[string]int{}
		for i := 0; i < *n; i++ {
			r := &rng{*seed*1000003 + uint64(i)}
			cfg := cfgFor(*prof, i, r)
			e := NewEnv(cfg, w, i)
			g := NewGen(r.next(), e, &pp, stats)
			g.Run()
			e.Close()
			stats["histories"]++
			stats["ops"] += e.nOps
		}
		w.Flush()
		f.Close()
		if *statsF != "" {
			b, _ := json.MarshalIndent(stats, "", " ")
			os.WriteFile(*statsF, b, 0644)
		}
	case "flagrun":
		fs := flag.NewFlagSet("flagrun", flag.ExitOnError)
		in := fs.String("in", "", "trace of histories run with no flag")
		out := fs.String("out", "traceF.txt", "trace file")
		seed := fs.Uint64("seed", 1, "seed")
		per := fs.Int("per", 4, "flag sets per history (0 = all 1024 subsets spread over the histories, 16 each)")
		fs.Parse(os.Args[2:])
		flagrun(*in, *out, *seed, *per)
	case "purgerun":
		fs := flag.NewFlagSet("purgerun", flag.ExitOnError)
		in := fs.String("in", "", "trace of histories")
		out := fs.String("out", "purge.txt", "output: G line, full trace, purged trace per experiment")
		groups := fs.Int("groups", 2, "experiments per history (largest groups first)")
		statsF := fs.String("stats", "", "write statistics (json)")
		fs.Parse(os.Args[2:])
		purgerun(*in, *out, *groups, *statsF)
	case "replay":
		fs := flag.NewFlagSet("replay", flag.ExitOnError)
		in := fs.String("in", "", "history (or trace) file: H / O / E lines are used")
		out := fs.String("out", "trace.txt", "trace file")
		fs.Parse(os.Args[2:])
		replay(*in, *out)
	default:
		fmt.Fprintln(os.Stderr, "unknown command", os.Args[1])
		os.Exit(2)
	}
}

func writeJSON(path string, v interface{}) {
	b, _ := json.MarshalIndent(v, "", " ")
	os.WriteFile(path, b, 0644)
}

func parseInts(s string) []int64 {
	var out []int64
	for _, t := range strings.Fields(s) {
		v, err := strconv.ParseInt(t, 10, 64)
		if err != nil {
			panic(err)
		}
		out = append(out, v)
	}
	return out
}

func parseHeader(line string) (int, Config) {
	v := parseInts(line[1:])
	hid := int(v[0])
	nf := int(v[1])
	cfg := Config{}
	for i := 0; i < nf; i++ {
		cfg.Flags = append(cfg.Flags, uint32(v[2+i]))
	}
	cfg.Vikja, cfg.Odal, cfg.Dagaz = v[2+nf] != 0, v[3+nf] != 0, v[4+nf] != 0
	return hid, cfg
}

func runOp(e *Env, line string) {
	v := parseInts(line[1:])
	switch v[0] {
	case 1:
		e.Connect(int(v[1]))
	case 2:
		rd := &intReader{v: v[2:]}
		r := DecReq(rd)
		if rd.err {
			panic("bad request in history: " + line)
		}
		e.Send(int(v[1]), r)
	case 3:
		e.Step(int(v[1]))
	case 4:
		e.Tick(uint32(v[1]))
	case 5:
		e.Disconnect(int(v[1]))
	case 6:
		e.Snap()
	}
}

func replay(in, out string) {
	fi, err := os.Open(in)
	if err != nil {
		panic(err)
	}
	defer fi.Close()
	fo, err := os.Create(out)
	if err != nil {
		panic(err)
	}
	w := bufio.NewWriterSize(fo, 1<<20)
	sc := bufio.NewScanner(fi)
	sc.Buffer(make([]byte, 1<<20), 1<<26)
	var e *Env
	for sc.Scan() {
		line := sc.Text()
		if len(line) == 0 {
			continue
		}
		switch line[0] {
		case 'H':
			hid, cfg := parseHeader(line)
			e = NewEnv(cfg, w, hid)
		case 'O':
			runOp(e, line)
		case 'W':
			// a wait (no operation of the model, not written to the trace): the server derives ping ids from the wall
			// clock (uint32 of UnixNano, which wraps every 4.29 s); "W before <us>" waits until <us> microseconds before
			// the next wrap, "W after <us>" until <us> microseconds after the next wrap, "W sleep <us>" just sleeps
			f := strings.Fields(line)
			if len(f) == 3 {
				us, _ := strconv.ParseInt(f[2], 10, 64)
				d := time.Duration(us) * time.Microsecond
				const wrap = int64(1) << 32
				toWrap := time.Duration(wrap - time.Now().UnixNano()%wrap)
				switch f[1] {
				case "before":
					if toWrap < d+time.Millisecond {
						toWrap += time.Duration(wrap)
					}
					time.Sleep(toWrap - d)
				case "after":
					time.Sleep(toWrap + d)
				case "sleep":
					time.Sleep(d)
				}
			}
		case 'E':
			e.Close()
			e = nil
		}
	}
	if e != nil {
		e.Close()
	}
	w.Flush()
	fo.Close()
}

// flagrun replays every history of a flag-free trace under sampled flag sets; the history id of
// the k-th flagged run of history h is h*1000+k.
func flagrun(in, out string, seed uint64, per int) {
	fi, err := os.Open(in)
	if err != nil {
		panic(err)
	}
	defer fi.Close()
	fo, err := os.Create(out)
	if err != nil {
		panic(err)
	}
	w := bufio.NewWriterSize(fo, 1<<20)
	sc := bufio.NewScanner(fi)
	sc.Buffer(make([]byte, 1<<20), 1<<26)
	r := &rng{seed}
	var ops []string
	var hid int
	var cfg Config
	nh := 0
	flush := func() {
		var sets [][]uint32
		if per == 0 {
			for k := 0; k < 16; k++ {
				mask := (nh*16 + k) % 1024
				var f []uint32
				for b := 0; b < 10; b++ {
					if mask&(1<<b) != 0 {
						f = append(f, uint32(b))
					}
				}
				sets = append(sets, f)
			}
		} else {
			for k := 0; k < per; k++ {
				var f []uint32
				switch x := (nh*per + k) % 16; {
				case x < 10:
					f = []uint32{uint32(x)}
				case x == 10:
					f = []uint32{0, 1, 2, 3, 4, 5, 6, 7, 8, 9}
				case x == 11:
					f = []uint32{12}
				case x == 12:
					f = []uint32{uint32(r.intn(10)), 15, 11}
				default:
					for b := 0; b < 10; b++ {
						if r.chance(40) {
							f = append(f, uint32(b))
						}
					}
				}
				sets = append(sets, f)
			}
		}
		for k, f := range sets {
			c := cfg
			c.Flags = f
			e := NewEnv(c, w, hid*1000+k)
			for _, l := range ops {
				runOp(e, l)
			}
			e.Close()
		}
		nh++
	}
	for sc.Scan() {
		line := sc.Text()
		if len(line) == 0 {
			continue
		}
		switch line[0] {
		case 'H':
			hid, cfg = parseHeader(line)
			ops = nil
		case 'O':
			ops = append(ops, line)
		case 'E':
			flush()
		}
	}
	w.Flush()
	fo.Close()
}

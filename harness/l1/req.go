package main

// Requests as the model sees them (mirrors coq/Msg.v `req`), their integer
// encoding (coq/Codec.v pReq) and the real protobuf message they stand for.

import (
	"fmt"
	"math"
	"strings"

	"github.com/aukilabs/hagall-common/messages/dagazpb"
	"github.com/aukilabs/hagall-common/messages/hagallpb"
	"github.com/aukilabs/hagall-common/messages/odalpb"
	"github.com/aukilabs/hagall-common/messages/vikjapb"
	hwebsocket "github.com/aukilabs/hagall-common/websocket"
	"google.golang.org/protobuf/encoding/protowire"
	"google.golang.org/protobuf/proto"
	"google.golang.org/protobuf/types/known/timestamppb"
)

type Pose [7]uint32 // float32 bit patterns

type Action struct {
	Eid, Name uint32
	HasTs     bool
	Ts        int64 // microseconds since the epoch (see tsFromNanos)
	Data      uint32
}

type Req struct {
	Kind    int // wire message type number, or 9000 (undecodable) / 9001 (unknown)
	Rid     uint32
	A, B, C uint32 // generic numeric fields, meaning per kind
	SidKind int    // join: 0 new, 1 id, 2 junk
	Persist bool
	HasPose bool
	Pose    Pose
	Rcpts   []uint32
	Body    []byte
	HasAct  bool
	Act     Action
	Ots     uint32
}

// ---------- interning ----------
// token 0 = empty; small tokens = short strings; tokens >= 1<<20 = 64 KiB strings.
func tokStr(n uint32) string {
	if n == 0 {
		return ""
	}
	if n < 1<<20 {
		return fmt.Sprintf("t%d", n)
	}
	return fmt.Sprintf("t%d_", n) + strings.Repeat("x", 65536)
}

func strTok(s string) (uint32, bool) {
	if s == "" {
		return 0, true
	}
	if i := strings.IndexByte(s, '_'); i >= 0 {
		s = s[:i]
	}
	var n uint32
	if _, err := fmt.Sscanf(s, "t%d", &n); err != nil {
		return 0, false
	}
	return n, true
}

var junkSids = []string{"junk", "tedx01", "TEDX1", "tedx1 ", "x1", "tedxffffffffff", "tedx", "ted1", "tedx-1", " tedx1", "tedx0x1", "tedxg"}

func sidString(kind int, v uint32) string {
	switch kind {
	case 0:
		return ""
	case 1:
		return fmt.Sprintf("tedx%x", v)
	default:
		return junkSids[int(v)%len(junkSids)]
	}
}

func parseSid(s string) (uint32, bool) {
	var n uint32
	if !strings.HasPrefix(s, "tedx") {
		return 0, false
	}
	if _, err := fmt.Sscanf(s[4:], "%x", &n); err != nil {
		return 0, false
	}
	if fmt.Sprintf("tedx%x", n) != s {
		return 0, false
	}
	return n, true
}

func otsTs(ots uint32) *timestamppb.Timestamp {
	// origin timestamps are chosen by the generator; encoded as whole seconds
	return &timestamppb.Timestamp{Seconds: int64(ots)}
}

func tsOts(t *timestamppb.Timestamp) uint32 {
	if t == nil {
		return 0
	}
	if t.Nanos != 0 || t.Seconds < 0 || t.Seconds >= 1000000000 {
		return 0 // a server-generated "now": dropped
	}
	return uint32(t.Seconds)
}

func posePb(p Pose) *hagallpb.Pose {
	f := func(b uint32) float32 { return math.Float32frombits(b) }
	return &hagallpb.Pose{Px: f(p[0]), Py: f(p[1]), Pz: f(p[2]), Rx: f(p[3]), Ry: f(p[4]), Rz: f(p[5]), Rw: f(p[6])}
}

func pbPose(p *hagallpb.Pose) Pose {
	if p == nil {
		return Pose{}
	}
	b := math.Float32bits
	return Pose{b(p.Px), b(p.Py), b(p.Pz), b(p.Rx), b(p.Ry), b(p.Rz), b(p.Rw)}
}

// action timestamps travel through the harness as MICROSECONDS since the epoch (an int64 of nanoseconds ends in the
// year 2262; the property speaks of far-future timestamps, and time.Time.UnixNano wraps beyond that year)
func tsFromNanos(n int64) *timestamppb.Timestamp {
	s := n / 1e6
	us := n % 1e6
	if us < 0 {
		us += 1e6
		s--
	}
	return &timestamppb.Timestamp{Seconds: s, Nanos: int32(us * 1000)}
}

func nanosFromTs(t *timestamppb.Timestamp) int64 {
	return t.Seconds*1e6 + int64(t.Nanos)/1000
}

// ---------- integer encoding (must agree with coq/Codec.v) ----------
func b2i(b bool) int64 {
	if b {
		return 1
	}
	return 0
}

func encPose(p Pose) []int64 {
	out := make([]int64, 7)
	for i, v := range p {
		out[i] = int64(v)
	}
	return out
}

func encAction(a Action) []int64 {
	out := []int64{int64(a.Eid), int64(a.Name)}
	if a.HasTs {
		out = append(out, 1, a.Ts)
	} else {
		out = append(out, 0)
	}
	return append(out, int64(a.Data))
}

func (r *Req) Enc() []int64 {
	u := func(x uint32) int64 { return int64(x) }
	switch r.Kind {
	case 38, 39:
		return []int64{int64(r.Kind), u(r.Rid)}
	case 42:
		return []int64{42, u(r.Rid), u(r.A), u(r.B)}
	case 3:
		return []int64{3, u(r.Rid), int64(r.SidKind), u(r.A), u(r.Ots)}
	case 8:
		out := []int64{8, u(r.Rid), b2i(r.Persist), u(r.A)}
		if r.HasPose {
			out = append(append(out, 1), encPose(r.Pose)...)
		} else {
			out = append(out, 0)
		}
		return append(out, u(r.Ots))
	case 11:
		return []int64{11, u(r.Rid), u(r.A), u(r.Ots)}
	case 14:
		out := []int64{14, u(r.A)}
		if r.HasPose {
			out = append(append(out, 1), encPose(r.Pose)...)
		} else {
			out = append(out, 0)
		}
		return append(out, u(r.Ots))
	case 16:
		out := []int64{16, int64(len(r.Rcpts))}
		for _, x := range r.Rcpts {
			out = append(out, u(x))
		}
		out = append(out, int64(len(r.Body)))
		for _, x := range r.Body {
			out = append(out, int64(x))
		}
		return append(out, u(r.Ots))
	case 18, 20, 22, 32, 34, 36:
		return []int64{int64(r.Kind), u(r.Rid), u(r.A)}
	case 24:
		return []int64{24, u(r.Rid), u(r.A), u(r.B), u(r.C), u(r.Ots)}
	case 27:
		return []int64{27, u(r.Rid), u(r.A), u(r.B), u(r.Ots)}
	case 30:
		return []int64{30, u(r.A), u(r.B), u(r.C), u(r.Ots)}
	case 40:
		return []int64{40, u(r.Rid), u(r.A), u(r.B), u(r.C)}
	case 101:
		out := []int64{101, u(r.Rid)}
		if r.HasAct {
			out = append(append(out, 1), encAction(r.Act)...)
		} else {
			out = append(out, 0)
		}
		return append(out, u(r.Ots))
	case 201:
		return []int64{201, u(r.Rid), u(r.A), u(r.B), u(r.Ots)}
	case 300:
		return []int64{300, u(r.A)}
	case 301, 303, 305:
		return []int64{int64(r.Kind), u(r.Rid)}
	case 9000, 9001:
		return []int64{int64(r.Kind), u(r.A)}
	}
	panic(fmt.Sprintf("Enc: unknown kind %d", r.Kind))
}

type intReader struct {
	v   []int64
	pos int
	err bool
}

func (r *intReader) next() int64 {
	if r.pos >= len(r.v) {
		r.err = true
		return 0
	}
	x := r.v[r.pos]
	r.pos++
	return x
}
func (r *intReader) u() uint32 { return uint32(r.next()) }

func decPose(r *intReader) Pose {
	var p Pose
	for i := range p {
		p[i] = r.u()
	}
	return p
}

func DecReq(r *intReader) *Req {
	q := &Req{Kind: int(r.next())}
	switch q.Kind {
	case 38, 39:
		q.Rid = r.u()
	case 42:
		q.Rid, q.A, q.B = r.u(), r.u(), r.u()
	case 3:
		q.Rid = r.u()
		q.SidKind = int(r.next())
		q.A = r.u()
		q.Ots = r.u()
	case 8:
		q.Rid = r.u()
		q.Persist = r.next() != 0
		q.A = r.u()
		if r.next() != 0 {
			q.HasPose = true
			q.Pose = decPose(r)
		}
		q.Ots = r.u()
	case 11:
		q.Rid, q.A, q.Ots = r.u(), r.u(), r.u()
	case 14:
		q.A = r.u()
		if r.next() != 0 {
			q.HasPose = true
			q.Pose = decPose(r)
		}
		q.Ots = r.u()
	case 16:
		n := int(r.next())
		for i := 0; i < n && !r.err; i++ {
			q.Rcpts = append(q.Rcpts, r.u())
		}
		n = int(r.next())
		for i := 0; i < n && !r.err; i++ {
			q.Body = append(q.Body, byte(r.next()))
		}
		q.Ots = r.u()
	case 18, 20, 22, 32, 34, 36:
		q.Rid, q.A = r.u(), r.u()
	case 24:
		q.Rid, q.A, q.B, q.C, q.Ots = r.u(), r.u(), r.u(), r.u(), r.u()
	case 27:
		q.Rid, q.A, q.B, q.Ots = r.u(), r.u(), r.u(), r.u()
	case 30:
		q.A, q.B, q.C, q.Ots = r.u(), r.u(), r.u(), r.u()
	case 40:
		q.Rid, q.A, q.B, q.C = r.u(), r.u(), r.u(), r.u()
	case 101:
		q.Rid = r.u()
		if r.next() != 0 {
			q.HasAct = true
			q.Act.Eid, q.Act.Name = r.u(), r.u()
			if r.next() != 0 {
				q.Act.HasTs = true
				q.Act.Ts = r.next()
			}
			q.Act.Data = r.u()
		}
		q.Ots = r.u()
	case 201:
		q.Rid, q.A, q.B, q.Ots = r.u(), r.u(), r.u(), r.u()
	case 300:
		q.A = r.u()
	case 301, 303, 305:
		q.Rid = r.u()
	case 9000, 9001:
		q.A = r.u()
	default:
		r.err = true
	}
	return q
}

// ---------- building the real message ----------
var reqStamp = &timestamppb.Timestamp{Seconds: 1700000000}

// asWire re-types a message the way hwebsocket.Receive does: Type is a
// hagallpb.MsgType whatever module the message belongs to, and the body is the
// original bytes (kept as unknown fields of hagallpb.Msg and re-emitted).
func asWire(b []byte) (hwebsocket.Msg, error) {
	var m hagallpb.Msg
	if err := proto.Unmarshal(b, &m); err != nil {
		return hwebsocket.Msg{}, err
	}
	return hwebsocket.MsgFromProto(&m)
}

func header(ty int) []byte {
	var b []byte
	b = protowire.AppendTag(b, 1, protowire.VarintType)
	b = protowire.AppendVarint(b, uint64(ty))
	tsb, _ := proto.Marshal(reqStamp)
	b = protowire.AppendTag(b, 2, protowire.BytesType)
	b = protowire.AppendBytes(b, tsb)
	return b
}

// undecodableBody: a body that hagallpb.Msg accepts (so it passes Receive) but
// that the handler's own message type rejects.
func undecodableBody(ty int) []byte {
	b := header(ty)
	bad := []byte{0xff, 0xfe, 0xfd} // invalid UTF-8, and a malformed embedded message
	field := protowire.Number(3)
	switch ty {
	case 3, 18, 22, 40: // string field 3
		field = 3
	case 42: // wallet_address = 4
		field = 4
	case 8: // pose = 3 (embedded message)
		field = 3
	case 14: // pose = 4
		field = 4
	case 16: // participant_ids = 3 packed varints: truncated varint
		field = 3
		bad = []byte{0x80}
	case 101: // entity_action = 3
		field = 3
	case 201: // asset_id = 4
		field = 4
	case 300: // samples = 4
		field = 4
	case 301, 303: // ray / min = 3
		field = 3
	}
	b = protowire.AppendTag(b, field, protowire.BytesType)
	b = protowire.AppendBytes(b, bad)
	return b
}

func (r *Req) Build(pingReal func(uint32) uint32) (hwebsocket.Msg, error) {
	var pm proto.Message
	ty := hagallpb.MsgType(r.Kind)
	switch r.Kind {
	case 38:
		pm = &hagallpb.Request{Type: ty, Timestamp: reqStamp, RequestId: r.Rid}
	case 39:
		pm = &hagallpb.Response{Type: ty, Timestamp: reqStamp, RequestId: pingReal(r.Rid)}
	case 42:
		pm = &hagallpb.SignedLatencyRequest{Type: ty, Timestamp: reqStamp, RequestId: r.Rid, IterationCount: r.A, WalletAddress: tokStr(r.B)}
	case 3:
		pm = &hagallpb.ParticipantJoinRequest{Type: ty, Timestamp: otsTs(r.Ots), RequestId: r.Rid, SessionId: sidString(r.SidKind, r.A)}
	case 8:
		m := &hagallpb.EntityAddRequest{Type: ty, Timestamp: otsTs(r.Ots), RequestId: r.Rid, Persist: r.Persist, Flag: hagallpb.EntityFlag(r.A)}
		if r.HasPose {
			m.Pose = posePb(r.Pose)
		}
		pm = m
	case 11:
		pm = &hagallpb.EntityDeleteRequest{Type: ty, Timestamp: otsTs(r.Ots), RequestId: r.Rid, EntityId: r.A}
	case 14:
		m := &hagallpb.EntityUpdatePose{Type: ty, Timestamp: otsTs(r.Ots), EntityId: r.A}
		if r.HasPose {
			m.Pose = posePb(r.Pose)
		}
		pm = m
	case 16:
		pm = &hagallpb.CustomMessage{Type: ty, Timestamp: otsTs(r.Ots), ParticipantIds: r.Rcpts, Body: r.Body}
	case 18:
		pm = &hagallpb.EntityComponentTypeAddRequest{Type: ty, Timestamp: reqStamp, RequestId: r.Rid, EntityComponentTypeName: tokStr(r.A)}
	case 20:
		pm = &hagallpb.EntityComponentTypeGetNameRequest{Type: ty, Timestamp: reqStamp, RequestId: r.Rid, EntityComponentTypeId: r.A}
	case 22:
		pm = &hagallpb.EntityComponentTypeGetIdRequest{Type: ty, Timestamp: reqStamp, RequestId: r.Rid, EntityComponentTypeName: tokStr(r.A)}
	case 24:
		pm = &hagallpb.EntityComponentAddRequest{Type: ty, Timestamp: otsTs(r.Ots), RequestId: r.Rid, EntityComponentTypeId: r.A, EntityId: r.B, Data: []byte(tokStr(r.C))}
	case 27:
		pm = &hagallpb.EntityComponentDeleteRequest{Type: ty, Timestamp: otsTs(r.Ots), RequestId: r.Rid, EntityComponentTypeId: r.A, EntityId: r.B}
	case 30:
		pm = &hagallpb.EntityComponentUpdate{Type: ty, Timestamp: otsTs(r.Ots), EntityComponentTypeId: r.A, EntityId: r.B, Data: []byte(tokStr(r.C))}
	case 32:
		pm = &hagallpb.EntityComponentListRequest{Type: ty, Timestamp: reqStamp, RequestId: r.Rid, EntityComponentTypeId: r.A}
	case 34:
		pm = &hagallpb.EntityComponentTypeSubscribeRequest{Type: ty, Timestamp: reqStamp, RequestId: r.Rid, EntityComponentTypeId: r.A}
	case 36:
		pm = &hagallpb.EntityComponentTypeUnsubscribeRequest{Type: ty, Timestamp: reqStamp, RequestId: r.Rid, EntityComponentTypeId: r.A}
	case 40:
		pm = &hagallpb.ReceiptRequest{Type: ty, Timestamp: reqStamp, RequestId: r.Rid, Receipt: tokStr(r.A), Hash: []byte(tokStr(r.B)), Signature: []byte(tokStr(r.C))}
	case 101:
		m := &vikjapb.EntityActionRequest{Type: vikjapb.MsgType(101), Timestamp: otsTs(r.Ots), RequestId: r.Rid}
		if r.HasAct {
			a := &vikjapb.EntityAction{EntityId: r.Act.Eid, Name: tokStr(r.Act.Name), Data: []byte(tokStr(r.Act.Data))}
			if r.Act.HasTs {
				a.Timestamp = tsFromNanos(r.Act.Ts)
			}
			m.EntityAction = a
		}
		pm = m
	case 201:
		pm = &odalpb.AssetInstanceAddRequest{Type: odalpb.MsgType(201), Timestamp: otsTs(r.Ots), RequestId: r.Rid, EntityId: r.A, AssetId: tokStr(r.B)}
	case 300:
		m := &dagazpb.DagazQuadSample{Type: dagazpb.MsgType(300), Timestamp: reqStamp}
		for i := uint32(0); i < r.A; i++ {
			m.Samples = append(m.Samples, &dagazpb.Quad{
				Center:  &dagazpb.Point{X: float32(i) * 1.5, Y: 0, Z: float32(i) * 0.5},
				Extents: &dagazpb.Point{X: 0.5, Y: 0, Z: 0.5}})
		}
		pm = m
	case 301:
		pm = &dagazpb.DagazGetGroundPlaneRequest{Type: dagazpb.MsgType(301), Timestamp: reqStamp, RequestId: r.Rid,
			Ray: &dagazpb.Ray{From: &dagazpb.Point{X: 0.2, Y: 1, Z: 0.2}, To: &dagazpb.Point{X: 0.2, Y: -1, Z: 0.2}}}
	case 303:
		pm = &dagazpb.DagazGetRegionRequest{Type: dagazpb.MsgType(303), Timestamp: reqStamp, RequestId: r.Rid,
			Min: &dagazpb.Point{X: -100, Z: -100}, Max: &dagazpb.Point{X: 100, Z: 100}}
	case 305:
		pm = &dagazpb.DagazGetDebugInfoRequest{Type: dagazpb.MsgType(305), Timestamp: reqStamp, RequestId: r.Rid}
	case 9000:
		return asWire(undecodableBody(int(r.A)))
	case 9001:
		return asWire(header(int(r.A)))
	default:
		return hwebsocket.Msg{}, fmt.Errorf("Build: unknown kind %d", r.Kind)
	}
	b, err := proto.Marshal(pm)
	if err != nil {
		return hwebsocket.Msg{}, err
	}
	return asWire(b)
}

package main

// The noninterference experiment of C03 (coq/Purge.v): every history of a trace file is run again in full and then with
// the traffic of every connection outside a group A removed; both runs are written, one after the other, behind a
// "G <hid> <n> <conns of A>" line, and judged by the extraction of Purge.P_purge (oracle C03purge).  A is a union of
// connections that ever shared a session incarnation (same session uuid in their join responses), so that no session has
// members inside and outside A.  The translation of the requests of A (session ids named by joins and ticks) mirrors
// Purge.translate; the judge re-checks it (codes 391 / 392), so this file is not trusted for the verdict.

import (
	"bufio"
	"bytes"
	"fmt"
	"hash/fnv"
	"os"
	"sort"

	"github.com/aukilabs/hagall-common/messages/dagazpb"
	hwebsocket "github.com/aukilabs/hagall-common/websocket"
)

func payloadDigest(msg hwebsocket.Msg) int64 {
	h := fnv.New32a()
	q := func(x *dagazpb.Quad) string {
		if x == nil {
			return "nil"
		}
		return fmt.Sprintf("%v|%v|%v|%v|%v|%v|%d", x.GetCenter().GetX(), x.GetCenter().GetY(), x.GetCenter().GetZ(),
			x.GetExtents().GetX(), x.GetExtents().GetY(), x.GetExtents().GetZ(), x.GetMergeCount())
	}
	switch int(msg.Type.Number()) {
	case 302:
		var m dagazpb.DagazGetGroundPlaneResponse
		if msg.DataTo(&m) != nil {
			return 1
		}
		fmt.Fprintf(h, "302 %s", q(m.Ground))
	case 304:
		var m dagazpb.DagazGetRegionResponse
		if msg.DataTo(&m) != nil {
			return 1
		}
		var qs []string
		for _, x := range m.Quads {
			qs = append(qs, q(x))
		}
		sort.Strings(qs)
		fmt.Fprintf(h, "304 %d %v", len(qs), qs)
	case 306:
		var m dagazpb.DagazGetDebugInfoResponse
		if msg.DataTo(&m) != nil {
			return 1
		}
		fmt.Fprintf(h, "306 %d %d %d %d %d %v %v", m.GridResolution, m.GridRowCount, m.GridColCount, m.GridPlaneCount, m.GridMergeCount,
			m.GetGridMinPoint(), m.GetGridMaxPoint())
	default:
		return 0
	}
	return int64(h.Sum32()>>1) + 2
}

type pevent struct {
	op      []int64
	line    string
	req     *Req
	outs    []Delivery
	verdict int
}

// obsStep mirrors Obs.obs_step: who is in which session, from the trace alone
func obsStep(m map[int]uint32, ev *pevent) {
	switch ev.op[0] {
	case 3:
		c := int(ev.op[1])
		if ev.verdict == 1 {
			delete(m, c)
			return
		}
		if ev.req != nil && ev.req.Kind == 3 {
			for _, d := range ev.outs {
				if d.Conn == c && len(d.Msg) == 5 && d.Msg[0] == 4 {
					m[c] = uint32(d.Msg[2])
					return
				}
			}
			for _, d := range ev.outs {
				if d.Conn == c && len(d.Msg) == 3 && d.Msg[0] == 0 && d.Msg[2] == 404 {
					delete(m, c)
					return
				}
			}
		}
	case 2:
		if ev.verdict == 1 {
			delete(m, int(ev.op[1]))
		}
	case 5:
		delete(m, int(ev.op[1]))
	}
}

func runLine(e *Env, line string, tr func(*Req)) *pevent {
	v := parseInts(line[1:])
	ev := &pevent{op: v, line: line}
	switch v[0] {
	case 1:
		e.Connect(int(v[1]))
	case 2:
		rd := &intReader{v: v[2:]}
		r := DecReq(rd)
		if rd.err {
			panic("bad request in history: " + line)
		}
		if tr != nil {
			tr(r)
		}
		e.Send(int(v[1]), r)
		ev.req = r
	case 3:
		e.Step(int(v[1]))
		ev.req = e.lastReq
	case 4:
		e.Tick(uint32(v[1]))
	case 5:
		e.Disconnect(int(v[1]))
	case 6:
		e.Snap()
	}
	ev.outs = append([]Delivery(nil), e.lastOuts...)
	ev.verdict = e.lastVerdict
	return ev
}

func purgeOne(hid int, cfg Config, ops []string, w *bufio.Writer, maxGroups int, stats map[string]int) {
	// 1. the full run
	var fb bytes.Buffer
	fw := bufio.NewWriter(&fb)
	e := NewEnv(cfg, fw, hid)
	e.digests = true
	var evs []*pevent
	for _, l := range ops {
		if v := parseInts(l[1:]); len(v) > 0 && v[0] == 6 {
			continue // snapshots play no part
		}
		evs = append(evs, runLine(e, l, nil))
	}
	e.Close()
	fw.Flush()
	// 2. groups: connections that ever shared a session incarnation
	parent := map[int]int{}
	var find func(int) int
	find = func(x int) int {
		if parent[x] != x {
			parent[x] = find(parent[x])
		}
		return parent[x]
	}
	byUU := map[int64]int{}
	joined := map[int]bool{}
	conns := map[int]bool{}
	for _, ev := range evs {
		if ev.op[0] == 1 {
			c := int(ev.op[1])
			conns[c] = true
			if _, ok := parent[c]; !ok {
				parent[c] = c
			}
		}
		for _, d := range ev.outs {
			if len(d.Msg) == 5 && d.Msg[0] == 4 {
				if _, ok := parent[d.Conn]; !ok {
					parent[d.Conn] = d.Conn
				}
				joined[d.Conn] = true
				if o, ok := byUU[d.Msg[3]]; ok {
					parent[find(d.Conn)] = find(o)
				} else {
					byUU[d.Msg[3]] = d.Conn
				}
			}
		}
	}
	groups := map[int][]int{}
	for c := range conns {
		if joined[c] {
			groups[find(c)] = append(groups[find(c)], c)
		}
	}
	var gl [][]int
	for _, g := range groups {
		sort.Ints(g)
		gl = append(gl, g)
	}
	sort.Slice(gl, func(i, j int) bool {
		if len(gl[i]) != len(gl[j]) {
			return len(gl[i]) > len(gl[j])
		}
		return gl[i][0] < gl[j][0]
	})
	stats[fmt.Sprintf("groups:%d", len(gl))]++
	if len(gl) > maxGroups {
		gl = gl[:maxGroups]
	}
	// 3. one purged run per group
	for gi, A := range gl {
		inA := map[int]bool{}
		for _, c := range A {
			inA[c] = true
		}
		m1, m2 := map[int]uint32{}, map[int]uint32{}
		rho := func(s uint32) (uint32, bool) {
			for _, c := range A {
				if v, ok := m1[c]; ok && v == s {
					if v2, ok2 := m2[c]; ok2 {
						return v2, true
					}
				}
			}
			return 0, false
		}
		var pb bytes.Buffer
		pw := bufio.NewWriter(&pb)
		e2 := NewEnv(cfg, pw, hid)
		e2.digests = true
		kept := 0
		for _, ev := range evs {
			rel := false
			switch ev.op[0] {
			case 1, 2, 3, 5:
				rel = inA[int(ev.op[1])]
			case 4:
				for _, c := range A {
					if v, ok := m1[c]; ok && v == uint32(ev.op[1]) {
						rel = true
					}
				}
			}
			if rel {
				kept++
				var ev2 *pevent
				if ev.op[0] == 4 {
					s := uint32(ev.op[1])
					if s2, ok := rho(s); ok {
						s = s2
					}
					ev2 = runLine(e2, fmt.Sprintf("O 4 %d", s), nil)
				} else {
					ev2 = runLine(e2, ev.line, func(r *Req) {
						if r.Kind == 3 && r.SidKind == 1 {
							if s2, ok := rho(r.A); ok {
								r.A = s2
							} else {
								r.A = 1000000 + r.A
							}
						}
					})
				}
				obsStep(m2, ev2)
			}
			obsStep(m1, ev)
		}
		e2.Close()
		pw.Flush()
		fmt.Fprintf(w, "G %d %d", hid*10+gi, len(A))
		for _, c := range A {
			fmt.Fprintf(w, " %d", c)
		}
		fmt.Fprintf(w, "\n")
		w.Write(fb.Bytes())
		w.Write(pb.Bytes())
		stats["experiments"]++
		stats["ops_full"] += len(evs)
		stats["ops_kept"] += kept
		stats[fmt.Sprintf("group_size:%d", len(A))]++
	}
}

func purgerun(in, out string, maxGroups int, statsF string) {
	fi, err := os.Open(in)
	if err != nil {
		panic(err)
	}
	defer fi.Close()
	fo, err := os.Create(out)
	if err != nil {
		panic(err)
	}
	w := bufio.NewWriterSize(fo, 1<<20)
	sc := bufio.NewScanner(fi)
	sc.Buffer(make([]byte, 1<<20), 1<<26)
	var ops []string
	var hid int
	var cfg Config
	stats := map[string]int{}
	for sc.Scan() {
		line := sc.Text()
		if len(line) == 0 {
			continue
		}
		switch line[0] {
		case 'H':
			hid, cfg = parseHeader(line)
			ops = nil
		case 'O':
			ops = append(ops, line)
		case 'E':
			purgeOne(hid, cfg, ops, w, maxGroups, stats)
			stats["histories"]++
		}
	}
	w.Flush()
	fo.Close()
	if statsF != "" {
		writeJSON(statsF, stats)
	}
}

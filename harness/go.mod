module verifharness

go 1.23.0

toolchain go1.23.4

require (
	github.com/aukilabs/go-tooling v0.16.2
	github.com/aukilabs/hagall-common v0.2.2
	github.com/ethereum/go-ethereum v1.14.13
	github.com/google/uuid v1.6.0
	github.com/prometheus/client_golang v1.20.5
	github.com/segmentio/encoding v0.4.1
	github.com/stretchr/testify v1.10.0
	golang.org/x/net v0.38.0
	google.golang.org/protobuf v1.36.2
)

require (
	github.com/beevik/ntp v1.4.3 // indirect
	github.com/beorn7/perks v1.0.1 // indirect
	github.com/cespare/xxhash/v2 v2.3.0 // indirect
	github.com/davecgh/go-spew v1.1.1 // indirect
	github.com/decred/dcrd/dcrec/secp256k1/v4 v4.3.0 // indirect
	github.com/golang-jwt/jwt/v4 v4.5.2 // indirect
	github.com/holiman/uint256 v1.3.2 // indirect
	github.com/klauspost/compress v1.17.11 // indirect
	github.com/munnerz/goautoneg v0.0.0-20191010083416-a7dc8b61c822 // indirect
	github.com/pmezard/go-difflib v1.0.0 // indirect
	github.com/prometheus/client_model v0.6.1 // indirect
	github.com/prometheus/common v0.61.0 // indirect
	github.com/prometheus/procfs v0.15.1 // indirect
	github.com/segmentio/asm v1.2.0 // indirect
	go.opentelemetry.io/otel v1.33.0 // indirect
	go.opentelemetry.io/otel/trace v1.33.0 // indirect
	golang.org/x/crypto v0.36.0 // indirect
	golang.org/x/sys v0.31.0 // indirect
	gopkg.in/yaml.v3 v3.0.1 // indirect
)

require github.com/aukilabs/hagall v0.0.0
replace github.com/aukilabs/hagall => /repo

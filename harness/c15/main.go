// c15: drives the two REAL wrappers of /repo/http (VerifyAuthToken as the Handshake of an
// x/net/websocket server, VerifyAuthTokenHandler as middleware) around harness-owned inner handlers,
// with the real hds.Client whose secret the harness sets (none / s1 / rotated to s2), over real TCP.
//
//	c15 gen    -seed S -n N -out DIR     directed cases + N random cases
//	c15 replay -in FILE -out DIR         the cases of a replay file ({"cases":[…]} or one case per line)
//	c15 probe  -bin HAGALL -out DIR      the real server binary behind a fake discovery service
//
// DIR/cases.jsonl   the recipes (replayable)
// DIR/oracle.in     facts (computed with the standard library only) + one R line per request, for the Coq oracle
// DIR/results.jsonl one line per (case, endpoint): HTTP status, inner handler entered, property predicate
package main

import (
	"bufio"
	"encoding/json"
	"flag"
	"fmt"
	"os"
	"path/filepath"
	"strings"

	"github.com/aukilabs/go-tooling/pkg/logs"
)

func fatal(a ...any) {
	fmt.Fprintln(os.Stderr, a...)
	os.Exit(2)
}

func readCases(path string) []Case {
	b, err := os.ReadFile(path)
	if err != nil {
		fatal(err)
	}
	var wrap struct {
		Cases []Case `json:"cases"`
	}
	if err := json.Unmarshal(b, &wrap); err == nil && len(wrap.Cases) > 0 {
		return wrap.Cases
	}
	var cs []Case
	for _, line := range strings.Split(string(b), "\n") {
		line = strings.TrimSpace(line)
		if line == "" || strings.HasPrefix(line, "#") {
			continue
		}
		var c Case
		if err := json.Unmarshal([]byte(line), &c); err != nil {
			fatal("bad case line:", err)
		}
		cs = append(cs, c)
	}
	return cs
}

func main() {
	logs.SetLogger(func(e logs.Entry) {})
	if len(os.Args) < 2 {
		fatal("usage: c15 gen|replay|probe …")
	}
	fs := flag.NewFlagSet(os.Args[1], flag.ExitOnError)
	seed := fs.Uint64("seed", 1, "seed")
	n := fs.Int("n", 500, "number of random cases")
	in := fs.String("in", "", "replay file")
	out := fs.String("out", ".", "output directory")
	bin := fs.String("bin", "", "hagall server binary (probe)")
	fs.Parse(os.Args[2:])
	os.MkdirAll(*out, 0o755)

	sec := Secrets{
		S1:    fmt.Sprintf("c2VjcmV0LW9uZS0%d", *seed),
		S2:    fmt.Sprintf("c2VjcmV0LXR3by0%d", *seed*31+7),
		Other: "bm90LXRoZS1zZWNyZXQ",
	}
	var cs []Case
	switch os.Args[1] {
	case "gen":
		cs = generate(*seed, *n)
	case "replay":
		cs = readCases(*in)
	case "probe":
		os.Exit(probe(*bin, *out, sec))
	default:
		fatal("usage: c15 gen|replay|probe …")
	}

	create := func(name string) (*os.File, *bufio.Writer) {
		f, err := os.Create(filepath.Join(*out, name))
		if err != nil {
			fatal(err)
		}
		return f, bufio.NewWriterSize(f, 1<<20)
	}
	fc, wc := create("cases.jsonl")
	fo, wo := create("oracle.in")
	fr, wr := create("results.jsonl")
	enc := json.NewEncoder(wc)
	for _, c := range cs {
		enc.Encode(c)
	}
	wc.Flush()
	fc.Close()

	srv, err := newServer()
	if err != nil {
		fatal(err)
	}
	r := &runner{srv: srv, sec: sec, facts: &factSet{seen: map[string]bool{}, w: wo}, cases: wo, res: json.NewEncoder(wr)}
	for _, c := range cs {
		r.run(c)
	}
	wo.Flush()
	fo.Close()
	wr.Flush()
	fr.Close()
	fmt.Printf("cases=%d requests=%d\n", len(cs), 2*len(cs))
}

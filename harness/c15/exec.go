package main

import (
	"bufio"
	"context"
	"encoding/json"
	"fmt"
	"io"
	"net"
	"net/http"
	"net/url"
	"strconv"
	"strings"
	"sync"
	"time"

	hds "github.com/aukilabs/hagall-common/hdsclient"
	hagallhttp "github.com/aukilabs/hagall/http"
	"github.com/golang-jwt/jwt/v4"
	"golang.org/x/net/websocket"
)

// what net/http presented to the code under test (recorded in front of the wrappers)
type Observed struct {
	Auth   *string `json:"auth"`
	Query  *string `json:"query"`
	Cookie *string `json:"cookie"`
}

type Server struct {
	ln      net.Listener
	srv     *http.Server
	client  *hds.Client
	mu      sync.Mutex
	seen    map[string]*Observed
	entered map[string]int
}

const caseHeader = "X-Verif-Case"

func newServer() (*Server, error) {
	s := &Server{seen: map[string]*Observed{}, entered: map[string]int{}}
	s.client = hds.NewClient() // the real client; its secret is set through the public SetServerData
	ctx := context.Background()

	mark := func(r *http.Request) {
		s.mu.Lock()
		s.entered[r.Header.Get(caseHeader)]++
		s.mu.Unlock()
	}
	var mux http.ServeMux
	// the relay endpoint as cmd/main.go mounts it, with a harness-owned Handler
	mux.Handle("/ws", hagallhttp.HandleWithCORS(websocket.Server{
		Handshake: hagallhttp.VerifyAuthToken(ctx, s.client),
		Handler: func(conn *websocket.Conn) {
			mark(conn.Request())
			conn.Close()
		},
	}))
	// the smoke-test endpoint as cmd/main.go mounts it, with a harness-owned next
	mux.HandleFunc("/mw", hagallhttp.VerifyAuthTokenHandler(s.client, func(w http.ResponseWriter, r *http.Request) {
		mark(r)
		w.WriteHeader(http.StatusOK)
		io.WriteString(w, "inner")
	}))

	rec := http.HandlerFunc(func(w http.ResponseWriter, r *http.Request) {
		o := &Observed{}
		if vs := r.Header.Values("Authorization"); len(vs) > 0 {
			v := vs[0]
			o.Auth = &v
		}
		if vs, ok := r.URL.Query()["access_token"]; ok && len(vs) > 0 {
			v := vs[0]
			o.Query = &v
		}
		if c, err := r.Cookie("access_token"); err == nil {
			v := c.Value
			o.Cookie = &v
		}
		s.mu.Lock()
		s.seen[r.Header.Get(caseHeader)] = o
		s.mu.Unlock()
		mux.ServeHTTP(w, r)
	})

	ln, err := net.Listen("tcp", "127.0.0.1:0")
	if err != nil {
		return nil, err
	}
	s.ln = ln
	s.srv = &http.Server{Handler: rec}
	go s.srv.Serve(ln)
	return s, nil
}

func (s *Server) take(rid string) (*Observed, int) {
	s.mu.Lock()
	defer s.mu.Unlock()
	o, e := s.seen[rid], s.entered[rid]
	delete(s.seen, rid)
	delete(s.entered, rid)
	return o, e
}

func clean(v string) bool { return !strings.ContainsAny(v, "\r\n\x00") }

// one raw HTTP/1.1 exchange; returns the status code (0: no parsable answer)
func (s *Server) send(ep, rid string, hdr, query, cookie *string) (int, error) {
	conn, err := net.DialTimeout("tcp", s.ln.Addr().String(), 5*time.Second)
	if err != nil {
		return 0, err
	}
	defer conn.Close()
	conn.SetDeadline(time.Now().Add(10 * time.Second))
	var b strings.Builder
	path := "/" + ep
	if query != nil {
		path += "?access_token=" + url.QueryEscape(*query)
	}
	if ep == "ws" {
		b.WriteString("GET " + path + " HTTP/1.1\r\nHost: verif.local\r\nUpgrade: websocket\r\nConnection: Upgrade\r\n" +
			"Sec-WebSocket-Key: dGhlIHNhbXBsZSBub25jZQ==\r\nSec-WebSocket-Version: 13\r\n")
	} else {
		b.WriteString("POST " + path + " HTTP/1.1\r\nHost: verif.local\r\nConnection: close\r\nContent-Length: 0\r\n")
	}
	b.WriteString(caseHeader + ": " + rid + "\r\n")
	if hdr != nil {
		b.WriteString("Authorization: " + *hdr + "\r\n")
	}
	if cookie != nil {
		b.WriteString("Cookie: theme=dark; access_token=" + *cookie + "\r\n")
	}
	b.WriteString("\r\n")
	if _, err := io.WriteString(conn, b.String()); err != nil {
		return 0, err
	}
	br := bufio.NewReader(conn)
	line, err := br.ReadString('\n')
	if err != nil && line == "" {
		return 0, err
	}
	code := 0
	if f := strings.Fields(line); len(f) >= 2 {
		code, _ = strconv.Atoi(f[1])
	}
	// wait for the server to finish with this connection: after a 101 the harness-owned Handler
	// closes it, after anything else the server closes it
	io.Copy(io.Discard, br)
	return code, nil
}

type Result struct {
	RID        string    `json:"rid"`
	ID         int       `json:"id"`
	Ep         string    `json:"ep"`
	Label      string    `json:"label"`
	State      int       `json:"state"`
	Status     int       `json:"status"`
	Entered    bool      `json:"entered"`
	EnteredN   int       `json:"entered_n"`
	Delivered  bool      `json:"delivered"`
	Sent       Observed  `json:"sent"`
	Obs        *Observed `json:"obs"`
	AnyValid   bool      `json:"any_valid"`
	PViol      string    `json:"pviol"`
	Clock      bool      `json:"clock"`
	NCarriers  int       `json:"ncarriers"`
	Error      string    `json:"error,omitempty"`
	Unsendable bool      `json:"unsendable,omitempty"`
}

type runner struct {
	srv   *Server
	sec   Secrets
	facts *factSet
	cases io.Writer // oracle input
	res   *json.Encoder
}

func candidates(o *Observed) []string {
	var c []string
	if o == nil {
		return c
	}
	if o.Auth != nil {
		c = append(c, *o.Auth)
		if strings.HasPrefix(*o.Auth, "Bearer ") {
			c = append(c, strings.TrimPrefix(*o.Auth, "Bearer "))
		}
	}
	if o.Query != nil {
		c = append(c, *o.Query)
	}
	if o.Cookie != nil {
		c = append(c, *o.Cookie)
	}
	return c
}

// the tokens a request carries, for the property predicate (any carrier, scheme stripped)
func carried(o *Observed) []string {
	var c []string
	if o == nil {
		return c
	}
	if o.Auth != nil && strings.HasPrefix(*o.Auth, "Bearer ") {
		c = append(c, strings.TrimPrefix(*o.Auth, "Bearer "))
	}
	if o.Query != nil {
		c = append(c, *o.Query)
	}
	if o.Cookie != nil {
		c = append(c, *o.Cookie)
	}
	return c
}

func opt(p *string) string {
	if p == nil {
		return "-"
	}
	return hx(*p)
}

func (r *runner) run(c Case) {
	base := time.Now().Unix()
	secret := r.sec.of(c.State)
	switch c.State {
	case 0:
		r.srv.client.SetServerData("", "")
	case 1:
		r.srv.client.SetServerData("server-1", r.sec.S1)
	case 2: // rotation: registered with s1, then re-registered with s2
		r.srv.client.SetServerData("server-1", r.sec.S1)
		r.srv.client.SetServerData("server-1", r.sec.S2)
	}
	var sent Observed
	n := 0
	if c.Hdr != nil {
		scheme := "Bearer "
		if c.Hdr.Scheme != nil {
			scheme = *c.Hdr.Scheme
		}
		v := scheme + c.Hdr.Tok.materialise(r.sec, c.State, base)
		sent.Auth = &v
		n++
	}
	if c.Query != nil {
		v := c.Query.Tok.materialise(r.sec, c.State, base)
		sent.Query = &v
		n++
	}
	if c.Cookie != nil {
		v := c.Cookie.Tok.materialise(r.sec, c.State, base)
		sent.Cookie = &v
		n++
	}
	unsendable := (sent.Auth != nil && !clean(*sent.Auth)) || (sent.Cookie != nil && !clean(*sent.Cookie))
	for _, ep := range []string{"ws", "mw"} {
		rid := fmt.Sprintf("%d%s", c.ID, ep[:1])
		res := Result{RID: rid, ID: c.ID, Ep: ep, Label: c.Label, State: c.State, Sent: sent, NCarriers: n, Clock: c.ClockNs != nil}
		if unsendable {
			res.Unsendable = true
			r.res.Encode(res)
			continue
		}
		if c.ClockNs != nil {
			fake := time.Unix(base, 0).Add(time.Duration(*c.ClockNs))
			jwt.TimeFunc = func() time.Time { return fake }
		}
		t0 := time.Now().Unix()
		code, err := r.srv.send(ep, rid, sent.Auth, sent.Query, sent.Cookie)
		t1 := time.Now().Unix()
		jwt.TimeFunc = time.Now
		if err != nil {
			res.Error = err.Error()
		}
		obs, ent := r.srv.take(rid)
		res.Status, res.Entered, res.EnteredN, res.Obs, res.Delivered = code, ent > 0, ent, obs, obs != nil
		n1lo, n1hi := t0, t1
		if c.ClockNs != nil {
			f := time.Unix(base, 0).Add(time.Duration(*c.ClockNs)).Unix() // floor: Unix() of a time is its whole second
			n1lo, n1hi = f, f
		}
		view := obs
		if view == nil {
			view = &sent
		}
		// facts + request line for the oracle (only for requests that reached the code under test)
		if obs != nil {
			for _, t := range candidates(obs) {
				r.facts.token(t, secret)
			}
			fmt.Fprintf(r.cases, "R %s %s %d %d %d %d %s %s %s\n", rid, hx(secret), n1lo, n1hi, t0, t1, opt(obs.Auth), opt(obs.Query), opt(obs.Cookie))
		}
		// the property predicate on the implementation's own outcome
		for _, t := range carried(view) {
			if refValid(t, secret, n1lo, n1hi, t0, t1) {
				res.AnyValid = true
			}
		}
		admittedLike := res.Entered || code == 101 || (code >= 200 && code < 300)
		switch {
		case admittedLike && !res.AnyValid:
			res.PViol = "admitted-without-valid-token"
		case !admittedLike && code != 401 && code != 403 && obs != nil:
			// not a violation of the property (the handler was not entered), reported as a difference by the comparison
		}
		r.res.Encode(res)
	}
}

package main

import (
	"fmt"
	"math/rand"
)

func sp(s string) *string { return &s }
func ip(n int64) *int64   { return &n }

var headerVariants = []struct{ name, json, sigalg string }{
	{"HS256", `{"alg":"HS256","typ":"JWT"}`, "HS256"},
	{"HS384", `{"alg":"HS384","typ":"JWT"}`, "HS384"},
	{"HS512", `{"alg":"HS512","typ":"JWT"}`, "HS512"},
	{"HS256-sig512", `{"alg":"HS256","typ":"JWT"}`, "HS512"},
	{"HS512-sig256", `{"alg":"HS512","typ":"JWT"}`, "HS256"},
	{"none-emptysig", `{"alg":"none","typ":"JWT"}`, "empty"},
	{"none-signed", `{"alg":"none","typ":"JWT"}`, "HS256"},
	{"None", `{"alg":"None","typ":"JWT"}`, "empty"},
	{"NONE", `{"alg":"NONE"}`, "empty"},
	{"nOnE-signed", `{"alg":"nOnE"}`, "HS256"},
	{"RS256", `{"alg":"RS256","typ":"JWT"}`, "HS256"},
	{"RS256-emptysig", `{"alg":"RS256","typ":"JWT"}`, "empty"},
	{"ES256", `{"alg":"ES256","typ":"JWT"}`, "HS256"},
	{"PS256", `{"alg":"PS256"}`, "HS256"},
	{"EdDSA", `{"alg":"EdDSA"}`, "HS256"},
	{"alg-missing", `{"typ":"JWT"}`, "HS256"},
	{"alg-unknown", `{"alg":"HS999","typ":"JWT"}`, "HS256"},
	{"alg-number", `{"alg":256}`, "HS256"},
	{"alg-null", `{"alg":null}`, "HS256"},
	{"alg-lower", `{"alg":"hs256"}`, "HS256"},
	{"alg-upperkey", `{"ALG":"HS256"}`, "HS256"},
	{"alg-empty", `{"alg":""}`, "HS256"},
	{"alg-dup-last-none", `{"alg":"HS256","alg":"none"}`, "HS256"},
	{"alg-dup-last-hs", `{"alg":"none","alg":"HS256"}`, "HS256"},
	{"hdr-null", `null`, "HS256"},
	{"hdr-array", `["alg","HS256"]`, "HS256"},
	{"hdr-notjson", `{alg:HS256`, "HS256"},
	{"hdr-trailing", `{"alg":"HS256"}x`, "HS256"},
	{"hdr-spaces", ` {"alg" : "HS256"} `, "HS256"},
	{"hdr-extra", `{"alg":"HS256","kid":"1","x":{"y":[1,2]}}`, "HS256"},
}

var payloadVariants = []struct{ name, json string }{
	{"exp+3600", `{"iss":"HDS","exp":${now+3600},"iat":${now-2},"jti":"j","app_key":"k"}`},
	{"empty-object", `{}`},
	{"null", `null`},
	{"array", `[]`},
	{"string", `"str"`},
	{"number", `12`},
	{"broken", `{"exp":`},
	{"empty", ``},
	{"trailing-garbage", `{"exp":${now+3600}}trailing`},
	{"two-values", `{"exp":${now+3600}} {"exp":1}`},
	{"exp-1", `{"exp":${now-1}}`},
	{"exp-3600", `{"exp":${now-3600}}`},
	{"exp-now", `{"exp":${now}}`},
	{"exp+1", `{"exp":${now+1}}`},
	{"exp+2", `{"exp":${now+2}}`},
	{"exp+30", `{"exp":${now+30}}`},
	{"exp-string", `{"exp":"abc"}`},
	{"exp-true", `{"exp":true}`},
	{"exp-object", `{"exp":{}}`},
	{"exp-array", `{"exp":[${now+3600}]}`},
	{"exp-numstring", `{"exp":"${now+3600}"}`},
	{"exp-numstring-past", `{"exp":"${now-5}"}`},
	{"exp-null", `{"exp":null}`},
	{"exp-frac", `{"exp":${now+3600}.75}`},
	{"exp-frac-now", `{"exp":${now}.999}`},
	{"exp-1e3", `{"exp":1e3}`},
	{"exp-negative", `{"exp":-5}`},
	{"exp-zero", `{"exp":0}`},
	{"exp-upperkey-past", `{"EXP":${now-10}}`},
	{"exp-dup-last-past", `{"exp":${now+3600},"exp":${now-10}}`},
	{"exp-dup-last-future", `{"exp":${now-10},"exp":${now+3600}}`},
	{"nbf+60", `{"exp":${now+3600},"nbf":${now+60}}`},
	{"nbf-now", `{"exp":${now+3600},"nbf":${now}}`},
	{"nbf-60", `{"exp":${now+3600},"nbf":${now-60}}`},
	{"nbf+1", `{"exp":${now+3600},"nbf":${now+1}}`},
	{"nbf+2", `{"exp":${now+3600},"nbf":${now+2}}`},
	{"nbf-string", `{"nbf":"x"}`},
	{"iat+5", `{"exp":${now+3600},"iat":${now+5}}`},
	{"iat+8", `{"exp":${now+3600},"iat":${now+8}}`},
	{"iat+9", `{"exp":${now+3600},"iat":${now+9}}`},
	{"iat+10", `{"exp":${now+3600},"iat":${now+10}}`},
	{"iat+11", `{"exp":${now+3600},"iat":${now+11}}`},
	{"iat+12", `{"exp":${now+3600},"iat":${now+12}}`},
	{"iat+15", `{"exp":${now+3600},"iat":${now+15}}`},
	{"iat+3600", `{"exp":${now+7200},"iat":${now+3600}}`},
	{"iat-now", `{"exp":${now+3600},"iat":${now}}`},
	{"iat-3600", `{"exp":${now+3600},"iat":${now-3600}}`},
	{"iat+5-only", `{"iat":${now+5}}`},
	{"iat+5-exp-past", `{"exp":${now-5},"iat":${now+5}}`},
	{"iat+5-nbf+5", `{"exp":${now+3600},"iat":${now+5},"nbf":${now+5}}`},
	{"iat+5-nbf-5", `{"exp":${now+3600},"iat":${now+5},"nbf":${now-5}}`},
	{"iat-string", `{"iat":"abc"}`},
	{"iat-frac+5", `{"iat":${now+5}.5}`},
	{"iss-number", `{"iss":5,"exp":${now+3600}}`},
	{"iss-null", `{"iss":null,"exp":${now+3600}}`},
	{"aud-string", `{"aud":"x","exp":${now+3600}}`},
	{"aud-list", `{"aud":["a","b"],"exp":${now+3600}}`},
	{"aud-badlist", `{"aud":[1],"exp":${now+3600}}`},
	{"aud-number", `{"aud":5,"exp":${now+3600}}`},
	{"aud-null", `{"aud":null}`},
	{"appkey-number", `{"app_key":1,"exp":${now+3600}}`},
	{"jti-null", `{"jti":null,"exp":${now+3600}}`},
	{"sub-object", `{"sub":{},"exp":${now+3600}}`},
	{"unknown-fields", `{"foo":{"bar":[1,2,3]},"exp":${now+3600},"admin":true}`},
}

var sigVariants = []struct{ name, alg, key string }{
	{"sig-cur", "HS256", "cur"},
	{"sig-empty", "empty", "cur"},
	{"sig-junk", "junk", "cur"},
	{"sig-other-secret", "HS256", "other"},
	{"sig-empty-secret", "HS256", "empty"},
	{"sig-s1", "HS256", "s1"},
	{"sig-s2", "HS256", "s2"},
}

var segMutations = []struct {
	name string
	m    Mut
}{
	{"trunc1", Mut{Op: "trunc", N: 1}}, {"trunc2", Mut{Op: "trunc", N: 2}}, {"trunc3", Mut{Op: "trunc", N: 3}},
	{"trunc-all", Mut{Op: "trunc", N: 100000}},
	{"flipchar-first", Mut{Op: "flipchar", N: 0}}, {"flipchar-mid", Mut{Op: "flipchar", N: 11}},
	{"flipchar-last", Mut{Op: "flipchar", N: -1}},
	{"flipbit0", Mut{Op: "flipbit", N: 0}}, {"flipbit77", Mut{Op: "flipbit", N: 77}}, {"flipbit-last", Mut{Op: "flipbit", N: -1}},
	{"pad", Mut{Op: "pad"}}, {"std", Mut{Op: "std"}}, {"upper", Mut{Op: "upper"}},
	{"insert-eq", Mut{Op: "insert", N: 5, S: "="}}, {"insert-plus", Mut{Op: "insert", N: 5, S: "+"}},
	{"insert-A", Mut{Op: "insert", N: 7, S: "A"}},
}

var schemes = []string{"Bearer ", "Bearer Bearer ", "bearer ", "BEARER ", "Bearer", "Bearer  ", "Basic ", "", "Token ", "Bearer\t", "Bearer: "}

var rawTokens = []string{"", ".", "..", "...", "a", "a.b", "a.b.c", "a.b.c.d", "a.b.c.d.e", "e30.e30.", "e30.e30.e30",
	"eyJhbGciOiJub25lIn0.e30.", "eyJhbGciOiJIUzI1NiJ9.e30.", " ", "null", "Bearer", "%2E%2E"}

func validSpec() TokSpec { return TokSpec{Kind: "hand", SigAlg: "HS256", SigKey: "cur"} }
func invalidSpec() TokSpec {
	return TokSpec{Kind: "hand", SigAlg: "HS256", SigKey: "other"}
}

func one(where string, c *Carrier) (h, q, k *Carrier) {
	switch where {
	case "hdr":
		return c, nil, nil
	case "query":
		return nil, c, nil
	}
	return nil, nil, c
}

var wheres = []string{"hdr", "query", "cookie"}

// directed: every mutation class of the property's quantifier, each in every server state
func directed() []Case {
	var cs []Case
	add := func(label string, state int, h, q, k *Carrier) *Case {
		cs = append(cs, Case{Label: label, State: state, Hdr: h, Query: q, Cookie: k})
		return &cs[len(cs)-1]
	}
	for state := 0; state <= 2; state++ {
		// A. no token at all; each carrier alone with a valid token (hand-built and by the library)
		add("none", state, nil, nil, nil)
		for _, w := range wheres {
			h, q, k := one(w, &Carrier{Tok: validSpec()})
			add("valid-hand/"+w, state, h, q, k)
			h, q, k = one(w, &Carrier{Tok: TokSpec{Kind: "lib", SigKey: "cur", TTL: 3600}})
			add("valid-lib/"+w, state, h, q, k)
			h, q, k = one(w, &Carrier{Tok: TokSpec{Kind: "lib", SigKey: "cur", TTL: -60}})
			add("expired-lib/"+w, state, h, q, k)
			h, q, k = one(w, &Carrier{Tok: TokSpec{Kind: "lib", SigKey: "other", TTL: 3600}})
			add("othersecret-lib/"+w, state, h, q, k)
		}
		// B. algorithm / header variants
		for _, hv := range headerVariants {
			for _, w := range wheres {
				h, q, k := one(w, &Carrier{Tok: TokSpec{Kind: "hand", Header: hv.json, SigAlg: hv.sigalg, SigKey: "cur"}})
				add("alg/"+hv.name+"/"+w, state, h, q, k)
			}
		}
		// C. signature variants
		for _, sv := range sigVariants {
			for _, w := range wheres {
				h, q, k := one(w, &Carrier{Tok: TokSpec{Kind: "hand", SigAlg: sv.alg, SigKey: sv.key}})
				add("sig/"+sv.name+"/"+w, state, h, q, k)
			}
		}
		// D. claims, signed with the current secret, and unsigned
		for _, pv := range payloadVariants {
			w := wheres[len(cs)%3]
			h, q, k := one(w, &Carrier{Tok: TokSpec{Kind: "hand", Payload: pv.json, SigAlg: "HS256", SigKey: "cur"}})
			add("claims/"+pv.name+"/signed", state, h, q, k)
			h, q, k = one(w, &Carrier{Tok: TokSpec{Kind: "hand", Payload: pv.json, SigAlg: "HS256", SigKey: "other"}})
			add("claims/"+pv.name+"/othersecret", state, h, q, k)
		}
		// E. segment structure
		for _, rt := range rawTokens {
			for _, w := range wheres {
				h, q, k := one(w, &Carrier{Tok: TokSpec{Kind: "raw", Raw: rt}})
				add(fmt.Sprintf("raw/%q/%s", rt, w), state, h, q, k)
			}
		}
		structural := []struct {
			name string
			ms   []Mut
		}{
			{"addseg", []Mut{{Op: "addseg", S: "x"}}}, {"trailing-dot", []Mut{{Op: "suffix", S: "."}}},
			{"leading-dot", []Mut{{Op: "prefix", S: "."}}}, {"add2seg", []Mut{{Op: "addseg", S: "x"}, {Op: "addseg", S: "y"}}},
			{"dropseg0", []Mut{{Op: "dropseg", Seg: 0}}}, {"dropseg1", []Mut{{Op: "dropseg", Seg: 1}}}, {"dropseg2", []Mut{{Op: "dropseg", Seg: 2}}},
			{"drop2", []Mut{{Op: "dropseg", Seg: 2}, {Op: "dropseg", Seg: 1}}},
			{"swap01", []Mut{{Op: "swapseg", Seg: 0, N: 1}}}, {"swap12", []Mut{{Op: "swapseg", Seg: 1, N: 2}}},
			{"bearer-inside", []Mut{{Op: "prefix", S: "Bearer "}}}, {"bearer-inside-lower", []Mut{{Op: "prefix", S: "bearer "}}},
			{"space-prefix", []Mut{{Op: "prefix", S: " "}}}, {"space-suffix", []Mut{{Op: "suffix", S: " "}}},
			{"double", []Mut{{Op: "suffix", S: ","}, {Op: "suffix", S: "x"}}},
		}
		for _, st := range structural {
			for _, w := range wheres {
				t := validSpec()
				t.Muts = st.ms
				h, q, k := one(w, &Carrier{Tok: t})
				add("struct/"+st.name+"/"+w, state, h, q, k)
			}
		}
		// F. each segment truncated / bit-flipped / re-encoded
		for seg := 0; seg < 3; seg++ {
			for _, sm := range segMutations {
				m := sm.m
				m.Seg = seg
				t := validSpec()
				t.Muts = []Mut{m}
				w := wheres[(seg+len(cs))%3]
				h, q, k := one(w, &Carrier{Tok: t})
				add(fmt.Sprintf("seg%d/%s", seg, sm.name), state, h, q, k)
			}
			// newline / CR inside a segment: only the query string can carry it
			for _, ins := range []string{"\n", "\r\n", "\r", " ", "\t"} {
				t := validSpec()
				t.Muts = []Mut{{Op: "insert", Seg: seg, N: 9, S: ins}}
				add(fmt.Sprintf("seg%d/insert-%q", seg, ins), state, nil, &Carrier{Tok: t}, nil)
			}
		}
		// G. the "Bearer " prefix, alone and with a cookie behind it
		for _, sc := range schemes {
			s := sc
			add(fmt.Sprintf("scheme/%q/valid", sc), state, &Carrier{Scheme: &s, Tok: validSpec()}, nil, nil)
			add(fmt.Sprintf("scheme/%q/valid+cookie-valid", sc), state, &Carrier{Scheme: &s, Tok: validSpec()}, nil, &Carrier{Tok: validSpec()})
			add(fmt.Sprintf("scheme/%q/invalid+cookie-valid", sc), state, &Carrier{Scheme: &s, Tok: invalidSpec()}, nil, &Carrier{Tok: validSpec()})
			add(fmt.Sprintf("scheme/%q/valid+query-invalid", sc), state, &Carrier{Scheme: &s, Tok: validSpec()}, &Carrier{Tok: invalidSpec()}, nil)
			add(fmt.Sprintf("scheme/%q/empty+query-valid", sc), state, &Carrier{Scheme: &s, Tok: TokSpec{Kind: "raw"}}, &Carrier{Tok: validSpec()}, nil)
		}
		// H. all carriers alone, in pairs and triples, with valid / invalid / empty mixes
		kinds := []struct {
			n string
			t func() *Carrier
		}{
			{"-", func() *Carrier { return nil }},
			{"V", func() *Carrier { return &Carrier{Tok: validSpec()} }},
			{"I", func() *Carrier { return &Carrier{Tok: invalidSpec()} }},
			{"E", func() *Carrier { return &Carrier{Tok: TokSpec{Kind: "raw"}} }},
			{"X", func() *Carrier {
				return &Carrier{Tok: TokSpec{Kind: "hand", Payload: `{"exp":${now-30}}`, SigAlg: "HS256", SigKey: "cur"}}
			}},
		}
		for _, a := range kinds {
			for _, b := range kinds {
				for _, c := range kinds {
					add("combo/"+a.n+b.n+c.n, state, a.t(), b.t(), c.t())
				}
			}
		}
	}
	// J. golang-jwt's clock pinned (jwt.TimeFunc) to an exact instant; hagall-common's leeway still reads the real clock
	type ck struct {
		name, payload string
		ns            int64
	}
	const s = int64(1e9)
	for _, c := range []ck{
		{"exp-1ns-before", `{"exp":${now+100}}`, 100*s - 1},
		{"exp-exactly", `{"exp":${now+100}}`, 100 * s},
		{"exp-half-after", `{"exp":${now+100}}`, 100*s + s/2},
		{"nbf-exactly", `{"nbf":${now+100}}`, 100 * s},
		{"nbf-1ns-before", `{"nbf":${now+100}}`, 100*s - 1},
		{"iat-exactly", `{"iat":${now+100}}`, 100 * s},
		{"iat-1ns-before-far", `{"iat":${now+100}}`, 100*s - 1},
		{"iat-jwtclock-behind-leeway", `{"iat":${now+5}}`, -10 * s},
		{"iat-jwtclock-behind-past-iat", `{"iat":${now-50}}`, -100 * s},
		{"iat-jwtclock-behind-15", `{"iat":${now+15}}`, -10 * s},
		{"exp-really-past-jwtclock-behind", `{"exp":${now-10}}`, -20 * s},
		{"exp-really-future-jwtclock-ahead", `{"exp":${now+10}}`, 20 * s},
		{"exp-frac", `{"exp":${now+100}.9}`, 100*s + s/2},
		{"all-three-exact", `{"exp":${now+101},"nbf":${now+100},"iat":${now+100}}`, 100 * s},
	} {
		for _, key := range []string{"cur", "other"} {
			cs = append(cs, Case{Label: "clock/" + c.name + "/" + key, State: 1, ClockNs: ip(c.ns),
				Query: &Carrier{Tok: TokSpec{Kind: "hand", Payload: c.payload, SigAlg: "HS256", SigKey: key}}})
		}
	}
	return cs
}

// random: any carrier subset, any recipe with up to two further mutations, any state
func randomCase(r *rand.Rand) Case {
	tok := func(where string) *Carrier {
		var t TokSpec
		switch r.Intn(10) {
		case 0:
			t = TokSpec{Kind: "lib", SigKey: []string{"cur", "cur", "other", "s1", "s2"}[r.Intn(5)], TTL: []int{3600, 5, -5}[r.Intn(3)]}
		case 1:
			t = TokSpec{Kind: "raw", Raw: rawTokens[r.Intn(len(rawTokens))]}
		default:
			hv := headerVariants[0]
			if r.Intn(3) == 0 {
				hv = headerVariants[r.Intn(len(headerVariants))]
			}
			pv := payloadVariants[0]
			if r.Intn(2) == 0 {
				pv = payloadVariants[r.Intn(len(payloadVariants))]
			}
			sv := sigVariants[0]
			if r.Intn(3) == 0 {
				sv = sigVariants[r.Intn(len(sigVariants))]
			}
			alg := hv.sigalg
			if sv.alg != "HS256" {
				alg = sv.alg
			}
			t = TokSpec{Kind: "hand", Header: hv.json, Payload: pv.json, SigAlg: alg, SigKey: sv.key}
		}
		for n := r.Intn(6) - 3; n > 0; n-- {
			m := segMutations[r.Intn(len(segMutations))].m
			m.Seg = r.Intn(3)
			if m.N == -1 || m.Op == "flipbit" || m.Op == "flipchar" || m.Op == "insert" {
				m.N = r.Intn(400)
			}
			t.Muts = append(t.Muts, m)
		}
		if r.Intn(25) == 0 {
			t.Muts = append(t.Muts, Mut{Op: []string{"addseg", "dropseg", "prefix", "suffix"}[r.Intn(4)], Seg: r.Intn(3), S: []string{"x", ".", "Bearer ", "="}[r.Intn(4)]})
		}
		c := &Carrier{Tok: t}
		if where == "hdr" && r.Intn(6) == 0 {
			s := schemes[r.Intn(len(schemes))]
			c.Scheme = &s
		}
		return c
	}
	var c Case
	c.State = []int{0, 1, 1, 1, 2, 2}[r.Intn(6)]
	mask := r.Intn(8)
	if mask == 0 && r.Intn(4) != 0 {
		mask = 1 + r.Intn(7)
	}
	if mask&1 != 0 {
		c.Hdr = tok("hdr")
	}
	if mask&2 != 0 {
		c.Query = tok("query")
	}
	if mask&4 != 0 {
		c.Cookie = tok("cookie")
	}
	if c.State == 1 && r.Intn(12) == 0 {
		c.ClockNs = ip(int64(r.Intn(41)-20)*1e9 + int64(r.Intn(3)-1))
	}
	c.Label = fmt.Sprintf("random/%d", mask)
	return c
}

func generate(seed uint64, n int) []Case {
	cs := directed()
	r := rand.New(rand.NewSource(int64(seed)))
	for i := 0; i < n; i++ {
		cs = append(cs, randomCase(r))
	}
	for i := range cs {
		cs[i].ID = i
	}
	return cs
}

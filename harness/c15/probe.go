package main

// probe: the REAL server binary (cmd/main.go as it stands) behind a fake discovery service that
// plays the registration protocol (POST /servers from hagall, then POST /registrations to hagall
// with the secret).  It asks the two mounted routes of the property, "/" (relay, WebSocket upgrade)
// and "/smoke-test", with and without valid tokens, before and after the secret is issued.
//
// "/smoke-test" is POSTed a body that is not JSON: the protected handler answers 400 to it without
// starting anything, the wrapper answers 401 — so the status tells whether the handler was entered.

import (
	"bufio"
	"encoding/json"
	"fmt"
	"io"
	"net"
	"net/http"
	"net/url"
	"os"
	"os/exec"
	"path/filepath"
	"strconv"
	"strings"
	"sync"
	"syscall"
	"time"
)

type ProbeResult struct {
	Phase    string `json:"phase"` // unregistered | registered
	Route    string `json:"route"`
	Label    string `json:"label"`
	Status   int    `json:"status"`
	Valid    bool   `json:"valid"`    // carries a token that verifies against the server's current secret
	Admitted bool   `json:"admitted"` // 101 on "/", anything but 401/403/404/405 on "/smoke-test"
	PViol    string `json:"pviol"`
	Diff     string `json:"diff"` // differs from the model's answer without violating the property
	Request  string `json:"request"`
}

func freePort() int {
	l, err := net.Listen("tcp", "127.0.0.1:0")
	if err != nil {
		return 0
	}
	defer l.Close()
	return l.Addr().(*net.TCPAddr).Port
}

func rawExchange(addr, req string) (int, error) {
	conn, err := net.DialTimeout("tcp", addr, 3*time.Second)
	if err != nil {
		return 0, err
	}
	defer conn.Close()
	conn.SetDeadline(time.Now().Add(5 * time.Second))
	if _, err := io.WriteString(conn, req); err != nil {
		return 0, err
	}
	br := bufio.NewReader(conn)
	line, err := br.ReadString('\n')
	if err != nil && line == "" {
		return 0, err
	}
	code := 0
	if f := strings.Fields(line); len(f) >= 2 {
		code, _ = strconv.Atoi(f[1])
	}
	return code, nil
}

func probe(bin, out string, sec Secrets) int {
	if bin == "" {
		fmt.Fprintln(os.Stderr, "probe: -bin required")
		return 2
	}
	var mu sync.Mutex
	var regState string
	smokeResults := 0
	gotServers := make(chan struct{}, 8)
	fake := &http.Server{Handler: http.HandlerFunc(func(w http.ResponseWriter, r *http.Request) {
		body, _ := io.ReadAll(r.Body)
		switch {
		case r.URL.Path == "/servers" && r.Method == http.MethodPost:
			var in struct {
				State string `json:"state"`
			}
			json.Unmarshal(body, &in)
			mu.Lock()
			regState = in.State
			mu.Unlock()
			select {
			case gotServers <- struct{}{}:
			default:
			}
		case r.URL.Path == "/smoke-test-results":
			mu.Lock()
			smokeResults++
			mu.Unlock()
		}
		w.Header().Set("Content-Type", "application/json")
		w.WriteHeader(200)
		io.WriteString(w, "{}")
	})}
	fl, err := net.Listen("tcp", "127.0.0.1:0")
	if err != nil {
		fmt.Fprintln(os.Stderr, "probe:", err)
		return 2
	}
	go fake.Serve(fl)
	defer fake.Close()
	fakeURL := "http://" + fl.Addr().String()

	p1, p2 := freePort(), freePort()
	addr := fmt.Sprintf("127.0.0.1:%d", p1)
	logf, _ := os.Create(filepath.Join(out, "hagall.log"))
	defer logf.Close()
	cmd := exec.Command(bin)
	cmd.Env = append(os.Environ(),
		"HAGALL_ADDR="+addr,
		fmt.Sprintf("HAGALL_ADMIN_ADDR=127.0.0.1:%d", p2),
		"HAGALL_PUBLIC_ENDPOINT=http://"+addr,
		"HAGALL_PRIVATE_KEY=0x4c0883a69102937d6231471b5dbb6204fe5129617082792ae468d01a3f362318",
		"HAGALL_HDS_ENDPOINT="+fakeURL,
		"HAGALL_EVENTS_ENDPOINT="+fakeURL+"/events",
		"HAGALL_NCS_ENDPOINT="+fakeURL,
		"HAGALL_LOG_LEVEL=warning",
		"HAGALL_HDS_REGISTRATION_INTERVAL=2s",
		"HAGALL_CLOCK_CHECKER_INITIAL_DELAY=1h",
	)
	cmd.Stdout, cmd.Stderr = logf, logf
	if err := cmd.Start(); err != nil {
		fmt.Fprintln(os.Stderr, "probe: cannot start the server binary:", err)
		return 2
	}
	done := make(chan struct{})
	go func() { cmd.Wait(); close(done) }()
	defer func() {
		cmd.Process.Signal(syscall.SIGTERM)
		select {
		case <-done:
		case <-time.After(5 * time.Second):
			cmd.Process.Kill()
			<-done
		}
	}()
	// wait until it listens and has asked the discovery service to register it
	deadline := time.Now().Add(30 * time.Second)
	up := false
	for time.Now().Before(deadline) {
		select {
		case <-done:
			fmt.Fprintln(os.Stderr, "probe: the server binary exited early, see hagall.log")
			return 2
		default:
		}
		if c, err := net.DialTimeout("tcp", addr, 200*time.Millisecond); err == nil {
			c.Close()
			up = true
			break
		}
		time.Sleep(50 * time.Millisecond)
	}
	if !up {
		fmt.Fprintln(os.Stderr, "probe: the server binary does not listen")
		return 2
	}
	select {
	case <-gotServers:
	case <-time.After(20 * time.Second):
		fmt.Fprintln(os.Stderr, "probe: no registration request reached the fake discovery service")
		return 2
	}

	f, err := os.Create(filepath.Join(out, "probe.jsonl"))
	if err != nil {
		fmt.Fprintln(os.Stderr, "probe:", err)
		return 2
	}
	defer f.Close()
	enc := json.NewEncoder(f)

	type tokcase struct {
		label string
		spec  *TokSpec
		where string
	}
	toks := []tokcase{
		{"no-token", nil, ""},
		{"valid/hdr", &TokSpec{Kind: "hand", SigAlg: "HS256", SigKey: "s1"}, "hdr"},
		{"valid/query", &TokSpec{Kind: "hand", SigAlg: "HS256", SigKey: "s1"}, "query"},
		{"valid/cookie", &TokSpec{Kind: "hand", SigAlg: "HS256", SigKey: "s1"}, "cookie"},
		{"valid-lib/hdr", &TokSpec{Kind: "lib", SigKey: "s1", TTL: 600}, "hdr"},
		{"other-secret/hdr", &TokSpec{Kind: "hand", SigAlg: "HS256", SigKey: "other"}, "hdr"},
		{"other-secret/query", &TokSpec{Kind: "hand", SigAlg: "HS256", SigKey: "other"}, "query"},
		{"empty-secret/hdr", &TokSpec{Kind: "hand", SigAlg: "HS256", SigKey: "empty"}, "hdr"},
		{"empty-secret/cookie", &TokSpec{Kind: "hand", SigAlg: "HS256", SigKey: "empty"}, "cookie"},
		{"alg-none/hdr", &TokSpec{Kind: "hand", Header: `{"alg":"none"}`, SigAlg: "empty"}, "hdr"},
		{"alg-none/query", &TokSpec{Kind: "hand", Header: `{"alg":"none"}`, SigAlg: "empty"}, "query"},
		{"expired/hdr", &TokSpec{Kind: "hand", Payload: `{"exp":${now-30}}`, SigAlg: "HS256", SigKey: "s1"}, "hdr"},
		{"garbage/hdr", &TokSpec{Kind: "raw", Raw: "a.b.c"}, "hdr"},
		{"sig-truncated/cookie", &TokSpec{Kind: "hand", SigAlg: "HS256", SigKey: "s1", Muts: []Mut{{Op: "trunc", Seg: 2, N: 2}}}, "cookie"},
	}
	run := func(phase, secret string) {
		for _, tc := range toks {
			for _, route := range []string{"/", "/smoke-test"} {
				base := time.Now().Unix()
				tok := ""
				if tc.spec != nil {
					tok = tc.spec.materialise(sec, 1, base)
				}
				path := route
				var hl []string
				switch tc.where {
				case "hdr":
					hl = append(hl, "Authorization: Bearer "+tok)
				case "query":
					path += "?access_token=" + url.QueryEscape(tok)
				case "cookie":
					hl = append(hl, "Cookie: access_token="+tok)
				}
				var req string
				if route == "/" {
					req = "GET " + path + " HTTP/1.1\r\nHost: " + addr + "\r\nUpgrade: websocket\r\nConnection: Upgrade\r\n" +
						"Sec-WebSocket-Key: dGhlIHNhbXBsZSBub25jZQ==\r\nSec-WebSocket-Version: 13\r\n"
				} else {
					req = "POST " + path + " HTTP/1.1\r\nHost: " + addr + "\r\nConnection: close\r\nContent-Type: application/json\r\nContent-Length: 8\r\n"
				}
				for _, h := range hl {
					req += h + "\r\n"
				}
				req += "\r\n"
				if route != "/" {
					req += "not-json"
				}
				t0 := time.Now().Unix()
				code, err := rawExchange(addr, req)
				t1 := time.Now().Unix()
				pr := ProbeResult{Phase: phase, Route: route, Label: tc.label, Status: code, Request: strings.SplitN(req, "\r\n", 2)[0]}
				if err != nil {
					pr.Diff = "io: " + err.Error()
				}
				pr.Valid = tok != "" && refValid(tok, secret, t0, t1, t0, t1)
				if route == "/" {
					pr.Admitted = code == 101
				} else {
					pr.Admitted = code != 0 && code != 401 && code != 403 && code != 404 && code != 405
				}
				switch {
				case pr.Admitted && !pr.Valid:
					pr.PViol = "admitted-without-valid-token"
				case !pr.Admitted && pr.Valid:
					pr.Diff = "valid token not admitted"
				case !pr.Admitted && ((route == "/" && code != 403) || (route != "/" && code != 401)):
					pr.Diff = fmt.Sprintf("rejected with status %d", code)
				case pr.Admitted && route != "/" && code != 400:
					pr.Diff = fmt.Sprintf("admitted, but the handler answered %d to a non-JSON body", code)
				}
				enc.Encode(pr)
			}
		}
	}
	run("unregistered", "")
	// the discovery service issues the secret
	mu.Lock()
	st := regState
	mu.Unlock()
	rq, _ := http.NewRequest(http.MethodPost, "http://"+addr+"/registrations", nil)
	rq.Header.Set("Hagall-Registration-State", st)
	rq.Header.Set("Hagall-Id", "verif-server")
	rq.Header.Set("Hagall-Jwt-Secret", sec.S1)
	resp, err := http.DefaultClient.Do(rq)
	if err != nil || resp.StatusCode != 200 {
		code := 0
		if resp != nil {
			code = resp.StatusCode
		}
		fmt.Fprintln(os.Stderr, "probe: registration callback refused:", err, code)
		return 2
	}
	resp.Body.Close()
	run("registered", sec.S1)
	mu.Lock()
	n := smokeResults
	mu.Unlock()
	fmt.Printf("probe done smoke_test_results_posted=%d\n", n)
	return 0
}

package main

import (
	"crypto/hmac"
	"crypto/sha256"
	"crypto/sha512"
	"encoding/base64"
	"fmt"
	"hash"
	"regexp"
	"strconv"
	"strings"
	"time"

	httpcmn "github.com/aukilabs/hagall-common/http"
)

// A case is a recipe, not a string: claim times are relative to the second in which the case is
// materialised, so that a replay file stays meaningful later.

type Mut struct {
	Op  string `json:"op"`            // trunc flipchar flipbit pad std prefix suffix addseg dropseg insert swapseg upper
	Seg int    `json:"seg,omitempty"` // segment index (split on '.')
	N   int    `json:"n,omitempty"`
	S   string `json:"s,omitempty"`
}

type TokSpec struct {
	Kind    string `json:"kind"`              // hand | lib | raw
	Raw     string `json:"raw,omitempty"`     // kind raw: the literal token
	Header  string `json:"header,omitempty"`  // kind hand: header JSON text
	Payload string `json:"payload,omitempty"` // kind hand: payload JSON text, ${now+N} / ${now-N} / ${now} placeholders
	SigAlg  string `json:"sigalg,omitempty"`  // HS256 | HS384 | HS512 | empty | junk
	SigKey  string `json:"sigkey,omitempty"`  // cur | s1 | s2 | empty | other
	TTL     int    `json:"ttl,omitempty"`     // kind lib: seconds
	Muts    []Mut  `json:"muts,omitempty"`
}

type Carrier struct {
	Scheme *string `json:"scheme,omitempty"` // header only: what precedes the token; default "Bearer "
	Tok    TokSpec `json:"tok"`
}

type Case struct {
	ID     int      `json:"id"`
	Label  string   `json:"label"`
	State  int      `json:"state"` // 0: no secret, 1: s1, 2: rotated to s2
	Hdr    *Carrier `json:"hdr,omitempty"`
	Query  *Carrier `json:"query,omitempty"`
	Cookie *Carrier `json:"cookie,omitempty"`
	// jwt.TimeFunc returns base second + ClockNs nanoseconds (nil: the real clock)
	ClockNs *int64 `json:"clock_ns,omitempty"`
}

type Secrets struct {
	S1, S2, Other string
}

func (s Secrets) of(state int) string {
	switch state {
	case 1:
		return s.S1
	case 2:
		return s.S2
	}
	return ""
}

func (s Secrets) key(name string, state int) string {
	switch name {
	case "s1":
		return s.S1
	case "s2":
		return s.S2
	case "empty":
		return ""
	case "other":
		return s.Other
	}
	if cur := s.of(state); cur != "" { // "cur"
		return cur
	}
	return s.S1 // no current secret: what the attacker may still hold is the previous one
}

var b64 = base64.RawURLEncoding

func hasher(alg string) func() hash.Hash {
	switch alg {
	case "HS384":
		return sha512.New384
	case "HS512":
		return sha512.New
	}
	return sha256.New
}

// independent of golang-jwt: crypto/hmac of the standard library
func macOf(alg, key, msg string) []byte {
	h := hmac.New(hasher(alg), []byte(key))
	h.Write([]byte(msg))
	return h.Sum(nil)
}

var placeholder = regexp.MustCompile(`\$\{now([+-]\d+)?\}`)

func expand(tpl string, base int64) string {
	return placeholder.ReplaceAllStringFunc(tpl, func(m string) string {
		sm := placeholder.FindStringSubmatch(m)
		off := int64(0)
		if sm[1] != "" {
			off, _ = strconv.ParseInt(sm[1], 10, 64)
		}
		return strconv.FormatInt(base+off, 10)
	})
}

const b64alphabet = "ABCDEFGHIJKLMNOPQRSTUVWXYZabcdefghijklmnopqrstuvwxyz0123456789-_"

func mutate(tok string, m Mut) string {
	segs := strings.Split(tok, ".")
	seg := func() (int, bool) {
		if len(segs) == 0 {
			return 0, false
		}
		i := m.Seg
		if i < 0 || i >= len(segs) {
			i = len(segs) - 1
		}
		return i, true
	}
	switch m.Op {
	case "prefix":
		return m.S + tok
	case "suffix":
		return tok + m.S
	case "addseg":
		return tok + "." + m.S
	case "dropseg":
		if i, ok := seg(); ok && len(segs) > 0 {
			segs = append(segs[:i:i], segs[i+1:]...)
		}
	case "swapseg":
		if len(segs) > 1 {
			a, b := m.Seg%len(segs), m.N%len(segs)
			segs[a], segs[b] = segs[b], segs[a]
		}
	case "trunc":
		if i, ok := seg(); ok {
			n := m.N
			if n < 1 {
				n = 1
			}
			if n > len(segs[i]) {
				n = len(segs[i])
			}
			segs[i] = segs[i][:len(segs[i])-n]
		}
	case "flipchar":
		if i, ok := seg(); ok && len(segs[i]) > 0 {
			p := len(segs[i]) - 1 // N < 0: the last character
			if m.N >= 0 {
				p = m.N % len(segs[i])
			}
			c := segs[i][p]
			k := strings.IndexByte(b64alphabet, c)
			nc := b64alphabet[(k+1+64)%64]
			if k < 0 {
				nc = 'A'
			}
			segs[i] = segs[i][:p] + string(nc) + segs[i][p+1:]
		}
	case "flipbit":
		if i, ok := seg(); ok {
			if raw, err := b64.DecodeString(segs[i]); err == nil && len(raw) > 0 {
				p := 8*len(raw) - 8 // N < 0: lowest bit of the last byte
				if m.N >= 0 {
					p = m.N % (8 * len(raw))
				}
				raw[p/8] ^= 1 << (p % 8)
				segs[i] = b64.EncodeToString(raw)
			}
		}
	case "pad":
		if i, ok := seg(); ok {
			if l := len(segs[i]) % 4; l > 0 {
				segs[i] += strings.Repeat("=", 4-l)
			} else {
				segs[i] += "===="
			}
		}
	case "std":
		if i, ok := seg(); ok {
			if raw, err := b64.DecodeString(segs[i]); err == nil {
				segs[i] = base64.StdEncoding.EncodeToString(raw)
			}
		}
	case "insert":
		if i, ok := seg(); ok {
			p := 0
			if len(segs[i]) > 0 && m.N >= 0 {
				p = m.N % (len(segs[i]) + 1)
			}
			segs[i] = segs[i][:p] + m.S + segs[i][p:]
		}
	case "upper":
		if i, ok := seg(); ok {
			segs[i] = strings.ToUpper(segs[i])
		}
	}
	return strings.Join(segs, ".")
}

// materialise builds the token string of a spec; base = the second the case is bound to
func (sp TokSpec) materialise(sec Secrets, state int, base int64) string {
	var tok string
	switch sp.Kind {
	case "raw":
		tok = sp.Raw
	case "lib":
		// the library's own generator (GenerateHagallUserAccessToken stamps iat/exp with time.Now)
		ttl := sp.TTL
		if ttl == 0 {
			ttl = 3600
		}
		t, err := httpcmn.GenerateHagallUserAccessToken("appkey", sec.key(sp.SigKey, state), time.Duration(ttl)*time.Second)
		if err != nil {
			t = "lib-error"
		}
		tok = t
	default: // hand
		hdr := sp.Header
		if hdr == "" {
			hdr = `{"alg":"HS256","typ":"JWT"}`
		}
		pl := sp.Payload
		if pl == "" {
			pl = `{"iss":"HDS","exp":${now+3600},"iat":${now-2},"jti":"j","app_key":"k"}`
		}
		si := b64.EncodeToString([]byte(hdr)) + "." + b64.EncodeToString([]byte(expand(pl, base)))
		switch sp.SigAlg {
		case "empty":
			tok = si + "."
		case "junk":
			tok = si + "." + b64.EncodeToString([]byte(fmt.Sprintf("junk-%d", len(si))))
		case "HS384", "HS512", "HS256":
			tok = si + "." + b64.EncodeToString(macOf(sp.SigAlg, sec.key(sp.SigKey, state), si))
		default:
			tok = si + "." + b64.EncodeToString(macOf("HS256", sec.key(sp.SigKey, state), si))
		}
	}
	for _, m := range sp.Muts {
		tok = mutate(tok, m)
	}
	return tok
}

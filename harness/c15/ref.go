package main

// The independent reference: facts about token strings computed with the Go standard library only
// (encoding/base64, encoding/json, crypto/hmac) — neither golang-jwt nor hagall-common is called here.
// The facts instantiate the four trusted functions of the Coq model in the oracle, and refValid is
// the property predicate's notion of "a token that verifies against the current secret".

import (
	"bytes"
	"crypto/hmac"
	"encoding/hex"
	"encoding/json"
	"fmt"
	"io"
	"math"
	"regexp"
	"strconv"
	"strings"
)

func hx(s string) string { return "x" + hex.EncodeToString([]byte(s)) }

// base64.RawURLEncoding.DecodeString — what jwt.DecodeSegment is with its two switches off
func refB64(seg string) (string, bool) {
	b, err := b64.DecodeString(seg)
	if err != nil {
		return "", false
	}
	return string(b), true
}

// header: a JSON object (or null) whose member "alg" (exact key) is a JSON string
// returns (json ok, alg present, alg)
func refHeader(b string) (bool, bool, string) {
	var m map[string]json.RawMessage
	if err := json.Unmarshal([]byte(b), &m); err != nil {
		return false, false, ""
	}
	raw, ok := m["alg"]
	if !ok || len(raw) == 0 || raw[0] != '"' {
		return true, false, ""
	}
	var s string
	if err := json.Unmarshal(raw, &s); err != nil {
		return true, false, ""
	}
	return true, true, s
}

type refClaims struct {
	Exp, Nbf, Iat *int64
}

type claimsJSON struct {
	Iss    json.RawMessage `json:"iss"`
	Sub    json.RawMessage `json:"sub"`
	Aud    json.RawMessage `json:"aud"`
	Exp    json.RawMessage `json:"exp"`
	Nbf    json.RawMessage `json:"nbf"`
	Iat    json.RawMessage `json:"iat"`
	Jti    json.RawMessage `json:"jti"`
	AppKey json.RawMessage `json:"app_key"`
}

var numberRe = regexp.MustCompile(`^-?(0|[1-9][0-9]*)(\.[0-9]+)?([eE][+-]?[0-9]+)?$`)

func isNull(r json.RawMessage) bool { return len(r) == 0 || string(r) == "null" }

func strOrNull(r json.RawMessage) bool {
	return isNull(r) || r[0] == '"'
}

// a NumericDate: a JSON number, or a JSON string that spells one; floored to whole seconds
func numDate(r json.RawMessage) (*int64, bool) {
	if isNull(r) {
		return nil, true
	}
	txt := string(r)
	if r[0] == '"' {
		var s string
		if err := json.Unmarshal(r, &s); err != nil {
			return nil, false
		}
		txt = s
	}
	if !numberRe.MatchString(txt) {
		return nil, false
	}
	f, err := strconv.ParseFloat(txt, 64)
	if err != nil || math.IsInf(f, 0) || math.IsNaN(f) || math.Abs(f) > 1e15 {
		return nil, false // outside the range the reference is stated for (generator stays inside)
	}
	v := int64(math.Floor(f))
	return &v, true
}

func audOK(r json.RawMessage) bool {
	if isNull(r) || r[0] == '"' {
		return true
	}
	if r[0] != '[' {
		return false
	}
	var xs []json.RawMessage
	if err := json.Unmarshal(r, &xs); err != nil {
		return false
	}
	for _, x := range xs {
		if len(x) == 0 || x[0] != '"' {
			return false
		}
	}
	return true
}

// payload: the first JSON value of the bytes, an object (or null) whose registered members have the
// right JSON types
func refClaimsOf(b string) (refClaims, bool) {
	dec := json.NewDecoder(bytes.NewReader([]byte(b)))
	var raw json.RawMessage
	if err := dec.Decode(&raw); err != nil {
		return refClaims{}, false
	}
	if string(raw) == "null" {
		return refClaims{}, true
	}
	if len(raw) == 0 || raw[0] != '{' {
		return refClaims{}, false
	}
	var cj claimsJSON
	if err := json.Unmarshal(raw, &cj); err != nil {
		return refClaims{}, false
	}
	if !strOrNull(cj.Iss) || !strOrNull(cj.Sub) || !strOrNull(cj.Jti) || !strOrNull(cj.AppKey) || !audOK(cj.Aud) {
		return refClaims{}, false
	}
	var c refClaims
	var ok bool
	if c.Exp, ok = numDate(cj.Exp); !ok {
		return refClaims{}, false
	}
	if c.Nbf, ok = numDate(cj.Nbf); !ok {
		return refClaims{}, false
	}
	if c.Iat, ok = numDate(cj.Iat); !ok {
		return refClaims{}, false
	}
	return c, true
}

func hmacAlg(alg string) bool { return alg == "HS256" || alg == "HS384" || alg == "HS512" }

// timeOK: not expired, not before, issued at most 10 s ahead
func timeOK(c refClaims, n1, n2 int64) bool {
	if c.Exp != nil && !(n1 < *c.Exp) {
		return false
	}
	if c.Nbf != nil && !(*c.Nbf <= n1) {
		return false
	}
	if c.Iat != nil && !(*c.Iat <= n1 || *c.Iat-n2 < 10) {
		return false
	}
	return true
}

// refValid: does tok verify against secret for SOME clock readings inside the brackets?
func refValid(tok, secret string, n1lo, n1hi, n2lo, n2hi int64) bool {
	if secret == "" {
		return false
	}
	segs := strings.Split(tok, ".")
	if len(segs) != 3 {
		return false
	}
	hb, ok := refB64(segs[0])
	if !ok {
		return false
	}
	jok, aok, alg := refHeader(hb)
	if !jok || !aok || !hmacAlg(alg) {
		return false
	}
	pb, ok := refB64(segs[1])
	if !ok {
		return false
	}
	c, ok := refClaimsOf(pb)
	if !ok {
		return false
	}
	sg, ok := refB64(segs[2])
	if !ok || !hmac.Equal([]byte(sg), macOf(alg, secret, segs[0]+"."+segs[1])) {
		return false
	}
	for _, n1 := range []int64{n1lo, n1hi} {
		for _, n2 := range []int64{n2lo, n2hi} {
			if timeOK(c, n1, n2) {
				return true
			}
		}
	}
	return false
}

// facts: the lines that instantiate b64dec / header_alg / claims_of / mac for one candidate token
type factSet struct {
	seen map[string]bool
	w    io.Writer
}

func (f *factSet) emit(line string) {
	if f.seen[line] {
		return
	}
	f.seen[line] = true
	fmt.Fprintln(f.w, line)
}

func cl(p *int64) string {
	if p == nil {
		return "-"
	}
	return strconv.FormatInt(*p, 10)
}

func (f *factSet) token(tok, secret string) {
	segs := strings.Split(tok, ".")
	if len(segs) > 8 {
		segs = segs[:8]
	}
	dec := make([]*string, len(segs))
	for i, s := range segs {
		if d, ok := refB64(s); ok {
			dd := d
			dec[i] = &dd
			f.emit("B " + hx(s) + " " + hx(d))
		} else {
			f.emit("B " + hx(s) + " -")
		}
	}
	if len(segs) >= 1 && dec[0] != nil {
		jok, aok, alg := refHeader(*dec[0])
		switch {
		case !jok:
			f.emit("H " + hx(*dec[0]) + " !")
		case !aok:
			f.emit("H " + hx(*dec[0]) + " -")
		default:
			f.emit("H " + hx(*dec[0]) + " " + hx(alg))
		}
	}
	if len(segs) >= 2 && dec[1] != nil {
		if c, ok := refClaimsOf(*dec[1]); ok {
			f.emit("K " + hx(*dec[1]) + " " + cl(c.Exp) + " " + cl(c.Nbf) + " " + cl(c.Iat))
		} else {
			f.emit("K " + hx(*dec[1]) + " !")
		}
	}
	if len(segs) >= 2 {
		msg := segs[0] + "." + segs[1]
		for _, a := range []struct{ n, alg string }{{"256", "HS256"}, {"384", "HS384"}, {"512", "HS512"}} {
			f.emit("M " + a.n + " " + hx(secret) + " " + hx(msg) + " " + hx(string(macOf(a.alg, secret, msg))))
		}
	}
}

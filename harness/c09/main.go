// c09: randomized real-thread executions of the REAL server code under the Go race detector, with a watchdog.
//
// An httptest server runs websocket.Handle with the production decorators
// HandlerWithMetrics(HandlerWithLogs(RealtimeHandler)) and the three modules exactly as cmd/main.go builds them
// (per connection), 2-16 real x/net/websocket client connections keep reading what they are sent and drive
// randomized workloads in shared sessions from one seeded PRNG.  Every connection keeps at most `batch`
// unanswered requests in flight (a ping round trip closes each batch) — the property's hypotheses "clients keep
// reading" and a bounded number of unprocessed requests.  A batch or the final round trip that does not complete
// within the deadline, or a Handle call that does not return after its client went away, is a wedge: all goroutine
// stacks are dumped.  Data races are reported by the runtime (GORACE log_path=...), parsed by checks/c09check.py.
//
// Build with -race.  Exit code: 0 finished, 3 wedge/deadlock, 2 internal error.
package main

import (
	"bytes"
	"context"
	"crypto/ecdsa"
	"encoding/json"
	"flag"
	"fmt"
	"net/http"
	"net/http/httptest"
	"os"
	"runtime/debug"
	"runtime/pprof"
	"sort"
	"strings"
	"sync"
	"sync/atomic"
	"time"

	"github.com/aukilabs/go-tooling/pkg/logs"
	httpcmn "github.com/aukilabs/hagall-common/http"
	"github.com/aukilabs/hagall-common/messages/dagazpb"
	"github.com/aukilabs/hagall-common/messages/hagallpb"
	"github.com/aukilabs/hagall-common/messages/odalpb"
	"github.com/aukilabs/hagall-common/messages/vikjapb"
	"github.com/aukilabs/hagall-common/ncsclient"
	hwebsocket "github.com/aukilabs/hagall-common/websocket"
	"github.com/aukilabs/hagall/featureflag"
	"github.com/aukilabs/hagall/models"
	"github.com/aukilabs/hagall/modules"
	"github.com/aukilabs/hagall/modules/dagaz"
	"github.com/aukilabs/hagall/modules/odal"
	"github.com/aukilabs/hagall/modules/vikja"
	hagallws "github.com/aukilabs/hagall/websocket"
	"github.com/ethereum/go-ethereum/crypto"
	"golang.org/x/net/websocket"
	"google.golang.org/protobuf/types/known/timestamppb"
)

// ------------------------------------------------------------------------------------------------ PRNG

type rng struct{ s uint64 }

func (r *rng) next() uint64 {
	r.s += 0x9e3779b97f4a7c15
	z := r.s
	z = (z ^ (z >> 30)) * 0xbf58476d1ce4e5b9
	z = (z ^ (z >> 27)) * 0x94d049bb133111eb
	return z ^ (z >> 31)
}
func (r *rng) n(k int) int {
	if k <= 0 {
		return 0
	}
	return int(r.next() % uint64(k))
}
func (r *rng) f(lo, hi float32) float32 { return lo + (hi-lo)*float32(r.next()%10000)/10000 }

// ------------------------------------------------------------------------------------------------ report

type report struct {
	Seed          uint64         `json:"seed"`
	Mode          string         `json:"mode"`
	Rounds        []roundReport  `json:"rounds"`
	Ops           map[string]int `json:"ops_by_kind"`
	Received      map[string]int `json:"received_by_type"`
	Requests      int            `json:"requests"`
	Barriers      int            `json:"barriers"`
	Reconnects    int            `json:"reconnects"`
	Connections   int            `json:"connections"`
	MaxConns      int            `json:"max_concurrent_connections"`
	Sessions      int            `json:"sessions_created"`
	LoadSeconds   float64        `json:"load_seconds"`
	Panics        int            `json:"server_panics"`
	PanicSamples  []string       `json:"panic_samples,omitempty"`
	Wedge         *wedge         `json:"wedge"`
	OrphanedState []string       `json:"orphaned_module_state,omitempty"`
	InitTrials    int            `json:"init_trials,omitempty"`
	InitOverlaps  int            `json:"init_overlaps,omitempty"`
}

type roundReport struct {
	Conns    int     `json:"conns"`
	Sessions int     `json:"sessions"`
	Seconds  float64 `json:"seconds"`
	Requests int     `json:"requests"`
}

type wedge struct {
	Reason     string `json:"reason"`
	Round      int    `json:"round"`
	Goroutines string `json:"goroutines"`
}

var (
	rep     = report{Ops: map[string]int{}, Received: map[string]int{}}
	repMu   sync.Mutex
	outPath string
	curRnd  int
)

func count(m map[string]int, k string) {
	repMu.Lock()
	m[k]++
	repMu.Unlock()
}

func writeReport() {
	repMu.Lock()
	defer repMu.Unlock()
	b, _ := json.MarshalIndent(&rep, "", " ")
	if outPath == "" {
		os.Stdout.Write(b)
		return
	}
	os.WriteFile(outPath, b, 0o644)
}

var wedgeOnce sync.Once

// a request did not complete: dump every goroutine (the concrete deadlock / wedge state) and stop
func wedged(reason string) {
	wedgeOnce.Do(func() {
		var buf bytes.Buffer
		pprof.Lookup("goroutine").WriteTo(&buf, 2)
		repMu.Lock()
		rep.Wedge = &wedge{Reason: reason, Round: curRnd, Goroutines: buf.String()}
		repMu.Unlock()
		writeReport()
		fmt.Println("WEDGE:", reason)
		os.Exit(3)
	})
	select {}
}

// ------------------------------------------------------------------------------------------------ server

type server struct {
	ts        *httptest.Server
	sessions  models.SessionStore
	active    int64
	total     int64
	maxActive int64
	key       *ecdsa.PrivateKey
	receipts  chan ncsclient.ReceiptPayload
	stopDrain chan struct{}

	mu   sync.Mutex
	mods map[string][]modules.Module // client id -> the connection's module values (for the init storm check)
}

// stands for the HDS client of cmd/main.go
type discovery struct{}

func (discovery) ServerID() string { return "ted" }

func newServer(frame, syncClock, summary time.Duration) *server {
	s := &server{sessions: models.SessionStore{DiscoveryService: discovery{}}, receipts: make(chan ncsclient.ReceiptPayload, 128), stopDrain: make(chan struct{}), mods: map[string][]modules.Module{}}
	k, err := crypto.GenerateKey()
	if err != nil {
		panic(err)
	}
	s.key = k
	go func() { // stands for receipt.ReceiptHandler: drains the channel
		for {
			select {
			case <-s.receipts:
			case <-s.stopDrain:
				return
			}
		}
	}()
	ctx := context.Background()
	s.ts = httptest.NewServer(websocket.Server{
		Handshake: func(*websocket.Config, *http.Request) error { return nil },
		// the body of cmd/main.go's handler closure
		Handler: func(conn *websocket.Conn) {
			defer conn.Close()
			n := atomic.AddInt64(&s.active, 1)
			atomic.AddInt64(&s.total, 1)
			for {
				m := atomic.LoadInt64(&s.maxActive)
				if n <= m || atomic.CompareAndSwapInt64(&s.maxActive, m, n) {
					break
				}
			}
			defer atomic.AddInt64(&s.active, -1)
			defer func() {
				if r := recover(); r != nil {
					repMu.Lock()
					rep.Panics++
					if len(rep.PanicSamples) < 5 {
						rep.PanicSamples = append(rep.PanicSamples, fmt.Sprint(r)+"\n"+string(debug.Stack()))
					}
					fmt.Fprintln(os.Stderr, "SERVER PANIC:", r, "\n"+string(debug.Stack()))
					repMu.Unlock()
				}
			}()
			mods := []modules.Module{&vikja.Module{}, &odal.Module{}, &dagaz.Module{}}
			if cid := conn.Request().Header.Get(httpcmn.HeaderPosemeshClientID); cid != "" {
				s.mu.Lock()
				s.mods[cid] = mods
				s.mu.Unlock()
			}
			var rh hagallws.Handler = &hagallws.RealtimeHandler{
				ClientSyncClockInterval: syncClock,
				ClientIdleTimeout:       time.Minute,
				FrameDuration:           frame,
				Sessions:                &s.sessions,
				Modules:                 mods,
				FeatureFlags:            featureflag.New(nil),
				ReceiptChan:             s.receipts,
				PrivateKey:              s.key,
			}
			h := hagallws.HandlerWithLogs(rh, summary)
			h = hagallws.HandlerWithMetrics(h, "http://c09.local")
			defer h.Close()

			hagallws.Handle(ctx, conn, h)
		},
	})
	return s
}

func (s *server) close(deadline time.Duration) {
	t0 := time.Now()
	for atomic.LoadInt64(&s.active) != 0 {
		if time.Since(t0) > deadline {
			wedged(fmt.Sprintf("%d websocket.Handle calls did not return %v after every client had disconnected", atomic.LoadInt64(&s.active), deadline))
		}
		time.Sleep(5 * time.Millisecond)
	}
	s.ts.Close()
	close(s.stopDrain)
}

// ------------------------------------------------------------------------------------------------ client

type pool struct {
	mu       sync.Mutex
	sessions []string
	created  int
}

func (p *pool) add(id string) {
	p.mu.Lock()
	for _, s := range p.sessions {
		if s == id {
			p.mu.Unlock()
			return
		}
	}
	p.sessions = append(p.sessions, id)
	p.created++
	p.mu.Unlock()
}
func (p *pool) pick(r *rng) string {
	p.mu.Lock()
	defer p.mu.Unlock()
	if len(p.sessions) == 0 {
		return ""
	}
	// prefer recent sessions: old ones die when their last member leaves
	k := len(p.sessions)
	lo := 0
	if k > 4 {
		lo = k - 4
	}
	return p.sessions[lo+r.n(k-lo)]
}

type client struct {
	id       int
	name     string
	url      string
	ws       *websocket.Conn
	wmu      sync.Mutex
	r        *rng
	pool     *pool
	deadline time.Duration

	mu        sync.Mutex
	joined    bool
	session   string
	pid       uint32
	own       []uint32 // entities this connection created in the current session
	seen      []uint32 // entities announced by others
	types     []uint32
	pids      []uint32
	pong      map[uint32]chan struct{}
	joinCh    chan string
	readerEnd chan struct{}
	rid       uint32
	requests  int
}

func (c *client) dial() error {
	cfg, err := websocket.NewConfig(c.url, "http://localhost/")
	if err != nil {
		return err
	}
	cfg.Header.Set(httpcmn.HeaderPosemeshClientID, c.name)
	ws, err := websocket.DialConfig(cfg)
	if err != nil {
		return err
	}
	c.mu.Lock()
	c.ws = ws
	c.joined, c.session, c.pid, c.own, c.seen, c.types, c.pids = false, "", 0, nil, nil, nil, nil
	c.pong = map[uint32]chan struct{}{}
	c.joinCh = make(chan string, 64)
	c.readerEnd = make(chan struct{})
	c.mu.Unlock()
	go c.reader(ws, c.readerEnd)
	return nil
}

func (c *client) send(pm hwebsocket.ProtoMsg) bool {
	msg, err := hwebsocket.MsgFromProto(pm)
	if err != nil {
		fmt.Println("INTERNAL: encode:", err)
		os.Exit(2)
	}
	c.wmu.Lock()
	_, err = hwebsocket.Send(c.ws, msg)
	c.wmu.Unlock()
	c.requests++
	return err == nil
}

var now = timestamppb.Now

// the client side keeps reading everything it is sent
func (c *client) reader(ws *websocket.Conn, end chan struct{}) {
	defer close(end)
	for {
		msg, _, err := hwebsocket.Receive(ws)
		if err != nil {
			return
		}
		n := int32(msg.Type.Number())
		switch {
		case n >= 300:
			count(rep.Received, dagazpb.MsgType(n).String())
		case n >= 200:
			count(rep.Received, odalpb.MsgType(n).String())
		case n >= 100:
			count(rep.Received, vikjapb.MsgType(n).String())
		default:
			count(rep.Received, hagallpb.MsgType(n).String())
		}
		switch msg.Type {
		case hagallpb.MsgType_MSG_TYPE_PING_RESPONSE:
			var r hagallpb.Response
			if msg.DataTo(&r) == nil {
				c.mu.Lock()
				ch := c.pong[r.RequestId]
				delete(c.pong, r.RequestId)
				c.mu.Unlock()
				if ch != nil {
					close(ch)
				}
			}
		case hagallpb.MsgType_MSG_TYPE_PING_REQUEST: // the server measures latency: answer
			var r hagallpb.Request
			if msg.DataTo(&r) == nil {
				m, _ := hwebsocket.MsgFromProto(&hagallpb.Response{Type: hagallpb.MsgType_MSG_TYPE_PING_RESPONSE, Timestamp: now(), RequestId: r.RequestId})
				c.wmu.Lock()
				hwebsocket.Send(ws, m)
				c.wmu.Unlock()
			}
		case hagallpb.MsgType_MSG_TYPE_PARTICIPANT_JOIN_RESPONSE:
			var r hagallpb.ParticipantJoinResponse
			if msg.DataTo(&r) == nil {
				c.mu.Lock()
				c.joined, c.session, c.pid = true, r.SessionId, r.ParticipantId
				c.own, c.seen, c.types, c.pids = nil, nil, nil, nil
				c.mu.Unlock()
				c.pool.add(r.SessionId)
				select {
				case c.joinCh <- r.SessionId:
				default:
				}
			}
		case hagallpb.MsgType_MSG_TYPE_SESSION_STATE:
			var r hagallpb.SessionState
			if msg.DataTo(&r) == nil {
				c.mu.Lock()
				for _, e := range r.Entities {
					c.seen = append(c.seen, e.Id)
				}
				for _, p := range r.Participants {
					c.pids = append(c.pids, p.Id)
				}
				for _, ec := range r.EntityComponents {
					c.types = append(c.types, ec.EntityComponentTypeId)
				}
				c.mu.Unlock()
			}
		case hagallpb.MsgType_MSG_TYPE_PARTICIPANT_JOIN_BROADCAST:
			var r hagallpb.ParticipantJoinBroadcast
			if msg.DataTo(&r) == nil {
				c.mu.Lock()
				c.pids = append(c.pids, r.ParticipantId)
				c.mu.Unlock()
			}
		case hagallpb.MsgType_MSG_TYPE_ENTITY_ADD_RESPONSE:
			var r hagallpb.EntityAddResponse
			if msg.DataTo(&r) == nil {
				c.mu.Lock()
				c.own = append(c.own, r.EntityId)
				c.mu.Unlock()
			}
		case hagallpb.MsgType_MSG_TYPE_ENTITY_ADD_BROADCAST:
			var r hagallpb.EntityAddBroadcast
			if msg.DataTo(&r) == nil && r.Entity != nil {
				c.mu.Lock()
				c.seen = append(c.seen, r.Entity.Id)
				c.mu.Unlock()
			}
		case hagallpb.MsgType_MSG_TYPE_ENTITY_COMPONENT_TYPE_ADD_RESPONSE:
			var r hagallpb.EntityComponentTypeAddResponse
			if msg.DataTo(&r) == nil {
				c.mu.Lock()
				c.types = append(c.types, r.EntityComponentTypeId)
				c.mu.Unlock()
			}
		}
	}
}

func (c *client) nextRid() uint32 { c.rid++; return c.rid | uint32(c.id+1)<<24 }

// ping round trip: everything sent before it has been consumed by the connection's main loop
func (c *client) barrier(what string) bool {
	rid := c.nextRid()
	ch := make(chan struct{})
	c.mu.Lock()
	c.pong[rid] = ch
	end := c.readerEnd
	c.mu.Unlock()
	if !c.send(&hagallpb.Request{Type: hagallpb.MsgType_MSG_TYPE_PING_REQUEST, Timestamp: now(), RequestId: rid}) {
		return false
	}
	repMu.Lock()
	rep.Barriers++
	repMu.Unlock()
	select {
	case <-ch:
		return true
	case <-end:
		return false // the server closed the connection (a refused request disconnects): not a wedge
	case <-time.After(c.deadline):
		wedged(fmt.Sprintf("connection %s: ping round trip (%s) not answered within %v although the client keeps reading", c.name, what, c.deadline))
		return false
	}
}

func pick(r *rng, xs []uint32, dflt uint32) uint32 {
	if len(xs) == 0 {
		return dflt
	}
	return xs[r.n(len(xs))]
}

var typeNames = []string{"color", "health", "label", "owner", "mesh", "anim"}
var actionNames = []string{"jump", "wave", "sit"}

// one randomly chosen request
func (c *client) step() bool {
	r := c.r
	c.mu.Lock()
	joined := c.joined
	own := append([]uint32(nil), c.own...)
	seen := append([]uint32(nil), c.seen...)
	types := append([]uint32(nil), c.types...)
	pids := append([]uint32(nil), c.pids...)
	c.mu.Unlock()
	anyEnt := func() uint32 {
		switch k := r.n(10); {
		case k < 6:
			return pick(r, own, 1)
		case k < 9:
			return pick(r, seen, 2)
		}
		return uint32(r.n(40))
	}
	anyType := func() uint32 {
		if r.n(10) < 8 {
			return pick(r, types, 1)
		}
		return uint32(1 + r.n(8))
	}
	if !joined {
		return c.join()
	}
	k := r.n(1000)
	op := ""
	ok := true
	switch {
	case k < 25:
		return c.join() // session switch
	case k < 150:
		op = "entity_add"
		m := &hagallpb.EntityAddRequest{Type: hagallpb.MsgType_MSG_TYPE_ENTITY_ADD_REQUEST, Timestamp: now(), RequestId: c.nextRid(), Persist: r.n(4) == 0}
		if r.n(5) != 0 {
			m.Pose = &hagallpb.Pose{Px: r.f(-5, 5), Py: r.f(0, 2), Pz: r.f(-5, 5), Rw: 1}
		}
		ok = c.send(m)
	case k < 200:
		op = "entity_delete"
		ok = c.send(&hagallpb.EntityDeleteRequest{Type: hagallpb.MsgType_MSG_TYPE_ENTITY_DELETE_REQUEST, Timestamp: now(), RequestId: c.nextRid(), EntityId: anyEnt()})
	case k < 400:
		op = "pose_update"
		ok = c.send(&hagallpb.EntityUpdatePose{Type: hagallpb.MsgType_MSG_TYPE_ENTITY_UPDATE_POSE, Timestamp: now(), EntityId: anyEnt(),
			Pose: &hagallpb.Pose{Px: r.f(-5, 5), Py: r.f(0, 2), Pz: r.f(-5, 5), Rw: 1}})
	case k < 440:
		op = "component_type_add"
		ok = c.send(&hagallpb.EntityComponentTypeAddRequest{Type: hagallpb.MsgType_MSG_TYPE_ENTITY_COMPONENT_TYPE_ADD_REQUEST, Timestamp: now(), RequestId: c.nextRid(),
			EntityComponentTypeName: typeNames[r.n(len(typeNames))]})
	case k < 455:
		op = "component_type_get"
		if r.n(2) == 0 {
			ok = c.send(&hagallpb.EntityComponentTypeGetNameRequest{Type: hagallpb.MsgType_MSG_TYPE_ENTITY_COMPONENT_TYPE_GET_NAME_REQUEST, Timestamp: now(), RequestId: c.nextRid(), EntityComponentTypeId: anyType()})
		} else {
			ok = c.send(&hagallpb.EntityComponentTypeGetIdRequest{Type: hagallpb.MsgType_MSG_TYPE_ENTITY_COMPONENT_TYPE_GET_ID_REQUEST, Timestamp: now(), RequestId: c.nextRid(), EntityComponentTypeName: typeNames[r.n(len(typeNames))]})
		}
	case k < 510:
		op = "component_add"
		ok = c.send(&hagallpb.EntityComponentAddRequest{Type: hagallpb.MsgType_MSG_TYPE_ENTITY_COMPONENT_ADD_REQUEST, Timestamp: now(), RequestId: c.nextRid(),
			EntityComponentTypeId: anyType(), EntityId: anyEnt(), Data: []byte{byte(r.n(256))}})
	case k < 610:
		op = "component_update"
		ok = c.send(&hagallpb.EntityComponentUpdate{Type: hagallpb.MsgType_MSG_TYPE_ENTITY_COMPONENT_UPDATE, Timestamp: now(),
			EntityComponentTypeId: anyType(), EntityId: anyEnt(), Data: []byte{byte(r.n(256)), byte(r.n(256))}})
	case k < 630:
		op = "component_delete"
		ok = c.send(&hagallpb.EntityComponentDeleteRequest{Type: hagallpb.MsgType_MSG_TYPE_ENTITY_COMPONENT_DELETE_REQUEST, Timestamp: now(), RequestId: c.nextRid(),
			EntityComponentTypeId: anyType(), EntityId: anyEnt()})
	case k < 650:
		op = "component_list"
		ok = c.send(&hagallpb.EntityComponentListRequest{Type: hagallpb.MsgType_MSG_TYPE_ENTITY_COMPONENT_LIST_REQUEST, Timestamp: now(), RequestId: c.nextRid(), EntityComponentTypeId: anyType()})
	case k < 700:
		op = "subscribe"
		ok = c.send(&hagallpb.EntityComponentTypeSubscribeRequest{Type: hagallpb.MsgType_MSG_TYPE_ENTITY_COMPONENT_TYPE_SUBSCRIBE_REQUEST, Timestamp: now(), RequestId: c.nextRid(), EntityComponentTypeId: anyType()})
	case k < 720:
		op = "unsubscribe"
		ok = c.send(&hagallpb.EntityComponentTypeUnsubscribeRequest{Type: hagallpb.MsgType_MSG_TYPE_ENTITY_COMPONENT_TYPE_UNSUBSCRIBE_REQUEST, Timestamp: now(), RequestId: c.nextRid(), EntityComponentTypeId: anyType()})
	case k < 780:
		op = "custom_message"
		m := &hagallpb.CustomMessage{Type: hagallpb.MsgType_MSG_TYPE_CUSTOM_MESSAGE, Timestamp: now(), Body: bytes.Repeat([]byte{byte(c.id)}, 1+r.n(64))}
		if r.n(2) == 0 {
			for i := 0; i < 1+r.n(3); i++ {
				m.ParticipantIds = append(m.ParticipantIds, pick(r, pids, 1))
			}
		}
		ok = c.send(m)
	case k < 830:
		op = "vikja_action"
		ok = c.send(&vikjapb.EntityActionRequest{Type: vikjapb.MsgType_MSG_TYPE_VIKJA_ENTITY_ACTION_REQUEST, Timestamp: now(), RequestId: c.nextRid(),
			EntityAction: &vikjapb.EntityAction{EntityId: anyEnt(), Name: actionNames[r.n(len(actionNames))], Timestamp: now(), Data: []byte{byte(r.n(256))}}})
	case k < 870:
		op = "odal_asset"
		ok = c.send(&odalpb.AssetInstanceAddRequest{Type: odalpb.MsgType_MSG_TYPE_ODAL_ASSET_INSTANCE_ADD_REQUEST, Timestamp: now(), RequestId: c.nextRid(),
			EntityId: anyEnt(), AssetId: fmt.Sprintf("asset-%d", r.n(5))})
	case k < 920:
		op = "dagaz_sample"
		m := &dagazpb.DagazQuadSample{Type: dagazpb.MsgType_MSG_TYPE_DAGAZ_QUAD_SAMPLE, Timestamp: now()}
		for i := 0; i < 1+r.n(3); i++ {
			m.Samples = append(m.Samples, &dagazpb.Quad{
				Center:  &dagazpb.Point{X: r.f(-12, 12), Y: float32(r.n(3)), Z: r.f(-12, 12)},
				Extents: &dagazpb.Point{X: r.f(0.2, 2), Y: 0, Z: r.f(0.2, 2)}})
		}
		ok = c.send(m)
	case k < 945:
		op = "dagaz_ground"
		x, z := r.f(-12, 12), r.f(-12, 12)
		ok = c.send(&dagazpb.DagazGetGroundPlaneRequest{Type: dagazpb.MsgType_MSG_TYPE_DAGAZ_GET_GROUND_PLANE_REQUEST, Timestamp: now(), RequestId: c.nextRid(),
			Ray: &dagazpb.Ray{From: &dagazpb.Point{X: x, Y: 5, Z: z}, To: &dagazpb.Point{X: x, Y: -5, Z: z}}})
	case k < 965:
		op = "dagaz_region"
		// (a region whose max corner lies below the grid's min corner makes GetRegion index out of range — a
		// sequential defect outside this property; the generated regions always reach the non-negative quadrant)
		x, z := r.f(-12, 8), r.f(-12, 8)
		x1, z1 := x+r.f(1, 6), z+r.f(1, 6)
		if x1 < 0.5 {
			x1 = 0.5
		}
		if z1 < 0.5 {
			z1 = 0.5
		}
		ok = c.send(&dagazpb.DagazGetRegionRequest{Type: dagazpb.MsgType_MSG_TYPE_DAGAZ_GET_REGION_REQUEST, Timestamp: now(), RequestId: c.nextRid(),
			Min: &dagazpb.Point{X: x, Y: -1, Z: z}, Max: &dagazpb.Point{X: x1, Y: 4, Z: z1}})
	case k < 975:
		op = "dagaz_debug"
		ok = c.send(&dagazpb.DagazGetDebugInfoRequest{Type: dagazpb.MsgType_MSG_TYPE_DAGAZ_GET_DEBUG_INFO_REQUEST, Timestamp: now(), RequestId: c.nextRid()})
	case k < 985:
		op = "signed_latency"
		ok = c.send(&hagallpb.SignedLatencyRequest{Type: hagallpb.MsgType_MSG_TYPE_SIGNED_LATENCY_REQUEST, Timestamp: now(), RequestId: c.nextRid(),
			IterationCount: uint32(3 + r.n(3)), WalletAddress: "0x00000000000000000000000000000000000000c9"})
	case k < 992:
		op = "receipt"
		ok = c.send(&hagallpb.ReceiptRequest{Type: hagallpb.MsgType_MSG_TYPE_RECEIPT_REQUEST, Timestamp: now(), RequestId: c.nextRid(),
			Receipt: "r", Hash: []byte{1}, Signature: []byte{2}})
	default:
		op = "disconnect"
		count(rep.Ops, op)
		c.ws.Close()
		<-c.readerEnd
		repMu.Lock()
		rep.Reconnects++
		repMu.Unlock()
		return c.dial() == nil
	}
	count(rep.Ops, op)
	return ok
}

func (c *client) join() bool {
	r := c.r
	sid := ""
	switch k := r.n(10); {
	case k < 7:
		sid = c.pool.pick(r)
	case k < 8:
		sid = "tedxdeadbeef" // never existed
	}
	if sid == "" {
		count(rep.Ops, "join_new")
	} else {
		count(rep.Ops, "join_existing")
	}
	c.mu.Lock()
	was := c.joined
	c.joined = false
	jc := c.joinCh
	c.mu.Unlock()
	if was {
		// session switch: let the pose/component updates still pending in the connection's scheduler be flushed
		// (two frames) and consumed first.  Relayed after a refused switch they would each be a refused request,
		// and a burst of more than 8 refused requests can wedge the main loop on its own disconnect channel — a
		// sequential defect (blocking send in handler.disconnect) that belongs to property C08, not to this one.
		c.barrier("before switch")
		time.Sleep(3 * frameDuration)
		c.barrier("before switch, after two frames")
	}
	for len(jc) > 0 {
		<-jc
	}
	if !c.send(&hagallpb.ParticipantJoinRequest{Type: hagallpb.MsgType_MSG_TYPE_PARTICIPANT_JOIN_REQUEST, Timestamp: now(), RequestId: c.nextRid(), SessionId: sid}) {
		return false
	}
	// the answer (join response or error) precedes the answer to the ping
	return c.barrier("after join")
}

func (c *client) run(stop <-chan struct{}, batch int) {
	inFlight := 0
	for {
		select {
		case <-stop:
			c.finish()
			return
		default:
		}
		if !c.step() {
			// the connection is gone (the server disconnects a connection whose request it refuses): reconnect
			c.ws.Close()
			<-c.readerEnd
			repMu.Lock()
			rep.Reconnects++
			repMu.Unlock()
			if err := c.dial(); err != nil {
				fmt.Println("INTERNAL: dial:", err)
				os.Exit(2)
			}
			inFlight = 0
			continue
		}
		inFlight++
		if inFlight >= batch {
			c.barrier("end of batch")
			inFlight = 0
		}
	}
}

func (c *client) finish() {
	c.barrier("final")
	c.ws.Close()
	<-c.readerEnd
	repMu.Lock()
	rep.Requests += c.requests
	repMu.Unlock()
}

// ------------------------------------------------------------------------------------------------ load rounds

const frameDuration = 4 * time.Millisecond

func loadRound(seed uint64, round, conns, nsess int, dur, deadline time.Duration, batch int) {
	curRnd = round
	s := newServer(frameDuration, 25*time.Millisecond, 10*time.Millisecond)
	p := &pool{}
	url := "ws" + strings.TrimPrefix(s.ts.URL, "http") + "/"
	stop := make(chan struct{})
	var wg sync.WaitGroup
	var cs []*client
	for i := 0; i < conns; i++ {
		c := &client{id: i, name: fmt.Sprintf("r%dc%d", round, i), url: url, pool: p, deadline: deadline,
			r: &rng{s: seed*1000003 + uint64(round)*7919 + uint64(i)*104729}}
		if err := c.dial(); err != nil {
			fmt.Println("INTERNAL: dial:", err)
			os.Exit(2)
		}
		cs = append(cs, c)
	}
	t0 := time.Now()
	for _, c := range cs {
		wg.Add(1)
		go func(c *client) { defer wg.Done(); c.run(stop, batch) }(c)
	}
	time.Sleep(dur)
	close(stop)
	done := make(chan struct{})
	go func() { wg.Wait(); close(done) }()
	select {
	case <-done:
	case <-time.After(2*deadline + 5*time.Second):
		wedged("the clients' final round trips did not all complete")
	}
	el := time.Since(t0).Seconds()
	s.close(deadline)
	reqs := 0
	for _, c := range cs {
		reqs += c.requests
	}
	repMu.Lock()
	rep.Rounds = append(rep.Rounds, roundReport{Conns: conns, Sessions: p.created, Seconds: el, Requests: reqs})
	rep.LoadSeconds += el
	rep.Connections += int(atomic.LoadInt64(&s.total))
	if int(s.maxActive) > rep.MaxConns {
		rep.MaxConns = int(s.maxActive)
	}
	rep.Sessions += p.created
	repMu.Unlock()
	_ = nsess
}

func main() {
	seed := flag.Uint64("seed", 1, "PRNG seed")
	seconds := flag.Float64("seconds", 20, "seconds of load in total")
	rounds := flag.Int("rounds", 4, "number of rounds (fresh server each, 2-16 connections)")
	maxConns := flag.Int("maxconns", 16, "upper bound of concurrent connections")
	batch := flag.Int("batch", 24, "requests in flight per connection before a ping round trip")
	deadline := flag.Float64("deadline", 20, "watchdog: seconds a round trip may take")
	mode := flag.String("mode", "load", "load | initstorm")
	trials := flag.Int("trials", 300, "initstorm: number of fresh sessions")
	flag.StringVar(&outPath, "out", "", "report file (JSON)")
	flag.Parse()
	logs.SetLevel(logs.ErrorLevel)
	logs.SetLogger(func(logs.Entry) {})
	rep.Seed, rep.Mode = *seed, *mode
	dl := time.Duration(*deadline * float64(time.Second))
	switch *mode {
	case "load":
		r := &rng{s: *seed}
		for i := 0; i < *rounds; i++ {
			conns := 2 + r.n(*maxConns-1)
			if i == 0 {
				conns = 6
			}
			if i == 1 {
				conns = *maxConns
			}
			loadRound(*seed, i, conns, 0, time.Duration(*seconds/float64(*rounds)*float64(time.Second)), dl, *batch)
		}
	case "initstorm":
		initStorm(*seed, *trials, dl)
	default:
		fmt.Println("INTERNAL: unknown mode")
		os.Exit(2)
	}
	writeReport()
	dumpLockOrder()
	keys := make([]string, 0, len(rep.Ops))
	for k := range rep.Ops {
		keys = append(keys, k)
	}
	sort.Strings(keys)
	fmt.Printf("c09: mode=%s seed=%d rounds=%d requests=%d connections=%d (max %d at once) sessions=%d load=%.1fs barriers=%d reconnects=%d panics=%d orphaned=%d\n",
		*mode, *seed, len(rep.Rounds), rep.Requests, rep.Connections, rep.MaxConns, rep.Sessions, rep.LoadSeconds, rep.Barriers, rep.Reconnects, rep.Panics, len(rep.OrphanedState))
}

package main

// initstorm: a directed scenario for the modules' Init (check-then-set on the session's module state).
// One connection creates a session while others keep asking to join the (predictable) id it is about to get;
// at quiescence every member's module must be bound to the State registered in the session.

import (
	"fmt"
	"os"
	"strings"
	"sync/atomic"
	"time"

	"github.com/aukilabs/hagall-common/messages/hagallpb"
	"github.com/aukilabs/hagall/modules"
)

type statePtr interface{ VerifStatePtr() any }

func initStorm(seed uint64, trials int, deadline time.Duration) {
	s := newServer(time.Hour, time.Hour, time.Hour)
	url := "ws" + strings.TrimPrefix(s.ts.URL, "http") + "/"
	const joiners = 3
	t0 := time.Now()
	for t := 0; t < trials; t++ {
		p := &pool{}
		var cs []*client
		for i := 0; i <= joiners; i++ {
			c := &client{id: i, name: fmt.Sprintf("t%dc%d", t, i), url: url, pool: p, deadline: deadline, r: &rng{s: seed + uint64(t*31+i)}}
			if err := c.dial(); err != nil {
				fmt.Println("INTERNAL: dial:", err)
				os.Exit(2)
			}
			cs = append(cs, c)
		}
		// every session of the previous trial is gone, so the store reissues the same id
		want := s.sessions.GlobalSessionID(1)
		if t > 0 {
			if _, ok := s.sessions.GetByGlobalID(want); ok {
				want = "" // ids moved on: fall back to joining after the response
			}
		}
		done := make(chan string, joiners)
		for _, b := range cs[1:] {
			go func(b *client) {
				for n := 0; n < 4000; n++ {
					b.send(&hagallpb.ParticipantJoinRequest{Type: hagallpb.MsgType_MSG_TYPE_PARTICIPANT_JOIN_REQUEST, Timestamp: now(), RequestId: b.nextRid(), SessionId: want})
					if n%8 == 7 {
						b.barrier("storm")
					}
					select {
					case sid := <-b.joinCh:
						b.barrier("storm joined")
						done <- sid
						return
					default:
					}
				}
				done <- ""
			}(b)
		}
		time.Sleep(time.Duration(200+cs[0].r.n(400)) * time.Microsecond)
		a := cs[0]
		a.send(&hagallpb.ParticipantJoinRequest{Type: hagallpb.MsgType_MSG_TYPE_PARTICIPANT_JOIN_REQUEST, Timestamp: now(), RequestId: a.nextRid()})
		a.barrier("creator joined")
		a.mu.Lock()
		sid := a.session
		a.mu.Unlock()
		same := 0
		for range cs[1:] {
			if got := <-done; got == sid && got != "" {
				same++
			}
		}
		repMu.Lock()
		rep.InitTrials++
		if same > 0 {
			rep.InitOverlaps++
		}
		repMu.Unlock()
		// quiescent: compare each member's module state with the one registered in the session
		if sess, ok := s.sessions.GetByGlobalID(sid); ok {
			for _, c := range cs {
				c.mu.Lock()
				in := c.joined && c.session == sid
				c.mu.Unlock()
				if !in {
					continue
				}
				s.mu.Lock()
				mods := s.mods[c.name]
				s.mu.Unlock()
				for _, m := range mods {
					reg, _ := sess.ModuleState(m.Name())
					if sp, ok := m.(statePtr); ok && sp.VerifStatePtr() != reg {
						repMu.Lock()
						if len(rep.OrphanedState) < 20 {
							rep.OrphanedState = append(rep.OrphanedState, fmt.Sprintf("trial %d session %s: connection %s module %s is bound to a State that is not the session's registered one", t, sid, c.name, m.Name()))
						}
						repMu.Unlock()
					}
				}
			}
		}
		for _, c := range cs {
			c.ws.Close()
			<-c.readerEnd
			rep.Requests += c.requests
		}
		w0 := time.Now()
		for atomic.LoadInt64(&s.active) != 0 {
			if time.Since(w0) > deadline {
				wedged("Handle did not return after the clients of an init-storm trial disconnected")
			}
			time.Sleep(200 * time.Microsecond)
		}
		s.mu.Lock()
		s.mods = map[string][]modules.Module{}
		s.mu.Unlock()
		if len(rep.OrphanedState) >= 3 {
			break
		}
	}
	rep.LoadSeconds = time.Since(t0).Seconds()
	rep.Connections = int(atomic.LoadInt64(&s.total))
	s.close(deadline)
}

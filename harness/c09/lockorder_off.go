//go:build !lockorder

package main

func dumpLockOrder() {}

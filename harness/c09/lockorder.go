//go:build lockorder

package main

// Built only against the instrumented sources (tools/instrument): the scheduler package then observes every lock
// acquisition and release of the real code and records the lock-order pairs (site of a lock held, site of the lock
// acquired while holding it). They are written to $VERIF_EDGES for the cross-validation of C09's static table.

import (
	"os"
	"strings"

	"github.com/aukilabs/hagall/verifsched"
)

func dumpLockOrder() {
	if p := os.Getenv("VERIF_EDGES"); p != "" {
		os.WriteFile(p, []byte(strings.Join(verifsched.Edges(), "\n")+"\n"), 0644)
	}
}

#!/bin/sh
# (re)creates go.mod/go.sum of the harness module from /repo's current go.mod
set -e
cd "$(dirname "$0")"
REPO=${VERIF_REPO:-/repo}
sed -e 's#^module .*#module verifharness#' "$REPO/go.mod" > go.mod
cat >> go.mod <<EOT

require github.com/aukilabs/hagall v0.0.0
replace github.com/aukilabs/hagall => $REPO
EOT
cp "$REPO/go.sum" go.sum

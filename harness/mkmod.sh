#!/bin/sh
# (re)creates go.mod/go.sum of the harness module from the repository's current go.mod
set -e
cd "$(dirname "$0")"
REPO=${VERIF_REPO:-/repo}
tmp=$(mktemp go.mod.XXXXXX.tmp)
sed -e 's#^module .*#module verifharness#' "$REPO/go.mod" > "$tmp"
cat >> "$tmp" <<EOT

require github.com/aukilabs/hagall v0.0.0
replace github.com/aukilabs/hagall => $REPO
EOT
if cmp -s "$tmp" go.mod; then rm -f "$tmp"; else mv "$tmp" go.mod; fi
cmp -s "$REPO/go.sum" go.sum || cp "$REPO/go.sum" go.sum

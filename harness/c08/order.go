//go:build verif

package main

import (
	"encoding/binary"
	"encoding/json"
	"fmt"
	"os"
	"time"

	"github.com/aukilabs/hagall-common/messages/hagallpb"
	"golang.org/x/net/websocket"
	"google.golang.org/protobuf/proto"
)

// l2order: the ORDER clause of C02 at the wire level, under back-pressure.  Two members of one session behind the
// production handler stack; B stops reading (small receive buffer) while A relays n numbered custom messages, so that
// B's send queue (512), the socket buffers and A's own scheduler queue fill up; then B reads everything.  Every relay
// must arrive exactly once and in the order A sent it.  Prints one JSON object.
func l2Order(args []string) int {
	n, pad, pause := 3000, 10000, 1200*time.Millisecond
	res := map[string]any{"script": "order_under_backlog", "sent": 0, "received": 0, "ok": false, "note": ""}
	fail := func(s string) int {
		res["note"] = s
		b, _ := json.Marshal(res)
		fmt.Println(string(b))
		return 0
	}
	s := newL2Server()
	defer s.ts.Close()
	a, err := s.dial("", 0)
	if err != nil {
		return fail("setup: " + err.Error())
	}
	a.startReading()
	sid, _, err := a.join("")
	if err != nil {
		return fail("setup: " + err.Error())
	}
	b, err := s.dial("", 0)
	if err != nil {
		return fail("setup: " + err.Error())
	}
	b.send(&hagallpb.ParticipantJoinRequest{Type: hagallpb.MsgType_MSG_TYPE_PARTICIPANT_JOIN_REQUEST, Timestamp: now(), RequestId: nextRid(), SessionId: sid})
	b.tcp.SetReadDeadline(time.Now().Add(3 * time.Second))
	joined := false
	for !joined {
		var raw []byte
		if err := websocket.Message.Receive(b.ws, &raw); err != nil {
			return fail("setup: B's join: " + err.Error())
		}
		var m hagallpb.ParticipantJoinResponse
		if proto.Unmarshal(raw, &m) == nil && m.Type == hagallpb.MsgType_MSG_TYPE_PARTICIPANT_JOIN_RESPONSE {
			joined = true
		}
	}
	b.tcp.SetReadDeadline(time.Time{})
	// A relays; its writes block once the server stops reading it (back-pressure), so this runs in a goroutine
	sent := make(chan int, 1)
	go func() {
		k := 0
		for ; k < n; k++ {
			body := make([]byte, 8+pad)
			binary.BigEndian.PutUint64(body, uint64(k))
			a.tcp.SetWriteDeadline(time.Now().Add(20 * time.Second))
			if a.send(&hagallpb.CustomMessage{Type: hagallpb.MsgType_MSG_TYPE_CUSTOM_MESSAGE, Timestamp: now(), Body: body}) != nil {
				break
			}
		}
		sent <- k
	}()
	time.Sleep(pause) // B is not reading
	var got []uint64
	deadline := time.Now().Add(25 * time.Second)
	nsent := -1
	t0, lastLog := time.Now(), time.Now()
	idle := 0
	for time.Now().Before(deadline) {
		if nsent < 0 {
			select {
			case nsent = <-sent:
			default:
			}
		}
		if nsent >= 0 && len(got) >= nsent {
			break
		}
		b.tcp.SetReadDeadline(time.Now().Add(1500 * time.Millisecond))
		var raw []byte
		if err := websocket.Message.Receive(b.ws, &raw); err != nil {
			if ne, ok := err.(interface{ Timeout() bool }); ok && ne.Timeout() {
				idle++
				if nsent >= 0 && idle >= 3 {
					res["last_error"] = "nothing arrived for 4.5 s"
					break
				}
				continue
			}
			res["last_error"] = err.Error()
			break
		}
		idle = 0
		if os.Getenv("VERIF_DEBUG_ORDER") != "" && time.Since(lastLog) > time.Second {
			lastLog = time.Now()
			fmt.Fprintf(os.Stderr, "t=%v got=%d nsent=%d\n", time.Since(t0).Round(time.Millisecond), len(got), nsent)
		}
		var m hagallpb.CustomMessageBroadcast
		if proto.Unmarshal(raw, &m) == nil && m.Type == hagallpb.MsgType_MSG_TYPE_CUSTOM_MESSAGE_BROADCAST && len(m.Body) >= 8 {
			got = append(got, binary.BigEndian.Uint64(m.Body))
		}
	}
	if nsent < 0 {
		select {
		case nsent = <-sent:
		case <-time.After(2 * time.Second):
		}
	}
	res["sent"], res["received"] = nsent, len(got)
	for i, v := range got {
		if v != uint64(i) {
			res["first_out_of_order_position"] = i
			res["value_there"] = v
			return fail(fmt.Sprintf("relay %d arrived at position %d: relays of one sender reached a member out of order (or duplicated / lost)", v, i))
		}
	}
	if nsent < 0 || len(got) != nsent {
		return fail(fmt.Sprintf("B received %d of the %d relays", len(got), nsent))
	}
	res["ok"] = true
	bb, _ := json.Marshal(res)
	fmt.Println(string(bb))
	a.tcp.Close()
	b.tcp.Close()
	_ = os.Stdout
	return 0
}

package main

// L1 totality sweep: the finite structural space of requests.
//
// A case = (context, optional grid pre-state, one request, follow-up requests).  The request is
// built as a protobuf struct, marshalled, and turned into the hwebsocket.Msg the wire path would
// produce (hagallpb.Msg envelope: Type is a hagallpb.MsgType whatever module the message
// belongs to, body = the original bytes).  Enumeration is deterministic: a case is named by its
// index and by a readable name; a replay file carries the name.

import (
	"fmt"
	"math"
	"strings"

	"github.com/aukilabs/hagall-common/messages/dagazpb"
	"github.com/aukilabs/hagall-common/messages/hagallpb"
	"github.com/aukilabs/hagall-common/messages/odalpb"
	"github.com/aukilabs/hagall-common/messages/vikjapb"
	hwebsocket "github.com/aukilabs/hagall-common/websocket"
	"google.golang.org/protobuf/encoding/protowire"
	"google.golang.org/protobuf/proto"
	"google.golang.org/protobuf/types/known/timestamppb"
)

// contexts
const (
	CtxUnjoined = iota // connection open, no session
	CtxJoined          // joined alone, owns nothing
	CtxOwn             // joined, owns entity 1 (non persistent) with a component of type 1, subscribed; a peer B owns entity 2
	CtxForeign         // joined, owns nothing; peer B owns entity 1 and persistent entity 2, type 1 registered
	nCtx
)

var ctxNames = []string{"unjoined", "joined", "own", "foreign"}

// grid pre-states for dagaz cases
const (
	GridFresh    = iota
	GridTwoQuads // two benign quads inserted first: the grid has been expanded and holds planes
)

type Case struct {
	Idx     int
	Name    string
	Ctx     int
	Grid    int
	Module  string // "core", "vikja", "odal", "dagaz", "raw"
	Kind    string
	Bytes   []byte   // the request, wire bytes (filled by Materialise)
	Follow  [][]byte // follow-up requests sent on the same connection afterwards (filled by Materialise)
	NFollow int
	req     proto.Message
	follow  []proto.Message
	Hostile bool // non finite / huge magnitude numbers inside: expected to be refused, must not panic or exhaust memory
}

var stamp = &timestamppb.Timestamp{Seconds: 1700000000, Nanos: 1}

func asWire(b []byte) (hwebsocket.Msg, error) {
	var m hagallpb.Msg
	if err := proto.Unmarshal(b, &m); err != nil {
		return hwebsocket.Msg{}, err
	}
	return hwebsocket.MsgFromProto(&m)
}

func mustMarshal(m proto.Message) []byte {
	b, err := proto.Marshal(m)
	if err != nil {
		panic(err)
	}
	return b
}

func f32(bits uint32) float32 { return math.Float32frombits(bits) }

type fval struct {
	name    string
	v       float32
	hostile bool
}

var fvals = []fval{
	{"0", 0, false}, {"1", 1, false}, {"-1", -1, false}, {"64", 64, false}, {"-64", -64, false},
	{"denorm", f32(1), false}, {"1e4", 1e4, true}, {"1e8", 1e8, true}, {"-1e8", -1e8, true},
	{"1e30", 1e30, true}, {"-1e30", -1e30, true},
	{"+inf", float32(math.Inf(1)), true}, {"-inf", float32(math.Inf(-1)), true}, {"nan", float32(math.NaN()), true},
}

var u32vals = []uint32{0, 1, 2, 3, 99, 0xFFFFFFFF}

var hugeStr = strings.Repeat("x", 1<<20)

var strvals = []struct {
	name string
	v    string
}{{"empty", ""}, {"a", "a"}, {"huge", hugeStr}}

type gen struct {
	cases []Case
}

func (g *gen) add(ctx, grid int, module, kind, variant string, req proto.Message, hostile bool, follow ...proto.Message) {
	c := Case{Idx: len(g.cases), Ctx: ctx, Grid: grid, Module: module, Kind: kind, req: req, follow: follow, NFollow: len(follow), Hostile: hostile}
	c.Name = fmt.Sprintf("%s/%s/%s/%s", ctxNames[ctx], module, kind, variant)
	if grid != GridFresh {
		c.Name += "/grid2"
	}
	g.cases = append(g.cases, c)
}

// Materialise marshals the request and its follow-ups (lazily: some are a megabyte long)
func (c *Case) Materialise() {
	if c.Bytes == nil && c.req != nil {
		c.Bytes = mustMarshal(c.req)
		for _, f := range c.follow {
			c.Follow = append(c.Follow, mustMarshal(f))
		}
	}
}

// Release drops the marshalled bytes again
func (c *Case) Release() {
	if c.req != nil {
		c.Bytes, c.Follow = nil, nil
	}
}

func (g *gen) addRaw(ctx int, kind, variant string, b []byte) {
	c := Case{Idx: len(g.cases), Ctx: ctx, Module: "raw", Kind: kind, Bytes: b}
	c.Name = fmt.Sprintf("%s/raw/%s/%s", ctxNames[ctx], kind, variant)
	g.cases = append(g.cases, c)
}

func allCtx(f func(ctx int)) {
	for c := 0; c < nCtx; c++ {
		f(c)
	}
}

func pose(v float32) *hagallpb.Pose {
	return &hagallpb.Pose{Px: v, Py: v, Pz: v, Rx: v, Ry: v, Rz: v, Rw: v}
}

func pt(x, y, z float32) *dagazpb.Point { return &dagazpb.Point{X: x, Y: y, Z: z} }

func benignFollowUps() []proto.Message {
	big := float32(1e30)
	return []proto.Message{
		&dagazpb.DagazGetDebugInfoRequest{Type: dagazpb.MsgType_MSG_TYPE_DAGAZ_GET_DEBUG_INFO_REQUEST, Timestamp: stamp, RequestId: 900},
		&dagazpb.DagazGetRegionRequest{Type: dagazpb.MsgType_MSG_TYPE_DAGAZ_GET_REGION_REQUEST, Timestamp: stamp, RequestId: 901, Min: pt(-64, 0, -64), Max: pt(64, 0, 64)},
		&dagazpb.DagazGetRegionRequest{Type: dagazpb.MsgType_MSG_TYPE_DAGAZ_GET_REGION_REQUEST, Timestamp: stamp, RequestId: 902, Min: pt(-big, -big, -big), Max: pt(big, big, big)},
		&dagazpb.DagazGetGroundPlaneRequest{Type: dagazpb.MsgType_MSG_TYPE_DAGAZ_GET_GROUND_PLANE_REQUEST, Timestamp: stamp, RequestId: 903,
			Ray: &dagazpb.Ray{From: pt(0.5, 1, 0.5), To: pt(0.5, -1, 0.5)}},
		&dagazpb.DagazGetGroundPlaneRequest{Type: dagazpb.MsgType_MSG_TYPE_DAGAZ_GET_GROUND_PLANE_REQUEST, Timestamp: stamp, RequestId: 904,
			Ray: &dagazpb.Ray{From: pt(-5, 1, -3), To: pt(7, -1, 4)}},
		&dagazpb.DagazQuadSample{Type: dagazpb.MsgType_MSG_TYPE_DAGAZ_QUAD_SAMPLE, Timestamp: stamp,
			Samples: []*dagazpb.Quad{{Center: pt(0.5, 0, 0.5), Extents: pt(0.25, 0, 0.25)}}},
		&dagazpb.DagazGetDebugInfoRequest{Type: dagazpb.MsgType_MSG_TYPE_DAGAZ_GET_DEBUG_INFO_REQUEST, Timestamp: stamp, RequestId: 905},
	}
}

// Enumerate builds the whole case list (deterministic order).
func Enumerate() []Case {
	g := &gen{}
	H := func(t hagallpb.MsgType) hagallpb.MsgType { return t }

	// ---------------------------------------------------------------- core
	allCtx(func(ctx int) {
		for _, rid := range u32vals {
			g.add(ctx, 0, "core", "ping_request", fmt.Sprintf("rid=%d", rid),
				&hagallpb.Request{Type: H(hagallpb.MsgType_MSG_TYPE_PING_REQUEST), Timestamp: stamp, RequestId: rid}, false)
			g.add(ctx, 0, "core", "ping_response", fmt.Sprintf("rid=%d", rid),
				&hagallpb.Response{Type: H(hagallpb.MsgType_MSG_TYPE_PING_RESPONSE), Timestamp: stamp, RequestId: rid}, false)
		}
		// a signed-latency measurement, then answers to pings that were / were not issued
		for _, it := range []uint32{0, 2, 3, 50, 51, 0xFFFFFFFF} {
			for _, w := range strvals {
				var follow []proto.Message
				for _, rid := range []uint32{0, 1, 1, 0xFFFFFFFF} {
					follow = append(follow, &hagallpb.Response{Type: H(hagallpb.MsgType_MSG_TYPE_PING_RESPONSE), Timestamp: stamp, RequestId: rid})
				}
				g.add(ctx, 0, "core", "signed_latency", fmt.Sprintf("iter=%d,wallet=%s", it, w.name),
					&hagallpb.SignedLatencyRequest{Type: H(hagallpb.MsgType_MSG_TYPE_SIGNED_LATENCY_REQUEST), Timestamp: stamp, RequestId: 7, IterationCount: it, WalletAddress: w.v}, false, follow...)
			}
		}
		for _, sid := range []struct{ n, v string }{{"new", ""}, {"own", "tedx1"}, {"other", "tedx2"}, {"missing", "tedx63"}, {"junk", "junk"}, {"huge", hugeStr}} {
			g.add(ctx, 0, "core", "join", "sid="+sid.n,
				&hagallpb.ParticipantJoinRequest{Type: H(hagallpb.MsgType_MSG_TYPE_PARTICIPANT_JOIN_REQUEST), Timestamp: stamp, RequestId: 7, SessionId: sid.v}, false,
				&hagallpb.EntityAddRequest{Type: H(hagallpb.MsgType_MSG_TYPE_ENTITY_ADD_REQUEST), Timestamp: stamp, RequestId: 8})
		}
		g.add(ctx, 0, "core", "leave_request", "-", &hagallpb.ParticipantLeaveRequest{Type: H(hagallpb.MsgType_MSG_TYPE_PARTICIPANT_LEAVE_REQUEST), Timestamp: stamp, RequestId: 7}, false)
		// entity add: pose absent / present with every boundary float
		for _, persist := range []bool{false, true} {
			for _, flag := range []hagallpb.EntityFlag{0, 1, 0x7FFFFFFF} {
				g.add(ctx, 0, "core", "entity_add", fmt.Sprintf("pose=absent,persist=%v,flag=%d", persist, flag),
					&hagallpb.EntityAddRequest{Type: H(hagallpb.MsgType_MSG_TYPE_ENTITY_ADD_REQUEST), Timestamp: stamp, RequestId: 7, Persist: persist, Flag: flag}, false)
			}
		}
		for _, fv := range fvals {
			g.add(ctx, 0, "core", "entity_add", "pose="+fv.name,
				&hagallpb.EntityAddRequest{Type: H(hagallpb.MsgType_MSG_TYPE_ENTITY_ADD_REQUEST), Timestamp: stamp, RequestId: 7, Pose: pose(fv.v)}, false)
		}
		for _, eid := range u32vals {
			g.add(ctx, 0, "core", "entity_delete", fmt.Sprintf("eid=%d", eid),
				&hagallpb.EntityDeleteRequest{Type: H(hagallpb.MsgType_MSG_TYPE_ENTITY_DELETE_REQUEST), Timestamp: stamp, RequestId: 7, EntityId: eid}, false)
			g.add(ctx, 0, "core", "update_pose", fmt.Sprintf("eid=%d,pose=absent", eid),
				&hagallpb.EntityUpdatePose{Type: H(hagallpb.MsgType_MSG_TYPE_ENTITY_UPDATE_POSE), Timestamp: stamp, EntityId: eid}, false)
			for _, fv := range fvals {
				g.add(ctx, 0, "core", "update_pose", fmt.Sprintf("eid=%d,pose=%s", eid, fv.name),
					&hagallpb.EntityUpdatePose{Type: H(hagallpb.MsgType_MSG_TYPE_ENTITY_UPDATE_POSE), Timestamp: stamp, EntityId: eid, Pose: pose(fv.v)}, false)
			}
		}
		for _, sz := range []int{0, 1, 10240, 10241, 1 << 20} {
			for _, rc := range []struct {
				n string
				v []uint32
			}{{"none", nil}, {"zero", []uint32{0}}, {"self", []uint32{1}}, {"peer", []uint32{2}}, {"max", []uint32{0xFFFFFFFF}}, {"dups", []uint32{2, 2, 1, 1, 0, 99}}} {
				g.add(ctx, 0, "core", "custom", fmt.Sprintf("len=%d,to=%s", sz, rc.n),
					&hagallpb.CustomMessage{Type: H(hagallpb.MsgType_MSG_TYPE_CUSTOM_MESSAGE), Timestamp: stamp, ParticipantIds: rc.v, Body: make([]byte, sz)}, false)
			}
		}
		for _, s := range strvals {
			g.add(ctx, 0, "core", "type_add", "name="+s.name,
				&hagallpb.EntityComponentTypeAddRequest{Type: H(hagallpb.MsgType_MSG_TYPE_ENTITY_COMPONENT_TYPE_ADD_REQUEST), Timestamp: stamp, RequestId: 7, EntityComponentTypeName: s.v}, false)
			g.add(ctx, 0, "core", "get_id", "name="+s.name,
				&hagallpb.EntityComponentTypeGetIdRequest{Type: H(hagallpb.MsgType_MSG_TYPE_ENTITY_COMPONENT_TYPE_GET_ID_REQUEST), Timestamp: stamp, RequestId: 7, EntityComponentTypeName: s.v}, false)
		}
		g.add(ctx, 0, "core", "get_id", "name=registered",
			&hagallpb.EntityComponentTypeGetIdRequest{Type: H(hagallpb.MsgType_MSG_TYPE_ENTITY_COMPONENT_TYPE_GET_ID_REQUEST), Timestamp: stamp, RequestId: 7, EntityComponentTypeName: "color"}, false)
		for _, t := range u32vals {
			g.add(ctx, 0, "core", "get_name", fmt.Sprintf("type=%d", t),
				&hagallpb.EntityComponentTypeGetNameRequest{Type: H(hagallpb.MsgType_MSG_TYPE_ENTITY_COMPONENT_TYPE_GET_NAME_REQUEST), Timestamp: stamp, RequestId: 7, EntityComponentTypeId: t}, false)
			g.add(ctx, 0, "core", "comp_list", fmt.Sprintf("type=%d", t),
				&hagallpb.EntityComponentListRequest{Type: H(hagallpb.MsgType_MSG_TYPE_ENTITY_COMPONENT_LIST_REQUEST), Timestamp: stamp, RequestId: 7, EntityComponentTypeId: t}, false)
			g.add(ctx, 0, "core", "subscribe", fmt.Sprintf("type=%d", t),
				&hagallpb.EntityComponentTypeSubscribeRequest{Type: H(hagallpb.MsgType_MSG_TYPE_ENTITY_COMPONENT_TYPE_SUBSCRIBE_REQUEST), Timestamp: stamp, RequestId: 7, EntityComponentTypeId: t}, false)
			g.add(ctx, 0, "core", "unsubscribe", fmt.Sprintf("type=%d", t),
				&hagallpb.EntityComponentTypeUnsubscribeRequest{Type: H(hagallpb.MsgType_MSG_TYPE_ENTITY_COMPONENT_TYPE_UNSUBSCRIBE_REQUEST), Timestamp: stamp, RequestId: 7, EntityComponentTypeId: t}, false)
			for _, eid := range u32vals {
				for _, d := range []struct {
					n string
					v []byte
				}{{"nil", nil}, {"one", []byte{1}}, {"huge", []byte(hugeStr)}} {
					v := fmt.Sprintf("type=%d,eid=%d,data=%s", t, eid, d.n)
					g.add(ctx, 0, "core", "comp_add", v,
						&hagallpb.EntityComponentAddRequest{Type: H(hagallpb.MsgType_MSG_TYPE_ENTITY_COMPONENT_ADD_REQUEST), Timestamp: stamp, RequestId: 7, EntityComponentTypeId: t, EntityId: eid, Data: d.v}, false)
					g.add(ctx, 0, "core", "comp_update", v,
						&hagallpb.EntityComponentUpdate{Type: H(hagallpb.MsgType_MSG_TYPE_ENTITY_COMPONENT_UPDATE), Timestamp: stamp, EntityComponentTypeId: t, EntityId: eid, Data: d.v}, false)
				}
				g.add(ctx, 0, "core", "comp_delete", fmt.Sprintf("type=%d,eid=%d", t, eid),
					&hagallpb.EntityComponentDeleteRequest{Type: H(hagallpb.MsgType_MSG_TYPE_ENTITY_COMPONENT_DELETE_REQUEST), Timestamp: stamp, RequestId: 7, EntityComponentTypeId: t, EntityId: eid}, false)
			}
		}
		for mask := 0; mask < 8; mask++ {
			b := func(bit int) string {
				if mask&bit != 0 {
					return "r"
				}
				return ""
			}
			g.add(ctx, 0, "core", "receipt", fmt.Sprintf("present=%03b", mask),
				&hagallpb.ReceiptRequest{Type: H(hagallpb.MsgType_MSG_TYPE_RECEIPT_REQUEST), Timestamp: stamp, RequestId: 7, Receipt: b(1), Hash: []byte(b(2)), Signature: []byte(b(4))}, false)
		}
		g.add(ctx, 0, "core", "receipt", "huge",
			&hagallpb.ReceiptRequest{Type: H(hagallpb.MsgType_MSG_TYPE_RECEIPT_REQUEST), Timestamp: stamp, RequestId: 7, Receipt: hugeStr, Hash: []byte(hugeStr), Signature: []byte(hugeStr)}, false)
		// type numbers a client is not supposed to send, or that nobody knows
		for _, ty := range []int32{0, 1, 2, 4, 5, 7, 9, 10, 13, 15, 17, 33, 41, 43, 44, 99, 100, 102, 103, 200, 202, 203, 302, 304, 306, 307, 1000, 0x7FFFFFFF, -1} {
			g.add(ctx, 0, "core", "unexpected_type", fmt.Sprintf("type=%d", ty),
				&hagallpb.Request{Type: hagallpb.MsgType(ty), Timestamp: stamp, RequestId: 7}, false)
		}
	})

	// ---------------------------------------------------------------- vikja
	allCtx(func(ctx int) {
		mk := func(a *vikjapb.EntityAction) *vikjapb.EntityActionRequest {
			return &vikjapb.EntityActionRequest{Type: vikjapb.MsgType_MSG_TYPE_VIKJA_ENTITY_ACTION_REQUEST, Timestamp: stamp, RequestId: 7, EntityAction: a}
		}
		g.add(ctx, 0, "vikja", "action", "action=absent", mk(nil), false)
		tss := []struct {
			n string
			v *timestamppb.Timestamp
		}{{"absent", nil}, {"zero", &timestamppb.Timestamp{}}, {"now", stamp}, {"max", &timestamppb.Timestamp{Seconds: math.MaxInt64, Nanos: math.MaxInt32}}, {"min", &timestamppb.Timestamp{Seconds: math.MinInt64, Nanos: math.MinInt32}}}
		for _, eid := range u32vals {
			for _, nm := range strvals {
				for _, ts := range tss {
					a := &vikjapb.EntityAction{EntityId: eid, Name: nm.v, Timestamp: ts.v, Data: []byte{1}}
					// sent twice: the second goes through the "compare with the stored action" branch
					g.add(ctx, 0, "vikja", "action", fmt.Sprintf("eid=%d,name=%s,ts=%s", eid, nm.name, ts.n), mk(a), false, mk(a), mk(&vikjapb.EntityAction{EntityId: eid, Name: nm.v, Timestamp: stamp}))
				}
			}
		}
	})

	// ---------------------------------------------------------------- odal
	allCtx(func(ctx int) {
		for _, eid := range u32vals {
			for _, s := range strvals {
				g.add(ctx, 0, "odal", "asset_add", fmt.Sprintf("eid=%d,asset=%s", eid, s.name),
					&odalpb.AssetInstanceAddRequest{Type: odalpb.MsgType_MSG_TYPE_ODAL_ASSET_INSTANCE_ADD_REQUEST, Timestamp: stamp, RequestId: 7, EntityId: eid, AssetId: s.v}, false,
					&hagallpb.EntityDeleteRequest{Type: H(hagallpb.MsgType_MSG_TYPE_ENTITY_DELETE_REQUEST), Timestamp: stamp, RequestId: 8, EntityId: eid})
			}
		}
	})

	// ---------------------------------------------------------------- dagaz
	fu := benignFollowUps()
	dagazCtx := []int{CtxUnjoined, CtxJoined, CtxForeign}
	for _, ctx := range dagazCtx {
		grids := []int{GridFresh, GridTwoQuads}
		if ctx == CtxUnjoined {
			grids = []int{GridFresh}
		}
		for _, grid := range grids {
			qs := func(variant string, hostile bool, quads ...*dagazpb.Quad) {
				g.add(ctx, grid, "dagaz", "quad_sample", variant,
					&dagazpb.DagazQuadSample{Type: dagazpb.MsgType_MSG_TYPE_DAGAZ_QUAD_SAMPLE, Timestamp: stamp, Samples: quads}, hostile, fu...)
			}
			// optional sub-messages absent
			qs("samples=empty", false)
			qs("quad=empty", false, &dagazpb.Quad{})
			qs("center=absent", false, &dagazpb.Quad{Extents: pt(0.25, 0, 0.25)})
			qs("extents=absent", false, &dagazpb.Quad{Center: pt(0.5, 0, 0.5)})
			qs("second=empty", false, &dagazpb.Quad{Center: pt(0.5, 0, 0.5), Extents: pt(0.25, 0, 0.25)}, &dagazpb.Quad{})
			// boundary floats: one slot at a time, then pairs, then all slots
			base := [6]float32{0.5, 0, 0.5, 0.25, 0, 0.25}
			slot := []string{"cx", "cy", "cz", "ex", "ey", "ez"}
			mkq := func(v [6]float32) *dagazpb.Quad {
				return &dagazpb.Quad{Center: pt(v[0], v[1], v[2]), Extents: pt(v[3], v[4], v[5]), MergeCount: 0xFFFFFFFF}
			}
			for i := 0; i < 6; i++ {
				for _, fv := range fvals {
					v := base
					v[i] = fv.v
					qs(fmt.Sprintf("%s=%s", slot[i], fv.name), fv.hostile, mkq(v))
				}
			}
			for _, pr := range [][2]int{{0, 2}, {0, 3}, {3, 5}, {2, 5}, {0, 1}} {
				for _, a := range fvals {
					for _, b := range fvals {
						v := base
						v[pr[0]], v[pr[1]] = a.v, b.v
						qs(fmt.Sprintf("%s=%s,%s=%s", slot[pr[0]], a.name, slot[pr[1]], b.name), a.hostile || b.hostile, mkq(v))
					}
				}
			}
			for _, fv := range fvals {
				qs("all="+fv.name, fv.hostile, mkq([6]float32{fv.v, fv.v, fv.v, fv.v, fv.v, fv.v}))
			}
			// many samples in one message; overlapping quads (merge path); vertical stacks
			var many []*dagazpb.Quad
			for i := 0; i < 40; i++ {
				many = append(many, &dagazpb.Quad{Center: pt(float32(i%7)-3, float32(i%3)*0.3, float32(i%5)-2), Extents: pt(0.5+float32(i%4), 0, 0.5+float32(i%3))})
			}
			qs("many=40", false, many...)
			qs("overlap", false, &dagazpb.Quad{Center: pt(0.5, 0, 0.5), Extents: pt(0.25, 0, 0.25)}, &dagazpb.Quad{Center: pt(0.6, 0.1, 0.6), Extents: pt(3, 0, 3)},
				&dagazpb.Quad{Center: pt(-2, 0.2, -2), Extents: pt(4, 0, 4)}, &dagazpb.Quad{Center: pt(0.5, 0, 0.5), Extents: pt(0.25, 0, 0.25)})
			qs("negative-extents", false, &dagazpb.Quad{Center: pt(0.5, 0, 0.5), Extents: pt(-3, 0, -3)}, &dagazpb.Quad{Center: pt(0.5, 0, 0.5), Extents: pt(2, 0, -2)})

			// ground plane: ray / from / to absent, boundary floats
			gp := func(variant string, hostile bool, ray *dagazpb.Ray) {
				g.add(ctx, grid, "dagaz", "ground_plane", variant,
					&dagazpb.DagazGetGroundPlaneRequest{Type: dagazpb.MsgType_MSG_TYPE_DAGAZ_GET_GROUND_PLANE_REQUEST, Timestamp: stamp, RequestId: 7, Ray: ray}, hostile, fu...)
			}
			gp("ray=absent", false, nil)
			gp("ray=empty", false, &dagazpb.Ray{})
			gp("from=absent", false, &dagazpb.Ray{To: pt(0.5, -1, 0.5)})
			gp("to=absent", false, &dagazpb.Ray{From: pt(0.5, 1, 0.5)})
			for _, a := range fvals {
				gp("all="+a.name, a.hostile, &dagazpb.Ray{From: pt(a.v, a.v, a.v), To: pt(a.v, a.v, a.v)})
				for _, b := range fvals {
					gp(fmt.Sprintf("from=%s,to=%s", a.name, b.name), a.hostile || b.hostile, &dagazpb.Ray{From: pt(a.v, 1, a.v), To: pt(b.v, -1, b.v)})
					gp(fmt.Sprintf("fx=%s,tz=%s", a.name, b.name), a.hostile || b.hostile, &dagazpb.Ray{From: pt(a.v, 1, 0.5), To: pt(0.5, -1, b.v)})
				}
			}
			// region: min / max absent, boundary floats
			rg := func(variant string, hostile bool, min, max *dagazpb.Point) {
				g.add(ctx, grid, "dagaz", "region", variant,
					&dagazpb.DagazGetRegionRequest{Type: dagazpb.MsgType_MSG_TYPE_DAGAZ_GET_REGION_REQUEST, Timestamp: stamp, RequestId: 7, Min: min, Max: max}, hostile, fu...)
			}
			rg("min=absent,max=absent", false, nil, nil)
			rg("min=absent", false, nil, pt(1, 0, 1))
			rg("max=absent", false, pt(0, 0, 0), nil)
			for _, a := range fvals {
				for _, b := range fvals {
					rg(fmt.Sprintf("min=%s,max=%s", a.name, b.name), a.hostile || b.hostile, pt(a.v, a.v, a.v), pt(b.v, b.v, b.v))
					rg(fmt.Sprintf("minx=%s,maxz=%s", a.name, b.name), a.hostile || b.hostile, pt(a.v, 0, -1), pt(3, 0, b.v))
				}
			}
			for _, rid := range u32vals {
				g.add(ctx, grid, "dagaz", "debug_info", fmt.Sprintf("rid=%d", rid),
					&dagazpb.DagazGetDebugInfoRequest{Type: dagazpb.MsgType_MSG_TYPE_DAGAZ_GET_DEBUG_INFO_REQUEST, Timestamp: stamp, RequestId: rid}, false)
			}
		}
	}

	// ---------------------------------------------------------------- dagaz, random in-range sequences
	// (deterministic: splitmix64 seeded by the sequence number) quads, rays and regions with
	// coordinates a well-behaved client may send, including the edges of any plausible bound
	for seq := 0; seq < 400; seq++ {
		r := rng(uint64(seq)*0x9E3779B97F4A7C15 + 12345)
		scale := []float32{3, 10, 40, 200, 999}[seq%5]
		co := func() float32 {
			switch r.next() % 8 {
			case 0:
				return float32(int64(r.next()%uint64(2*scale+1)) - int64(scale)) // integers: cell borders
			case 1:
				return scale * (1 - 2*float32(r.next()%2))
			default:
				return (float32(r.next()%20001)/10000 - 1) * scale
			}
		}
		ext := func() float32 {
			if r.next()%6 == 0 {
				return 0
			}
			return float32(r.next()%10001) / 10000 * scale / 4
		}
		var msgs []proto.Message
		for k := 0; k < 40; k++ {
			switch r.next() % 4 {
			case 0, 1:
				var qs []*dagazpb.Quad
				for j := uint64(0); j <= r.next()%3; j++ {
					y := float32(r.next()%5) * 0.3
					qs = append(qs, &dagazpb.Quad{Center: pt(co(), y, co()), Extents: pt(ext(), 0, ext())})
				}
				msgs = append(msgs, &dagazpb.DagazQuadSample{Type: dagazpb.MsgType_MSG_TYPE_DAGAZ_QUAD_SAMPLE, Timestamp: stamp, Samples: qs})
			case 2:
				msgs = append(msgs, &dagazpb.DagazGetGroundPlaneRequest{Type: dagazpb.MsgType_MSG_TYPE_DAGAZ_GET_GROUND_PLANE_REQUEST, Timestamp: stamp, RequestId: uint32(k),
					Ray: &dagazpb.Ray{From: pt(co(), 2, co()), To: pt(co(), -2, co())}})
			default:
				msgs = append(msgs, &dagazpb.DagazGetRegionRequest{Type: dagazpb.MsgType_MSG_TYPE_DAGAZ_GET_REGION_REQUEST, Timestamp: stamp, RequestId: uint32(k), Min: pt(co(), 0, co()), Max: pt(co(), 0, co())})
			}
		}
		msgs = append(msgs, fu...)
		g.add(CtxJoined, GridFresh, "dagaz", "random_sequence", fmt.Sprintf("seq=%d,scale=%g", seq, scale), msgs[0], false, msgs[1:]...)
	}

	// ---------------------------------------------------------------- raw bytes
	// every truncation, and single-byte corruptions, of one valid request per type: what
	// hagallpb.Msg still accepts reaches the handlers (exactly as on the wire), the rest is
	// counted as refused by the receiver
	samples := []struct {
		n string
		m proto.Message
	}{
		{"join", &hagallpb.ParticipantJoinRequest{Type: hagallpb.MsgType_MSG_TYPE_PARTICIPANT_JOIN_REQUEST, Timestamp: stamp, RequestId: 7, SessionId: "tedx1"}},
		{"entity_add", &hagallpb.EntityAddRequest{Type: hagallpb.MsgType_MSG_TYPE_ENTITY_ADD_REQUEST, Timestamp: stamp, RequestId: 7, Pose: pose(1), Persist: true, Flag: 1}},
		{"update_pose", &hagallpb.EntityUpdatePose{Type: hagallpb.MsgType_MSG_TYPE_ENTITY_UPDATE_POSE, Timestamp: stamp, EntityId: 1, Pose: pose(2)}},
		{"custom", &hagallpb.CustomMessage{Type: hagallpb.MsgType_MSG_TYPE_CUSTOM_MESSAGE, Timestamp: stamp, ParticipantIds: []uint32{1, 2, 300}, Body: []byte("hello")}},
		{"comp_add", &hagallpb.EntityComponentAddRequest{Type: hagallpb.MsgType_MSG_TYPE_ENTITY_COMPONENT_ADD_REQUEST, Timestamp: stamp, RequestId: 7, EntityComponentTypeId: 1, EntityId: 1, Data: []byte("d")}},
		{"comp_update", &hagallpb.EntityComponentUpdate{Type: hagallpb.MsgType_MSG_TYPE_ENTITY_COMPONENT_UPDATE, Timestamp: stamp, EntityComponentTypeId: 1, EntityId: 1, Data: []byte("d")}},
		{"receipt", &hagallpb.ReceiptRequest{Type: hagallpb.MsgType_MSG_TYPE_RECEIPT_REQUEST, Timestamp: stamp, RequestId: 7, Receipt: "r", Hash: []byte("h"), Signature: []byte("s")}},
		{"latency", &hagallpb.SignedLatencyRequest{Type: hagallpb.MsgType_MSG_TYPE_SIGNED_LATENCY_REQUEST, Timestamp: stamp, RequestId: 7, IterationCount: 3, WalletAddress: "0x1"}},
		{"action", &vikjapb.EntityActionRequest{Type: vikjapb.MsgType_MSG_TYPE_VIKJA_ENTITY_ACTION_REQUEST, Timestamp: stamp, RequestId: 7, EntityAction: &vikjapb.EntityAction{EntityId: 1, Name: "n", Timestamp: stamp, Data: []byte("d")}}},
		{"asset", &odalpb.AssetInstanceAddRequest{Type: odalpb.MsgType_MSG_TYPE_ODAL_ASSET_INSTANCE_ADD_REQUEST, Timestamp: stamp, RequestId: 7, EntityId: 1, AssetId: "a"}},
		{"quad_sample", &dagazpb.DagazQuadSample{Type: dagazpb.MsgType_MSG_TYPE_DAGAZ_QUAD_SAMPLE, Timestamp: stamp, Samples: []*dagazpb.Quad{{Center: pt(0.5, 0, 0.5), Extents: pt(0.25, 0, 0.25), MergeCount: 1}}}},
		{"ground_plane", &dagazpb.DagazGetGroundPlaneRequest{Type: dagazpb.MsgType_MSG_TYPE_DAGAZ_GET_GROUND_PLANE_REQUEST, Timestamp: stamp, RequestId: 7, Ray: &dagazpb.Ray{From: pt(0.5, 1, 0.5), To: pt(0.5, -1, 0.5)}}},
		{"region", &dagazpb.DagazGetRegionRequest{Type: dagazpb.MsgType_MSG_TYPE_DAGAZ_GET_REGION_REQUEST, Timestamp: stamp, RequestId: 7, Min: pt(-1, 0, -1), Max: pt(2, 0, 2)}},
	}
	for _, ctx := range []int{CtxUnjoined, CtxOwn} {
		for _, s := range samples {
			full := mustMarshal(s.m)
			for n := 0; n < len(full); n++ {
				g.addRaw(ctx, s.n, fmt.Sprintf("trunc=%d/%d", n, len(full)), append([]byte(nil), full[:n]...))
			}
			for i := 0; i < len(full); i++ {
				for _, x := range []byte{0x80, 0xff, 0x01} {
					b := append([]byte(nil), full...)
					b[i] ^= x
					g.addRaw(ctx, s.n, fmt.Sprintf("xor[%d]=%02x", i, x), b)
				}
			}
			// a sub-message field carrying garbage bytes; a field repeated; a huge declared length
			for _, fld := range []protowire.Number{3, 4, 5, 1337} {
				b := append([]byte(nil), full...)
				b = protowire.AppendTag(b, fld, protowire.BytesType)
				b = protowire.AppendBytes(b, []byte{0xff, 0xfe, 0xfd})
				g.addRaw(ctx, s.n, fmt.Sprintf("garbage-field=%d", fld), b)
			}
		}
	}
	return g.cases
}

// splitmix64
type rng uint64

func (r *rng) next() uint64 {
	*r += 0x9E3779B97F4A7C15
	z := uint64(*r)
	z = (z ^ (z >> 30)) * 0xBF58476D1CE4E5B9
	z = (z ^ (z >> 27)) * 0x94D049BB133111EB
	return z ^ (z >> 31)
}

package main

// helpers shared by the sweep (L1) and the wire-level driver (L2)

import (
	"regexp"
	"strings"
	"sync"
)

type tailBuf struct {
	mu sync.Mutex
	b  []byte
}

func (t *tailBuf) Write(p []byte) (int, error) {
	t.mu.Lock()
	defer t.mu.Unlock()
	t.b = append(t.b, p...)
	if len(t.b) > 1<<16 {
		t.b = t.b[len(t.b)-(1<<16):]
	}
	return len(p), nil
}
func (t *tailBuf) String() string { t.mu.Lock(); defer t.mu.Unlock(); return string(t.b) }

var fatalLine = regexp.MustCompile(`^(panic: |fatal error: |runtime: out of memory|runtime/cgo: |SIGQUIT)`)

// firstLines: the lines of a Go crash report that say what happened
func firstLines(s string, n int) string {
	var out []string
	for _, l := range strings.Split(strings.TrimSpace(s), "\n") {
		if fatalLine.MatchString(l) {
			out = append(out, strings.TrimSpace(l))
			if len(out) >= n {
				break
			}
		}
	}
	if len(out) == 0 {
		ls := strings.Split(strings.TrimSpace(s), "\n")
		if len(ls) > n {
			ls = ls[:n]
		}
		out = ls
	}
	return strings.Join(out, " | ")
}

var repoFileRe = regexp.MustCompile(`/(modules/[a-z]+/[a-z_]+\.go|websocket/[a-z_]+\.go|models/[a-z_]+\.go):(\d+)`)

// repoFrames extracts the first repository source positions from a Go traceback
func repoFrames(tb string) string {
	var out []string
	seen := map[string]bool{}
	for _, m := range repoFileRe.FindAllStringSubmatch(tb, -1) {
		k := m[1] + ":" + m[2]
		if strings.Contains(k, "zz_verif") || seen[k] {
			continue
		}
		seen[k] = true
		out = append(out, k)
		if len(out) >= 3 {
			break
		}
	}
	return strings.Join(out, " < ")
}

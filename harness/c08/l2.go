package main

// L2: wire-level fault scripts against the REAL websocket.Handle behind an httptest server, with
// the production decorator stack of cmd/main.go (HandlerWithMetrics(HandlerWithLogs(RealtimeHandler)))
// and the three modules.  The only additions are observers: the handler closure records when
// websocket.Handle returns (and whether by panic), and an outermost decorator counts the calls of
// HandleDisconnect.  Clients are x/net/websocket clients over TCP connections the harness owns
// (so that it can stop reading, reset, or write arbitrary bytes).

import (
	"bufio"
	"bytes"
	"context"
	"encoding/binary"
	"encoding/json"
	"flag"
	"fmt"
	"math"
	"net"
	"net/http"
	"net/http/httptest"
	"net/url"
	"os"
	"os/exec"
	"regexp"
	"runtime/pprof"
	"sort"
	"strconv"
	"strings"
	"sync"
	"sync/atomic"
	"syscall"
	"time"

	"github.com/aukilabs/hagall-common/messages/dagazpb"
	"github.com/aukilabs/hagall-common/messages/hagallpb"
	"github.com/aukilabs/hagall-common/ncsclient"
	hwebsocket "github.com/aukilabs/hagall-common/websocket"
	"github.com/aukilabs/hagall/featureflag"
	"github.com/aukilabs/hagall/models"
	"github.com/aukilabs/hagall/modules"
	"github.com/aukilabs/hagall/modules/dagaz"
	"github.com/aukilabs/hagall/modules/odal"
	"github.com/aukilabs/hagall/modules/vikja"
	hagallws "github.com/aukilabs/hagall/websocket"
	"github.com/prometheus/client_golang/prometheus"
	"golang.org/x/net/websocket"
	"google.golang.org/protobuf/proto"
	"google.golang.org/protobuf/types/known/timestamppb"
)

// ---------------------------------------------------------------- server side

type connRec struct {
	ID         int
	Tag        string
	returned   chan struct{}
	normal     bool // Handle returned by a normal return (false: by panic)
	discCalls  int32
	returnedAt time.Time
}

type countingHandler struct {
	hagallws.Handler
	rec *connRec
}

func (c *countingHandler) HandleDisconnect(err error) {
	atomic.AddInt32(&c.rec.discCalls, 1)
	c.Handler.HandleDisconnect(err)
}

type l2server struct {
	ts    *httptest.Server
	store *models.SessionStore
	mu    sync.Mutex
	recs  map[string]*connRec
	n     int
}

func dur(q url.Values, k string, def time.Duration) time.Duration {
	if v := q.Get(k); v != "" {
		if d, err := time.ParseDuration(v); err == nil {
			return d
		}
	}
	return def
}

// slowFailModule is a harness-owned module (the production list is vikja, odal, dagaz). A custom message whose body
// starts with "SLOWFAIL" keeps the connection's main loop busy for d and then fails, so that the connection is
// ended through the normal path at a known moment: the window in which the scheduler queue fills up and the
// session's frame worker blocks on it is deterministic.
type slowFailModule struct{ d time.Duration }

func (m *slowFailModule) Name() string                              { return "verif-slowfail" }
func (m *slowFailModule) Init(*models.Session, *models.Participant) {}
func (m *slowFailModule) HandleDisconnect()                         {}
func (m *slowFailModule) HandleMsg(ctx context.Context, _ hwebsocket.ResponseSender, msg hwebsocket.Msg) error {
	if msg.Type.Number() != hagallpb.MsgType_MSG_TYPE_CUSTOM_MESSAGE.Number() {
		return hwebsocket.ErrModuleMsgSkip
	}
	var cm hagallpb.CustomMessage
	if err := msg.DataTo(&cm); err != nil {
		return hwebsocket.ErrModuleMsgSkip
	}
	switch {
	case bytes.HasPrefix(cm.Body, []byte("SLOWFAIL")):
		time.Sleep(m.d)
		return fmt.Errorf("slowfail")
	case bytes.HasPrefix(cm.Body, []byte("SLOWOK")): // busy for d, then carries on
		time.Sleep(m.d)
	}
	return hwebsocket.ErrModuleMsgSkip
}

func l2modules(q url.Values) []modules.Module {
	mods := []modules.Module{&vikja.Module{}, &odal.Module{}, &dagaz.Module{}}
	if d := dur(q, "slowfail", 0); d > 0 {
		mods = append(mods, &slowFailModule{d})
	}
	return mods
}

func newL2Server() *l2server {
	s := &l2server{store: &models.SessionStore{}, recs: map[string]*connRec{}}
	receiptChan := make(chan ncsclient.ReceiptPayload, 128)
	go func() {
		for range receiptChan {
		}
	}()
	ctx := context.Background()
	mux := http.NewServeMux()
	// the closure below is cmd/main.go's, with the observers added
	mux.Handle("/", websocket.Server{
		Handler: func(conn *websocket.Conn) {
			defer conn.Close()
			q := conn.Request().URL.Query()
			var rh hagallws.Handler = &hagallws.RealtimeHandler{
				ClientSyncClockInterval: dur(q, "sync", 5*time.Second),
				ClientIdleTimeout:       dur(q, "idle", 5*time.Minute),
				FrameDuration:           dur(q, "frame", 15*time.Millisecond),
				Sessions:                s.store,
				Modules:                 l2modules(q),
				FeatureFlags:            featureflag.New(nil),
				ReceiptChan:             receiptChan,
				PrivateKey:              theKey,
			}
			h := hagallws.HandlerWithLogs(rh, time.Minute)
			h = hagallws.HandlerWithMetrics(h, "http://l2.test")
			defer h.Close()

			rec := s.begin(q.Get("tag"))
			defer func() {
				rec.returnedAt = time.Now()
				close(rec.returned)
			}()
			hagallws.Handle(ctx, conn, &countingHandler{Handler: h, rec: rec})
			rec.normal = true
		},
	})
	s.ts = httptest.NewServer(mux)
	s.ts.Config.ErrorLog = nil
	return s
}

func (s *l2server) begin(tag string) *connRec {
	s.mu.Lock()
	defer s.mu.Unlock()
	s.n++
	r := &connRec{ID: s.n, Tag: tag, returned: make(chan struct{})}
	s.recs[tag] = r
	return r
}

func (s *l2server) rec(tag string, wait time.Duration) *connRec {
	dl := time.Now().Add(wait)
	for {
		s.mu.Lock()
		r := s.recs[tag]
		s.mu.Unlock()
		if r != nil || time.Now().After(dl) {
			return r
		}
		time.Sleep(time.Millisecond)
	}
}

// liveShells: connection shells whose websocket.Handle has not returned yet
func (s *l2server) liveShells() int {
	s.mu.Lock()
	defer s.mu.Unlock()
	n := 0
	for _, r := range s.recs {
		select {
		case <-r.returned:
		default:
			n++
		}
	}
	return n
}

func gaugeClients() float64 {
	mfs, err := prometheus.DefaultGatherer.Gather()
	if err != nil {
		return math.NaN()
	}
	var sum float64
	for _, mf := range mfs {
		if mf.GetName() == "ws_connected_clients" {
			for _, m := range mf.GetMetric() {
				sum += m.GetGauge().GetValue()
			}
		}
	}
	return sum
}

var handlerFrame = regexp.MustCompile(`hagall/websocket\.\(\*handler\)|hagall/websocket\.\(\*handlerWithLogs\)\.startSummaryWorker|hagall/websocket\.Handle\(`)

// handlerGoroutines counts the goroutines that belong to connection shells
func handlerGoroutines() int {
	var buf bytes.Buffer
	pprof.Lookup("goroutine").WriteTo(&buf, 2)
	n := 0
	for _, g := range strings.Split(buf.String(), "\n\n") {
		if handlerFrame.MatchString(g) {
			n++
		}
	}
	return n
}

var goroutineHdr = regexp.MustCompile(`^goroutine (\d+) \[([^\]]+)\]`)
var siteRe = regexp.MustCompile(`/(websocket/handler\.go|hagall-common@[^/]+/websocket/msg\.go|websocket/realtime\.go|websocket/logs\.go|websocket/metrics\.go|models/[a-z_]+\.go):(\d+)`)

var seenGoroutines = map[string]bool{}

// wedgeSites describes the goroutines of connection shells that are blocked and were not reported before
func wedgeSites() string {
	var buf bytes.Buffer
	pprof.Lookup("goroutine").WriteTo(&buf, 2)
	var out []string
	for _, g := range strings.Split(buf.String(), "\n\n") {
		if !handlerFrame.MatchString(g) || strings.Contains(g, "startSummaryWorker") {
			continue
		}
		m := goroutineHdr.FindStringSubmatch(g)
		if m == nil || seenGoroutines[m[1]] {
			continue
		}
		state := strings.Split(m[2], ",")[0]
		if state == "select" || state == "IO wait" || state == "running" || state == "runnable" {
			continue
		}
		seenGoroutines[m[1]] = true
		role := "main"
		if strings.Contains(g, "startReceiving") {
			role = "receiver"
		} else if strings.Contains(g, "startSending") {
			role = "sender"
		}
		site := ""
		if sm := siteRe.FindStringSubmatch(g); sm != nil {
			f := sm[1]
			if i := strings.Index(f, "hagall-common"); i >= 0 {
				f = "hagall-common/websocket/msg.go"
			}
			site = f + ":" + sm[2]
		}
		out = append(out, fmt.Sprintf("%s[%s]@%s", role, state, site))
	}
	sort.Strings(out)
	return strings.Join(out, " ")
}

// ---------------------------------------------------------------- client side

type received struct {
	Type int32
	Body []byte
}

type client struct {
	tcp     *net.TCPConn
	ws      *websocket.Conn
	tag     string
	mu      sync.Mutex
	msgs    []received
	closed  bool
	cond    *sync.Cond
	reading bool
}

var tagN, dialN int64

func (s *l2server) dial(params string, rcvbuf int) (*client, error) {
	u, _ := url.Parse(s.ts.URL)
	addr, _ := net.ResolveTCPAddr("tcp", u.Host)
	// many short connections: spread the source addresses over 127.0.0.0/8 so that TIME_WAIT does not exhaust the ports
	n := atomic.AddInt64(&dialN, 1)
	src := &net.TCPAddr{IP: net.IPv4(127, 0, byte(1+(n/250)%250), byte(2+n%250))}
	tcp, err := net.DialTCP("tcp", src, addr)
	if err != nil {
		tcp, err = net.DialTCP("tcp", nil, addr)
	}
	if err != nil {
		return nil, err
	}
	if rcvbuf > 0 {
		tcp.SetReadBuffer(rcvbuf)
	}
	tag := fmt.Sprintf("c%d", atomic.AddInt64(&tagN, 1))
	loc := "ws://" + u.Host + "/?tag=" + tag
	if params != "" {
		loc += "&" + params
	}
	cfg, err := websocket.NewConfig(loc, "http://localhost/")
	if err != nil {
		return nil, err
	}
	ws, err := websocket.NewClient(cfg, tcp)
	if err != nil {
		tcp.Close()
		return nil, err
	}
	ws.MaxPayloadBytes = 64 << 20
	c := &client{tcp: tcp, ws: ws, tag: tag}
	c.cond = sync.NewCond(&c.mu)
	return c, nil
}

// startReading collects everything the server sends
func (c *client) startReading() {
	c.reading = true
	go func() {
		for {
			var b []byte
			if err := websocket.Message.Receive(c.ws, &b); err != nil {
				c.mu.Lock()
				c.closed = true
				c.cond.Broadcast()
				c.mu.Unlock()
				return
			}
			var m hagallpb.Msg
			proto.Unmarshal(b, &m)
			c.mu.Lock()
			c.msgs = append(c.msgs, received{Type: int32(m.Type), Body: b})
			c.cond.Broadcast()
			c.mu.Unlock()
		}
	}()
}

func (c *client) send(m proto.Message) error {
	return websocket.Message.Send(c.ws, mustMarshal(m))
}

func (c *client) sendBytes(b []byte) error { return websocket.Message.Send(c.ws, b) }

// waitFor waits until pred holds on some received message at index >= from; returns its index
func (c *client) waitFor(from int, timeout time.Duration, pred func(received) bool) (int, bool) {
	dl := time.Now().Add(timeout)
	c.mu.Lock()
	defer c.mu.Unlock()
	i := from
	for {
		for ; i < len(c.msgs); i++ {
			if pred(c.msgs[i]) {
				return i, true
			}
		}
		if c.closed || time.Now().After(dl) {
			return -1, false
		}
		t := time.AfterFunc(20*time.Millisecond, func() { c.mu.Lock(); c.cond.Broadcast(); c.mu.Unlock() })
		c.cond.Wait()
		t.Stop()
	}
}

func (c *client) mark() int { c.mu.Lock(); defer c.mu.Unlock(); return len(c.msgs) }

func (c *client) snapshot(from int) []received {
	c.mu.Lock()
	defer c.mu.Unlock()
	return append([]received(nil), c.msgs[from:]...)
}

func (c *client) isClosed() bool { c.mu.Lock(); defer c.mu.Unlock(); return c.closed }

func (c *client) reset() {
	c.tcp.SetLinger(0)
	c.tcp.Close()
}

var ridN uint32

func nextRid() uint32 { return atomic.AddUint32(&ridN, 1) }

func now() *timestamppb.Timestamp { return timestamppb.Now() }

// join joins (sid "" = new session); returns session id and participant id
func (c *client) join(sid string) (string, uint32, error) {
	rid := nextRid()
	from := c.mark()
	if err := c.send(&hagallpb.ParticipantJoinRequest{Type: hagallpb.MsgType_MSG_TYPE_PARTICIPANT_JOIN_REQUEST, Timestamp: now(), RequestId: rid, SessionId: sid}); err != nil {
		return "", 0, err
	}
	i, ok := c.waitFor(from, 3*time.Second, func(r received) bool { return r.Type == 4 || r.Type == 0 })
	if !ok {
		return "", 0, fmt.Errorf("no join response")
	}
	var res hagallpb.ParticipantJoinResponse
	r := c.snapshot(i)[0]
	if r.Type != 4 {
		return "", 0, fmt.Errorf("join refused")
	}
	proto.Unmarshal(r.Body, &res)
	return res.SessionId, res.ParticipantId, nil
}

func (c *client) addEntity(persist bool) (uint32, error) {
	rid := nextRid()
	from := c.mark()
	if err := c.send(&hagallpb.EntityAddRequest{Type: hagallpb.MsgType_MSG_TYPE_ENTITY_ADD_REQUEST, Timestamp: now(), RequestId: rid, Persist: persist, Pose: pose(1)}); err != nil {
		return 0, err
	}
	i, ok := c.waitFor(from, 3*time.Second, func(r received) bool { return r.Type == 9 })
	if !ok {
		return 0, fmt.Errorf("no entity add response")
	}
	var res hagallpb.EntityAddResponse
	proto.Unmarshal(c.snapshot(i)[0].Body, &res)
	return res.EntityId, nil
}

// ping: round trip through the connection's main loop
func (c *client) ping(timeout time.Duration) bool {
	rid := nextRid()
	from := c.mark()
	if err := c.send(&hagallpb.Request{Type: hagallpb.MsgType_MSG_TYPE_PING_REQUEST, Timestamp: now(), RequestId: rid}); err != nil {
		return false
	}
	_, ok := c.waitFor(from, timeout, func(r received) bool {
		if r.Type != 39 {
			return false
		}
		var res hagallpb.Response
		proto.Unmarshal(r.Body, &res)
		return res.RequestId == rid
	})
	return ok
}

// members: participants of a session as a fresh joiner is told (then the probe leaves)
func (s *l2server) members(sid string) ([]uint32, error) {
	p, err := s.dial("", 0)
	if err != nil {
		return nil, err
	}
	defer func() {
		p.tcp.Close()
		if r := s.rec(p.tag, time.Second); r != nil {
			select {
			case <-r.returned:
			case <-time.After(2 * time.Second):
			}
		}
	}()
	p.startReading()
	rid := nextRid()
	if err := p.send(&hagallpb.ParticipantJoinRequest{Type: hagallpb.MsgType_MSG_TYPE_PARTICIPANT_JOIN_REQUEST, Timestamp: now(), RequestId: rid, SessionId: sid}); err != nil {
		return nil, err
	}
	i, ok := p.waitFor(0, 3*time.Second, func(r received) bool { return r.Type == 2 || r.Type == 0 })
	if !ok {
		return nil, fmt.Errorf("probe: no session state")
	}
	r := p.snapshot(i)[0]
	if r.Type == 0 {
		return nil, nil // session does not exist any more
	}
	var st hagallpb.SessionState
	proto.Unmarshal(r.Body, &st)
	var out []uint32
	for _, x := range st.Participants {
		out = append(out, x.Id)
	}
	sort.Slice(out, func(i, j int) bool { return out[i] < out[j] })
	return out, nil
}

// frame builds one masked client frame (x/net/websocket hybi framing)
func frame(opcode byte, payload []byte) []byte {
	var b []byte
	b = append(b, 0x80|opcode)
	n := len(payload)
	switch {
	case n < 126:
		b = append(b, 0x80|byte(n))
	case n < 65536:
		b = append(b, 0x80|126, byte(n>>8), byte(n))
	default:
		b = append(b, 0x80|127)
		var l [8]byte
		binary.BigEndian.PutUint64(l[:], uint64(n))
		b = append(b, l[:]...)
	}
	mask := [4]byte{1, 2, 3, 4}
	b = append(b, mask[:]...)
	for i, x := range payload {
		b = append(b, x^mask[i%4])
	}
	return b
}

// ---------------------------------------------------------------- outcomes

type Outcome struct {
	Script string `json:"script"`
	Param  int    `json:"param"`
	Rep    int    `json:"rep"`
	Joined bool   `json:"joined"`
	// observables
	Returned        bool   `json:"returned"`          // websocket.Handle returned within the deadline
	ReturnedByPanic bool   `json:"returned_by_panic"` // ... by a panic (net/http recovered it)
	ReturnMs        int64  `json:"return_ms"`
	DisconnectCalls int    `json:"disconnect_calls"`
	GaugeBack       bool   `json:"gauge_back"`
	GoroutinesBack  bool   `json:"goroutines_back"`
	LeaveSeen       int    `json:"leave_seen"`       // leave broadcasts for the offender seen by the witness of the same session
	DeletesOK       bool   `json:"deletes_ok"`       // exactly the non persistent entities of the offender were deleted, once each
	Ghost           bool   `json:"ghost"`            // the offender is still listed as a member afterwards
	SameSessionOK   bool   `json:"same_session_ok"`  // witness of the same session gets an answer afterwards
	OtherSessionOK  bool   `json:"other_session_ok"` // witness of another session gets an answer afterwards
	EndedEarly      bool   `json:"ended_early"`      // (idle scripts) the connection was ended while it was still sending
	Note            string `json:"note,omitempty"`
	Class           string `json:"class"`     // projection compared with Conn.v: clean | wedged | ghost | double | crash
	Model           string `json:"model"`     // the client behaviour of this script in the alphabet of Conn.v (tokens of oracle/conn/driver.ml)
	WantKept        bool   `json:"want_kept"` // the script expects the connection to stay open
}

type l2env struct {
	s        *l2server
	w1       *client // witness, member of session S1
	w2       *client // witness, member of another session
	s1       string
	quick    bool
	deadline time.Duration
}

func (e *l2env) setupWitnesses() error {
	var err error
	if e.w1, err = e.s.dial("", 0); err != nil {
		return err
	}
	e.w1.startReading()
	if e.s1, _, err = e.w1.join(""); err != nil {
		return err
	}
	if e.w2, err = e.s.dial("", 0); err != nil {
		return err
	}
	e.w2.startReading()
	if _, _, err = e.w2.join(""); err != nil {
		return err
	}
	return nil
}

type offender struct {
	c      *client
	pid    uint32
	ents   []uint32 // non persistent
	pents  []uint32 // persistent
	g0     float64
	n0     int
	w1mark int
	joined bool
}

// begin opens the offender connection; joined: member of S1 with one non persistent and one persistent entity
func (e *l2env) begin(joined bool, params string, rcvbuf int) (*offender, error) {
	o := &offender{g0: gaugeClients(), n0: handlerGoroutines(), w1mark: e.w1.mark(), joined: joined}
	c, err := e.s.dial(params, rcvbuf)
	if err != nil {
		return nil, err
	}
	o.c = c
	if joined {
		c.startReading()
		if _, o.pid, err = c.join(e.s1); err != nil {
			return nil, err
		}
		a, err := c.addEntity(false)
		if err != nil {
			return nil, err
		}
		b, err := c.addEntity(true)
		if err != nil {
			return nil, err
		}
		o.ents, o.pents = []uint32{a}, []uint32{b}
		// the witness has seen both adds: a barrier so that later broadcasts are attributable
		e.w1.waitFor(o.w1mark, 2*time.Second, func(r received) bool {
			if r.Type != 10 {
				return false
			}
			var m hagallpb.EntityAddBroadcast
			proto.Unmarshal(r.Body, &m)
			return m.Entity.GetId() == b
		})
	}
	return o, nil
}

// observe waits for the end of the offender's connection shell and collects the observables
func (e *l2env) observe(o *offender, out *Outcome) {
	out.Joined = o.joined
	rec := e.s.rec(o.c.tag, time.Second)
	t0 := time.Now()
	if rec != nil {
		select {
		case <-rec.returned:
			out.Returned = true
			out.ReturnedByPanic = !rec.normal
		case <-time.After(e.deadline):
			// a wedge is permanent: before calling it one, wait as long again (a loaded machine is slow, not stuck)
			select {
			case <-rec.returned:
				out.Returned = true
				out.ReturnedByPanic = !rec.normal
				out.Note += "slow return; "
			case <-time.After(e.deadline):
			}
		}
		out.DisconnectCalls = int(atomic.LoadInt32(&rec.discCalls))
	} else {
		out.Note += "no server-side record; "
	}
	out.ReturnMs = time.Since(t0).Milliseconds()
	if !out.Returned {
		out.Note += "blocked: " + wedgeSites() + "; "
	}
	// gauge and goroutines settle shortly after the return
	settle := time.Now().Add(time.Second)
	if !out.Returned {
		settle = time.Now()
	}
	for {
		// no other connection is opened or closed by the harness between begin and here
		out.GaugeBack = gaugeClients() == o.g0
		out.GoroutinesBack = handlerGoroutines() <= o.n0
		if (out.GaugeBack && out.GoroutinesBack) || time.Now().After(settle) {
			break
		}
		time.Sleep(5 * time.Millisecond)
	}
	if o.joined {
		// the same-session witness: a ping round trip is a barrier after which every broadcast of the departure has arrived
		out.SameSessionOK = e.w1.ping(2 * time.Second)
		dels := map[uint32]int{}
		for _, r := range e.w1.snapshot(o.w1mark) {
			switch r.Type {
			case 7:
				var m hagallpb.ParticipantLeaveBroadcast
				proto.Unmarshal(r.Body, &m)
				if m.ParticipantId == o.pid {
					out.LeaveSeen++
				}
			case 13:
				var m hagallpb.EntityDeleteBroadcast
				proto.Unmarshal(r.Body, &m)
				dels[m.EntityId]++
			}
		}
		out.DeletesOK = true
		for _, id := range o.ents {
			if dels[id] != 1 {
				out.DeletesOK = false
			}
		}
		for _, id := range o.pents {
			if dels[id] != 0 {
				out.DeletesOK = false
			}
		}
		if mem, err := e.s.members(e.s1); err == nil {
			for _, p := range mem {
				if p == o.pid {
					out.Ghost = true
				}
			}
		} else {
			out.Note += "probe failed: " + err.Error() + "; "
		}
	} else {
		out.SameSessionOK = e.w1.ping(2 * time.Second)
	}
	out.OtherSessionOK = e.w2.ping(2 * time.Second)
	out.Class = classify(out)
}

// classify projects the observables to the outcome classes of Conn.v
func classify(o *Outcome) string {
	switch {
	case !o.Returned:
		return "wedged"
	case o.ReturnedByPanic || o.DisconnectCalls == 0 || o.Ghost:
		return "ghost"
	case o.DisconnectCalls > 1 || o.LeaveSeen > 1:
		return "double"
	default:
		return "clean"
	}
}

// holds: the property predicate evaluated on the implementation's observables
func (o *Outcome) holds() (bool, string) {
	if o.WantKept {
		if o.EndedEarly {
			return false, "a connection that keeps sending was disconnected"
		}
	}
	var bad []string
	if !o.Returned {
		bad = append(bad, "websocket.Handle did not return")
	}
	if o.ReturnedByPanic {
		bad = append(bad, "websocket.Handle left by a panic")
	}
	if o.DisconnectCalls != 1 {
		bad = append(bad, fmt.Sprintf("HandleDisconnect called %d times", o.DisconnectCalls))
	}
	if !o.GaugeBack {
		bad = append(bad, "ws_connected_clients did not return to its previous value")
	}
	if !o.GoroutinesBack {
		bad = append(bad, "goroutines of the connection shell still alive")
	}
	if o.Joined {
		if o.LeaveSeen != 1 {
			bad = append(bad, fmt.Sprintf("witness saw %d leave broadcasts", o.LeaveSeen))
		}
		if !o.DeletesOK {
			bad = append(bad, "witness did not see exactly the deletes of the leaver's non persistent entities")
		}
		if o.Ghost {
			bad = append(bad, "the leaver is still a member of its session")
		}
	}
	if !o.SameSessionOK {
		bad = append(bad, "witness in the same session gets no answer")
	}
	if !o.OtherSessionOK {
		bad = append(bad, "witness in another session gets no answer")
	}
	return len(bad) == 0, strings.Join(bad, "; ")
}

// ---------------------------------------------------------------- scripts

func failingUnjoined() []byte {
	return mustMarshal(&hagallpb.EntityAddRequest{Type: hagallpb.MsgType_MSG_TYPE_ENTITY_ADD_REQUEST, Timestamp: now(), RequestId: nextRid()})
}

func failingJoined() []byte {
	// answered BAD_REQUEST, then the handler returns an error (websocket/realtime.go HandleReceipt)
	return mustMarshal(&hagallpb.ReceiptRequest{Type: hagallpb.MsgType_MSG_TYPE_RECEIPT_REQUEST, Timestamp: now(), RequestId: nextRid()})
}

// burst: n failing requests written in one TCP write
func (e *l2env) scriptBurst(n int, joined bool, rep int) Outcome {
	out := Outcome{Script: "burst", Param: n, Rep: rep, Model: fmt.Sprintf("F*%d", n)}
	if joined {
		out.Script = "burst_joined"
		out.Model = fmt.Sprintf("J V V F*%d", n)
	}
	o, err := e.begin(joined, "", 0)
	if err != nil {
		out.Note = "setup: " + err.Error()
		out.Class = "setup-failed"
		return out
	}
	var buf []byte
	for i := 0; i < n; i++ {
		if joined {
			buf = append(buf, frame(2, failingJoined())...)
		} else {
			buf = append(buf, frame(2, failingUnjoined())...)
		}
	}
	o.c.tcp.Write(buf)
	if !joined {
		o.c.startReading()
	}
	e.observe(o, &out)
	o.c.tcp.Close()
	return out
}

// burstmix: a member sends one failing request followed, in the same TCP write, by n valid requests and
// pose updates: the scheduler queue fills up while the main loop is ending the connection
func (e *l2env) scriptBurstMix(n int, rep int, params string) Outcome {
	out := Outcome{Script: "burst_mixed", Param: n, Rep: rep, Model: fmt.Sprintf("J V V D*5 F V*%d", n)}
	o, err := e.begin(true, params, 0)
	if err != nil {
		out.Note = "setup: " + err.Error()
		out.Class = "setup-failed"
		return out
	}
	var buf []byte
	for i := 0; i < 5; i++ {
		buf = append(buf, frame(2, mustMarshal(&hagallpb.EntityUpdatePose{Type: hagallpb.MsgType_MSG_TYPE_ENTITY_UPDATE_POSE, Timestamp: now(), EntityId: o.ents[0], Pose: pose(float32(i))}))...)
	}
	buf = append(buf, frame(2, failingJoined())...)
	for i := 0; i < n; i++ {
		buf = append(buf, frame(2, mustMarshal(&hagallpb.Request{Type: hagallpb.MsgType_MSG_TYPE_PING_REQUEST, Timestamp: now(), RequestId: nextRid()}))...)
		if i%3 == 0 {
			buf = append(buf, frame(2, mustMarshal(&hagallpb.EntityUpdatePose{Type: hagallpb.MsgType_MSG_TYPE_ENTITY_UPDATE_POSE, Timestamp: now(), EntityId: o.ents[0], Pose: pose(float32(i))}))...)
		}
	}
	o.c.tcp.Write(buf)
	e.observe(o, &out)
	o.c.tcp.Close()
	return out
}

// fullqueue: a member parks 64 pose updates (pending until the next frame tick), sends a request that keeps its main
// loop busy for 300 ms and then fails, and fills the scheduler queue (256) with valid requests meanwhile: the frame
// worker blocks on the full queue while the connection is being ended. Deterministic (the busy window is 20 frames).
func (e *l2env) scriptFullQueue(rep int) Outcome {
	out := Outcome{Script: "full_queue_end", Param: 320, Rep: rep, Model: "J V V D*5 F V*600"}
	o, err := e.begin(true, "slowfail=300ms", 0)
	if err != nil {
		out.Note = "setup: " + err.Error()
		out.Class = "setup-failed"
		return out
	}
	var buf []byte
	for i := 0; i < 64; i++ {
		buf = append(buf, frame(2, mustMarshal(&hagallpb.EntityUpdatePose{Type: hagallpb.MsgType_MSG_TYPE_ENTITY_UPDATE_POSE, Timestamp: now(), EntityId: uint32(1000 + i), Pose: pose(float32(i))}))...)
	}
	buf = append(buf, frame(2, mustMarshal(&hagallpb.CustomMessage{Type: hagallpb.MsgType_MSG_TYPE_CUSTOM_MESSAGE, Timestamp: now(), Body: []byte("SLOWFAIL")}))...)
	for i := 0; i < 320; i++ {
		buf = append(buf, frame(2, mustMarshal(&hagallpb.Request{Type: hagallpb.MsgType_MSG_TYPE_PING_REQUEST, Timestamp: now(), RequestId: nextRid()}))...)
	}
	o.c.tcp.Write(buf)
	e.observe(o, &out)
	o.c.tcp.Close()
	return out
}

// idlebusy: the idle timer (100 ms) fires WHILE the main loop is busy with a request of this client (150 ms), and more
// requests of the client are queued behind it: when the loop comes back, the idle tick, the queued requests and (once the
// tick has been consumed) the queued disconnection are all ready at once, in every order the select may pick them. Whatever
// the order, the connection must end through the normal path (at the latest once the client has fallen silent).
func (e *l2env) scriptIdleBusy(rep int) Outcome {
	out := Outcome{Script: "idle_fires_while_busy", Rep: rep, Model: "J V V V*30 T*100 Y T*100 Y T*100"}
	o, err := e.begin(true, "idle=100ms&sync=1h&slowfail=150ms", 0)
	if err != nil {
		out.Note = "setup: " + err.Error()
		out.Class = "setup-failed"
		return out
	}
	// six busy periods, each followed by a few quick requests: six chances for the select to see the idle tick, queued
	// requests and the queued disconnection ready together
	var buf []byte
	for k := 0; k < 6; k++ {
		buf = append(buf, frame(2, mustMarshal(&hagallpb.CustomMessage{Type: hagallpb.MsgType_MSG_TYPE_CUSTOM_MESSAGE, Timestamp: now(), Body: []byte("SLOWOK")}))...)
		for i := 0; i < 4; i++ {
			buf = append(buf, frame(2, mustMarshal(&hagallpb.Request{Type: hagallpb.MsgType_MSG_TYPE_PING_REQUEST, Timestamp: now(), RequestId: nextRid()}))...)
		}
	}
	o.c.tcp.Write(buf)
	e.observe(o, &out)
	o.c.tcp.Close()
	return out
}

// malformed frames
func (e *l2env) scriptMalformed(kind int, joined bool) Outcome {
	names := []string{"truncated_protobuf", "text_frame", "no_timestamp", "garbage_1MiB", "raw_garbage_bytes", "undecodable_body", "huge_declared_length", "unknown_opcode"}
	out := Outcome{Script: "malformed_" + names[kind], Param: kind}
	out.Model = []string{"B", "B", "B", "B", "B", "F", "B C", "B C"}[kind]
	if joined {
		out.Script += "_joined"
		out.Model = "J V V " + out.Model
	}
	o, err := e.begin(joined, "", 0)
	if err != nil {
		out.Note = "setup: " + err.Error()
		out.Class = "setup-failed"
		return out
	}
	if !joined {
		o.c.startReading()
	}
	valid := mustMarshal(&hagallpb.Request{Type: hagallpb.MsgType_MSG_TYPE_PING_REQUEST, Timestamp: now(), RequestId: 1})
	switch kind {
	case 0:
		o.c.tcp.Write(frame(2, valid[:len(valid)-1]))
	case 1:
		o.c.tcp.Write(frame(1, []byte("hello")))
	case 2:
		o.c.tcp.Write(frame(2, mustMarshal(&hagallpb.Request{Type: hagallpb.MsgType_MSG_TYPE_PING_REQUEST, RequestId: 1})))
	case 3:
		g := make([]byte, 1<<20)
		for i := range g {
			g[i] = byte(i*7 + 13)
		}
		o.c.tcp.Write(frame(2, g))
	case 4:
		g := make([]byte, 4096)
		for i := range g {
			g[i] = byte(i*31 + 7)
		}
		o.c.tcp.Write(g)
	case 5:
		// passes the receiver (hagallpb.Msg parses), fails in the handler's own decoding
		b := mustMarshal(&hagallpb.Msg{Type: hagallpb.MsgType_MSG_TYPE_ENTITY_ADD_REQUEST, Timestamp: now()})
		b = append(b, 0x1a, 0x03, 0xff, 0xfe, 0xfd) // field 3 (pose), 3 bytes of garbage
		o.c.tcp.Write(frame(2, b))
	case 6:
		// a frame header announcing 2^40 bytes, then nothing
		o.c.tcp.Write([]byte{0x82, 0x80 | 127, 0, 0, 1, 0, 0, 0, 0, 0, 1, 2, 3, 4})
		time.Sleep(50 * time.Millisecond)
		o.c.tcp.Close()
	case 7:
		o.c.tcp.Write(frame(0xb, []byte("x")))
		time.Sleep(50 * time.Millisecond)
		o.c.tcp.Close()
	}
	e.observe(o, &out)
	o.c.tcp.Close()
	return out
}

// reset: abrupt TCP reset at point k of a short session
func (e *l2env) scriptReset(k int) Outcome {
	out := Outcome{Script: "reset", Param: k}
	out.Model = []string{"X", "J X", "J V V X", "J V V X", "J V V V*200 X", "J V V C", "J V V C"}[k]
	joined := k >= 2
	o, err := e.begin(joined, "", 0)
	if err != nil {
		out.Note = "setup: " + err.Error()
		out.Class = "setup-failed"
		return out
	}
	switch k {
	case 0: // right after the handshake
	case 1: // join request written, response not read
		o.c.send(&hagallpb.ParticipantJoinRequest{Type: hagallpb.MsgType_MSG_TYPE_PARTICIPANT_JOIN_REQUEST, Timestamp: now(), RequestId: nextRid()})
	case 2: // member with entities, idle
	case 3: // in the middle of a frame
		f := frame(2, mustMarshal(&hagallpb.EntityAddRequest{Type: hagallpb.MsgType_MSG_TYPE_ENTITY_ADD_REQUEST, Timestamp: now(), RequestId: nextRid(), Pose: pose(1)}))
		o.c.tcp.Write(f[:len(f)/2])
	case 4: // after a burst of valid requests whose answers are not read
		var buf []byte
		for i := 0; i < 200; i++ {
			buf = append(buf, frame(2, mustMarshal(&hagallpb.Request{Type: hagallpb.MsgType_MSG_TYPE_PING_REQUEST, Timestamp: now(), RequestId: nextRid()}))...)
		}
		o.c.tcp.Write(buf)
	case 5: // polite close frame, then FIN
		o.c.tcp.Write(frame(8, []byte{0x03, 0xe8}))
		time.Sleep(20 * time.Millisecond)
		o.c.tcp.Close()
		e.observe(o, &out)
		return out
	case 6: // half close: FIN without reset, the client keeps reading
		o.c.tcp.CloseWrite()
		e.observe(o, &out)
		o.c.tcp.Close()
		return out
	}
	o.c.reset()
	e.observe(o, &out)
	return out
}

// stall: a member of S1 stops reading while another member floods the session; then it resets.
// Observed offender = the stalled member.
func (e *l2env) scriptStall(variant int) Outcome {
	out := Outcome{Script: "stall_then_close", Param: variant, Model: "J S E*600 X"}
	params := ""
	if variant == 1 {
		out.Script = "stall_silent_idle"
		out.Model = "J S E*600 Y T*300"
		params = "idle=700ms&sync=50ms"
	}
	if variant == 2 {
		// stops reading but keeps SENDING (a pose update every 50 ms): it is not idle, but everything sent to it piles up;
		// the write deadline must end it all the same
		out.Script = "stall_keeps_sending"
		out.Model = "J S E*600 D*40 Y T*300"
		params = "idle=700ms&sync=50ms"
	}
	fail := func(err error) Outcome {
		out.Note = "setup: " + err.Error()
		out.Class = "setup-failed"
		return out
	}
	o := &offender{g0: gaugeClients(), n0: handlerGoroutines(), w1mark: e.w1.mark(), joined: true}
	// the flooder: an ordinary member that reads (and discards) what it is sent
	fl, err := e.s.dial("", 0)
	if err != nil {
		return fail(err)
	}
	fl.startReading()
	if _, _, err := fl.join(e.s1); err != nil {
		return fail(err)
	}
	closeFlooder := func() {
		fl.tcp.Close()
		if r := e.s.rec(fl.tag, time.Second); r != nil {
			select {
			case <-r.returned:
			case <-time.After(e.deadline):
			}
		}
	}
	// the stalled member: joins, reads up to its join response, then never reads again (small receive buffer)
	st, err := e.s.dial(params, 4096)
	if err != nil {
		return fail(err)
	}
	o.c = st
	st.send(&hagallpb.ParticipantJoinRequest{Type: hagallpb.MsgType_MSG_TYPE_PARTICIPANT_JOIN_REQUEST, Timestamp: now(), RequestId: nextRid(), SessionId: e.s1})
	st.tcp.SetReadDeadline(time.Now().Add(3 * time.Second))
	for o.pid == 0 {
		var b []byte
		if err := websocket.Message.Receive(st.ws, &b); err != nil {
			return fail(err)
		}
		var m hagallpb.ParticipantJoinResponse
		if proto.Unmarshal(b, &m) == nil && m.Type == hagallpb.MsgType_MSG_TYPE_PARTICIPANT_JOIN_RESPONSE {
			o.pid = m.ParticipantId
		}
	}
	st.tcp.SetReadDeadline(time.Time{})
	stopChatter := make(chan struct{})
	defer close(stopChatter)
	if variant == 2 {
		go func() {
			for i := 0; ; i++ {
				select {
				case <-stopChatter:
					return
				case <-time.After(50 * time.Millisecond):
				}
				st.tcp.SetWriteDeadline(time.Now().Add(200 * time.Millisecond))
				if st.send(&hagallpb.EntityUpdatePose{Type: hagallpb.MsgType_MSG_TYPE_ENTITY_UPDATE_POSE, Timestamp: now(), EntityId: 1, Pose: pose(float32(i))}) != nil {
					return
				}
			}
		}()
	}
	// flood: custom messages relayed to every member, the stalled one included
	body := make([]byte, 10000)
	sent := 0
	floodDone := make(chan struct{})
	go func() {
		defer close(floodDone)
		for i := 0; i < 2500; i++ {
			fl.tcp.SetWriteDeadline(time.Now().Add(1500 * time.Millisecond))
			if err := fl.send(&hagallpb.CustomMessage{Type: hagallpb.MsgType_MSG_TYPE_CUSTOM_MESSAGE, Timestamp: now(), Body: body}); err != nil {
				return
			}
			sent++
		}
	}()
	select {
	case <-floodDone:
	case <-time.After(5 * time.Second):
	}
	// while the member is stalled
	witnessOK := e.w1.ping(time.Second)
	otherOK := e.w2.ping(2 * time.Second)
	out.Note = fmt.Sprintf("flood: %d of 2500 messages accepted before the flooder's own connection stopped draining; while stalled: same-session witness answered=%v, other session answered=%v; ", sent, witnessOK, otherOK)
	if variant == 0 {
		// the stalled client goes away
		st.reset()
		<-floodDone
		closeFlooder()
		e.observe(o, &out)
	} else {
		// the stalled client stays: silent for more than the idle timeout by now, the server must end it
		fl.tcp.SetWriteDeadline(time.Now())
		<-floodDone
		if rec := e.s.rec(st.tag, time.Second); rec != nil {
			select {
			case <-rec.returned:
				out.Note += "ended by the server on its own; "
			case <-time.After(e.deadline):
				out.Note += "NOT ended by the server although silent for more than the idle timeout; "
			}
		}
		closeFlooder()
		e.observe(o, &out)
		st.reset()
		if !out.Returned {
			if rec := e.s.rec(st.tag, 0); rec != nil {
				select {
				case <-rec.returned:
					out.Note += "the shell returned only after the client reset the connection; "
				case <-time.After(e.deadline):
					out.Note += "the shell did not return even after the client reset the connection; "
				}
			}
		}
	}
	if !otherOK {
		out.OtherSessionOK = false
	}
	return out
}

// idle: silence for the (shortened) idle timeout ends the connection through the normal path;
// variant 1: a client that keeps pinging is kept, and ended once it falls silent
// variant 2: a client that sends only pose updates while in no session (K5)
func (e *l2env) scriptIdle(variant int) Outcome {
	names := []string{"idle_silent", "idle_pinging", "idle_pose_only_unjoined", "idle_silent_joined", "idle_pose_only_joined", "idle_pose_only_joined_after_a_neighbours_refused_rejoin"}
	out := Outcome{Script: names[variant], Param: variant}
	// the sync clock (sync=100ms here) ticks while the script runs: token Y
	rep24 := func(t string) string { return strings.TrimSpace(strings.Repeat(t+" T*37 Y ", 24)) }
	silence := "T*100 Y T*100 Y T*100"
	out.Model = []string{silence, rep24("V") + " " + silence, rep24("D") + " " + silence, "J V V " + silence, "J V V " + rep24("D") + " " + silence,
		"J V V " + rep24("D") + " " + silence}[variant]
	idle := 800 * time.Millisecond
	joined := variant >= 3
	// variant 5: a neighbour joins S1, is refused a move to a session that does not exist (it has left S1 by then and its
	// frame-handler id is free again), the offender joins (and is handed that id), the neighbour disconnects. The
	// offender's pose updates must still be consumed: it keeps sending and must not be ended as idle.
	var neighbour *client
	nBefore, nShell := handlerGoroutines(), 0
	if variant == 5 {
		if n, err := e.s.dial("", 0); err == nil {
			n.startReading()
			if _, _, err := n.join(e.s1); err == nil {
				n.join("tedxfffe") // refused: no such session
				neighbour = n
				nShell = handlerGoroutines() - nBefore
			}
		}
	}
	o, err := e.begin(joined, "idle="+idle.String()+"&sync=100ms", 0)
	if neighbour != nil {
		neighbour.tcp.Close()
		time.Sleep(150 * time.Millisecond)
		if o != nil {
			// the baselines were taken while the neighbour was connected
			o.g0--
			o.n0 -= nShell
		}
	}
	if err != nil {
		out.Note = "setup: " + err.Error()
		out.Class = "setup-failed"
		return out
	}
	if !joined {
		o.c.startReading()
	}
	rec := e.s.rec(o.c.tag, time.Second)
	t0 := time.Now()
	switch variant {
	case 0, 3:
		// nothing
	case 1, 2, 4, 5:
		out.WantKept = variant != 2
		// keep sending for 3 idle timeouts
		for time.Since(t0) < 3*idle {
			var err error
			switch variant {
			case 1:
				err = o.c.send(&hagallpb.Request{Type: hagallpb.MsgType_MSG_TYPE_PING_REQUEST, Timestamp: now(), RequestId: nextRid()})
			case 2:
				err = o.c.send(&hagallpb.EntityUpdatePose{Type: hagallpb.MsgType_MSG_TYPE_ENTITY_UPDATE_POSE, Timestamp: now(), EntityId: 1, Pose: pose(1)})
			case 4, 5:
				err = o.c.send(&hagallpb.EntityUpdatePose{Type: hagallpb.MsgType_MSG_TYPE_ENTITY_UPDATE_POSE, Timestamp: now(), EntityId: o.ents[0], Pose: pose(1)})
			}
			ended := false
			if rec != nil {
				select {
				case <-rec.returned:
					ended = true
				default:
				}
			}
			if err != nil || ended || o.c.isClosed() {
				out.EndedEarly = true
				break
			}
			time.Sleep(idle / 8)
		}
		out.Note = fmt.Sprintf("kept sending for %dms; ended early=%v; ", time.Since(t0).Milliseconds(), out.EndedEarly)
	}
	// now silent: must be ended within the idle timeout (plus slack)
	e.observe(o, &out)
	if out.Returned && rec != nil {
		out.Note += fmt.Sprintf("ended %dms after the connection opened; ", rec.returnedAt.Sub(t0).Milliseconds())
		if (variant == 0 || variant == 3) && rec.returnedAt.Sub(t0) < idle*3/4 {
			out.Note += "ended before the idle timeout; "
			out.EndedEarly = true
			out.WantKept = true
		}
	}
	o.c.tcp.Close()
	return out
}

// hostile: L1 failing requests replayed over the wire (what a handler panic does to the real stack)
func (e *l2env) scriptHostile(k int) Outcome {
	names := []string{"hostile_ground_plane_no_ray", "hostile_quad_no_center", "hostile_region_no_min", "hostile_quad_nan", "hostile_diagonal_ray", "hostile_then_more_traffic"}
	out := Outcome{Script: names[k], Param: k}
	o, err := e.begin(true, "", 0)
	if err != nil {
		out.Note = "setup: " + err.Error()
		out.Class = "setup-failed"
		return out
	}
	nan := float32(math.NaN())
	var m proto.Message
	switch k {
	case 0, 5:
		m = &dagazpb.DagazGetGroundPlaneRequest{Type: dagazpb.MsgType_MSG_TYPE_DAGAZ_GET_GROUND_PLANE_REQUEST, Timestamp: now(), RequestId: nextRid()}
	case 1:
		m = &dagazpb.DagazQuadSample{Type: dagazpb.MsgType_MSG_TYPE_DAGAZ_QUAD_SAMPLE, Timestamp: now(), Samples: []*dagazpb.Quad{{Extents: pt(1, 0, 1)}}}
	case 2:
		m = &dagazpb.DagazGetRegionRequest{Type: dagazpb.MsgType_MSG_TYPE_DAGAZ_GET_REGION_REQUEST, Timestamp: now(), RequestId: nextRid(), Max: pt(1, 0, 1)}
	case 3:
		m = &dagazpb.DagazQuadSample{Type: dagazpb.MsgType_MSG_TYPE_DAGAZ_QUAD_SAMPLE, Timestamp: now(), Samples: []*dagazpb.Quad{{Center: pt(nan, 0, 1e30), Extents: pt(1, 0, 1)}}}
	case 4:
		m = &dagazpb.DagazGetGroundPlaneRequest{Type: dagazpb.MsgType_MSG_TYPE_DAGAZ_GET_GROUND_PLANE_REQUEST, Timestamp: now(), RequestId: nextRid(),
			Ray: &dagazpb.Ray{From: pt(-5, 1, -3), To: pt(7, -1, 4)}}
	}
	// what the request is for the shell is what the handlers do with it (same binary, handler level)
	kind := l1Kind(mustMarshal(m))
	out.Model = "J V V " + kind
	if k == 5 {
		out.Model += " D*50 V*50"
	}
	announceModel(out.Model) // should the server process die, the parent still knows what was being done
	o.c.send(m)
	if k == 5 {
		// the client keeps talking after the poisonous request
		for i := 0; i < 50; i++ {
			o.c.send(&hagallpb.EntityUpdatePose{Type: hagallpb.MsgType_MSG_TYPE_ENTITY_UPDATE_POSE, Timestamp: now(), EntityId: o.ents[0], Pose: pose(2)})
			o.c.send(&hagallpb.Request{Type: hagallpb.MsgType_MSG_TYPE_PING_REQUEST, Timestamp: now(), RequestId: nextRid()})
			time.Sleep(2 * time.Millisecond)
		}
	}
	// a refused or dropped request keeps the connection open: a well-behaved end follows
	alive := o.c.ping(time.Second)
	out.Note = fmt.Sprintf("handler-level verdict of the request: %s; connection answers after the request: %v; ", kind, alive)
	if alive {
		out.Model += " C"
		o.c.tcp.Close()
	}
	e.observe(o, &out)
	o.c.tcp.Close()
	return out
}

var announceModel = func(string) {}

// ---------------------------------------------------------------- child / parent

type scriptSpec struct {
	Name string
	Reps int
}

func planFor(tier string, burstReps int) []scriptSpec {
	var p []scriptSpec
	for k := 0; k < 8; k++ {
		p = append(p, scriptSpec{fmt.Sprintf("malformed:%d:0", k), 1}, scriptSpec{fmt.Sprintf("malformed:%d:1", k), 1})
	}
	for k := 0; k <= 6; k++ {
		p = append(p, scriptSpec{fmt.Sprintf("reset:%d", k), 2})
	}
	for v := 0; v < 6; v++ {
		p = append(p, scriptSpec{fmt.Sprintf("idle:%d", v), 1})
	}
	for k := 0; k < 6; k++ {
		p = append(p, scriptSpec{fmt.Sprintf("hostile:%d", k), 1})
	}
	p = append(p, scriptSpec{"stall:0", 1}, scriptSpec{"stall:1", 1}, scriptSpec{"stall:2", 1}, scriptSpec{"idlebusy:0", 8})
	for _, n := range []int{1, 8, 9, 40, 300} {
		p = append(p, scriptSpec{fmt.Sprintf("burst:%d:0", n), burstReps}, scriptSpec{fmt.Sprintf("burst:%d:1", n), burstReps / 4})
	}
	p = append(p, scriptSpec{"burstmix:600:0", burstReps / 4}, scriptSpec{"burstmix:600:1", burstReps / 4})
	p = append(p, scriptSpec{"fullqueue:0", 3})
	return p
}

func (e *l2env) run(name string, rep int) Outcome {
	p := strings.Split(name, ":")
	arg := func(i int) int {
		if i < len(p) {
			n, _ := strconv.Atoi(p[i])
			return n
		}
		return 0
	}
	var o Outcome
	switch p[0] {
	case "malformed":
		o = e.scriptMalformed(arg(1), arg(2) == 1)
	case "reset":
		o = e.scriptReset(arg(1))
	case "idle":
		o = e.scriptIdle(arg(1))
	case "hostile":
		o = e.scriptHostile(arg(1))
	case "stall":
		o = e.scriptStall(arg(1))
	case "burst":
		o = e.scriptBurst(arg(1), arg(2) == 1, rep)
	case "fullqueue":
		o = e.scriptFullQueue(rep)
	case "idlebusy":
		o = e.scriptIdleBusy(rep)
	case "burstmix":
		params := ""
		if arg(2) == 1 {
			params = "frame=200us"
		}
		o = e.scriptBurstMix(arg(1), rep, params)
	default:
		o = Outcome{Script: name, Class: "setup-failed", Note: "unknown script"}
	}
	o.Rep = rep
	return o
}

// l2Child: runs the scripts named on stdin-free argv (`-scripts a,b,c -reps n,n,n`), one JSON line per outcome
func l2Child(args []string) int {
	fs := flag.NewFlagSet("l2child", flag.ExitOnError)
	scripts := fs.String("scripts", "", "comma separated script names")
	reps := fs.String("reps", "", "comma separated repetition counts")
	from := fs.Int("from", 0, "first repetition of the first script")
	deadline := fs.Duration("deadline", 2*time.Second, "how long websocket.Handle may take to return")
	fs.Parse(args)
	s := newL2Server()
	e := &l2env{s: s, deadline: *deadline}
	w := bufio.NewWriter(os.Stdout)
	emit := func(kind string, v interface{}) {
		b, _ := json.Marshal(v)
		fmt.Fprintf(w, "%s %s\n", kind, b)
		w.Flush()
	}
	if err := e.setupWitnesses(); err != nil {
		emit("X", map[string]string{"error": "witness setup: " + err.Error()})
		return 3
	}
	announceModel = func(m string) { emit("M", map[string]string{"model": m}) }
	names := strings.Split(*scripts, ",")
	rs := strings.Split(*reps, ",")
	for i, name := range names {
		n := 1
		if i < len(rs) {
			n, _ = strconv.Atoi(rs[i])
		}
		start := 0
		if i == 0 {
			start = *from
		}
		for r := start; r < n; r++ {
			emit("B", map[string]interface{}{"script": name, "rep": r})
			o := e.run(name, r)
			emit("O", o)
			// a witness that lost its connection (it should never) is replaced so that later scripts still run
			if o.Joined && o.Class != "clean" {
				// the session of the witnesses may be damaged by what just happened: later runs get fresh ones
				e.w1.tcp.Close()
				e.w2.tcp.Close()
				time.Sleep(50 * time.Millisecond)
			}
			if e.w1.isClosed() || e.w2.isClosed() {
				emit("W", map[string]string{"note": "witnesses replaced after " + name})
				if err := e.setupWitnesses(); err != nil {
					emit("X", map[string]string{"error": "witness setup: " + err.Error()})
					return 3
				}
			}
		}
	}
	emit("Z", map[string]int{"goroutines": handlerGoroutines()})
	return 0
}

type l2Report struct {
	Outcomes   []Outcome                 `json:"outcomes"`     // bursts: only the non clean ones and a few samples
	Counts     map[string]map[string]int `json:"class_counts"` // script(param) -> class -> count
	Violations []Outcome                 `json:"violations"`
	Crashes    []map[string]string       `json:"crashes"`
	Runs       int                       `json:"runs"`
	WallS      float64                   `json:"wall_s"`
	Distinct   []string                  `json:"distinct_cases"` // script|model tokens|class, for the comparison with Conn.v
}

func l2Parent(args []string) int {
	fs := flag.NewFlagSet("l2", flag.ExitOnError)
	tier := fs.String("tier", "quick", "")
	outPath := fs.String("out", "l2.json", "")
	burstReps := fs.Int("burstreps", 300, "repetitions of each burst script")
	only := fs.String("only", "", "only scripts whose name starts with this")
	deadline := fs.Duration("deadline", 2*time.Second, "")
	maxViol := fs.Int("maxviol", 25, "stop a repeated script after this many violations")
	maxTotal := fs.Int("maxtotal", 0, "stop the whole run after this many violations (0 = never)")
	fs.Parse(args)
	t0 := time.Now()
	plan := planFor(*tier, *burstReps)
	if *only != "" {
		var p2 []scriptSpec
		for _, s := range plan {
			if strings.HasPrefix(s.Name, *only) {
				p2 = append(p2, s)
			}
		}
		plan = p2
	}
	rep := l2Report{Counts: map[string]map[string]int{}, Violations: []Outcome{}, Outcomes: []Outcome{}, Crashes: []map[string]string{}}
	self, _ := os.Executable()
	distinct := map[string]bool{}
	idx, from := 0, 0
	for idx < len(plan) {
		var names, reps []string
		for _, s := range plan[idx:] {
			names = append(names, s.Name)
			reps = append(reps, strconv.Itoa(s.Reps))
		}
		cmd := exec.Command(self, "l2child", "-scripts", strings.Join(names, ","), "-reps", strings.Join(reps, ","), "-from", strconv.Itoa(from), "-deadline", deadline.String())
		cmd.Env = append(os.Environ(), "GOTRACEBACK=all")
		stdout, _ := cmd.StdoutPipe()
		var stderr tailBuf
		cmd.Stderr = &stderr
		if err := cmd.Start(); err != nil {
			fmt.Fprintln(os.Stderr, "cannot start child:", err)
			return 2
		}
		sc := bufio.NewScanner(stdout)
		sc.Buffer(make([]byte, 1<<20), 1<<24)
		curScript, curRep := "", 0
		lastModel := "J V V P D*50 V*50"
		done := false
		violPerScript := map[string]int{}
		killedFor := ""
		for killedFor == "" && sc.Scan() {
			l := sc.Text()
			switch {
			case strings.HasPrefix(l, "B "):
				var b struct {
					Script string
					Rep    int
				}
				json.Unmarshal([]byte(l[2:]), &b)
				curScript, curRep = b.Script, b.Rep
			case strings.HasPrefix(l, "O "):
				var o Outcome
				json.Unmarshal([]byte(l[2:]), &o)
				rep.Runs++
				name := curScript
				if rep.Counts[name] == nil {
					rep.Counts[name] = map[string]int{}
				}
				rep.Counts[name][o.Class]++
				distinct[fmt.Sprintf("%s|%s|%s", name, o.Model, o.Class)] = true
				ok, why := o.holds()
				if !ok {
					o.Note += "PROPERTY: " + why
					if len(rep.Violations) < 200 {
						rep.Violations = append(rep.Violations, o)
					}
					violPerScript[name]++
				}
				if !ok || o.Rep < 1 || !strings.HasPrefix(name, "burst") {
					if len(rep.Outcomes) < 400 {
						rep.Outcomes = append(rep.Outcomes, o)
					}
				}
				curScript = ""
				// a repeated script that keeps failing has made its point: move on to the next script
				if violPerScript[name] >= *maxViol || (*maxTotal > 0 && len(rep.Violations) >= *maxTotal) {
					killedFor = name
					cmd.Process.Kill()
				}
			case strings.HasPrefix(l, "M "):
				var m struct{ Model string }
				json.Unmarshal([]byte(l[2:]), &m)
				lastModel = m.Model
			case strings.HasPrefix(l, "X "):
				rep.Crashes = append(rep.Crashes, map[string]string{"script": curScript, "what": l[2:]})
			case strings.HasPrefix(l, "Z "):
				done = true
			}
		}
		if killedFor != "" {
			go func() {
				for sc.Scan() {
				}
			}()
			cmd.Wait()
			for i := idx; i < len(plan); i++ {
				if plan[i].Name == killedFor {
					idx, from = i+1, 0
					break
				}
			}
			if *maxTotal > 0 && len(rep.Violations) >= *maxTotal {
				break
			}
			continue
		}
		err := cmd.Wait()
		if done {
			break
		}
		// the child died: a crash of the server process while curScript was running
		tail := stderr.String()
		where := curScript
		if where == "" {
			where = "(between scripts)"
		}
		rep.Crashes = append(rep.Crashes, map[string]string{"script": where, "rep": strconv.Itoa(curRep), "exit": fmt.Sprint(err), "stderr": firstLines(tail, 4), "frames": repoFrames(tail)})
		rep.Violations = append(rep.Violations, Outcome{Script: where, Rep: curRep, Class: "crash", Model: lastModel, Note: "PROPERTY: the server process died: " + firstLines(tail, 3)})
		if rep.Counts[where] == nil {
			rep.Counts[where] = map[string]int{}
		}
		rep.Counts[where]["crash"]++
		distinct[fmt.Sprintf("%s|%s|crash", where, lastModel)] = true
		// continue after the script that crashed the server
		found := false
		for i := idx; i < len(plan); i++ {
			if plan[i].Name == curScript {
				idx, from = i, curRep+1
				if from >= plan[i].Reps {
					idx, from = i+1, 0
				}
				found = true
				break
			}
		}
		if !found {
			break
		}
		if len(rep.Crashes) > 40 {
			break
		}
	}
	for k := range distinct {
		rep.Distinct = append(rep.Distinct, k)
	}
	sort.Strings(rep.Distinct)
	rep.WallS = time.Since(t0).Seconds()
	b, _ := json.MarshalIndent(rep, "", " ")
	if err := os.WriteFile(*outPath, b, 0o644); err != nil {
		fmt.Fprintln(os.Stderr, err)
		return 2
	}
	fmt.Printf("l2: %d runs, %d violations, %d crashes, %.1fs\n", rep.Runs, len(rep.Violations), len(rep.Crashes), rep.WallS)
	return 0
}

var _ = syscall.SIGQUIT

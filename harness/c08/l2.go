package main

func l2Parent(args []string) int { return 2 }
func l2Child(args []string) int  { return 2 }

//go:build !nohooks

package main

// L1 totality sweep runner.  `sweep` (parent) enumerates the cases and runs them in worker child
// processes (`sweepworker`), each under an address-space limit and watched by a per-case
// deadline, so that an out-of-memory kill, an unrecoverable runtime error or a hang is an
// observed verdict of the case and not a crash of the harness.

import (
	"bufio"
	"context"
	"encoding/hex"
	"encoding/json"
	"fmt"
	"io"
	"os"
	"os/exec"
	"regexp"
	"runtime"
	"runtime/debug"
	"sort"
	"strconv"
	"strings"
	"sync"
	"syscall"
	"time"

	"github.com/aukilabs/hagall-common/messages/dagazpb"
	"github.com/aukilabs/hagall-common/messages/hagallpb"
	"github.com/aukilabs/hagall-common/ncsclient"
	hwebsocket "github.com/aukilabs/hagall-common/websocket"
	"github.com/aukilabs/hagall/featureflag"
	"github.com/aukilabs/hagall/models"
	"github.com/aukilabs/hagall/modules"
	"github.com/aukilabs/hagall/modules/dagaz"
	"github.com/aukilabs/hagall/modules/odal"
	"github.com/aukilabs/hagall/modules/vikja"
	hagallws "github.com/aukilabs/hagall/websocket"
	"google.golang.org/protobuf/proto"
)

// verdicts
const (
	VOk      = "ok"
	VError   = "error"   // the handler (or the scheduler's Dispatch) returned an error: the shell disconnects
	VRefused = "refused" // the receiver would refuse the frame (hagallpb.Msg does not parse): never reaches a handler
	VPanic   = "PANIC"
	VOOM     = "OOM"
	VFatal   = "FATAL" // unrecoverable runtime error other than memory exhaustion
	VHang    = "HANG"
	VGhost   = "GHOST" // state left behind after every connection has been disconnected
)

type nullSink struct{ n *int }

func (s nullSink) Send(pm hwebsocket.ProtoMsg) {
	// production path: handler.send -> MsgFromProto -> sendChan
	if _, err := hwebsocket.MsgFromProto(pm); err == nil {
		*s.n++
	}
}
func (s nullSink) SendMsg(hwebsocket.Msg) { *s.n++ }

type l1conn struct {
	vc   *hagallws.VerifConn
	rh   *hagallws.RealtimeHandler
	sent int
}

type l1env struct {
	store *models.SessionStore
	rchan chan ncsclient.ReceiptPayload
	conns []*l1conn
}

func newL1Env() *l1env {
	return &l1env{store: &models.SessionStore{}, rchan: make(chan ncsclient.ReceiptPayload, 4)}
}

func (e *l1env) connect() *l1conn {
	rh := &hagallws.RealtimeHandler{
		ClientSyncClockInterval: time.Hour,
		ClientIdleTimeout:       time.Hour,
		FrameDuration:           time.Hour,
		Sessions:                e.store,
		Modules:                 []modules.Module{&vikja.Module{}, &odal.Module{}, &dagaz.Module{}},
		FeatureFlags:            featureflag.New(nil),
		ReceiptChan:             e.rchan,
		PrivateKey:              theKey,
	}
	c := &l1conn{rh: rh, vc: hagallws.NewVerifConn(rh, fmt.Sprintf("c%d", len(e.conns)))}
	e.conns = append(e.conns, c)
	return c
}

// feed sends one request through the real path: scheduler.Dispatch, (frame tick), handleMessage.
// returns (verdict, detail)
func (e *l1env) feed(c *l1conn, b []byte) (string, string) {
	msg, err := asWire(b)
	if err != nil {
		return VRefused, ""
	}
	if err := c.vc.Dispatch(context.Background(), msg); err != nil {
		return VError, "dispatch"
	}
	if s := c.rh.CurrentSession(); s != nil {
		s.VerifDispatchFrame()
	}
	verdict := VOk
	for _, m := range c.vc.Drain() {
		err, pan, st := c.vc.HandleTraced(context.Background(), m, nullSink{&c.sent})
		if pan != nil {
			return VPanic, panicSig(pan, st)
		}
		if err != nil {
			verdict = VError
		}
	}
	// drain the receipt channel so that "ReceiptChan full" is not an artefact of the harness
	for len(e.rchan) > 0 {
		<-e.rchan
	}
	return verdict, ""
}

func panicSig(p interface{}, stack string) string {
	s := fmt.Sprint(p)
	if len(s) > 160 {
		s = s[:160]
	}
	return strings.ReplaceAll(s, "\n", " ") + " @ " + repoFrames(stack)
}

func must(v string, d string, what string) {
	if v != VOk {
		panic(fmt.Sprintf("harness: context setup step %q did not succeed: %s %s", what, v, d))
	}
}

// setup brings the connection under test into the case's context; returns it
func (e *l1env) setup(cs *Case) *l1conn {
	a := e.connect()
	H := hagallpb.MsgType_MSG_TYPE_PARTICIPANT_JOIN_REQUEST
	join := func(c *l1conn, sid string) {
		v, d := e.feed(c, mustMarshal(&hagallpb.ParticipantJoinRequest{Type: H, Timestamp: stamp, RequestId: 1, SessionId: sid}))
		must(v, d, "join")
		if c.rh.CurrentParticipant() == nil {
			panic("harness: join did not join")
		}
	}
	addEntity := func(c *l1conn, persist bool) {
		v, d := e.feed(c, mustMarshal(&hagallpb.EntityAddRequest{Type: hagallpb.MsgType_MSG_TYPE_ENTITY_ADD_REQUEST, Timestamp: stamp, RequestId: 2, Persist: persist, Pose: pose(1)}))
		must(v, d, "entity add")
	}
	addType := func(c *l1conn) {
		v, d := e.feed(c, mustMarshal(&hagallpb.EntityComponentTypeAddRequest{Type: hagallpb.MsgType_MSG_TYPE_ENTITY_COMPONENT_TYPE_ADD_REQUEST, Timestamp: stamp, RequestId: 3, EntityComponentTypeName: "color"}))
		must(v, d, "type add")
	}
	switch cs.Ctx {
	case CtxUnjoined:
		// a second session exists so that "tedx2"-like ids can resolve in join cases
	case CtxJoined:
		join(a, "")
	case CtxOwn:
		join(a, "")
		b := e.connect()
		join(b, "tedx1")
		addEntity(a, false) // entity 1, A's
		addEntity(b, false) // entity 2, B's
		addType(a)
		v, d := e.feed(a, mustMarshal(&hagallpb.EntityComponentAddRequest{Type: hagallpb.MsgType_MSG_TYPE_ENTITY_COMPONENT_ADD_REQUEST, Timestamp: stamp, RequestId: 4, EntityComponentTypeId: 1, EntityId: 1, Data: []byte("x")}))
		must(v, d, "component add")
		v, d = e.feed(b, mustMarshal(&hagallpb.EntityComponentTypeSubscribeRequest{Type: hagallpb.MsgType_MSG_TYPE_ENTITY_COMPONENT_TYPE_SUBSCRIBE_REQUEST, Timestamp: stamp, RequestId: 5, EntityComponentTypeId: 1}))
		must(v, d, "subscribe")
		v, d = e.feed(a, mustMarshal(&hagallpb.EntityComponentTypeSubscribeRequest{Type: hagallpb.MsgType_MSG_TYPE_ENTITY_COMPONENT_TYPE_SUBSCRIBE_REQUEST, Timestamp: stamp, RequestId: 5, EntityComponentTypeId: 1}))
		must(v, d, "subscribe")
	case CtxForeign:
		b := e.connect()
		join(b, "")
		join(a, "tedx1")
		addEntity(b, false) // entity 1, B's
		addEntity(b, true)  // entity 2, B's, persistent
		addType(b)
	}
	// another session on the server (id 2) with one member
	o := e.connect()
	join(o, "")
	if cs.Grid == GridTwoQuads && cs.Ctx != CtxUnjoined {
		v, d := e.feed(a, mustMarshal(&dagazpb.DagazQuadSample{Type: dagazpb.MsgType_MSG_TYPE_DAGAZ_QUAD_SAMPLE, Timestamp: stamp,
			Samples: []*dagazpb.Quad{{Center: pt(0.5, 0, 0.5), Extents: pt(0.25, 0, 0.25)}, {Center: pt(5.5, 0, -3.5), Extents: pt(1.5, 0, 1)}}}))
		must(v, d, "grid pre-state")
	}
	return a
}

func (e *l1env) teardown() (string, string) {
	for _, c := range e.conns {
		if p, st := c.vc.DisconnectTraced(nil); p != nil {
			return VPanic, "HandleDisconnect: " + panicSig(p, st)
		}
	}
	for k, s := range e.store.VerifSessions() {
		// every member has left: the registry must be empty (ghost check at L1)
		_ = s
		return VGhost, "ghost: session " + k + " still registered after every connection was disconnected"
	}
	return VOk, ""
}

// runCase executes one case; the result is the worst verdict over the request, its follow-ups and
// the disconnection of every connection.
func runCase(cs *Case) (verdict, detail string, handlerVerdict string) {
	e := newL1Env()
	a := e.setup(cs)
	verdict, detail = e.feed(a, cs.Bytes)
	handlerVerdict = verdict
	if verdict == VPanic {
		detail = "request: " + detail
		return
	}
	// after an error the shell disconnects; follow-ups are only sent on a live connection
	if verdict == VOk {
		for i, f := range cs.Follow {
			v, d := e.feed(a, f)
			if v == VPanic {
				return VPanic, fmt.Sprintf("follow-up %d: %s", i, d), handlerVerdict
			}
			if v == VError {
				break
			}
		}
	}
	if v, d := e.teardown(); v != VOk {
		return v, d, handlerVerdict
	}
	return
}

// ---------------------------------------------------------------- worker

func sweepWorker(from, to int, memMB uint64) {
	if memMB > 0 {
		lim := syscall.Rlimit{Cur: memMB << 20, Max: memMB << 20}
		if err := syscall.Setrlimit(syscall.RLIMIT_AS, &lim); err != nil {
			fmt.Fprintln(os.Stderr, "setrlimit:", err)
			os.Exit(3)
		}
	}
	debug.SetGCPercent(50)
	cases := Enumerate()
	if to > len(cases) {
		to = len(cases)
	}
	w := bufio.NewWriter(os.Stdout)
	for i := from; i < to; i++ {
		fmt.Fprintf(w, "B %d\n", i)
		w.Flush()
		cases[i].Materialise()
		v, d, hv := runCase(&cases[i])
		cases[i].Release()
		fmt.Fprintf(w, "R %d %s %s %s\n", i, v, hv, strconv.Quote(d))
		w.Flush()
		if i%64 == 0 {
			runtime.GC()
			debug.FreeOSMemory()
		}
	}
}

// ---------------------------------------------------------------- parent

type caseResult struct {
	Idx     int    `json:"idx"`
	Name    string `json:"name"`
	Verdict string `json:"verdict"`
	Handler string `json:"handler_verdict"`
	Detail  string `json:"detail,omitempty"`
	Hex     string `json:"request_hex,omitempty"`
}

type sweepReport struct {
	Cases      int                       `json:"cases"`
	Run        int                       `json:"run"`
	ByVerdict  map[string]int            `json:"by_verdict"`
	ByModule   map[string]map[string]int `json:"by_module_verdict"`
	ByCtx      map[string]int            `json:"by_context"`
	Hostile    int                       `json:"hostile_cases"`
	Failures   []caseResult              `json:"failures"`
	Signatures map[string]int            `json:"failure_signatures"`
	Samples    []caseResult              `json:"samples"`
	Stopped    string                    `json:"stopped_early,omitempty"`
	WallS      float64                   `json:"wall_s"`
	Restarts   int                       `json:"worker_restarts"`
}

func isFail(v string) bool {
	return v == VPanic || v == VOOM || v == VFatal || v == VHang || v == VGhost
}

func signature(r caseResult) string {
	d := r.Detail
	// drop the numbers that vary between cases of one defect
	d = regexp.MustCompile(`0x[0-9a-f]+|\[\d+\]|\d{3,}|(?:follow-up|length) \d+`).ReplaceAllString(d, "#")
	if len(d) > 200 {
		d = d[:200]
	}
	return r.Verdict + ": " + d
}

func sweepParent(outPath string, workers int, memMB uint64, deadline time.Duration, maxFail int, only string, stride int, budget time.Duration) int {
	t0 := time.Now()
	cases := Enumerate()
	var idxs []int
	for i, c := range cases {
		if only != "" && !strings.Contains(c.Name, only) {
			continue
		}
		if stride > 1 && c.Module == "dagaz" && c.Hostile && i%stride != 0 {
			continue
		}
		idxs = append(idxs, i)
	}
	// contiguous chunks of the selected indices
	type chunk struct{ from, to int }
	var chunks []chunk
	for i := 0; i < len(idxs); {
		j := i
		for j+1 < len(idxs) && idxs[j+1] == idxs[j]+1 && j-i < 255 {
			j++
		}
		chunks = append(chunks, chunk{idxs[i], idxs[j] + 1})
		i = j + 1
	}
	results := make(map[int]caseResult)
	var mu sync.Mutex
	nfail, restarts := 0, 0
	stopped := ""
	work := make(chan chunk, len(chunks))
	for _, c := range chunks {
		work <- c
	}
	close(work)
	self, _ := os.Executable()
	var wg sync.WaitGroup
	for w := 0; w < workers; w++ {
		wg.Add(1)
		go func() {
			defer wg.Done()
			for ch := range work {
				from := ch.from
				for from < ch.to {
					mu.Lock()
					if (maxFail > 0 && nfail >= maxFail) || (budget > 0 && time.Since(t0) > budget) {
						if stopped == "" {
							stopped = fmt.Sprintf("after %d failures / %.0fs", nfail, time.Since(t0).Seconds())
						}
						mu.Unlock()
						return
					}
					mu.Unlock()
					next, rs := runWorker(self, from, ch.to, memMB, deadline)
					mu.Lock()
					for _, r := range rs {
						r.Name = cases[r.Idx].Name
						if isFail(r.Verdict) {
							nfail++
							cases[r.Idx].Materialise()
							r.Hex = hex.EncodeToString(clip(cases[r.Idx].Bytes, 256))
							cases[r.Idx].Release()
						}
						results[r.Idx] = r
					}
					if next < ch.to {
						restarts++
					}
					mu.Unlock()
					from = next
				}
			}
		}()
	}
	wg.Wait()
	rep := sweepReport{Cases: len(cases), Run: len(results), ByVerdict: map[string]int{}, ByModule: map[string]map[string]int{}, ByCtx: map[string]int{},
		Signatures: map[string]int{}, Stopped: stopped, Restarts: restarts}
	keys := make([]int, 0, len(results))
	for k := range results {
		keys = append(keys, k)
	}
	sort.Ints(keys)
	for _, k := range keys {
		r := results[k]
		c := cases[k]
		rep.ByVerdict[r.Verdict]++
		if rep.ByModule[c.Module] == nil {
			rep.ByModule[c.Module] = map[string]int{}
		}
		rep.ByModule[c.Module][r.Verdict]++
		rep.ByCtx[ctxNames[c.Ctx]]++
		if c.Hostile {
			rep.Hostile++
		}
		if isFail(r.Verdict) {
			sig := signature(r)
			rep.Signatures[sig]++
			if rep.Signatures[sig] <= 3 && len(rep.Failures) < 400 {
				rep.Failures = append(rep.Failures, r)
			}
		} else if len(rep.Samples) < 6 && k%97 == 0 {
			rep.Samples = append(rep.Samples, r)
		}
	}
	rep.WallS = time.Since(t0).Seconds()
	b, _ := json.MarshalIndent(rep, "", " ")
	if err := os.WriteFile(outPath, b, 0o644); err != nil {
		fmt.Fprintln(os.Stderr, err)
		return 2
	}
	fmt.Printf("sweep: %d/%d cases run, verdicts %v, %d failure signatures, %d worker restarts, %.1fs\n", rep.Run, rep.Cases, rep.ByVerdict, len(rep.Signatures), restarts, rep.WallS)
	return 0
}

func clip(b []byte, n int) []byte {
	if len(b) > n {
		return b[:n]
	}
	return b
}

// runWorker runs cases [from,to) in one child; returns the index to continue from and the results.
// When the child dies or stalls on a case, that case gets the verdict and next = its index + 1.
func runWorkerOnce(self string, from, to int, memMB uint64, deadline time.Duration) (int, []caseResult) {
	cmd := exec.Command(self, "sweepworker", "-from", strconv.Itoa(from), "-to", strconv.Itoa(to), "-mem", strconv.FormatUint(memMB, 10))
	cmd.Env = append(os.Environ(), "GOTRACEBACK=single")
	stdout, _ := cmd.StdoutPipe()
	var stderr tailBuf
	cmd.Stderr = &stderr
	if err := cmd.Start(); err != nil {
		return to, []caseResult{{Idx: from, Verdict: VFatal, Detail: "harness: cannot start worker: " + err.Error()}}
	}
	lines := make(chan string, 64)
	go func() {
		sc := bufio.NewScanner(stdout)
		sc.Buffer(make([]byte, 1<<20), 1<<22)
		for sc.Scan() {
			lines <- sc.Text()
		}
		close(lines)
	}()
	var rs []caseResult
	cur := -1
	timer := time.NewTimer(deadline)
	defer timer.Stop()
	for {
		select {
		case l, ok := <-lines:
			if !ok {
				err := cmd.Wait()
				if cur >= 0 {
					// died in the middle of case cur
					tail := stderr.String()
					v := VFatal
					if strings.Contains(tail, "out of memory") || strings.Contains(tail, "cannot allocate memory") || strings.Contains(tail, "pthread_create failed") {
						v = VOOM
					}
					rs = append(rs, caseResult{Idx: cur, Verdict: v, Handler: v, Detail: firstLines(tail, 3) + " @ " + repoFrames(tail)})
					return cur + 1, rs
				}
				if err != nil {
					rs = append(rs, caseResult{Idx: from, Verdict: VFatal, Detail: "harness: worker failed outside a case: " + firstLines(stderr.String(), 6)})
				}
				return to, rs
			}
			if !timer.Stop() {
				select {
				case <-timer.C:
				default:
				}
			}
			timer.Reset(deadline)
			if strings.HasPrefix(l, "B ") {
				cur, _ = strconv.Atoi(l[2:])
			} else if strings.HasPrefix(l, "R ") {
				p := strings.SplitN(l, " ", 5)
				idx, _ := strconv.Atoi(p[1])
				d, _ := strconv.Unquote(p[4])
				rs = append(rs, caseResult{Idx: idx, Verdict: p[2], Handler: p[3], Detail: d})
				cur = -1
			}
		case <-timer.C:
			// a hang: take a goroutine dump for the report, then kill
			cmd.Process.Signal(syscall.SIGQUIT)
			time.Sleep(300 * time.Millisecond)
			cmd.Process.Kill()
			go func() {
				for range lines {
				}
			}()
			cmd.Wait()
			if cur < 0 {
				cur = from
			}
			rs = append(rs, caseResult{Idx: cur, Verdict: VHang, Handler: VHang, Detail: fmt.Sprintf("no result within %s @ %s", deadline, repoFrames(stderr.String()))})
			return cur + 1, rs
		}
	}
}

// runWorker: runWorkerOnce, and a second opinion on every HANG.  The per-case deadline is wall-clock time: on a machine that
// is busy with other things a case that is merely slow would be taken for a hang (it happened: the whole check took four
// times its usual time in a loaded sandbox and one case missed the 8 s).  A case that misses the deadline is therefore run
// again, alone, with ten times the deadline; it is a HANG only if it misses that one too.
func runWorker(self string, from, to int, memMB uint64, deadline time.Duration) (int, []caseResult) {
	next, rs := runWorkerOnce(self, from, to, memMB, deadline)
	for i, r := range rs {
		if r.Verdict != VHang {
			continue
		}
		_, again := runWorkerOnce(self, r.Idx, r.Idx+1, memMB, 10*deadline)
		for _, a := range again {
			if a.Idx == r.Idx {
				if a.Verdict == VHang {
					a.Detail = fmt.Sprintf("no result within %s, and again none within %s when run alone: %s", deadline, 10*deadline, a.Detail)
				} else {
					a.Detail = strings.TrimSpace(a.Detail + fmt.Sprintf(" (slow: missed the %s deadline once on a busy machine, completed when run alone)", deadline))
				}
				rs[i] = a
			}
		}
	}
	return next, rs
}

// replayCase runs one case (by name) in a worker child and prints its verdict
func replayCase(name string, memMB uint64, deadline time.Duration) int {
	cases := Enumerate()
	for i, c := range cases {
		if c.Name == name {
			self, _ := os.Executable()
			_, rs := runWorker(self, i, i+1, memMB, deadline)
			for _, r := range rs {
				fmt.Printf("case %d %s: verdict=%s handler=%s %s\n", i, c.Name, r.Verdict, r.Handler, r.Detail)
				if isFail(r.Verdict) {
					return 1
				}
			}
			return 0
		}
	}
	fmt.Println("no such case:", name)
	return 2
}

func listCases(w io.Writer) {
	for _, c := range Enumerate() {
		fmt.Fprintf(w, "%d %s hostile=%v follow=%d\n", c.Idx, c.Name, c.Hostile, c.NFollow)
	}
}

// l1Kind: the kind of a request in Conn.v's alphabet, from the handler-level verdict on this tree
func l1Kind(b []byte) (kind string) {
	defer func() {
		if r := recover(); r != nil {
			kind = "P"
		}
	}()
	e := newL1Env()
	a := e.setup(&Case{Ctx: CtxOwn})
	switch v, _ := e.feed(a, b); v {
	case VPanic:
		return "P"
	case VError:
		return "F"
	case VRefused:
		return "B"
	}
	e.teardown()
	return "V"
}

var _ = proto.Marshal

package main

// C08 harness: L1 totality sweep (sweep / sweepworker / case) and L2 wire fault scripts (l2 / l2child).

import (
	"crypto/ecdsa"
	"flag"
	"fmt"
	"os"
	"runtime"
	"time"

	"github.com/aukilabs/go-tooling/pkg/logs"
	"github.com/ethereum/go-ethereum/crypto"
)

var theKey *ecdsa.PrivateKey

func init() {
	k, err := crypto.GenerateKey()
	if err != nil {
		panic(err)
	}
	theKey = k
}

func main() {
	logs.SetLogger(func(e logs.Entry) {})
	if len(os.Args) < 2 {
		fmt.Fprintln(os.Stderr, "usage: c08 sweep|sweepworker|case|list|l2|l2child ...")
		os.Exit(2)
	}
	switch os.Args[1] {
	case "sweep":
		fs := flag.NewFlagSet("sweep", flag.ExitOnError)
		out := fs.String("out", "sweep.json", "report file")
		workers := fs.Int("workers", runtime.NumCPU()/2, "parallel worker processes")
		mem := fs.Uint64("mem", 3072, "address-space limit of a worker, MiB")
		deadline := fs.Duration("deadline", 8*time.Second, "per-case deadline")
		maxFail := fs.Int("maxfail", 0, "stop after this many failing cases (0 = never)")
		only := fs.String("only", "", "only cases whose name contains this")
		stride := fs.Int("stride", 1, "keep one in `stride` of the hostile dagaz cases")
		budget := fs.Duration("budget", 0, "stop scheduling new work after this long")
		fs.Parse(os.Args[2:])
		os.Exit(sweepParent(*out, *workers, *mem, *deadline, *maxFail, *only, *stride, *budget))
	case "sweepworker":
		fs := flag.NewFlagSet("sweepworker", flag.ExitOnError)
		from := fs.Int("from", 0, "")
		to := fs.Int("to", 0, "")
		mem := fs.Uint64("mem", 3072, "")
		fs.Parse(os.Args[2:])
		sweepWorker(*from, *to, *mem)
	case "case":
		fs := flag.NewFlagSet("case", flag.ExitOnError)
		name := fs.String("name", "", "case name")
		mem := fs.Uint64("mem", 3072, "")
		deadline := fs.Duration("deadline", 8*time.Second, "")
		fs.Parse(os.Args[2:])
		os.Exit(replayCase(*name, *mem, *deadline))
	case "list":
		listCases(os.Stdout)
	case "l2order":
		os.Exit(l2Order(os.Args[2:]))
	case "l2answers":
		os.Exit(l2Answers(os.Args[2:]))
	case "l2oversize":
		os.Exit(l2Oversize(os.Args[2:]))
	case "l2":
		os.Exit(l2Parent(os.Args[2:]))
	case "l2child":
		os.Exit(l2Child(os.Args[2:]))
	default:
		fmt.Fprintln(os.Stderr, "unknown command", os.Args[1])
		os.Exit(2)
	}
}

//go:build verif

package main

import (
	"encoding/json"
	"fmt"
	"time"

	"github.com/aukilabs/hagall-common/messages/hagallpb"
	"golang.org/x/net/websocket"
	"google.golang.org/protobuf/proto"
)

func wireOut(res map[string]any) int {
	b, _ := json.Marshal(res)
	fmt.Println(string(b))
	return 0
}

// l2answers: C04's "answered exactly once" at the wire level, under back-pressure.  One member behind the production
// handler stack sends n component-list requests (each answered with a large list) WITHOUT reading, so that the socket
// buffers and its 512-slot send queue fill up, then reads everything: every request id must be answered exactly once.
func l2Answers(args []string) int {
	n, comps := 1500, 40
	res := map[string]any{"script": "answers_under_backlog", "sent": 0, "answered_once": 0, "ok": false, "note": ""}
	fail := func(s string) int { res["note"] = s; return wireOut(res) }
	s := newL2Server()
	defer s.ts.Close()
	a, err := s.dial("", 0)
	if err != nil {
		return fail("setup: " + err.Error())
	}
	a.startReading()
	sid, _, err := a.join("")
	if err != nil {
		return fail("setup: " + err.Error())
	}
	// one type, one entity per component, about 1 kB of data each: a list answer of ~40 kB
	rid := nextRid()
	from := a.mark()
	a.send(&hagallpb.EntityComponentTypeAddRequest{Type: hagallpb.MsgType_MSG_TYPE_ENTITY_COMPONENT_TYPE_ADD_REQUEST, Timestamp: now(), RequestId: rid, EntityComponentTypeName: "big"})
	i, ok := a.waitFor(from, 3*time.Second, func(r received) bool { return r.Type == 19 })
	if !ok {
		return fail("setup: no type-add response")
	}
	var tr hagallpb.EntityComponentTypeAddResponse
	proto.Unmarshal(a.snapshot(i)[0].Body, &tr)
	tid := tr.EntityComponentTypeId
	data := make([]byte, 1000)
	for k := 0; k < comps; k++ {
		e, err := a.addEntity(false)
		if err != nil {
			return fail("setup: " + err.Error())
		}
		from := a.mark()
		a.send(&hagallpb.EntityComponentAddRequest{Type: hagallpb.MsgType_MSG_TYPE_ENTITY_COMPONENT_ADD_REQUEST, Timestamp: now(), RequestId: nextRid(), EntityComponentTypeId: tid, EntityId: e, Data: data})
		if _, ok := a.waitFor(from, 3*time.Second, func(r received) bool { return r.Type == 25 || r.Type == 0 }); !ok {
			return fail("setup: no component-add response")
		}
	}
	// a second connection does the burst, reading nothing meanwhile
	b, err := s.dial("", 0)
	if err != nil {
		return fail("setup: " + err.Error())
	}
	b.send(&hagallpb.ParticipantJoinRequest{Type: hagallpb.MsgType_MSG_TYPE_PARTICIPANT_JOIN_REQUEST, Timestamp: now(), RequestId: nextRid(), SessionId: sid})
	b.tcp.SetReadDeadline(time.Now().Add(3 * time.Second))
	for joined := false; !joined; {
		var raw []byte
		if err := websocket.Message.Receive(b.ws, &raw); err != nil {
			return fail("setup: B's join: " + err.Error())
		}
		var m hagallpb.ParticipantJoinResponse
		if proto.Unmarshal(raw, &m) == nil && m.Type == hagallpb.MsgType_MSG_TYPE_PARTICIPANT_JOIN_RESPONSE {
			joined = true
		}
	}
	b.tcp.SetReadDeadline(time.Time{})
	want := map[uint32]int{}
	sent := make(chan int, 1)
	rids := make([]uint32, n)
	for k := range rids {
		rids[k] = nextRid()
		want[rids[k]] = 0
	}
	go func() {
		k := 0
		for ; k < n; k++ {
			b.tcp.SetWriteDeadline(time.Now().Add(20 * time.Second))
			if b.send(&hagallpb.EntityComponentListRequest{Type: hagallpb.MsgType_MSG_TYPE_ENTITY_COMPONENT_LIST_REQUEST, Timestamp: now(), RequestId: rids[k], EntityComponentTypeId: tid}) != nil {
				break
			}
		}
		sent <- k
	}()
	time.Sleep(1200 * time.Millisecond) // B is not reading
	nsent, answers, idle := -1, 0, 0
	deadline := time.Now().Add(90 * time.Second)
	for time.Now().Before(deadline) {
		if nsent < 0 {
			select {
			case nsent = <-sent:
			default:
			}
		}
		if nsent >= 0 && answers >= nsent {
			break
		}
		b.tcp.SetReadDeadline(time.Now().Add(4 * time.Second))
		var raw []byte
		if err := websocket.Message.Receive(b.ws, &raw); err != nil {
			if ne, ok := err.(interface{ Timeout() bool }); ok && ne.Timeout() {
				idle++
				if nsent >= 0 && idle >= 3 {
					res["last_error"] = "nothing arrived for 12 s"
					break
				}
				continue
			}
			res["last_error"] = err.Error()
			break
		}
		idle = 0
		var m hagallpb.EntityComponentListResponse
		if proto.Unmarshal(raw, &m) == nil && (m.Type == hagallpb.MsgType_MSG_TYPE_ENTITY_COMPONENT_LIST_RESPONSE || m.Type == hagallpb.MsgType_MSG_TYPE_ERROR_RESPONSE) {
			if _, mine := want[m.RequestId]; mine {
				want[m.RequestId]++
				answers++
			}
		}
	}
	if nsent < 0 {
		select {
		case nsent = <-sent:
		case <-time.After(2 * time.Second):
		}
	}
	once, never, twice := 0, 0, 0
	for k := 0; k < nsent && k < n; k++ {
		switch want[rids[k]] {
		case 0:
			never++
		case 1:
			once++
		default:
			twice++
		}
	}
	res["sent"], res["answered_once"], res["never_answered"], res["answered_more_than_once"] = nsent, once, never, twice
	a.tcp.Close()
	b.tcp.Close()
	if nsent <= 0 {
		return fail("setup: nothing could be sent")
	}
	if never > 0 || twice > 0 {
		return fail(fmt.Sprintf("%d of %d requests were never answered, %d more than once", never, nsent, twice))
	}
	res["ok"] = true
	return wireOut(res)
}

// l2oversize: C14's "a body larger than 10240 bytes is refused with a too-large error" on a real connection, for bodies
// far beyond the limit as well (frame-level limits are invisible to the handler-level check).  For every size the sender
// must be answered TOO_LARGE (413), stay connected (a following ping is answered) and the other member must not be sent
// the message; a body of exactly 10240 bytes must be relayed.
func l2Oversize(args []string) int {
	sizes := []int{10240, 10241, 12288, 16384, 20000, 65536, 1 << 20}
	res := map[string]any{"script": "oversized_custom_messages", "ok": false, "note": ""}
	fail := func(s string) int { res["note"] = s; return wireOut(res) }
	s := newL2Server()
	defer s.ts.Close()
	a, err := s.dial("", 0)
	if err != nil {
		return fail("setup: " + err.Error())
	}
	a.startReading()
	sid, _, err := a.join("")
	if err != nil {
		return fail("setup: " + err.Error())
	}
	b, err := s.dial("", 0)
	if err != nil {
		return fail("setup: " + err.Error())
	}
	b.startReading()
	if _, _, err := b.join(sid); err != nil {
		return fail("setup: " + err.Error())
	}
	var rows []map[string]any
	bad := ""
	for _, n := range sizes {
		body := make([]byte, n)
		body[0] = byte(n % 251)
		fa, fb := a.mark(), b.mark()
		err := a.send(&hagallpb.CustomMessage{Type: hagallpb.MsgType_MSG_TYPE_CUSTOM_MESSAGE, Timestamp: now(), Body: body})
		row := map[string]any{"size": n}
		if err != nil {
			row["send_error"] = err.Error()
		}
		// waits for something that must come are generous (a busy machine is slow, not wrong); waits for something that must
		// NOT come are short
		want := n > 10240
		errWait, relayWait := 6*time.Second, 700*time.Millisecond
		if !want {
			errWait, relayWait = 700*time.Millisecond, 6*time.Second
		}
		_, gotErr := a.waitFor(fa, errWait, func(r received) bool {
			if r.Type != 0 {
				return false
			}
			var m hagallpb.ErrorResponse
			return proto.Unmarshal(r.Body, &m) == nil && m.Code == hagallpb.ErrorCode_ERROR_CODE_TOO_LARGE
		})
		_, relayed := b.waitFor(fb, relayWait, func(r received) bool { return r.Type == 17 })
		alive := !a.isClosed() && a.ping(6*time.Second)
		row["too_large_error"], row["relayed"], row["sender_still_connected"] = gotErr, relayed, alive
		rows = append(rows, row)
		if bad == "" {
			switch {
			case want && !gotErr:
				bad = fmt.Sprintf("a body of %d bytes was not answered with TOO_LARGE", n)
			case want && relayed:
				bad = fmt.Sprintf("a body of %d bytes was relayed", n)
			case !want && (gotErr || !relayed):
				bad = fmt.Sprintf("a body of %d bytes (within the limit) was refused or not relayed", n)
			case !alive:
				bad = fmt.Sprintf("the sender of a body of %d bytes was disconnected", n)
			}
		}
		if !alive {
			break
		}
	}
	res["sizes"] = rows
	a.tcp.Close()
	b.tcp.Close()
	if bad != "" {
		return fail(bad)
	}
	res["ok"] = true
	return wireOut(res)
}

//go:build nohooks

package main

// Fallback build without the verification hooks (when they no longer fit the code): only the
// wire-level driver, which needs nothing but the exported API of the repository.

import (
	"fmt"
	"io"
	"time"
)

func sweepParent(string, int, uint64, time.Duration, int, string, int, time.Duration) int {
	fmt.Println("sweep: not available in the build without hooks")
	return 2
}
func sweepWorker(int, int, uint64) {}
func replayCase(string, uint64, time.Duration) int {
	fmt.Println("case: not available in the build without hooks")
	return 2
}
func listCases(io.Writer) {}

// without the handler-level hook the kind of a hostile request is not known: taken as valid
func l1Kind([]byte) string { return "V" }

package main

import (
	"context"
	"fmt"
	"math"
	"os"
	"time"

	"github.com/aukilabs/hagall-common/messages/dagazpb"
	"github.com/aukilabs/hagall-common/messages/hagallpb"
	hwebsocket "github.com/aukilabs/hagall-common/websocket"
	"github.com/aukilabs/hagall/featureflag"
	"github.com/aukilabs/hagall/models"
	"github.com/aukilabs/hagall/modules"
	"github.com/aukilabs/hagall/modules/dagaz"
	hagallws "github.com/aukilabs/hagall/websocket"
	"github.com/ethereum/go-ethereum/crypto"
)

type sink struct{ msgs *[]hwebsocket.Msg }

func (s sink) Send(pm hwebsocket.ProtoMsg) {
	m, err := hwebsocket.MsgFromProto(pm)
	if err != nil {
		panic(err)
	}
	*s.msgs = append(*s.msgs, m)
}
func (s sink) SendMsg(m hwebsocket.Msg) { *s.msgs = append(*s.msgs, m) }

type part struct {
	rh   *hagallws.RealtimeHandler
	msgs []hwebsocket.Msg
}

func newPart(store *models.SessionStore) *part {
	k, _ := crypto.GenerateKey()
	return &part{rh: &hagallws.RealtimeHandler{
		ClientSyncClockInterval: time.Hour, ClientIdleTimeout: time.Hour, FrameDuration: time.Hour,
		Sessions: store, Modules: []modules.Module{&dagaz.Module{}}, FeatureFlags: featureflag.New(nil),
		ReceiptChan: nil, PrivateKey: k}}
}

func (p *part) join(sid string) string {
	m, _ := hwebsocket.MsgFromProto(&hagallpb.ParticipantJoinRequest{Type: hagallpb.MsgType_MSG_TYPE_PARTICIPANT_JOIN_REQUEST, RequestId: 1, SessionId: sid})
	p.msgs = nil
	if err := p.rh.HandleParticipantJoin(context.Background(), func() {}, sink{&p.msgs}, m); err != nil {
		panic(err)
	}
	for _, r := range p.msgs {
		if r.Type.Number() == 4 {
			var jr hagallpb.ParticipantJoinResponse
			r.DataTo(&jr)
			return jr.SessionId
		}
	}
	return "?"
}

func (p *part) mod(pm hwebsocket.ProtoMsg) (res []hwebsocket.Msg, pan interface{}) {
	defer func() {
		if r := recover(); r != nil {
			pan = r
		}
	}()
	m, _ := hwebsocket.MsgFromProto(pm)
	p.msgs = nil
	for _, mo := range p.rh.GetModules() {
		if err := p.rh.HandleWithModule(context.Background(), mo, sink{&p.msgs}, m); err != nil {
			fmt.Println("err", err)
		}
	}
	return p.msgs, nil
}

func (p *part) count() uint32 {
	res, pan := p.mod(&dagazpb.DagazGetDebugInfoRequest{Type: dagazpb.MsgType(305), RequestId: 9})
	if pan != nil {
		fmt.Println("panic", pan)
		return 999
	}
	var d dagazpb.DagazGetDebugInfoResponse
	res[0].DataTo(&d)
	return d.GridPlaneCount
}

func main() {
	store := &models.SessionStore{}
	a, b := newPart(store), newPart(store)
	sid := a.join("")
	a.mod(&dagazpb.DagazQuadSample{Type: dagazpb.MsgType(300), Samples: []*dagazpb.Quad{{Center: &dagazpb.Point{X: 1, Y: 0, Z: 1}, Extents: &dagazpb.Point{X: 0.5, Z: 0.5}}}})
	fmt.Println("F3: count before B joins", a.count())
	b.join(sid)
	fmt.Println("F3: count after B joins: A sees", a.count(), "B sees", b.count())
	b.mod(&dagazpb.DagazQuadSample{Type: dagazpb.MsgType(300), Samples: []*dagazpb.Quad{{Center: &dagazpb.Point{X: 1, Y: 0, Z: 1}, Extents: &dagazpb.Point{X: 0.5, Z: 0.5}}}})
	fmt.Println("    B inserts: A sees", a.count(), "B sees", b.count())
	a.rh.HandleDisconnect(nil)
	fmt.Println("    A left: B sees", b.count())

	// F4
	_, pan := b.mod(&dagazpb.DagazQuadSample{Type: dagazpb.MsgType(300), Samples: []*dagazpb.Quad{{}}})
	fmt.Println("F4 quad without center/extents: panic =", pan)
	_, pan = b.mod(&dagazpb.DagazQuadSample{Type: dagazpb.MsgType(300), Samples: []*dagazpb.Quad{nil}})
	fmt.Println("F4 nil quad: panic =", pan)
	_, pan = b.mod(&dagazpb.DagazGetGroundPlaneRequest{Type: dagazpb.MsgType(301), RequestId: 3})
	fmt.Println("F4 ground plane without ray: panic =", pan)
	_, pan = b.mod(&dagazpb.DagazGetGroundPlaneRequest{Type: dagazpb.MsgType(301), RequestId: 3, Ray: &dagazpb.Ray{}})
	fmt.Println("F4 ray without from/to: panic =", pan)
	_, pan = b.mod(&dagazpb.DagazGetRegionRequest{Type: dagazpb.MsgType(303), RequestId: 3})
	fmt.Println("F4 region without min/max: panic =", pan)
	// non-vertical ray
	_, pan = b.mod(&dagazpb.DagazGetGroundPlaneRequest{Type: dagazpb.MsgType(301), RequestId: 3, Ray: &dagazpb.Ray{From: &dagazpb.Point{X: 0.5, Y: 1, Z: 5.5}, To: &dagazpb.Point{X: 0.6, Y: -1, Z: -3}}})
	fmt.Println("oblique ray: panic =", pan)
	// region with max < min
	_, pan = b.mod(&dagazpb.DagazGetRegionRequest{Type: dagazpb.MsgType(303), RequestId: 3, Min: &dagazpb.Point{X: 1.5, Z: 1.5}, Max: &dagazpb.Point{X: -5, Z: -5}})
	fmt.Println("region max<min: panic =", pan)
	if len(os.Args) > 1 {
		// F5
		for _, v := range []float32{float32(math.NaN()), float32(math.Inf(1)), float32(math.Inf(-1)), 1e30, -1e30, 1e8} {
			_, pan = b.mod(&dagazpb.DagazQuadSample{Type: dagazpb.MsgType(300), Samples: []*dagazpb.Quad{{Center: &dagazpb.Point{X: v, Y: 0, Z: 1}, Extents: &dagazpb.Point{X: 0.5, Z: 0.5}}}})
			fmt.Println("F5 x =", v, ": panic =", pan)
		}
	}
}

//go:build verif

// c10s: concurrent allocations with REAL threads (no controlled schedule): the window of a check-then-act that is not
// a lock acquisition (two atomic operations, say) is invisible to the lock-granularity exploration of harness/l3v; many
// goroutines hammering the exported allocation API find it.  Prints one JSON object.
//   c10s [goroutines] [allocations per goroutine]
package main

import (
	"encoding/json"
	"fmt"
	"os"
	"strconv"
	"sync"
	"time"

	"github.com/aukilabs/hagall/models"
)

func hammer(workers, per int, alloc func() uint32) (total int, dup uint32) {
	out := make([][]uint32, workers)
	var wg sync.WaitGroup
	start := make(chan struct{})
	for w := 0; w < workers; w++ {
		wg.Add(1)
		go func(w int) {
			defer wg.Done()
			ids := make([]uint32, 0, per)
			<-start
			for i := 0; i < per; i++ {
				ids = append(ids, alloc())
			}
			out[w] = ids
		}(w)
	}
	close(start)
	wg.Wait()
	seen := map[uint32]bool{}
	for _, ids := range out {
		for _, id := range ids {
			if seen[id] && dup == 0 {
				dup = id
			}
			seen[id] = true
			total++
		}
	}
	return total, dup
}

func main() {
	workers, per := 16, 20000
	if len(os.Args) > 1 {
		workers, _ = strconv.Atoi(os.Args[1])
	}
	if len(os.Args) > 2 {
		per, _ = strconv.Atoi(os.Args[2])
	}
	res := map[string]any{"workers": workers, "per_worker": per, "ok": true, "failed": []string{}}
	fail := func(s string) {
		res["ok"] = false
		res["failed"] = append(res["failed"].([]string), s)
	}
	var g models.SequentialIDGenerator
	if n, d := hammer(workers, per, g.New); d != 0 {
		fail(fmt.Sprintf("SequentialIDGenerator.New handed out id %d twice among %d concurrent allocations", d, n))
	}
	s := models.NewSession(1, time.Hour)
	if n, d := hammer(workers, per/4, s.NewParticipantID); d != 0 {
		fail(fmt.Sprintf("Session.NewParticipantID handed out id %d twice among %d concurrent allocations", d, n))
	}
	if n, d := hammer(workers, per/4, s.NewEntityID); d != 0 {
		fail(fmt.Sprintf("Session.NewEntityID handed out id %d twice among %d concurrent allocations", d, n))
	}
	// the same new type name registered by all workers at once, over many fresh names
	ec := s.GetEntityComponents()
	for round := 0; round < 2000 && res["ok"].(bool); round++ {
		name := fmt.Sprintf("type-%d", round)
		ids := make([]uint32, workers)
		var wg sync.WaitGroup
		start := make(chan struct{})
		for w := 0; w < workers; w++ {
			wg.Add(1)
			go func(w int) {
				defer wg.Done()
				<-start
				ids[w] = ec.AddType(name)
			}(w)
		}
		close(start)
		wg.Wait()
		for _, id := range ids {
			if id != ids[0] {
				fail(fmt.Sprintf("the type name %q was given the ids %d and %d by concurrent first registrations", name, ids[0], id))
				break
			}
		}
	}
	b, _ := json.Marshal(res)
	fmt.Println(string(b))
}

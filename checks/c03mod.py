"""C03, module-state clause ("Session.moduleStates: module state is stored per session"; "modules are ... re-bound to the
new session on every join"): a connection that switches sessions must neither carry the ground planes of the session it
left into the one it enters nor keep writing to the session it left.

The real dagaz module is driven through the real join / module dispatch of RealtimeHandler (harness/c20, module mode):
participants of an observed session insert planes, join, leave and *switch* - to a session of their own, where they sample
a plane, and back (op A ... J), or from a session of their own into the observed one (op B).  The observed session's
grid and every member's view are judged after every operation by the extraction of coq/Grid.v / GridObs.v (oracle/c20):
the expected grid is the exact model's result of the insertions made *in the observed session only* - the history with
the other sessions' traffic removed -, a switch must leave it untouched (code 6) and every member must be answered the
session's complete plane set (code 7).  Each failing history is run again with the switches replaced by a departure /
the join of a fresh connection (-noswitch): only a failure that disappears there is a cross-session effect and is
reported under C03; one that stays is a defect of joins and departures themselves (C20's subject) and is left to the
C20 check."""
import json, os, re, shutil, time
from . import common as C
from . import c20check as G

PID = "C03"
CODES = {6: "a switch of sessions changed the planes stored in the session left / entered", 7: "after a switch a member is not answered its session's plane set",
         5: "after a switch a ground-plane request through a stored plane finds nothing", 8: "panic"}


def build():
    with C.Lock("build"):
        tr_ok, tr_log = C.run_translator()
        coq_ok, coq_log = C.coq_make()
        g_ok, g_log = G.regen_gen()
        if not (os.path.exists(os.path.join(C.COQ, "Grid.vo")) and os.path.exists(os.path.join(C.COQ, "GridObs.vo"))):
            return None, "INTERNAL: the executable model coq/Grid.v does not compile\n" + coq_log[-2000:]
        ok, log = G.build_oracle()
        if not ok:
            return None, "INTERNAL: oracle build failed\n" + log[-2000:]
        h_ok, h_log, c20, hooked = G.build_harness()
    if not h_ok:
        return None, "harness build: harness/c20 no longer fits the exported API (models.SessionStore, websocket.RealtimeHandler, modules/dagaz): " + h_log[-600:]
    return (c20, G.oracle_path()), ""


def judge(c20, ora, wd, name, hist_path, noswitch):
    tp = os.path.join(wd, name + ".trace")
    rc, o = C.sh([c20, "replay", "-in", hist_path, "-out", tp] + (["-noswitch"] if noswitch else []), timeout=600)
    if rc != 0:
        return None, "harness replay failed: " + o[-600:]
    rc, o = C.sh([ora, tp, "3", "0"], timeout=1200)
    r = G.parse_oracle(o)
    try: os.remove(tp)
    except OSError: pass
    if r["decodefail"] or not r["summary"]:
        return None, "oracle failed: " + o[-600:]
    return r, ""


def cross_session(r):
    """{hid: first violation} for the histories with a violation about stored planes / views / panics"""
    out = {}
    for hid, b in r["bad"].items():
        pv = [v for v in b["pviol"] if v["code"] in CODES]
        if pv:
            out[hid] = pv[0]
    return out


def run(tier="quick", replay=None, merge=True):
    t0 = time.time()
    paths, err = build()
    wd = os.path.join(C.WORK, PID + "mod" + C.RTAG)
    os.makedirs(wd, exist_ok=True)
    cov = {"tie_broken": []}
    viol = []
    if paths is None:
        if err.startswith("INTERNAL"):
            print(err); return 2
        rp = C.write_replay(PID, "replay-c03mod-build.modhist", "# unchecked: " + err.replace("\n", " ") + "\n")
        cov["tie_broken"].append(err[-400:])
        viol.append({"kind": "tie", "replay": rp})
    else:
        c20, ora = paths
        if replay:
            r, e = judge(c20, ora, wd, "replay", replay, False)
            if r is None:
                print("INTERNAL: " + e); return 2
            bad = cross_session(r)
            if not bad:
                print("no violation on this history"); return 0
            r2, e = judge(c20, ora, wd, "replay-ns", replay, True)
            if r2 is None:
                print("INTERNAL: " + e); return 2
            still = cross_session(r2)
            for hid, pv in bad.items():
                print("history %d: code %d at op %d: %s%s" % (hid, pv["code"], pv["at"], pv["info"], " (also without switching: C20's subject)" if hid in still else ""))
            if any(h not in still for h in bad):
                C.violation(PID, replay); return 1
            return 0
        # corpus first, then generated module histories
        jobs = []
        cdir = os.path.join(C.VERIF, "corpus", "C03mod")
        if os.path.isdir(cdir):
            for fn in sorted(os.listdir(cdir)):
                if fn.endswith(".modhist"):
                    jobs.append(("corpus-" + fn, os.path.join(cdir, fn)))
        nshard, per = (4, 40) if tier == "quick" else (12, 300)
        for s in range(nshard):
            hp = os.path.join(wd, "gen-%d.modhist" % s)
            tp = os.path.join(wd, "gen-%d.trace0" % s)
            rc, o = C.sh([c20, "gen", "-seed", str(C.seed() * 6151 + 77 + s), "-n", str(per), "-kinds", "7", "-len", str(14 + 6 * (s % 3)), "-out", tp, "-hist", hp], timeout=900)
            try: os.remove(tp)
            except OSError: pass
            if rc != 0:
                print("INTERNAL: harness gen failed: " + o[-600:]); return 2
            jobs.append(("gen-%d" % s, hp))
        totals = {}
        nhist = nsw = 0
        c20_only = 0
        for name, hp in jobs:
            r, e = judge(c20, ora, wd, name, hp, False)
            if r is None:
                print("INTERNAL: " + e); return 2
            for k, v in r["summary"].items():
                totals[k] = totals.get(k, 0) + v
            nhist += len(r["ok"]) + len(r["bad"])
            bad = cross_session(r)
            if bad:
                r2, e = judge(c20, ora, wd, name + "-ns", hp, True)
                if r2 is None:
                    print("INTERNAL: " + e); return 2
                still = cross_session(r2)
                hs = G.split_hist(hp)
                for hid in sorted(bad):
                    if hid in still:
                        c20_only += 1
                        continue
                    if not viol:
                        pv = bad[hid]
                        txt = hs.get(hid, "")
                        body = ("# C03 (module state): %s\n# code=%d at op %d: %s\n# the same history with every switch replaced by a departure / a fresh join shows no violation\n"
                                "# replay: bin/check C03 --replay <this file>\n" % (CODES[pv["code"]], pv["code"], pv["at"], pv["info"])) + txt
                        rp = C.write_replay(PID, "replay-C03-mod-h%d.modhist" % hid, body)
                        viol.append({"kind": "property", "replay": rp, "code": pv["code"], "info": pv["info"]})
        nsw = totals.get("switches_away", 0) + totals.get("switches_in", 0)
        cov.update({"traces_validated_against_impl": nhist, "evaluations": totals.get("states_checked", 0),
                    "module_histories": nhist, "switches_away_and_back": totals.get("switches_away", 0), "switches_in_from_another_session": totals.get("switches_in", 0),
                    "participant_region_views": totals.get("participant_region_views", 0), "insert_steps": totals.get("insert_steps", 0),
                    "failing_also_without_switch_left_to_C20": c20_only,
                    "rule": "one case = one module-mode history (participants of one observed session inserting, joining, leaving and switching to / from sessions of their own), "
                            "the observed grid and every member's view judged after every operation"})
        if nhist and nsw == 0:
            cov["tie_broken"].append("no session switch was exercised")
    rc = 0
    for v in viol:
        C.violation(PID, v["replay"], no_input=(v["kind"] != "property")); rc = 1
        break
    info = {"ok": True, "theorems": [], "examples": []}
    assumptions = ["module-state clause: decided for the dagaz module (the only module whose per-session state is not part of the session dump); vikja / odal state is part of the L1 snapshots"]
    tb = ["module-state clause: harness/c20 module mode (real RealtimeHandler.HandleParticipantJoin / HandleWithModule / HandleDisconnect, real dagaz.Module) judged by oracle/c20 "
          "(extraction of coq/Grid.v, GridObs.v); the expected grid of the observed session is computed from its own insertions only; checks/c03mod.py attributes a failure to C03 "
          "only when it disappears in the control run without switching"]
    if merge:
        err = C.merge_evidence(PID, "module_state_clause", cov, info, assumptions, tb, rc, time.time() - t0, "", [dict(v) for v in viol])
        if err:
            print("INTERNAL: " + err); return 2
    return rc

"""C08 — no client behaviour can crash the server, wedge a handler or leave a ghost.

What is decided here, on /repo's current working tree:
  1. tools/connfacts regenerates coq/GenConn.v; the Coq development (Conn.v, proofs/ConnProofs.v,
     Properties/C08.v) is built; the obligations of C08.v over GenConn.v tie the model's parameters
     to the code (non-blocking disconnect, discarding sender, discarded queue, write deadline, one
     HandleDisconnect site in the main loop, idle timer re-armed, no unguarded sub-message read).
  2. L1 totality sweep (harness/c08 sweep): every request type x absent sub-messages x boundary
     values x context, each in a child process under an address-space limit and a deadline;
     verdict ok / error / refused, or PANIC / OOM / HANG / FATAL / GHOST = the property fails.
  3. L2 wire fault scripts (harness/c08 l2) against the real websocket.Handle with the production
     decorators; the property predicate is evaluated on the implementation's observables.
  4. every distinct (client script, observed outcome class) is looked up in the extracted model
     (oracle/conn): the observed class must be one the model can reach for that script.
"""
import json, os, re, sys, time
from . import common as C

PID = "C08"
ORA_DIR = os.path.join(C.VERIF, "oracle", "conn")
ORACLE = os.path.join(ORA_DIR, "connoracle")
CONNFACTS = os.path.join(C.VERIF, "tools", "connfacts", "run.sh")

OBLIGATION_OF_FACT = {
    "C08_facts_shell_good": "disconnect() non-blocking, sender discards after a failed send, scheduler queue discarded while disconnecting, write deadline, channel capacities >= 1",
    "C08_facts_single_disconnect_site": "Handler.HandleDisconnect reached from exactly one site, in the main loop; the shell does not recover()",
    "C08_facts_idle": "idle case present and idle timer re-armed by the message case",
    "C08_facts_no_nil_deref": "no sub-message of a decoded request read without a nil check",
}


def wd():
    d = os.path.join(C.WORK, PID + C.RTAG)
    os.makedirs(d, exist_ok=True)
    return d


def gen_facts():
    """facts of GenConn.v as a dict (for the oracle's P line and the evidence)"""
    p = os.path.join(C.COQ, "GenConn.v")
    if not os.path.exists(p):
        return None
    src = open(p).read()
    f = {}
    for name, val in re.findall(r"Definition (\w+) : (?:option N|bool|N) := ([^.]+)\.", src):
        val = val.strip()
        m = re.match(r"\(Some (\d+)%N\)", val)
        if m:
            f[name] = int(m.group(1))
        elif val == "None":
            f[name] = None
        elif val in ("true", "false"):
            f[name] = val == "true"
        else:
            m = re.match(r"(\d+)%N", val)
            f[name] = int(m.group(1)) if m else val
    m = re.search(r"Definition nil_deref_sites : list string := \[(.*?)\]\.", src, flags=re.S)
    f["nil_deref_sites"] = re.findall(r'"((?:[^"]|"")*)"', m.group(1)) if m else ["GenConn.v unreadable"]
    return f


def oracle_params(f):
    def b(x):
        return "1" if x else "0"
    def n(x):
        return str(x if isinstance(x, int) and x is not None else 0)
    return "P %s %s %s 64 300 %s %s %s %s %s" % (
        n(f.get("send_chan_cap")), n(f.get("disconnect_chan_cap")), n(f.get("scheduler_queue_cap")),
        b(f.get("disconnect_blocking", True)), b(f.get("sender_discards_after_failure")),
        b(f.get("queue_discarded_on_disconnect")), b(f.get("send_write_deadline")), b(f.get("idle_rearmed_on_message")))


def build_oracle():
    srcs = [os.path.join(C.COQ_SRC, "Conn.v"), os.path.join(ORA_DIR, "driver.ml"), os.path.join(ORA_DIR, "extract.v"), os.path.join(ORA_DIR, "build.sh")]
    newest = max(os.path.getmtime(x) for x in srcs)
    if os.path.exists(ORACLE) and os.path.getmtime(ORACLE) >= newest:
        return True, "up to date"
    with C.GlobalLock("oracle"):
        rc, out = C.sh(["sh", os.path.join(ORA_DIR, "build.sh"), C.COQ], timeout=600)
    return rc == 0 and os.path.exists(ORACLE), out


def failing_obligations(pinfo_log):
    """names of the theorems of Properties/C08.v that coqc rejects (first error only is reported by coqc)"""
    m = re.search(r'File "\./Properties/C08\.v", line (\d+)', pinfo_log or "")
    if not m:
        return []
    line = int(m.group(1))
    src = open(os.path.join(C.COQ, "Properties", "C08.v")).read().splitlines()
    name = None
    for i in range(min(line, len(src)) - 1, -1, -1):
        mm = re.match(r"\s*(?:Theorem|Example|Corollary)\s+(\w+)", src[i])
        if mm:
            name = mm.group(1)
            break
    return [name] if name else ["Properties/C08.v:%d" % line]


def all_failing_obligations(facts):
    """which fact obligations fail, decided from the facts themselves (coqc stops at the first)"""
    out = []
    if facts is None:
        return ["GenConn.v missing"]
    caps_ok = all(isinstance(facts.get(k), int) and facts.get(k) >= 1 for k in ("send_chan_cap", "disconnect_chan_cap", "scheduler_queue_cap"))
    if facts.get("disconnect_blocking", True) or not facts.get("sender_discards_after_failure") or not facts.get("queue_discarded_on_disconnect") \
            or not facts.get("send_write_deadline") or not caps_ok:
        out.append("C08_facts_shell_good")
    if facts.get("handle_disconnect_direct_sites") != 1 or facts.get("handle_disconnect_entry_sites") != 1 \
            or not facts.get("handle_disconnect_in_main_loop_only") or facts.get("shell_recovers"):
        out.append("C08_facts_single_disconnect_site")
    if not facts.get("idle_case_present") or not facts.get("idle_rearmed_on_message"):
        out.append("C08_facts_idle")
    if facts.get("nil_deref_sites"):
        out.append("C08_facts_no_nil_deref")
    return out


def run_oracle(facts, pairs, budget):
    """pairs: list of (tokens, observed class).  returns dict (tokens, cls) -> (verdict, classes)"""
    inp = [oracle_params(facts)]
    ids = {}
    for i, (tokens, cls) in enumerate(pairs):
        ids["c%d" % i] = (tokens, cls)
        target = cls if cls in ("clean", "wedged", "ghost", "double", "crash", "open") else "all"
        inp.append("C c%d %d %s %s" % (i, budget, target, tokens))
    rc, out = C.sh([ORACLE], stdin="\n".join(inp) + "\n", timeout=900)
    res = {}
    for line in out.splitlines():
        m = re.match(r"R (\S+) (\S+) states=(\d+) classes=(\S*)", line)
        if m and m.group(1) in ids:
            res[ids[m.group(1)]] = (m.group(2), int(m.group(3)), m.group(4).split(",") if m.group(4) else [])
    return rc, out, res


def summarise_l1_failure(f):
    return "L1 %s %s: %s" % (f["name"], f["verdict"], f.get("detail", "")[:200])


def summarise_l2_violation(o):
    return "L2 %s(param=%s) rep=%s class=%s: %s" % (o.get("script"), o.get("param"), o.get("rep"), o.get("class"), (o.get("note") or "")[:300])


def match_known(summary):
    for f in C.known_findings(PID):
        sig = f.get("signature", {})
        pat = sig.get("match")
        if pat and pat in summary:
            return f
    return None


def run(tier, replay):
    if replay:
        return do_replay(replay)
    t0 = time.time()
    thorough = tier == "thorough"
    tie_broken = []
    with C.Lock("build"):
        bad = [b for b in C.grep_forbidden() if re.search(r"coq/(Conn|ConnGen|proofs/ConnProofs|Properties/C08)\.v", b)]
        if bad:
            print("INTERNAL: forbidden vernacular in the C08 development:\n" + "\n".join(bad))
            return 2
        tr_ok, tr_log = C.run_translator()
        coq_ok, coq_log = C.coq_make()
        if C.RTAG:
            # a scratch tree has its own copy of the Coq development, into which coq_make copies the sources AND the
            # compiled files of the unchanged tree: what was compiled against the unchanged tree's GenConn.v is stale here
            rc, out = C.sh(["sh", CONNFACTS, C.REPO, C.COQ], env=C.GOENV, timeout=600)
            tr_log += out
            tr_ok = tr_ok and rc == 0
            for rel in ("ConnGen", "Properties/C08"):
                for ext in (".vo", ".vos", ".vok", ".glob"):
                    try:
                        os.remove(os.path.join(C.COQ, rel + ext))
                    except OSError:
                        pass
            C.sh(["make", "-k", "GenConn.vo", "ConnGen.vo"], cwd=C.COQ, timeout=3000)
        facts = gen_facts()
        h_ok, h_log, binp = C.build_harness("c08")
        nohooks = False
        if not h_ok:
            # the hooks no longer fit the code: the wire-level driver needs only the exported API
            tie_broken.append("harness build: the verif hooks no longer fit the code (L1 sweep not available, L2 run without them): " + h_log[-500:].replace("\n", " | "))
            hdir = C.harness_dir()
            binp = os.path.join(C.WORK, "c08nohooks" + C.RTAG)
            rc, out = C.sh(["go", "build", "-tags", "nohooks", "-o", binp, "./c08"], cwd=hdir, env=C.GOENV, timeout=1800)
            if rc != 0:
                rp = C.write_replay(PID, "replay-C08-unchecked.json", {"property": PID, "kind": "unchecked", "unchecked": "the repository does not build", "log": out[-3000:]})
                C.violation(PID, rp, no_input=True)
                C.write_evidence(PID, tier, {"obligations": 1, "discharged": 0, "checker_cmd": "go build", "trusted_base": C.TRUSTED_BASE, "traces_validated_against_impl": 0,
                                             "evaluations": 0, "distinct_nontrivial": 0, "rule": "-", "samples": [], "distribution": {}, "tie_broken": ["repository does not build"]}, [], time.time() - t0, 1)
                return 1
            nohooks = True
        def built(rel):
            v, vo = os.path.join(C.COQ, rel + ".v"), os.path.join(C.COQ, rel + ".vo")
            return os.path.exists(vo) and os.path.getmtime(vo) >= os.path.getmtime(v)
        for rel in ("Conn", "proofs/ConnProofs"):
            if not built(rel):
                print("INTERNAL: coq/%s.v does not build\n%s" % (rel, coq_log[-3000:]))
                return 2
        model_ok = True
        if not (built("GenConn") and built("ConnGen")):
            tie_broken.append("coq/GenConn.v (regenerated) or coq/ConnGen.v does not compile")
        pinfo = C.property_file_info(PID)
        ora_ok, ora_log = build_oracle() if model_ok else (False, "model not built")
        coqchk = "not run (quick tier)"
        if thorough and pinfo["ok"]:
            C.sh(["make", "Properties/C08.vo"], cwd=C.COQ, timeout=1800)
            rc, out = C.sh(["coqchk", "-silent", "-o", "-Q", ".", "hagall", "hagall.Properties.C08"], cwd=C.COQ, timeout=3000)
            coqchk = "ok, Axioms: <none>" if rc == 0 and "Axioms: <none>" in out else "FAILED: " + out[-600:]
            if not coqchk.startswith("ok"):
                tie_broken.append("coqchk does not accept hagall.Properties.C08: " + out[-300:].replace("\n", " | "))
    if not tr_ok:
        tie_broken.append("translator tools/connfacts failed on the current sources: " + tr_log[-300:].replace("\n", " | "))
    failing = []
    if not pinfo["ok"]:
        failing = all_failing_obligations(facts) or failing_obligations(pinfo["log"])
        if not failing:
            print("INTERNAL: Properties/C08.v does not build although every fact obligation holds\n" + pinfo["log"][-3000:])
            return 2
        for name in failing:
            tie_broken.append("obligation Properties/C08.v:%s no longer checks (%s)" % (name, OBLIGATION_OF_FACT.get(name, "")))
    if not ora_ok:
        if model_ok:
            print("INTERNAL: oracle/conn does not build\n" + ora_log[-3000:])
            return 2

    with C.Lock("run-" + PID):
        d = wd()
        violations = []   # (summary, replay object)
        # ---------------------------------------------------------------- L1
        sweep = None
        if not nohooks:
            sp = os.path.join(d, "sweep.json")
            cmd = [binp, "sweep", "-out", sp, "-workers", "8", "-deadline", "8s"]
            if not thorough:
                cmd += ["-maxfail", "48", "-budget", "45s"]
            else:
                cmd += ["-maxfail", "4000"]
            rc, out = C.sh(cmd, timeout=7200)
            if rc != 0 or not os.path.exists(sp):
                print("INTERNAL: L1 sweep failed\n" + out[-3000:])
                return 2
            sweep = json.load(open(sp))
            for f in sweep.get("failures") or []:
                violations.append((summarise_l1_failure(f), {"property": PID, "kind": "l1", "case": f["name"], "verdict": f["verdict"], "detail": f.get("detail", ""),
                                                             "request_hex": f.get("request_hex", ""), "replay": "bin/check C08 --replay <this file>"}))
        # ---------------------------------------------------------------- L2
        lp = os.path.join(d, "l2.json")
        reps = 5000 if thorough else 300
        cmd = [binp, "l2", "-out", lp, "-burstreps", str(reps), "-maxviol", "8", "-deadline", "2s", "-maxtotal", "400" if thorough else "10"]
        rc, out = C.sh(cmd, timeout=7200)
        if rc != 0 or not os.path.exists(lp):
            print("INTERNAL: L2 driver failed\n" + out[-3000:])
            return 2
        l2 = json.load(open(lp))
        for o in l2.get("violations") or []:
            if o.get("class") == "setup-failed":
                continue
            violations.append((summarise_l2_violation(o), {"property": PID, "kind": "l2", "script": script_id(o), "reps": max(int(o.get("rep", 0)) + 1, 1), "observed": o,
                                                           "replay": "bin/check C08 --replay <this file>  (bursts are probabilistic: the replay repeats the script)"}))
        setup_failed = sum(v.get("setup-failed", 0) for v in l2.get("class_counts", {}).values())
        total_runs = l2.get("runs", 0)
        if total_runs and setup_failed * 4 > total_runs and not violations:
            print("INTERNAL: most L2 scripts could not be set up\n" + json.dumps(l2.get("class_counts"))[:2000])
            return 2
        # ---------------------------------------------------------------- model comparison
        pairs, mism, oracle_res = [], [], {}
        if ora_ok and facts is not None:
            seen = set()
            for dc in l2.get("distinct_cases") or []:
                script, tokens, cls = dc.split("|")
                if cls == "setup-failed" or not tokens or (tokens, cls) in seen:
                    continue
                seen.add((tokens, cls))
                pairs.append((tokens, cls))
            rc, out, oracle_res = run_oracle(facts, pairs, 1500000 if thorough else 250000)
            if rc != 0:
                print("INTERNAL: oracle failed\n" + out[-2000:])
                return 2
            for (tokens, cls) in pairs:
                v = oracle_res.get((tokens, cls))
                if v is None or v[0] != "REACH":
                    mism.append({"script_tokens": tokens, "observed": cls, "model": v[0] if v else "no answer", "model_classes_found": v[2] if v else []})
            if mism:
                tie_broken.append("correspondence: %d observed outcome(s) are not reachable in Conn.v for the same client script (first: %s observed %s)" % (len(mism), mism[0]["script_tokens"][:60], mism[0]["observed"]))

        # ---------------------------------------------------------------- verdict
        reported = False
        known_lines = set()
        fresh = []
        for summary, obj in violations:
            kf = match_known(summary)
            if kf:
                known_lines.add(kf.get("line") or kf.get("what") or summary[:120])
            else:
                fresh.append((summary, obj))
        if fresh:
            # the most telling first: a process crash, then ghosts, wedges, handler panics
            def rank(x):
                s = x[0]
                for i, k in enumerate(("class=crash", "class=ghost", "class=double", "class=wedged", "L1 ")):
                    if k in s:
                        return i
                return 9
            fresh.sort(key=rank)
            summary, obj = fresh[0]
            obj["other_violations_of_this_run"] = [s for s, _ in fresh[1:40]]
            obj["tie_broken"] = tie_broken
            rp = C.write_replay(PID, "replay-C08-%s.json" % obj["kind"], obj)
            print("C08 fails on the implementation: " + summary)
            C.violation(PID, rp)
            reported = True
        elif tie_broken:
            obj = {"property": PID, "kind": "unchecked", "unchecked": tie_broken, "facts": facts, "model_mismatches": mism[:10],
                   "searched": {"l1_cases_run": (sweep or {}).get("run", 0), "l2_runs": total_runs},
                   "note": "no failing input found: the property predicate held on every L1 case and every L2 run of this check"}
            rp = C.write_replay(PID, "replay-C08-unchecked.json", obj)
            C.violation(PID, rp, no_input=True)
            reported = True
        for line in sorted(known_lines):
            print("KNOWN-FINDING: property=%s %s" % (PID, line))

        # ---------------------------------------------------------------- evidence
        nthm = len(pinfo["theorems"])
        l1run = (sweep or {}).get("run", 0)
        byv = (sweep or {}).get("by_verdict", {})
        reach_handler = byv.get("ok", 0) + byv.get("error", 0)
        l2_distinct = len(pairs)
        cov = {
            "obligations": max(nthm, 1), "discharged": nthm if pinfo["ok"] else 0,
            "checker_cmd": "tools/connfacts/run.sh && make -C coq && coqc -Q coq hagall coq/Properties/C08.v",
            "theorems": pinfo["theorems"], "examples": pinfo.get("examples", []),
            "trusted_base": C.TRUSTED_BASE + [
                "Print Assumptions (C08): %d theorem(s) closed under the global context%s" % (pinfo["closed"], ("; axioms: " + ", ".join(pinfo["axioms"])) if pinfo["axioms"] else ""),
                "tools/connfacts (Go AST + go/types -> coq/GenConn.v): recognises channels, disconnect(), the HandleDisconnect sites, the sender loop, the write deadline and nil checks by shape; fails closed",
                "oracle/conn/driver.ml (hand-written explorer over the extracted Conn.step: script tokens, state key, depth-first search with a budget)",
                "harness/c08 (case enumeration, child-process supervision, x/net/websocket clients, observers: return of websocket.Handle, goroutine dump, Prometheus gauge, witness connections)",
                "modelled, not verified: Go's scheduler and the fairness of select (C08_clean_end proves absence of stuck states and a decreasing measure for every step that is not a select choice; that the runtime eventually takes those steps is observed at L2 only), TCP and kernel buffering (cap_tcp), net/http's recover of a handler panic (explicit transition LHttpRecover, confirmed at L2), memory exhaustion (L1 under RLIMIT_AS only), timers (logical clock), other members of the session (LPeerSend only)",
                "parameters of Conn.v not taken from the code: cap_tcp = 64, idle_timeout = 300 ticks (the theorems hold for every value)",
                "hypotheses of C08_clean_end: handlers total (no KPanic frame: tied by the L1 sweep and GenConn.nil_deref_sites = []), the server's own context not cancelled (shutdown skips HandleDisconnect: C08_panic_skips_disconnect / shutdown_skips_disconnect document both)",
            ],
            "traces_validated_against_impl": total_runs,
            "evaluations": l1run + total_runs,
            "distinct_nontrivial": reach_handler + l2_distinct,
            "rule": "L1: a case is non-trivial when the request reaches a handler (verdict ok or error, not refused by the envelope parser); distinct by request bytes and context. L2: distinct (client script in Conn.v's alphabet, observed outcome class) pairs, each looked up in the extracted model",
            "samples": ((sweep or {}).get("samples") or [])[:3] + [o for o in (l2.get("outcomes") or [])[:3]],
            "distribution": {"l1_by_verdict": byv, "l1_by_module_verdict": (sweep or {}).get("by_module_verdict", {}), "l1_by_context": (sweep or {}).get("by_context", {}),
                             "l1_hostile_cases": (sweep or {}).get("hostile_cases", 0), "l1_cases_enumerated": (sweep or {}).get("cases", 0), "l1_stopped_early": (sweep or {}).get("stopped_early", ""),
                             "l1_failure_signatures": (sweep or {}).get("failure_signatures", {}),
                             "l2_class_counts": l2.get("class_counts", {}), "l2_crashes": l2.get("crashes", []),
                             "model_lookups": [{"script": t, "observed": c, "model": list(oracle_res.get((t, c), ("-", 0, [])))} for (t, c) in pairs][:80]},
            "coqchk": coqchk, "facts": facts, "tie_broken": tie_broken, "known_findings_matched": sorted(known_lines),
            "level_note": "proof-partial: proved for all executions of the model: HandleDisconnect at most once; the main loop never blocks on its own disconnect() (and the exact bound + permanence for a blocking one); after a failure no stuck state, a decreasing measure for every non-select step, and the only terminal states are the clean ones; idle clauses. Exhibited by the runtime only: Go scheduler / select fairness, TCP, net/http recover, memory exhaustion.",
        }
        C.write_evidence(PID, tier, cov, ["handlers total (tied by the L1 sweep)", "no server shutdown during the connection", "clients of other sessions are not modelled (observed at L2: witness in another session)"],
                         time.time() - t0, len(fresh) if fresh else (1 if reported else 0))
        return 1 if reported else 0


def script_id(o):
    """the l2 script name (as harness/c08 l2 -only expects) of an outcome"""
    s, p = o.get("script", ""), o.get("param", 0)
    if ":" in s:
        return s
    if s.startswith("full_queue_end"):
        return "fullqueue:0"
    if s.startswith("idle_fires_while_busy"):
        return "idlebusy:0"
    if s.startswith("stall_keeps_sending"):
        return "stall:2"
    if s.startswith("burst_mixed"):
        return "burstmix:%d" % p
    if s.startswith("burst_joined"):
        return "burst:%d:1" % p
    if s.startswith("burst"):
        return "burst:%d:0" % p
    if s.startswith("malformed_"):
        return "malformed:%d:%d" % (p, 1 if s.endswith("_joined") else 0)
    if s.startswith("reset"):
        return "reset:%d" % p
    if s.startswith("idle_"):
        return "idle:%d" % p
    if s.startswith("hostile"):
        return "hostile:%d" % p
    if s.startswith("stall"):
        return "stall:%d" % p
    return s


def do_replay(path):
    try:
        obj = json.load(open(path))
    except Exception as e:
        print("INTERNAL: cannot read replay file: %s" % e)
        return 2
    kind = obj.get("kind")
    if kind == "unchecked":
        # re-run the whole check: the obligation either checks again or it does not
        return run("quick", None)
    with C.Lock("build"):
        C.run_translator()
        h_ok, h_log, binp = C.build_harness("c08")
        if not h_ok:
            if kind == "l1":
                print("INTERNAL: harness does not build\n" + h_log[-2000:])
                return 2
            hdir = C.harness_dir()
            binp = os.path.join(C.WORK, "c08nohooks" + C.RTAG)
            rc, out = C.sh(["go", "build", "-tags", "nohooks", "-o", binp, "./c08"], cwd=hdir, env=C.GOENV, timeout=1800)
            if rc != 0:
                print("INTERNAL: harness does not build\n" + out[-2000:])
                return 2
    if kind == "l1":
        rc, out = C.sh([binp, "case", "-name", obj["case"]], timeout=600)
        print(out.strip())
        if rc == 1:
            C.violation(PID, path)
            return 1
        return 0 if rc == 0 else 2
    if kind == "l2":
        d = wd()
        lp = os.path.join(d, "l2-replay.json")
        script = obj["script"]
        reps = 4000 if script.startswith("burst") else 3
        rc, out = C.sh([binp, "l2", "-out", lp, "-only", script, "-burstreps", str(reps), "-maxviol", "1"], timeout=3600)
        print(out.strip())
        if rc != 0 or not os.path.exists(lp):
            print("INTERNAL: L2 driver failed")
            return 2
        r = json.load(open(lp))
        viol = [o for o in (r.get("violations") or []) if o.get("class") != "setup-failed"]
        if viol:
            print("C08 fails on the implementation: " + summarise_l2_violation(viol[0]))
            C.violation(PID, path)
            return 1
        print("the script ran %d times without a violation" % r.get("runs", 0))
        return 0
    print("INTERNAL: unknown replay kind")
    return 2

"""C10, concurrent clause: "This holds when ids are requested concurrently from any number of connections ... for all
interleavings of concurrent allocations".  Two (three) connections allocate at the same time — the same new component
type name, different names, entities, participant ids (joins), asset instances — under every lock-granularity schedule
within a preemption bound on the instrumented real handlers (the machinery of checks/c01conc.py: tools/instrument,
harness/l3v).  Judged on the answers the racers were given: the same name must get the same type id, different names /
entities / participants / asset instances different ids; and on the hook snapshot at quiescence (names and ids one to
one).  Each allocation being one critical section is what makes the sequential theorems (C10_idgen_histories, the wf
invariant) apply to every interleaving; this part is what notices when that stops being true.  Verdict by exploration
only (no Coq model of these races): labelled so in the evidence."""
import json, os, time
from . import common as C
from . import c01conc

PID = "C10"
# scenario: name, programs, set-up, answer code, what the racers' ids must be ("same" / "distinct"), description
SCENARIOS = [
    ("two-type-adds-same-name", "C,T7|J1,T7|J1", [1, 2, 3], 19, "same", "two first registrations of the same component type name"),
    ("two-type-adds-different-names", "C,T7|J1,T8|J1", [1, 2, 3], 19, "distinct", "two registrations of different new names"),
    ("three-type-adds-same-name", "C,T7|J1,T7|J1,T7", [1, 2, 3], 19, "same", "three first registrations of the same name"),
    ("two-entity-adds", "C,E|J1,E|J1", [1, 2, 3], 9, "distinct", "two entity adds"),
    ("two-joins", "C|J1|J1", [1], 4, "distinct", "two joins of the same session (participant ids)"),
    ("two-asset-adds", "C,E,O1|J1,E,O2|J1", [1, 1, 2, 2, 3], 202, "distinct", "two asset instance adds on different entities"),
]


def race_answers(ex, code):
    """{connection: id} from the answers with message code `code` delivered in the race part of each connection's stream"""
    out, racing = {}, set()
    for line in ex.lines:
        f = line.split()
        if len(f) >= 3 and f[0] == "I" and f[2] == "3":
            racing.add(f[1])
        elif len(f) >= 6 and f[0] == "I" and f[1] in racing and f[2] == "0" and f[3] == str(code):
            out[int(f[1])] = int(f[-1])
    return out


def run(tier="quick", replay=None, merge=True):
    t0 = time.time()
    try:
        with C.Lock("build"):
            ok, what, paths = c01conc.build()
    except RuntimeError as e:
        print("INTERNAL: " + str(e)); return 2
    cov = {"scenarios": [], "tie_broken": [], "level_of_this_part": "theorems for every schedule over the interleaving model coq/ConcStore.v + regenerated facts about the critical sections (GenStore.v) + exploration of the real handlers"}
    viol = []
    if not ok:
        if what.startswith("INTERNAL"):
            print(what); return 2
        rp = C.write_replay(PID, "replay-c10conc-build.json", {"property": PID, "level": "L3", "scenario": "build", "unchecked": "L3 build", "failed": [what]})
        cov["tie_broken"].append(what[-400:])
        viol.append({"kind": "tie", "replay": rp, "what": what})
    else:
        def judge(ex, code, want):
            ids = race_answers(ex, code)
            vals = list(ids.values())
            if len(vals) < 2:
                return None
            if want == "same" and len(set(vals)) != 1:
                return "the same name was given different ids: %s" % ids
            if want == "distinct" and len(set(vals)) != len(vals):
                return "one id was handed out twice: %s" % ids
            return None
        if replay:
            o = json.load(open(replay))
            execs, _ = c01conc.run_l3v(paths, o["progs"], o.get("setup", []), ["-run", ",".join(map(str, o["schedule"]))])
            msg = judge(execs[0], o["code"], o["want"])
            print(msg or "ids as required on this schedule")
            if msg:
                C.violation(PID, replay); return 1
            return 0
        nexec = 0
        with C.Lock("run-C01conc"):
            for (name, progs, setup, code, want, what) in SCENARIOS:
                b = 3 if tier == "thorough" and progs.count("|") == 2 and not name.startswith("three") else 2
                execs, trunc = c01conc.run_l3v(paths, progs, setup, ["-explore", "-bound", str(b), "-max", "200000" if tier == "thorough" else "30000"], timeout=6000)
                nexec += len(execs)
                bad = [(ex, judge(ex, code, want)) for ex in execs]
                bad = [(ex, m) for ex, m in bad if m]
                answered = sum(1 for ex in execs if len(race_answers(ex, code)) >= 2)
                cov["scenarios"].append({"name": name, "progs": progs, "setup": setup, "race": what, "bound": b, "executions": len(execs),
                                         "both_racers_answered": answered, "violating": len(bad), "truncated": trunc})
                if bad and not viol:
                    ex, msg = bad[0]
                    rp = C.write_replay(PID, "replay-c10conc-%s.json" % name, {"property": PID, "level": "L3", "scenario": name, "progs": progs, "setup": setup,
                                                                              "schedule": ex.choices, "code": code, "want": want, "failed": [msg]})
                    viol.append({"kind": "property", "replay": rp, "what": name + ": " + msg, "schedule": ex.choices})
        cov.update({"traces_validated_against_impl": nexec, "evaluations": nexec,
                    "rule": "one case = one complete schedule of the race on the instrumented real handlers; every lock acquisition of the racing requests is a scheduling point"})
    # real threads: a check-then-act whose window is not a lock acquisition (two atomic operations, say) is invisible to
    # the exploration above; 16 goroutines hammer the exported allocation API (harness/c10s), three runs
    if ok and not replay:
        with C.Lock("build"):
            sok, slog, sbin = C.build_harness("c10s")
        if not sok:
            cov["tie_broken"].append("harness/c10s no longer fits the exported allocation API of package models: " + slog[-300:])
            if not viol:
                rp = C.write_replay(PID, "replay-c10stress-build.json", {"property": PID, "level": "stress", "unchecked": "harness build", "failed": [slog[-600:]]})
                viol.append({"kind": "tie", "replay": rp, "what": "c10s build"})
        else:
            runs = []
            for i in range(3 if tier == "quick" else 20):
                rc_, out = C.sh([sbin], timeout=300)
                try:
                    r = json.loads([l for l in out.splitlines() if l.startswith("{")][-1])
                except Exception:
                    print("INTERNAL: harness/c10s failed: " + out[-800:]); return 2
                runs.append(r)
                if not r.get("ok") and not any(v["kind"] == "property" for v in viol):
                    rp = C.write_replay(PID, "replay-c10stress.json", {"property": PID, "level": "stress", "script": "c10s", "observed": r,
                                                                      "replay": "bin/check C10 (the stress is probabilistic: the check repeats it)"})
                    viol.insert(0, {"kind": "property", "replay": rp, "what": "; ".join(r.get("failed", []))})
            cov["real_thread_stress"] = {"runs": len(runs), "failing_runs": sum(1 for r in runs if not r.get("ok")),
                                         "allocations_per_run": runs[0]["workers"] * runs[0]["per_worker"] * 3 // 2 if runs else 0}
    info, tie = ({"ok": True, "theorems": [], "examples": []}, None) if replay else C.store_clause_info("C10store")
    if tie:
        cov["tie_broken"].append(tie)
        if not viol:
            rp = C.write_replay(PID, "replay-c10store-unchecked.json", {"property": PID, "unchecked": tie,
                                "searched": "every schedule of the race scenarios within the preemption bound on the instrumented real handlers: no failing schedule"})
            viol.append({"kind": "tie", "replay": rp, "what": tie})
    rc = 0
    for v in viol:
        C.violation(PID, v["replay"], no_input=(v["kind"] != "property")); rc = 1
        break
    assumptions = ["concurrent clause: type ids for the model under every schedule (Properties/ConcStore.v: C10_conc_addtype, C10_conc_addtype_never_reissued, fewer than 2^32 allocations); on the real handlers "
                   "bounded exploration (preemption bound 2; 3 in the thorough tier for two racers) of one allocation per racing connection, and a real-thread stress"]
    tb = ["tools/instrument + verifsched + harness/l3v (see C01's concurrent clause); the verdict on real executions reads the ids in the racers' answers directly (checks/c10conc.py), no extracted model is involved; tools/storefacts (Go AST -> coq/GenStore.v: AddType is one exclusive critical section containing lookup and allocation), fails closed"]
    if merge:
        err = C.merge_evidence(PID, "concurrent_allocations", cov, info, assumptions, tb, rc, time.time() - t0, "", [dict(v) for v in viol])
        if err:
            print("INTERNAL: " + err); return 2
    return rc

"""C02, the ORDER clause at the wire level: "each accepted change is relayed ... in the order the server accepted them".
The handler-level part of the C02 check uses a harness-owned ResponseSender, so everything between Session.Broadcast
and the socket (handler.sendMsg, the 512-slot send queue, the sender goroutine) is outside it.  This part puts two
members behind the production handler stack (harness/c08 l2order): B stops reading while A relays 3 000 numbered 10 kB
custom messages, so that the socket buffers, B's send queue and A's own scheduler queue fill up (back-pressure); then B
reads everything: every relay exactly once, in the order sent.  Verdict by execution (one deterministic script, three
runs); C02_order is the theorem about the model's per-connection streams."""
import json, os, time
from . import common as C

PID = "C02"


def run(tier="quick", replay=None, merge=True):
    t0 = time.time()
    with C.Lock("build"):
        ok, log, hbin = C.build_harness("c08")
    cov = {"script": "order_under_backlog", "runs": [], "tie_broken": []}
    viol = []
    if not ok:
        cov["tie_broken"].append("harness/c08 does not build against the current tree: " + log[-400:])
        rp = C.write_replay(PID, "replay-c02wire-build.json", {"property": PID, "level": "L2", "unchecked": "harness build", "failed": [log[-600:]]})
        viol.append({"kind": "tie", "replay": rp})
    else:
        for i in range(3 if tier == "quick" else 12):
            rc, out = C.sh([hbin, "l2order"], timeout=120)
            try:
                r = json.loads([l for l in out.splitlines() if l.startswith("{")][-1])
            except Exception:
                print("INTERNAL: harness/c08 l2order failed: " + out[-800:]); return 2
            cov["runs"].append({k: r.get(k) for k in ("sent", "received", "ok", "note", "first_out_of_order_position")})
            if r.get("note", "").startswith("setup"):
                print("INTERNAL: l2order set-up failed: " + r["note"]); return 2
            if not r.get("ok") and not viol:
                rp = C.write_replay(PID, "replay-c02wire-order.json", {"property": PID, "level": "L2", "script": "l2order", "observed": r,
                                                                      "replay": "bin/check C02 --replay <this file> (re-runs the script)"})
                viol.append({"kind": "property", "replay": rp, "what": r.get("note")})
    rc = 0
    for v in viol:
        C.violation(PID, v["replay"], no_input=(v["kind"] != "property")); rc = 1
        break
    cov["traces_validated_against_impl"] = len(cov["runs"])
    cov["evaluations"] = sum(int(r.get("received") or 0) for r in cov["runs"])
    if merge:
        err = C.merge_evidence(PID, "order_at_wire_level", cov, {"ok": True, "theorems": [], "examples": []},
                               ["wire-level order: one script (3 000 relays of 10 kB to a member that stops reading for 1.2 s), three runs"],
                               ["harness/c08 l2order (httptest server with the production handler stack and decorators, two x/net/websocket clients)"],
                               rc, time.time() - t0, "", [dict(v) for v in viol])
        if err:
            print("INTERNAL: " + err); return 2
    return rc

"""C15 — only holders of a valid discovery-service token reach the relay or the smoke test.

Proof: coq/Properties/C15.v (decision rule of coq/Auth.v, all secrets / clocks / requests, the four
trusted functions universally quantified) + obligations over the regenerated coq/GenAuth.v (shape
of the two wrappers in http/auth.go, mounts of cmd/*.go).
Tie: harness/c15 drives the two REAL wrappers over TCP (real hds.Client, harness-owned inner handlers)
and the REAL server binary behind a fake discovery service; the extracted model (oracle/c15) decides the
same requests from facts computed with the standard library only; the property predicate is evaluated
on the implementation's own outcome."""
import collections, hashlib, json, os, re, time
from . import common as C

PID = "C15"
ODIR = os.path.join(C.VERIF, "oracle", "c15")
ORACLE = os.path.join(ODIR, "oracle")
N_QUICK, N_THOROUGH, SHARD = 15000, 120000, 20000

OBL_V = """From Coq Require Import String List Bool.
From hagall Require Import Auth GenAuth.
From hagall.proofs Require Import AuthProofs.
Eval vm_compute in (ws_endpoint GenAuth.handshake_body true, ws_endpoint GenAuth.handshake_body false).
Eval vm_compute in (mw_endpoint GenAuth.middleware_body true, mw_endpoint GenAuth.middleware_body false).
Eval vm_compute in (mounts_ok GenAuth.registration_client GenAuth.mounts).
"""

def build_oracle():
    newest = max(os.path.getmtime(p) for p in [os.path.join(C.COQ_SRC, "Auth.v"), os.path.join(ODIR, "driver.ml"),
                                                os.path.join(ODIR, "extract.v"), os.path.join(ODIR, "build.sh")])
    if os.path.exists(ORACLE) and os.path.getmtime(ORACLE) >= newest:
        return True, "up to date"
    with C.GlobalLock("oracle"):
        rc, out = C.sh(["sh", os.path.join(ODIR, "build.sh"), C.COQ], timeout=600)
    return rc == 0 and os.path.exists(ORACLE), out

def build_server():
    """the real server binary, from the repository's current working tree"""
    binp = os.path.join(C.WORK, "c15d", "hagall" + C.RTAG)
    os.makedirs(os.path.dirname(binp), exist_ok=True)
    rc, out = C.sh(["go", "build", "-o", binp, "./cmd"], cwd=C.REPO, env=C.GOENV, timeout=1800)
    return rc == 0, out, binp

def obligations():
    """which of the three regenerated obligations hold right now (evaluated, for the diagnosis only)"""
    d = os.path.join(C.WORK, "c15d", "obl" + C.RTAG)
    os.makedirs(d, exist_ok=True)
    p = os.path.join(d, "obl.v")
    open(p, "w").write(OBL_V)
    rc, out = C.sh(["coqc", "-Q", C.COQ, "hagall", p], cwd=d, timeout=300)
    res = {"raw": out[-1500:]}
    flat = " ".join(out.split())
    res["handshake"] = "(Some (St101, true), Some (St403, false))" in flat
    res["middleware"] = "(Some (St2xx, true), Some (St401, false))" in flat
    res["mounts"] = re.search(r"= true\s*: bool", out) is not None
    return res

def cls(code):
    return "101" if code == 101 else "2xx" if 200 <= code < 300 else "401" if code == 401 else "403" if code == 403 else "other"

def load_oracle(path):
    ora, summary, err = {}, None, None
    for l in open(path):
        p = l.split()
        if not p:
            continue
        if p[0] == "SUMMARY":
            summary = l.strip()
        elif p[0] in ("MISSING", "BADLINE"):
            err = l.strip()
        elif len(p) == 7:
            ora[p[0]] = p
    return ora, summary, err

def label_class(label):
    return label.split("/")[0]

def run_cases(c15, mode_args, wd, agg):
    """harness + oracle + comparison. returns (pviols, mismatches, error)"""
    os.makedirs(wd, exist_ok=True)
    rc, out = C.sh([c15] + mode_args + ["-out", wd], timeout=3000)
    if rc != 0:
        return None, None, "harness run failed: " + out[-2000:]
    oout = os.path.join(wd, "oracle.out")
    rc, out = C.sh("%s %s > %s" % (ORACLE, os.path.join(wd, "oracle.in"), oout), timeout=3000)
    ora, summary, err = load_oracle(oout)
    if rc != 0 or err or summary is None:
        return None, None, "oracle failed: rc=%d %s %s" % (rc, err, out[-500:])
    cases = {}
    for l in open(os.path.join(wd, "cases.jsonl")):
        c = json.loads(l)
        cases[c["id"]] = c
    pv, mm = [], []
    for l in open(os.path.join(wd, "results.jsonl")):
        r = json.loads(l)
        agg["requests"] += 1
        if r.get("unsendable"):
            agg["unsendable"] += 1
            continue
        if r.get("error"):
            agg["io_errors"] += 1
        agg["by_endpoint"][r["ep"]] += 1
        agg["by_state"][str(r["state"])] += 1
        agg["by_class"][label_class(r["label"])] += 1
        agg["by_carriers"][str(r["ncarriers"])] += 1
        agg["impl_outcome"]["%s/%s" % (cls(r["status"]), "entered" if r["entered"] else "not-entered")] += 1
        if r["pviol"]:
            pv.append((r, cases.get(r["id"])))
        if not r["delivered"]:
            agg["not_delivered"] += 1      # net/http answered before the code under test (malformed request)
            if r["entered"]:
                pv.append((dict(r, pviol="entered-without-request"), cases.get(r["id"])))
            continue
        o = ora.get(r["rid"])
        if o is None:
            return None, None, "no oracle line for " + r["rid"]
        agg["model_reason"][o[6]] += 1
        if o[1] == "?":
            agg["clock_ambiguous"] += 1    # the decision flips inside the bracket of clock readings: not compared
            continue
        agg["compared"] += 1
        exp = (o[2], o[3] == "1") if r["ep"] == "ws" else (o[4], o[5] == "1")
        got = (cls(r["status"]), r["entered"])
        if r["entered_n"] > 1:
            got = (got[0], "entered %d times" % r["entered_n"])
        nontrivial = o[6] not in ("no-secret", "no-token", "malformed")
        key = hashlib.sha1(json.dumps([r["state"], r["obs"], r["ep"]], sort_keys=True).encode()).hexdigest()
        if key not in agg["_distinct"]:
            agg["_distinct"].add(key)
            if nontrivial:
                agg["distinct_nontrivial"] += 1
        if exp != got:
            mm.append((r, cases.get(r["id"]), {"model": list(exp), "implementation": list(got), "model_reason": o[6]}))
        elif len(agg["samples"]) < 10 and o[6] not in agg["_sampled"] and r["ep"] == ("ws" if len(agg["samples"]) % 2 else "mw"):
            agg["_sampled"].add(o[6])
            agg["samples"].append({"label": r["label"], "state": r["state"], "endpoint": r["ep"], "request_seen_by_the_wrapper": r["obs"],
                                   "implementation": list(got), "model": list(exp), "model_reason": o[6]})
    for fn in ("oracle.in", "oracle.out", "results.jsonl"):
        try: os.remove(os.path.join(wd, fn))
        except OSError: pass
    return pv, mm, None

def simplest(items):
    """prefer the failing case with the fewest carriers and the shortest recipe"""
    return sorted(items, key=lambda x: (x[0]["ncarriers"], len(json.dumps(x[1] or {})), x[0]["id"]))[0]

def run_probe(c15, srv_bin, wd):
    os.makedirs(wd, exist_ok=True)
    for attempt in range(2):
        rc, out = C.sh([c15, "probe", "-bin", srv_bin, "-out", wd], timeout=300)
        if rc == 0:
            break
    if rc != 0:
        return None, "probe failed: " + out[-1500:]
    rs = [json.loads(l) for l in open(os.path.join(wd, "probe.jsonl"))]
    return rs, None

def new_agg():
    a = collections.defaultdict(int)
    for k in ("by_endpoint", "by_state", "by_class", "by_carriers", "impl_outcome", "model_reason"):
        a[k] = collections.Counter()
    a["_distinct"], a["_sampled"], a["samples"] = set(), set(), []
    return a

def run(tier, replay):
    t0 = time.time()
    with C.Lock("build"):
        bad = C.grep_forbidden()
        if bad:
            print("INTERNAL: forbidden vernacular in the Coq development:\n" + "\n".join(bad)); return 2
        tr_ok, tr_log = C.run_translator()
        coq_ok, coq_log = C.coq_make(["Properties/C15.vo"])
        model_ok, badfiles = C.coq_ok_for("proofs/AuthProofs.v") if not coq_ok else (True, [])
        gen_ok = coq_ok or C.coq_ok_for("GenAuth.v")[0]
        if not model_ok and gen_ok:
            print("INTERNAL: coq/Auth.v or proofs/AuthProofs.v does not build\n" + coq_log[-3000:]); return 2
        if not os.path.exists(os.path.join(C.COQ, "Auth.vo")):
            print("INTERNAL: coq/Auth.vo missing\n" + coq_log[-3000:]); return 2
        ora_ok, ora_log = build_oracle()
        if not ora_ok:
            print("INTERNAL: oracle build failed\n" + ora_log[-3000:]); return 2
        h_ok, h_log, c15 = C.build_harness("c15")
        s_ok, s_log, srv_bin = build_server()
        prop_ok = coq_ok or C.coq_ok_for("Properties/C15.v")[0]
        pinfo = C.property_file_info(PID) if gen_ok and model_ok else {"ok": False, "theorems": [], "examples": [], "closed": 0, "axioms": [], "log": coq_log[-3000:]}
        obl = obligations() if gen_ok and model_ok else {"handshake": False, "middleware": False, "mounts": False, "raw": coq_log[-1500:]}

    with C.Lock("run-" + PID):
        wd = os.path.join(C.WORK, PID + C.RTAG)
        os.makedirs(wd, exist_ok=True)
        tie_broken = []
        if not tr_ok:
            tie_broken.append("translator tools/authmounts failed on the current sources: " + tr_log[-400:])
        if not gen_ok:
            tie_broken.append("the regenerated coq/GenAuth.v does not compile")
        if not pinfo["ok"]:
            names = {"handshake": "Properties/C15.v:C15_gen_handshake_shape (http/auth.go VerifyAuthToken no longer has the shape: verify, return the error, else nil)",
                     "middleware": "Properties/C15.v:C15_gen_middleware_shape (http/auth.go VerifyAuthTokenHandler no longer has the shape: verify, 401 and return, else next)",
                     "mounts": "Properties/C15.v:C15_gen_mounts (cmd/*.go: a route reaching the relay or the smoke test is not behind its wrapper, or is gone)"}
            failed = [names[k] for k in ("handshake", "middleware", "mounts") if not obl[k]]
            if not failed:
                print("INTERNAL: Properties/C15.v does not compile although the regenerated obligations evaluate to true\n" + pinfo["log"][-3000:]); return 2
            tie_broken += ["obligation over the regenerated GenAuth.v no longer checks: " + f for f in failed]
        if not h_ok:
            tie_broken.append("harness build: harness/c15 no longer fits the exported API of /repo/http: " + h_log[-600:])
        if not s_ok:
            tie_broken.append("the server binary (cmd) does not build: " + s_log[-600:])

        agg = new_agg()
        pviols, mismatches, probe_rows = [], [], []
        probe_pv, probe_diff = [], []

        if replay:
            try:
                rj = json.load(open(replay))
            except Exception as e:
                print("INTERNAL: cannot read replay file: %s" % e); return 2
            if rj.get("cases") and h_ok:
                pv, mm, err = run_cases(c15, ["replay", "-in", replay], os.path.join(wd, "replay"), agg)
                if err:
                    print("INTERNAL: " + err); return 2
                for r, c in pv:
                    print("replayed case %s on %s: status=%s entered=%s -> %s" % (r["label"], r["ep"], r["status"], r["entered"], r["pviol"]))
                for r, c, d in mm:
                    print("replayed case %s on %s: implementation %s, model %s (%s)" % (r["label"], r["ep"], d["implementation"], d["model"], d["model_reason"]))
                if pv:
                    C.violation(PID, replay); return 1
                if mm:
                    C.violation(PID, replay, no_input=True); return 1
                print("replay: %d request(s), property holds, model agrees" % agg["requests"])
                return 0
            if rj.get("probe") and s_ok and h_ok:
                rows, err = run_probe(c15, srv_bin, os.path.join(wd, "probe"))
                if err:
                    print("INTERNAL: " + err); return 2
                want = {(p["phase"], p["route"], p["label"]) for p in rj["probe"]}
                hit = [p for p in rows if (p["phase"], p["route"], p["label"]) in want]
                for p in hit:
                    print("probe %s %s %s: status=%s valid=%s admitted=%s %s%s" % (p["phase"], p["route"], p["label"], p["status"], p["valid"], p["admitted"], p["pviol"], p["diff"]))
                if any(p["pviol"] for p in hit):
                    C.violation(PID, replay); return 1
                if any(p["diff"] for p in hit):
                    C.violation(PID, replay, no_input=True); return 1
                return 0
            if rj.get("unchecked"):
                still = [u for u in rj["unchecked"] if any(u.split(" ")[0] in t for t in tie_broken)] or tie_broken
                if still:
                    print("still unchecked: " + "; ".join(still))
                    C.violation(PID, replay, no_input=True); return 1
                print("replay: every obligation named in the file checks again")
                return 0
            print("INTERNAL: replay file has neither cases nor probe nor unchecked (or the harness does not build)"); return 2

        # 0. committed corpus (deterministic recipes), then 1. the real wrappers: directed cases + random cases
        n = N_THOROUGH if tier == "thorough" else N_QUICK
        cdir = os.path.join(C.VERIF, "corpus", PID)
        if h_ok and os.path.isdir(cdir):
            for fn in sorted(os.listdir(cdir)):
                if fn.endswith(".json"):
                    pv, mm, err = run_cases(c15, ["replay", "-in", os.path.join(cdir, fn)], os.path.join(wd, "corpus"), agg)
                    if err:
                        print("INTERNAL: corpus %s: %s" % (fn, err)); return 2
                    pviols += pv; mismatches += mm
        if h_ok:
            done, sidx = 0, 0
            while done < n:
                k = min(SHARD, n - done)
                pv, mm, err = run_cases(c15, ["gen", "-seed", str(C.seed() * 7919 + sidx), "-n", str(k)], os.path.join(wd, "gen"), agg)
                if err:
                    print("INTERNAL: " + err); return 2
                pviols += pv; mismatches += mm
                done += k; sidx += 1
                if pviols:
                    break
        # 2. the real server binary with its real mounts
        if h_ok and s_ok:
            rows, err = run_probe(c15, srv_bin, os.path.join(wd, "probe"))
            if err:
                if not tie_broken:
                    print("INTERNAL: " + err); return 2
                tie_broken.append("the server binary could not be probed: " + err[-300:])
            else:
                probe_rows = rows
                probe_pv = [p for p in rows if p["pviol"]]
                probe_diff = [p for p in rows if p["diff"] and not p["pviol"]]

        # 3. a broken tie widens the search before giving up (10x the random volume)
        if h_ok and not pviols and not probe_pv and (tie_broken or mismatches or probe_diff):
            for sidx in range(2 if tier == "quick" else 10):
                pv, mm, err = run_cases(c15, ["gen", "-seed", str(C.seed() * 104729 + 17 + sidx), "-n", str(SHARD)], os.path.join(wd, "gen"), agg)
                if err:
                    break
                pviols += pv; mismatches += mm
                if pviols:
                    break

        violations = 0
        if pviols:
            r, c = simplest(pviols)
            rp = C.write_replay(PID, "replay-C15-case%d.json" % r["id"], {
                "why": "P_C15 fails on the implementation: %s (endpoint %s answered %s, protected handler entered=%s, no carried token verifies against the server's current secret)" % (r["pviol"], r["ep"], r["status"], r["entered"]),
                "replay": "bin/check C15 --replay <this file>",
                "cases": [c], "observed": {"endpoint": r["ep"], "status": r["status"], "entered": r["entered"], "request_seen_by_the_wrapper": r["obs"], "sent": r["sent"], "server_state": r["state"]},
                "others_failing": len(pviols) - 1})
            C.violation(PID, rp); violations = 1
        elif probe_pv:
            p = sorted(probe_pv, key=lambda p: (p["label"] != "no-token", p["phase"] != "registered", p["route"]))[0]
            rp = C.write_replay(PID, "replay-C15-probe.json", {
                "why": "P_C15 fails on the real server binary: %s %s (%s, %s) answered %s: the protected handler was reached without a token that verifies" % (p["request"], p["route"], p["label"], p["phase"], p["status"]),
                "replay": "bin/check C15 --replay <this file>",
                "probe": [p], "others_failing": len(probe_pv) - 1})
            C.violation(PID, rp); violations = 1
        elif tie_broken or mismatches or probe_diff:
            if mismatches:
                tie_broken.append("correspondence pi_C15(implementation) = pi_C15(model) fails on %d request(s)" % len(mismatches))
            if probe_diff:
                tie_broken.append("the server binary differs from the model on %d probe(s), e.g. %s %s: %s" % (len(probe_diff), probe_diff[0]["route"], probe_diff[0]["label"], probe_diff[0]["diff"]))
            body = {"unchecked": tie_broken,
                    "note": "no request was found on which P_C15 fails on the implementation (%d requests to the real wrappers, %d probes of the server binary)" % (agg["requests"], len(probe_rows)),
                    "replay": "bin/check C15 --replay <this file>"}
            if mismatches:
                r, c, d = simplest([(m[0], m[1], m[2]) for m in mismatches])
                body["cases"] = [c]
                body["first_difference"] = dict(d, endpoint=r["ep"], label=r["label"], request_seen_by_the_wrapper=r["obs"])
            elif probe_diff:
                body["probe"] = probe_diff[:3]
            rp = C.write_replay(PID, "replay-C15-unchecked.json", body)
            C.violation(PID, rp, no_input=True); violations = 1

        coqchk = None
        if tier == "thorough" and pinfo["ok"]:
            rc, out = C.sh(["coqchk", "-silent", "-Q", ".", "hagall", "hagall.Properties.C15"], cwd=C.COQ, timeout=1500)
            coqchk = "coqchk hagall.Properties.C15: " + ("accepted" if rc == 0 else "FAILED rc=%d %s" % (rc, out[-300:]))
            if rc != 0:
                print("INTERNAL: " + coqchk); return 2
        nthm = len(pinfo["theorems"])
        dist = {k: dict(agg[k]) for k in ("by_endpoint", "by_state", "by_class", "by_carriers", "impl_outcome", "model_reason")}
        dist.update({k: agg[k] for k in ("requests", "compared", "clock_ambiguous", "not_delivered", "unsendable", "io_errors")})
        dist["probe_of_server_binary"] = collections.Counter("%s %s %s" % (p["phase"], p["route"], "admitted" if p["admitted"] else "rejected") for p in probe_rows)
        cov = {
            "obligations": max(nthm, 1), "discharged": nthm if pinfo["ok"] else 0,
            "checker_cmd": "make -C coq (full .vo build) && coqc -Q coq hagall coq/Properties/C15.v",
            "theorems": pinfo["theorems"], "examples": pinfo.get("examples", []),
            "trusted_base": C.TRUSTED_BASE + [
                "Print Assumptions (C15): %d theorem(s) closed under the global context%s" % (pinfo["closed"], ("; axioms: " + ", ".join(pinfo["axioms"])) if pinfo["axioms"] else ""),
                "universally quantified in every theorem, i.e. assumed nothing about, but NOT verified: b64dec (base64.RawURLEncoding.DecodeString), header_alg (encoding/json into a map + [\"alg\"].(string)), claims_of (encoding/json into HagallUserClaim, NumericDate floored to seconds), mac (crypto/hmac); in the correspondence they are instantiated with facts computed by harness/c15/ref.go from the Go standard library only",
                "modelled from reading, exercised by the correspondence: golang-jwt v4.5.2 ParseWithClaims order and its registry of signing methods, hagall-common v0.2.2 VerifyHagallUserAccessToken (10 s iat leeway, second clock reading), GetUserTokenFromHTTPRequest precedence, hds.Client.VerifyUserAuth empty-secret rule, x/net/websocket answering 403 without calling the Handler when the Handshake callback fails",
                "the request of the model is what net/http hands to the wrappers (Header.Get / URL.Query().Get / Cookie), recorded in front of them by the harness; net/http's own parsing is trusted",
                "tools/authmounts (Go AST -> coq/GenAuth.v), fails closed on any statement it does not recognise; oracle/c15/driver.ml",
                "claim values |t| <= 1e15 s; the clock read by golang-jwt and then by hagall-common may differ by the bracket the harness measures around each request (decisions that flip inside the bracket are not compared)",
            ],
            "traces_validated_against_impl": agg["compared"],
            "evaluations": agg["requests"] + len(probe_rows),
            "distinct_nontrivial": agg["distinct_nontrivial"],
            "rule": "one evaluation = one HTTP exchange with a real wrapper (WebSocket upgrade endpoint or middleware endpoint) or with the real server binary; directed cases cover every mutation class of the property's quantifier in each server state (no secret / s1 / rotated to s2), the rest are random recipes (carrier subset x header/payload/signature variant x up to 3 segment mutations); compared observable = (HTTP status class, protected handler entered); non-trivial = the model's decision is taken at or after the algorithm lookup (unverifiable / signature / claims / leeway / ok), i.e. not already by 'no secret', 'no token' or 'malformed'; distinct by (server state, request as seen by the wrapper, endpoint)",
            "samples": agg["samples"], "distribution": dist, "tie_broken": tie_broken,
            "regenerated_obligations_hold": {k: obl[k] for k in ("handshake", "middleware", "mounts")},
        }
        if coqchk:
            cov["coqchk"] = coqchk
        C.write_evidence(PID, tier, cov,
                         ["the secret compared against is the one hds.Client currently holds (SetServerData / registration callback); how the discovery service chooses and transports it is outside the property",
                          "a token that verifies is admitted whoever presents it (bearer semantics); tokens without exp never expire (golang-jwt treats exp as optional)"],
                         time.time() - t0, violations)
        return 1 if violations else 0

"""Wire-level parts of handler-level properties: what lies between a handler's respond.Send / Session.Broadcast and the
socket (handler.send, the 512-slot send queue, the sender goroutine, x/net/websocket framing and its payload limit) is
outside the L1 harness, which owns the ResponseSender.  One deterministic script each, on the production handler stack
behind an httptest server with real x/net/websocket clients (harness/c08), a few runs; verdict by execution.

  C04  l2answers   1 500 component-list requests (40 kB answers) sent without reading, then everything is read: every request
                   id is answered exactly once (back-pressure: socket buffers, send queue, scheduler queue all fill up)
  C14  l2oversize  custom messages of 10 240 (relayed) and 10 241 ... 1 048 576 bytes: refused with TOO_LARGE, not relayed,
                   the sender stays connected"""
import json, os, time
from . import common as C

PARTS = {
    "C04": ("l2answers", "answers_at_wire_level", "every request answered exactly once when the requester does not read for 1.2 s (1 500 list requests, 40 kB answers)"),
    "C14": ("l2oversize", "size_limit_at_wire_level", "bodies of 10 241 bytes up to 1 MiB are answered TOO_LARGE on a real connection, the sender stays connected; 10 240 bytes are relayed"),
}


def run(pid, tier="quick", replay=None, merge=True):
    script, part, what = PARTS[pid]
    t0 = time.time()
    with C.Lock("build"):
        ok, log, hbin = C.build_harness("c08")
    cov = {"script": script, "runs": [], "tie_broken": []}
    viol = []
    if not ok:
        cov["tie_broken"].append("harness/c08 does not build against the current tree: " + log[-400:])
        rp = C.write_replay(pid, "replay-%s-build.json" % script, {"property": pid, "level": "L2", "unchecked": "harness build", "failed": [log[-600:]]})
        viol.append({"kind": "tie", "replay": rp})
    else:
        for i in range(2 if tier == "quick" else 8):
            rc, out = C.sh([hbin, script], timeout=180)
            try:
                r = json.loads([l for l in out.splitlines() if l.startswith("{")][-1])
            except Exception:
                print("INTERNAL: harness/c08 %s failed: %s" % (script, out[-800:])); return 2
            cov["runs"].append({k: v for k, v in r.items() if k != "script"})
            if str(r.get("note", "")).startswith("setup"):
                print("INTERNAL: %s set-up failed: %s" % (script, r["note"])); return 2
            if not r.get("ok") and not viol:
                rp = C.write_replay(pid, "replay-%s.wire.json" % script, {"property": pid, "level": "L2", "script": script, "observed": r,
                                                                          "replay": "bin/check %s --replay <this file> (re-runs the script)" % pid})
                viol.append({"kind": "property", "replay": rp, "what": r.get("note")})
    rc = 0
    for v in viol:
        C.violation(pid, v["replay"], no_input=(v["kind"] != "property")); rc = 1
        break
    cov["traces_validated_against_impl"] = len(cov["runs"])
    cov["evaluations"] = len(cov["runs"])
    if merge:
        err = C.merge_evidence(pid, part, cov, {"ok": True, "theorems": [], "examples": []},
                               ["wire level: " + what],
                               ["harness/c08 %s (httptest server with the production handler stack and decorators, real x/net/websocket clients); verdict by execution" % script],
                               rc, time.time() - t0, "", [dict(v) for v in viol])
        if err:
            print("INTERNAL: " + err); return 2
    return rc

"""C03, concurrent reading of "nothing a connection sends is observable by participants of a session the connection is not
currently in - not after it has left": a member that MOVES to another session while another member of the session it leaves
relays something.  C03's quantifier is over histories; this goes beyond it and is labelled so.  Every lock-granularity
schedule of the racing requests, with the deliveries of Session.Broadcast / BroadcastTo as additional scheduling points
(verifsched.Point: "who was picked" and "who is told" are separate steps unless a lock makes them one), is run on the
instrumented real handlers (the machinery of checks/c01conc.py); the verdict reads the mover's recorded stream directly:
after the join response of the session it moved to it must not be sent any relay (the new session is silent in these
scenarios, so every relay it is sent then comes from the session it left).  The model side: coq/ConcBcast.v (moves between
sessions against atomic broadcasts, one instruction per critical section) with theorems for every schedule
(Properties/ConcBcast.v: a delivery happens only while recipient and sender are members of the session; none after a move;
exactly once; the snapshot-then-deliver variant refuted); Properties/C03bcast.v is the obligation, over facts regenerated from
the sources, that Broadcast and BroadcastTo look their recipients up and serve them inside one critical section of the
participant lock, i.e. that they are those atomic instructions."""
import json, os, time
from . import common as C
from . import c01conc

PID = "C03"
RELAYS = {"5", "7", "10", "13", "15", "17", "26", "29", "31", "103", "203"}
SCENARIOS = [
    ("switch-vs-targeted-custom-message", "C,M2|C|J1,J2", [1, 2, 3], 3, "a member moves to another session while a custom message addressed to it is being relayed"),
    ("switch-vs-entity-add", "C,E|C|J1,J2", [1, 2, 3], 3, "a member moves to another session against an entity add in the session it leaves"),
    ("switch-vs-comp-update", "C,E,T1,A1.1,U1.1|C|J1,S1,G1,J2", [1, 1, 1, 1, 2, 3, 3, 3], 3, "a subscriber moves to another session against an update of a component it is subscribed to"),
]


def stale(ex, conn):
    """relays sent to conn after the join response of its last join"""
    s = [l.split() for l in ex.lines if l.startswith("I %d " % conn)]
    idx = [i for i, f in enumerate(s) if len(f) > 3 and f[2] == "0" and f[3] == "4"]
    if len(idx) < 2:
        return []
    return [" ".join(f[3:8]) for f in s[idx[-1] + 1:] if len(f) > 3 and f[2] == "0" and f[3] in RELAYS]


def run(tier="quick", replay=None, merge=True):
    t0 = time.time()
    try:
        with C.Lock("build"):
            ok, what, paths = c01conc.build()
    except RuntimeError as e:
        print("INTERNAL: " + str(e)); return 2
    cov = {"scenarios": [], "tie_broken": [], "level_of_this_part": "theorems for every schedule over the interleaving model coq/ConcBcast.v + regenerated facts about Broadcast / BroadcastTo (GenStore.v) + exploration of the real handlers with deliveries as scheduling points"}
    viol = []
    if not ok:
        if what.startswith("INTERNAL"):
            print(what); return 2
        rp = C.write_replay(PID, "replay-c03conc-build.json", {"property": PID, "level": "L3", "scenario": "build", "unchecked": "L3 build", "failed": [what]})
        cov["tie_broken"].append(what[-400:])
        viol.append({"kind": "tie", "replay": rp, "what": what})
    else:
        if replay:
            o = json.load(open(replay))
            if not o.get("progs"):
                print("this replay file names a broken tie, not a schedule; running the quick check"); return run("quick", None, merge=False)
            execs, _ = c01conc.run_l3v(paths, o["progs"], o.get("setup", []), ["-run", ",".join(map(str, o["schedule"])), "-points"])
            st = stale(execs[0], o.get("conn", 3))
            print("relays sent to connection %d after the join response of the session it moved to: %s" % (o.get("conn", 3), st or "none"))
            if st:
                C.violation(PID, replay); return 1
            return 0
        nexec = 0
        with C.Lock("run-C01conc"):
            # the witness of the repaired defect first
            wdir = os.path.join(C.VERIF, "corpus", "C03conc")
            for fn in sorted(os.listdir(wdir)) if os.path.isdir(wdir) else []:
                o = json.load(open(os.path.join(wdir, fn)))
                execs, _ = c01conc.run_l3v(paths, o["progs"], o.get("setup", []), ["-run", ",".join(map(str, o["schedule"])), "-points"])
                nexec += 1
                st = stale(execs[0], o.get("conn", 3))
                cov.setdefault("witnesses", []).append({"file": fn, "stale_relays": st})
                if st and not viol:
                    rp = C.write_replay(PID, "replay-c03conc-" + fn, dict(o, failed=["relays after the join response of the new session: " + "; ".join(st)]))
                    viol.append({"kind": "property", "replay": rp, "what": fn})
            for (name, progs, setup, conn, what) in SCENARIOS:
                b = 3 if tier == "thorough" else 2
                execs, trunc = c01conc.run_l3v(paths, progs, setup, ["-explore", "-bound", str(b), "-max", "200000" if tier == "thorough" else "30000", "-points"], timeout=6000)
                nexec += len(execs)
                bad = [(ex, stale(ex, conn)) for ex in execs]
                bad = [(ex, st) for ex, st in bad if st]
                cov["scenarios"].append({"name": name, "progs": progs, "setup": setup, "race": what, "bound": b, "executions": len(execs), "violating": len(bad), "truncated": trunc,
                                         "moved_in_time_to_miss_the_relay": sum(1 for ex in execs if not any(l.split()[:4] == ["I", str(conn), "0", "17"] or l.split()[:4] == ["I", str(conn), "0", "10"] or l.split()[:4] == ["I", str(conn), "0", "31"] for l in ex.lines))})
                if bad and not viol:
                    ex, st = bad[0]
                    rp = C.write_replay(PID, "replay-c03conc-%s.json" % name, {"property": PID, "level": "L3", "scenario": name, "progs": progs, "setup": setup, "points": True,
                                                                              "schedule": ex.choices, "conn": conn,
                                                                              "failed": ["connection %d, by then a participant of another session, was sent: %s" % (conn, "; ".join(st))]})
                    viol.append({"kind": "property", "replay": rp, "what": name, "schedule": ex.choices})
        cov.update({"traces_validated_against_impl": nexec, "evaluations": nexec,
                    "rule": "one case = one complete schedule of the race on the instrumented real handlers; lock acquisitions and deliveries to other connections are scheduling points"})
    info, tie = ({"ok": True, "theorems": [], "examples": []}, None) if replay else C.store_clause_info("C03bcast", "ConcBcast")
    if tie:
        cov["tie_broken"].append(tie)
        if not viol:
            rp = C.write_replay(PID, "replay-c03bcast-unchecked.json", {"property": PID, "unchecked": tie,
                                "searched": "every schedule of the race scenarios within the preemption bound on the instrumented real handlers: no failing schedule"})
            viol.append({"kind": "tie", "replay": rp, "what": tie})
    rc = 0
    for v in viol:
        C.violation(PID, v["replay"], no_input=(v["kind"] != "property")); rc = 1
        break
    assumptions = ["concurrent reading (beyond the property's quantifier): decided by bounded exploration (preemption bound 2, 3 in the thorough tier) with deliveries as scheduling points"]
    tb = ["tools/instrument (lock acquisitions / releases and, before every p.Responder.SendMsg, a delivery point) + verifsched + harness/l3v; the verdict of this part reads the mover's recorded "
          "message stream directly (checks/c03conc.py); tools/storefacts (Go AST -> coq/GenStore.v: Broadcast and BroadcastTo serve their recipients inside one critical section of the participant lock), fails closed"]
    if merge:
        err = C.merge_evidence(PID, "concurrent_reading", cov, info, assumptions, tb, rc, time.time() - t0, "", [dict(v) for v in viol])
        if err:
            print("INTERNAL: " + err); return 2
    return rc

"""C06, concurrent reading of "a departure removes exactly the leaver's non-persistent entities ... persistent entities
survive": a departure racing a join of the same session.  C06's quantifier is over histories; this goes beyond it and is
labelled so.  Every lock-granularity schedule (preemption bound 2 / 3) of the racing requests is run on the instrumented
real handlers (the machinery of checks/c01conc.py) and the hook snapshot at quiescence is judged directly: in every session
that exists then, no non-persistent entity is owned by a participant that is not a member, and the persistent entities
created before the race are still there while the session incarnation they were created in lives.  (Whether a session exists
at all and who is in it is C07's concurrent clause; what the joiner's view holds is C01's.)  The model side: coq/ConcLeave.v
(one instruction per critical section of a departure: snapshot of the own-set, per entity a look-up and a removal, the removal
of the participant) with theorems for every schedule (Properties/ConcLeave.v) and the regenerated fact that leaveSession is that
full departure (Properties/C06leave.v over GenStore.v); on the real code the verdict is by exploration."""
import json, os, time
from . import common as C
from . import c01conc

PID = "C06"
SCENARIOS = [
    ("sole-member-departure-vs-join", "C,E,Ep,L|J1", [1, 1, 1], "the only member, owner of a non-persistent and a persistent entity, leaves while somebody joins"),
    ("owner-departure-vs-join", "C|J1,E,Ep,L|J1", [1, 2, 2, 2], "a member that owns two entities leaves while a third connection joins"),
]
THOROUGH_EXTRA = [
    ("two-departures-vs-join", "C|J1,E,L|J1,E,L|J1", [1, 2, 3, 2, 3], "two entity owners leave while a fourth connection joins"),
]


def decode(line):
    f = [int(x) for x in line.split()[1:]]
    sid, uuid, n = f[0], f[1], f[2]
    parts = f[3:3 + n]
    i = 3 + n
    ne = f[i]; i += 1
    ents = []
    for _ in range(ne):
        ents.append({"id": f[i], "owner": f[i + 1], "persist": f[i + 10]})
        i += 11
    return {"sid": sid, "uuid": uuid, "parts": parts, "ents": ents}


def judge(ex):
    """-> list of strings (what is wrong at quiescence)"""
    q0 = [decode(l) for l in ex.lines if l.startswith("Q0 ")]
    q1 = [decode(l) for l in ex.lines if l.startswith("Q1 ")]
    bad = []
    for s in q1:
        for e in s["ents"]:
            if not e["persist"] and e["owner"] not in s["parts"]:
                bad.append("session %d: non-persistent entity %d of participant %d, who is not a member any more, is still there" % (s["sid"], e["id"], e["owner"]))
        for s0 in q0:
            if s0["sid"] == s["sid"] and s0["uuid"] == s["uuid"]:
                for e in s0["ents"]:
                    if e["persist"] and e["id"] not in [x["id"] for x in s["ents"]]:
                        bad.append("session %d: persistent entity %d did not survive" % (s["sid"], e["id"]))
    return bad


def run(tier="quick", replay=None, merge=True):
    t0 = time.time()
    try:
        with C.Lock("build"):
            ok, what, paths = c01conc.build()
    except RuntimeError as e:
        print("INTERNAL: " + str(e)); return 2
    cov = {"scenarios": [], "tie_broken": [], "level_of_this_part": "theorems for every schedule over the interleaving model coq/ConcLeave.v + regenerated fact about leaveSession (GenStore.v) + exploration of the real handlers"}
    viol = []
    if not ok:
        if what.startswith("INTERNAL"):
            print(what); return 2
        rp = C.write_replay(PID, "replay-c06conc-build.json", {"property": PID, "level": "L3", "scenario": "build", "unchecked": "L3 build", "failed": [what]})
        cov["tie_broken"].append(what[-400:])
        viol.append({"kind": "tie", "replay": rp, "what": what})
    else:
        if replay:
            o = json.load(open(replay))
            execs, _ = c01conc.run_l3v(paths, o["progs"], o.get("setup", []), ["-run", ",".join(map(str, o["schedule"]))])
            bad = judge(execs[0])
            print("\n".join(bad) or "nothing wrong at quiescence")
            if bad:
                C.violation(PID, replay); return 1
            return 0
        nexec = 0
        with C.Lock("run-C01conc"):
            for (name, progs, setup, what) in SCENARIOS + (THOROUGH_EXTRA if tier == "thorough" else []):
                b = 3 if tier == "thorough" and progs.count("L") == 1 else 2
                execs, trunc = c01conc.run_l3v(paths, progs, setup, ["-explore", "-bound", str(b), "-max", "200000" if tier == "thorough" else "30000"], timeout=6000)
                nexec += len(execs)
                badx = [(ex, judge(ex)) for ex in execs]
                badx = [(ex, j) for ex, j in badx if j]
                cov["scenarios"].append({"name": name, "progs": progs, "setup": setup, "race": what, "bound": b, "executions": len(execs), "violating": len(badx),
                                         "truncated": trunc, "session_alive_at_quiescence": sum(1 for ex in execs if any(l.startswith("Q1 ") for l in ex.lines))})
                if badx and not viol:
                    ex, j = badx[0]
                    rp = C.write_replay(PID, "replay-c06conc-%s.json" % name, {"property": PID, "level": "L3", "scenario": name, "progs": progs, "setup": setup,
                                                                              "schedule": ex.choices, "failed": j})
                    viol.append({"kind": "property", "replay": rp, "what": name, "schedule": ex.choices})
        cov.update({"traces_validated_against_impl": nexec, "evaluations": nexec,
                    "rule": "one case = one complete schedule of the race on the instrumented real handlers; every lock acquisition of the racing requests is a scheduling point"})
    info, tie = ({"ok": True, "theorems": [], "examples": []}, None) if replay else C.store_clause_info("C06leave", "ConcLeave")
    if tie:
        cov["tie_broken"].append(tie)
        if not viol:
            rp = C.write_replay(PID, "replay-c06leave-unchecked.json", {"property": PID, "unchecked": tie,
                                "searched": "every schedule of the race scenarios within the preemption bound on the instrumented real handlers: no failing schedule"})
            viol.append({"kind": "tie", "replay": rp, "what": tie})
    rc = 0
    for v in viol:
        C.violation(PID, v["replay"], no_input=(v["kind"] != "property")); rc = 1
        break
    assumptions = ["concurrent reading (beyond the property's quantifier): for the model, every schedule (Properties/ConcLeave.v: C06_conc_no_orphans_always, C06_conc_departure_exact, "
                   "C06_conc_persistent_survive; one participant id per connection and stay, fewer than 2^32 steps); on the real handlers, bounded exploration (preemption bound 2, 3 in the thorough tier for two racers)"]
    tb = ["tools/instrument + verifsched + harness/l3v (see C01's concurrent clause); the verdict of this part reads the hook snapshots at quiescence directly (checks/c06conc.py), no extracted model is involved"]
    if merge:
        err = C.merge_evidence(PID, "concurrent_reading", cov, info, assumptions, tb, rc, time.time() - t0, "", [dict(v) for v in viol])
        if err:
            print("INTERNAL: " + err); return 2
    return rc
